(* ClientURLSpec.v — the vocabulary of property C10: a path pattern as a sequence of literal bytes and
   placeholders, the simultaneous substitution the property demands, and the predicates checked on the
   URL the implementation built. No reference to the ReplaceAll fold of ClientURL.v. *)
From V Require Export ClientURL.

(* a byte that may occur in a placeholder name: not a brace, not a separator *)
Definition name_byte (c : nat) : bool := negb ((c =? 123) || (c =? 125) || (c =? 47)).
Definition nonbrace (c : nat) : bool := negb ((c =? 123) || (c =? 125)).

Inductive item :=
| Lit (c : nat)        (* one literal byte of the pattern *)
| Hole (k : bytes).    (* the placeholder {k} *)

Definition render1 (it : item) : bytes := match it with Lit c => [c] | Hole k => token k end.
Definition render (items : list item) : bytes := flat_map render1 items.

(* a well-formed pattern: no stray braces, placeholder names free of braces and separators *)
Definition item_ok (it : item) : bool :=
  match it with Lit c => nonbrace c | Hole k => forallb name_byte k end.
Definition items_ok (items : list item) : bool := forallb item_ok items.

(* reading a text as items ({name} with a name of name bytes is a placeholder, every other byte a literal) *)
Fixpoint lex_go (fuel : nat) (s : bytes) : list item :=
  match fuel with
  | O => map Lit s
  | S f =>
    match s with
    | [] => []
    | c :: r =>
      if c =? 123 then
        let '(name, rest) := span name_byte r in
        match rest with
        | d :: rest' => if d =? 125 then Hole name :: lex_go f rest' else Lit c :: lex_go f r
        | [] => Lit c :: lex_go f r
        end
      else Lit c :: lex_go f r
    end
  end.
Definition lex (s : bytes) : list item := lex_go (length s) s.

(* the value set for a name (first binding) *)
Fixpoint assoc (k : bytes) (ps : list (bytes * bytes)) : option bytes :=
  match ps with
  | [] => None
  | (k', v) :: r => if bytes_eqb k k' then Some v else assoc k r
  end.

(* simultaneous substitution: what each item becomes *)
(* ... with the raw values (the decoded path the server will see) *)
Definition inst_raw (ps : list (bytes * bytes)) (it : item) : bytes :=
  match it with
  | Lit c => [c]
  | Hole k => match assoc k ps with Some v => v | None => token k end
  end.
(* ... with escaped values, before any treatment of the literals *)
Definition inst_sub (ps : list (bytes * bytes)) (it : item) : bytes :=
  match it with
  | Lit c => [c]
  | Hole k => match assoc k ps with Some v => path_escape v | None => token k end
  end.

(* the pattern cut into segments at its literal separators *)
Fixpoint split_items (items : list item) : list (list item) :=
  match items with
  | [] => [[]]
  | it :: r =>
    match it with
    | Lit c => if c =? 47 then [] :: split_items r
               else match split_items r with h :: t => (it :: h) :: t | [] => [[it]] end
    | Hole _ => match split_items r with h :: t => (it :: h) :: t | [] => [[it]] end
    end
  end.

(* ---------- predicates on the URL that was built ---------- *)
(* the escaped path has exactly the pattern's segments, each decoding to the pattern segment with the
   raw values in place of the placeholders; nothing of a query or fragment in it *)
Definition segments_ok (items : list item) (slash : bool) (ps : list (bytes * bytes)) (epath : bytes) : bool :=
  let want := map (flat_map (inst_raw ps)) (split_items (if slash then items ++ [Lit 47] else items)) in
  list_eqb (fun w s => opt_eqb bytes_eqb (Some w) (path_unescape s)) want (split_on 47 epath)
  && negb (mem_byte 63 epath) && negb (mem_byte 35 epath).

(* per name: the caller's values, else the pattern's, else the base path's *)
Definition query_want (caller pat_q base_q : qmap) (k : bytes) : list bytes :=
  match q_get k caller with
  | Some vs => vs
  | None => match q_get k pat_q with
            | Some vs => vs
            | None => match q_get k base_q with Some vs => vs | None => [] end
            end
  end.
Definition q_vals (k : bytes) (m : qmap) : list bytes := match q_get k m with Some vs => vs | None => [] end.
Definition query_ok (caller pat_q base_q got : qmap) : bool :=
  forallb (fun k => list_eqb bytes_eqb (query_want caller pat_q base_q k) (q_vals k got))
          (map fst got ++ map fst caller ++ map fst pat_q ++ map fst base_q).

(* https whenever it is among several offered schemes: the transport's list decides when it has
   one, else the operation's; some scheme is always chosen *)
Definition several_with_https (l : list bytes) : bool := existsb (bytes_eqb sch_https) l && (1 <? length l).
Definition scheme_ok (rs os : list bytes) (got : bytes) : bool :=
  (if several_with_https rs then bytes_eqb got sch_https else true)
  && (match rs with [] => if several_with_https os then bytes_eqb got sch_https else true | _ => true end)
  && negb (bytes_eqb got []).

(* the scheme is one that was offered for THIS request: a member of the transport's or of the
   operation's list (the operation's alone when the transport has none), or the default http *)
Definition scheme_offered (rs os : list bytes) (got : bytes) : bool :=
  existsb (bytes_eqb got) (rs ++ os) || bytes_eqb got sch_http.
