(* StreamCodecs.v — C15: the kind dispatch of ByteStreamConsumer / ByteStreamProducer (bytestream.go)
   and TextConsumer / TextProducer (text.go), branch by branch, over scripted readers and writers.
   Definitions only. The model mirrors the code AFTER the repairs F-C15-1 (typed-nil pointers are
   answered with an error instead of a panic) and F-C15-3 (the nil-argument early exits honour
   ClosesStream and close a ReadCloser payload).

   JSON / XML / YAML codecs (json.go, xml.go, yamlpc/yaml.go) delegate to encoding/json,
   encoding/xml and yaml.v3, which are not modelled (treatment 3). All the model says about them:
     json consumer = one Decode of a decoder with UseNumber; json producer = one Encode with
     SetEscapeHTML(false); xml = one Decode / one Encode; yaml = one Decode / one Encode followed
     by Close of the encoder. Their round-trip clause is checked differentially only (Check_C15).
   DiscardConsumer / DiscardProducer return nil and touch nothing. *)
From V Require Export StreamIO.

Inductive codec := ByteStream | Text.

Inductive outcome :=
| ORet (e : option err)   (* returned error, None = nil *)
| OPanic
| OOutOfFuel.

(* error classes of the codecs' own errors (EOther n) *)
Definition E_no_stream : err := EOther 1.     (* ... requires a reader / a writer *)
Definition E_nil_data : err := EOther 2.      (* nil destination / nil data *)
Definition E_not_pointer : err := EOther 3.   (* destination must be a pointer *)
Definition E_unsupported : err := EOther 4.   (* ... is not supported by ... *)
Definition E_wrapped : err := EOther 5.       (* text consumer/producer: wrapped (Un)MarshalText error *)
Definition E_nil_pointer : err := EOther 6.   (* typed nil pointer (the F-C15-1 repair) *)
Definition E_json : err := EOther 7.          (* swag.WriteJSON failed (oracle) *)

(* ---------- destinations of Consume ---------- *)
Inductive anyheld := AString (pre : bytes) | ABytes (pre : bytes) | AOther.

Inductive dkind :=
| DNil                                   (* untyped nil *)
| DReaderFrom (pre : bytes)              (* io.ReaderFrom: a bytes.Buffer holding pre (it is an io.Writer too) *)
| DWriter (w : wstate)                   (* io.Writer only: a scripted writer *)
| DBinUnm (pre : bytes) (r : option err) (* encoding.BinaryUnmarshaler that keeps what it gets and returns r *)
| DTextUnm (pre : bytes) (r : option err)(* encoding.TextUnmarshaler, likewise *)
| DPtrAny (h : anyheld)                  (* *interface{} holding a string, a []byte or something else *)
| DPtrBytes (pre : bytes)                (* *[]byte, *named []byte *)
| DPtrString (pre : bytes)               (* *string, *named string *)
| DPtrOther                              (* *int, *struct, *[]int ... *)
| DNilPtrString | DNilPtrBytes | DNilPtrAny | DNilPtrOther   (* typed nil pointers *)
| DNonPtr.                               (* string, []byte, int, struct passed by value *)

(* content of the destination before the call (None: it has no byte content) *)
Definition dk_initial (d : dkind) : option bytes :=
  match d with
  | DReaderFrom pre => Some pre
  | DWriter w => Some (w_got w)
  | DBinUnm pre _ | DTextUnm pre _ => Some pre
  | DPtrAny (AString pre) | DPtrAny (ABytes pre) => Some pre
  | DPtrBytes pre | DPtrString pre => Some pre
  | _ => None
  end.

Record cres := mkC {
  c_out : outcome;
  c_stored : option bytes;   (* content of the destination after the call *)
  c_closes : nat             (* Close calls on the reader *)
}.

(* bytestream.go, after the buffer has been read without error: the type switch *)
Definition bytestream_store (d : dkind) (b : bytes) : outcome * option bytes :=
  match d with
  | DBinUnm _ r => (ORet r, Some b)                         (* case encoding.BinaryUnmarshaler *)
  | DPtrAny (AString _) => (ORet None, Some b)              (* case *any: string *)
  | DPtrAny (ABytes _) => (ORet None, Some b)               (*            []byte *)
  | DPtrAny AOther => (ORet (Some E_unsupported), None)     (*            falls out of the switch *)
  | DNilPtrAny => (ORet (Some E_nil_pointer), None)         (* nil check before the dereference *)
  | DNonPtr => (ORet (Some E_not_pointer), None)            (* default: Kind != Ptr *)
  | DNilPtrString | DNilPtrBytes | DNilPtrOther =>
    (ORet (Some E_nil_pointer), None)                       (* default: nil check before reflect.Indirect *)
  | DPtrBytes _ => (ORet None, Some b)                      (* SetBytes *)
  | DPtrString _ => (ORet None, Some b)                     (* SetString *)
  | DPtrOther => (ORet (Some E_unsupported), None)
  | DTextUnm pre _ => (ORet (Some E_unsupported), Some pre) (* pointer to a struct *)
  | DNil | DReaderFrom _ | DWriter _ => (ORet (Some E_unsupported), dk_initial d)   (* handled earlier *)
  end.

Definition closes_of (close_opt closable : bool) : nat := if close_opt && closable then 1 else 0.

(* rd = None: nil reader; Some (s, closable): a scripted reader which is an io.Closer or not *)
Definition bytestream_consume (bufm1 : nat) (pol : nat -> nat) (close_opt : bool)
           (rd : option (rstate * bool)) (d : dkind) : cres :=
  match rd with
  | None => mkC (ORet (Some E_no_stream)) (dk_initial d) 0
  | Some (s, closable) =>
    let closes := closes_of close_opt closable in          (* deferred closer *)
    match d with
    | DNil => mkC (ORet (Some E_nil_data)) None closes
    | DReaderFrom pre =>                                   (* data.(io.ReaderFrom) *)
      match read_all pol s with
      | RA b e => mkC (ORet e) (Some (pre ++ b)) closes
      | RAOutOfFuel => mkC OOutOfFuel (Some pre) closes
      end
    | DWriter w =>                                         (* data.(io.Writer): io.Copy *)
      match io_copy bufm1 s w with
      | CP w' e => mkC (ORet e) (Some (w_got w')) closes
      | CPOutOfFuel => mkC OOutOfFuel (Some (w_got w)) closes
      end
    | _ =>                                                 (* buf.ReadFrom(reader) *)
      match read_all pol s with
      | RAOutOfFuel => mkC OOutOfFuel (dk_initial d) closes
      | RA _ (Some e) => mkC (ORet (Some e)) (dk_initial d) closes
      | RA b None => let '(o, st) := bytestream_store d b in mkC o st closes
      end
    end
  end.

(* text.go, after a non-empty buffer has been read without error *)
Definition text_store (d : dkind) (b : bytes) : outcome * option bytes :=
  match d with
  | DTextUnm _ r =>                                         (* data.(encoding.TextUnmarshaler) *)
    (match r with None => ORet None | Some _ => ORet (Some E_wrapped) end, Some b)
  | DPtrString _ => (ORet None, Some b)                     (* pointer whose element kind is string *)
  | DNilPtrString => (ORet (Some E_nil_pointer), None)      (* nil check before SetString *)
  | _ => (ORet (Some E_unsupported), dk_initial d)
  end.

Definition text_consume (pol : nat -> nat) (rd : option (rstate * bool)) (d : dkind) : cres :=
  match rd with
  | None => mkC (ORet (Some E_no_stream)) (dk_initial d) 0
  | Some (s, _) =>
    match read_all pol s with
    | RAOutOfFuel => mkC OOutOfFuel (dk_initial d) 0
    | RA _ (Some e) => mkC (ORet (Some e)) (dk_initial d) 0
    | RA [] None => mkC (ORet None) (dk_initial d) 0        (* empty buffer: nothing to unmarshal *)
    | RA b None => let '(o, st) := text_store d b in mkC o st 0
    end
  end.

Definition consume (c : codec) (bufm1 : nat) (pol : nat -> nat) (close_opt : bool)
           (rd : option (rstate * bool)) (d : dkind) : cres :=
  match c with
  | ByteStream => bytestream_consume bufm1 pol close_opt rd d
  | Text => text_consume pol rd d
  end.

(* ---------- sources of Produce ---------- *)
Inductive skind :=
| SNil
| SBuffer (content : bytes)                 (* *bytes.Buffer: io.WriterTo, io.Reader, fmt.Stringer *)
| SWriterToRC (content : bytes)             (* io.WriterTo (one Write) that is also an io.ReadCloser *)
| SReader (s : rstate) (closable : bool)    (* scripted io.Reader / io.ReadCloser *)
| SBinMar (content : bytes) (r : option err)(* encoding.BinaryMarshaler *)
| SError (msg : bytes)                      (* error *)
| SBytes (content : bytes)                  (* []byte, *[]byte, named *)
| SString (content : bytes)                 (* string, *string, named *)
| SJson                                     (* struct, *struct, []int, []string ... *)
| STextMar (content : bytes) (r : option err)  (* encoding.TextMarshaler *)
| SStringer (content : bytes)               (* fmt.Stringer *)
| SUnsupported                              (* int, map, ... *)
| SNilPtr.                                  (* typed nil pointer to a plain type *)

Definition src_is_readcloser (src : skind) : bool :=
  match src with SReader _ true | SWriterToRC _ => true | _ => false end.

Record pres := mkP {
  p_out : outcome;
  p_got : bytes;        (* everything the sink holds after the call *)
  p_wcloses : nat;      (* Close calls on the writer *)
  p_pcloses : nat       (* Close calls on the payload *)
}.

Definition wrote (r : wstate * option err) (wc pc : nat) : pres :=
  mkP (ORet (snd r)) (w_got (fst r)) wc pc.

(* swag.WriteJSON(data) is an oracle: jo = (bytes, error) as the real function answered *)
Definition json_write (jo : bytes * option err) (w : wstate) (wc pc : nat) : pres :=
  match snd jo with
  | Some e => mkP (ORet (Some e)) (w_got w) wc pc
  | None => wrote (direct_write (fst jo) w) wc pc
  end.

Definition bytestream_produce (bufm1 : nat) (close_opt : bool) (wr : option (wstate * bool))
           (src : skind) (jo : bytes * option err) : pres :=
  let pc := if src_is_readcloser src then 1 else 0 in      (* defer rc.Close() *)
  match wr with
  | None => mkP (ORet (Some E_no_stream)) [] 0 pc
  | Some (w, closable) =>
    let wc := closes_of close_opt closable in
    match src with
    | SNil => mkP (ORet (Some E_nil_data)) (w_got w) wc pc
    | SBuffer c => wrote (buffer_write_to c w) wc pc                      (* case io.WriterTo *)
    | SWriterToRC c => wrote (direct_write c w) wc pc
    | SReader s _ =>                                                      (* case io.Reader: io.Copy *)
      match io_copy bufm1 s w with
      | CP w' e => mkP (ORet e) (w_got w') wc pc
      | CPOutOfFuel => mkP OOutOfFuel (w_got w) wc pc
      end
    | SBinMar c r =>                                                      (* case encoding.BinaryMarshaler *)
      match r with
      | Some e => mkP (ORet (Some e)) (w_got w) wc pc
      | None => wrote (direct_write c w) wc pc
      end
    | SError m => wrote (direct_write m w) wc pc                          (* case error *)
    | SNilPtr => mkP (ORet (Some E_nil_pointer)) (w_got w) wc pc          (* default: nil check *)
    | SBytes c => wrote (direct_write c w) wc pc
    | SString c => wrote (direct_write c w) wc pc
    | SJson | STextMar _ _ | SStringer _ => json_write jo w wc pc         (* struct or other slice *)
    | SUnsupported => mkP (ORet (Some E_unsupported)) (w_got w) wc pc
    end
  end.

Definition text_produce (wr : option (wstate * bool)) (src : skind) (jo : bytes * option err) : pres :=
  match wr with
  | None => mkP (ORet (Some E_no_stream)) [] 0 0
  | Some (w, _) =>
    match src with
    | SNil => mkP (ORet (Some E_nil_data)) (w_got w) 0 0
    | STextMar c r =>                                                     (* data.(encoding.TextMarshaler) *)
      match r with
      | Some _ => mkP (ORet (Some E_wrapped)) (w_got w) 0 0
      | None => wrote (direct_write c w) 0 0
      end
    | SError m => wrote (direct_write m w) 0 0                            (* data.(error) *)
    | SStringer c | SBuffer c => wrote (direct_write c w) 0 0             (* data.(fmt.Stringer) *)
    | SNilPtr => mkP (ORet (Some E_nil_pointer)) (w_got w) 0 0            (* nil check before reflect *)
    | SJson | SBytes _ | SReader _ _ | SWriterToRC _ | SBinMar _ _ =>     (* struct or slice: JSON *)
      json_write jo w 0 0
    | SString c => wrote (direct_write c w) 0 0
    | SUnsupported => mkP (ORet (Some E_unsupported)) (w_got w) 0 0
    end
  end.

Definition produce (c : codec) (bufm1 : nat) (close_opt : bool) (wr : option (wstate * bool))
           (src : skind) (jo : bytes * option err) : pres :=
  match c with
  | ByteStream => bytestream_produce bufm1 close_opt wr src jo
  | Text => text_produce wr src jo
  end.
