(* Credentials.v — model of the client's credential writers (client/auth_info.go, the default
   authentication wrapper of client/runtime.go) and of the server's authenticators
   (security/authenticator.go with net/http's parseBasicAuth). Definitions only.
   A request is what the server sees after the wire: header values with surrounding blanks
   trimmed, the decoded query values, and the decoded form fields when the body is a form. *)
From V Require Export Bytes Base64Std.

Definition assoc_list := list (bytes * bytes).

Record request := mkReq {
  r_headers : assoc_list;            (* lower-cased name -> value (one value per name) *)
  r_query : list (bytes * list bytes);
  r_form_ct : bool;                  (* content type is urlencoded or multipart form *)
  r_form : list (bytes * list bytes)
}.

Fixpoint lookup (k : bytes) (l : assoc_list) : bytes :=
  match l with
  | [] => []
  | (k', v) :: r => if bytes_eqb k k' then v else lookup k r
  end.
Fixpoint lookup_vals (k : bytes) (l : list (bytes * list bytes)) : list bytes :=
  match l with
  | [] => []
  | (k', vs) :: r => if bytes_eqb k k' then vs else lookup_vals k r
  end.
(* Values.Get / Header.Get: the first value, empty when there is none *)
Definition first_val (vs : list bytes) : bytes := match vs with v :: _ => v | [] => [] end.

(* what a header value is after req.Write and http.ReadRequest: blanks trimmed at both ends *)
Definition is_blank (c : nat) : bool := (c =? 32) || (c =? 9).
Definition trim_blanks (v : bytes) : bytes := rev (drop_while is_blank (rev (drop_while is_blank v))).

Definition remove_key (k : bytes) (l : assoc_list) : assoc_list := filter (fun kv => negb (bytes_eqb k (fst kv))) l.
(* header names are case-insensitive (canonical form on both sides) *)
Definition set_header (name v : bytes) (q : request) : request :=
  mkReq ((lower name, v) :: remove_key (lower name) (r_headers q)) (r_query q) (r_form_ct q) (r_form q).
(* the value as the client holds it (Header.Get on the header parameters) *)
Definition raw_header (name : bytes) (q : request) : bytes := lookup (lower name) (r_headers q).
(* the value as the server reads it after the wire *)
Definition get_header (name : bytes) (q : request) : bytes := trim_blanks (raw_header name q).
Definition set_query (name : bytes) (vs : list bytes) (q : request) : request :=
  mkReq (r_headers q) ((name, vs) :: filter (fun kv => negb (bytes_eqb name (fst kv))) (r_query q)) (r_form_ct q) (r_form q).
Definition get_query (name : bytes) (q : request) : bytes := first_val (lookup_vals name (r_query q)).


Definition s_authorization : bytes := [97;117;116;104;111;114;105;122;97;116;105;111;110].
Definition s_basic : bytes := [66;97;115;105;99;32].        (* Basic+space *)
Definition s_bearer : bytes := [66;101;97;114;101;114;32].  (* Bearer+space *)
Definition s_access_token : bytes := [97;99;99;101;115;115;95;116;111;107;101;110].

(* ---------- client writers ---------- *)
Definition basic_header (u p : bytes) : bytes := s_basic ++ b64_encode (u ++ 58 :: p).
Definition basic_write (u p : bytes) (q : request) : request := set_header s_authorization (basic_header u p) q.
Definition bearer_write (tok : bytes) (q : request) : request := set_header s_authorization (s_bearer ++ tok) q.
Inductive key_in := InHeader | InQuery.
Definition apikey_write (name : bytes) (loc : key_in) (v : bytes) (q : request) : request :=
  match loc with InHeader => set_header name v q | InQuery => set_query name [v] q end.

(* ---------- server readers ---------- *)
(* net/http parseBasicAuth on the Authorization value *)
Definition parse_basic (auth : bytes) : option (bytes * bytes) :=
  if (length auth <? 6) || negb (bytes_eqb (lower (firstn 6 auth)) (lower s_basic)) then None
  else match b64_decode (skipn 6 auth) with
       | None => None
       | Some c =>
         let '(u, rest) := span (fun x => negb (x =? 58)) c in
         match rest with
         | _ :: p => Some (u, p)
         | [] => None
         end
       end.
Definition basic_read (q : request) : option (bytes * bytes) :=
  match get_header s_authorization q with
  | [] => None
  | auth => parse_basic auth
  end.

Definition nonempty (t : bytes) : option bytes := match t with [] => None | _ => Some t end.
Definition apikey_read (name : bytes) (loc : key_in) (q : request) : option bytes :=
  nonempty (match loc with InHeader => get_header name q | InQuery => get_query name q end).

(* Authorization header with the Bearer prefix, else access_token in the query, else in the form body *)
Definition header_token (q : request) : bytes :=
  let hdr := get_header s_authorization q in
  if has_prefix s_bearer hdr then skipn 7 hdr else [].
Definition form_token (q : request) : bytes := first_val (lookup_vals s_access_token (r_form q)).
Definition bearer_read (q : request) : option bytes :=
  let t1 := header_token q in
  match t1 with
  | _ :: _ => Some t1
  | [] =>
    match get_query s_access_token q with
    | (_ :: _) as t2 => Some t2
    | [] => if r_form_ct q then nonempty (form_token q) else None
    end
  end.

(* ---------- authenticators: what the application's callback gets and what comes back ---------- *)
Section Auth.
  Variables (Cred Principal Err : Type).
  (* applies?, principal, error *)
  Definition auth_out := (bool * option Principal * option Err)%type.
  Definition authenticate (read : request -> option Cred) (cb : Cred -> option Principal * option Err)
             (q : request) : auth_out :=
    match read q with
    | None => (false, None, None)
    | Some c => let '(p, e) := cb c in (true, p, e)
    end.
  (* the arguments the callback was called with (at most one call) *)
  Definition callback_args (read : request -> option Cred) (q : request) : list Cred :=
    match read q with None => [] | Some c => [c] end.
End Auth.

(* the realm left on the request for the challenge: when basic credentials are absent or refused *)
Definition realm_name (configured : bytes) : bytes := match configured with [] => [65;80;73] | _ => configured end.
Definition basic_marker (configured : bytes) (applies cb_failed : bool) : bytes :=
  if negb applies || cb_failed then realm_name configured else [].

(* ---------- credential writers as data ---------- *)
(* the writers of client/auth_info.go: BasicAuth, BearerToken, APIKeyAuth (header or query), PassThroughAuth (also a nil
   entry of a composition, which Compose skips) and Compose (the writers applied in order on the same request) *)
Inductive writer :=
| WBasic (u p : bytes)
| WBearer (tok : bytes)
| WKey (name : bytes) (loc : key_in) (v : bytes)
| WPass
| WCompose (ws : list writer).

Fixpoint write_cred (w : writer) (q : request) : request :=
  match w with
  | WBasic u p => basic_write u p q
  | WBearer tok => bearer_write tok q
  | WKey name loc v => apikey_write name loc v q
  | WPass => q
  | WCompose ws => fold_left (fun acc w' => write_cred w' acc) ws q
  end.

(* does the writer put a value into the Authorization header *)
Fixpoint writes_authorization (w : writer) : bool :=
  match w with
  | WBasic _ _ => true
  | WBearer _ => true
  | WKey name InHeader _ => bytes_eqb (lower name) s_authorization
  | WKey _ InQuery _ => false
  | WPass => false
  | WCompose ws => existsb writes_authorization ws
  end.

(* ---------- the transport-wide default credential ---------- *)
(* op / default: writers (None = not configured); the wrapper looks at the Authorization header
   parameter already set when the credentials are written *)
Definition effective_auth (op default : option (request -> request)) (q : request) : request :=
  match op with
  | Some w => w q
  | None => match default with
            | Some d => match raw_header s_authorization q with [] => d q | _ => q end
            | None => q
            end
  end.

(* the same on writers as data *)
Definition effective_cred (op default : option writer) (q : request) : request :=
  effective_auth (option_map write_cred op) (option_map write_cred default) q.

(* ---------- several requests built one after the other on ONE transport ----------
   The default credential is a setting of the transport that may be replaced between requests (a refreshed token,
   another scheme, none at all). Every request is built from the setting in force when it is built and from its own
   operation: nothing is carried over from the requests built before. A step = the operation's writer, the default
   writer configured at that moment, the request as the operation's parameters have set it. *)
Definition credential_step := (option writer * option writer * request)%type.

Definition build_request (s : credential_step) : request :=
  let '(op, default, q0) := s in effective_cred op default q0.

Definition build_all (h : list credential_step) : list request := map build_request h.

(* ---------- a server authenticator of a declared kind on an arbitrary request ---------- *)
(* the four authenticators of security/authenticator.go by what they are declared to read: basic credentials (the
   Authorization header), an API key in the header of a given name, an API key in the query parameter of a given name,
   a bearer token (Authorization header, access_token in the query, access_token in a form body). What the callback
   receives: user and password, or the token paired with an empty second component. *)
Inductive cred_kind := KBasic | KKeyHeader | KKeyQuery | KBearer.
Definition token_only (t : bytes) : bytes * bytes := (t, []).
Definition read_cred (k : cred_kind) (name : bytes) (q : request) : option (bytes * bytes) :=
  match k with
  | KBasic => basic_read q
  | KKeyHeader => option_map token_only (apikey_read name InHeader q)
  | KKeyQuery => option_map token_only (apikey_read name InQuery q)
  | KBearer => option_map token_only (bearer_read q)
  end.
