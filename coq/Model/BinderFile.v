(* BinderFile.v -- C03: parameters of type file (in: formData). Model of the file branch of
   untypedParamBinder.Bind and its specification in the property's vocabulary. Definitions only. *)
From V Require Import Bytes.
From Coq Require Import List Bool Arith.
Import ListNotations.
Local Open Scope nat_scope.

(* one part of a form body: field name, file name (None: a plain field, no filename attribute), content *)
Record fpart := FPart { fp_name : bytes; fp_file : option bytes; fp_data : bytes }.

(* the flavour of the form body: only multipart/form-data can carry files *)
Inductive fflavour := FMultipart | FUrlencoded.

(* what is asked of the binder and the request body as net/http sees it *)
Record freq := FReq { fr_flavour : fflavour; fr_parts : list fpart }.

Inductive foutcome :=
| FGot (filename data : bytes)   (* the handler runs and receives this file *)
| FNone                          (* the handler runs and receives no file (optional, not sent) *)
| FRefused (status : nat).       (* refused naming the parameter, the handler does not run *)

Definition is_file_named (name : bytes) (p : fpart) : bool :=
  bytes_eqb (fp_name p) name && match fp_file p with Some _ => true | None => false end.

(* ---------------------------------------------------------------- model (follows the Go control flow)
   ParseMultipartForm only for multipart bodies; then request.FormFile(name): http.ErrNotMultipart when
   request.MultipartForm is nil, the first entry of MultipartForm.File[name] when there is one, else
   http.ErrMissingFile. An error: NewParseError (400) when required, else nothing is set. *)
Inductive ff_result := FFile (filename data : bytes) | FFErrNotMultipart | FFErrMissingFile.

Definition form_file (name : bytes) (rq : freq) : ff_result :=
  match fr_flavour rq with
  | FUrlencoded => FFErrNotMultipart
  | FMultipart =>
    match List.find (is_file_named name) (fr_parts rq) with
    | Some p => FFile (match fp_file p with Some f => f | None => [] end) (fp_data p)
    | None => FFErrMissingFile
    end
  end.

Definition parse_error_status := 400.

Definition bind_file (required : bool) (name : bytes) (rq : freq) : foutcome :=
  match form_file name rq with
  | FFile f d => FGot f d
  | FFErrNotMultipart | FFErrMissingFile => if required then FRefused parse_error_status else FNone
  end.

(* ---------------------------------------------------------------- specification
   the file the request carries for the parameter: the first part of a multipart body that has the declared
   name and a file name. Fields without file name, parts under other names (also names that differ in case
   only) and every field of an urlencoded body are not files. *)
Definition carried_file (name : bytes) (rq : freq) : option (bytes * bytes) :=
  match fr_flavour rq with
  | FUrlencoded => None
  | FMultipart =>
    match filter (is_file_named name) (fr_parts rq) with
    | p :: _ => Some (match fp_file p with Some f => f | None => [] end, fp_data p)
    | [] => None
    end
  end.

Definition spec_file (required : bool) (name : bytes) (rq : freq) : foutcome :=
  match carried_file name rq with
  | Some (f, d) => FGot f d
  | None => if required then FRefused parse_error_status else FNone
  end.

(* the property's own predicate on what was observed: carried => the handler receives exactly it;
   missing and required => a client error naming the parameter and the handler does not run;
   missing and optional => the handler runs without a file *)
Definition file_expect (required : bool) (name : bytes) (rq : freq)
           (ran : bool) (status : nat) (names : bool) (got : option (bytes * bytes)) : bool :=
  match carried_file name rq with
  | Some (f, d) => ran && Nat.eqb status 200 &&
                   match got with Some (f', d') => bytes_eqb f f' && bytes_eqb d d' | None => false end
  | None => if required
            then negb ran && Nat.leb 400 status && Nat.ltb status 500 && names
            else ran && Nat.eqb status 200 && match got with None => true | Some _ => false end
  end.
