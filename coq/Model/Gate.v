(* Gate.v — C06: model of the content-type gate of go-openapi/runtime. Definitions only. Follows
     runtime.HasBody (request.go)                       -> has_body
     validateContentType (middleware/validation.go)     -> validate_content_type
     validation.contentType (untyped / reflective path) -> gate_untyped
     Context.BindValidRequest (generated servers)       -> gate_typed
     defaultRouteBuilder.AddRoute (consumes + API default) -> add_route_consumes
     runtime.ContentType (headers.go)                   -> content_type_input, content_type
     API.ConsumersFor(normalizeOffers(consumes))        -> route_consumers
   mime.ParseMediaType is an oracle: `parse` is what mime.ParseMediaType answers for the value runtime.ContentType
   hands to it, i.e. the first Content-Type header line as it stands, or the default application/octet-stream when
   that is empty or absent (media type in lower case without parameters; None = parse error) and `reparse` is what
   ParseMediaType answers when validateContentType parses that media type again. Statuses are the codes of the
   collected errors, in order; the first one is served. *)
From V Require Export Bytes.

Definition ci_eqb (a b : bytes) : bool := bytes_eqb (lower a) (lower b).          (* strings.EqualFold, ASCII *)
Definition contains_ci (l : list bytes) (s : bytes) : bool := existsb (ci_eqb s) l.  (* swag.ContainsStringsCI *)

Definition slash : byte := 47.
Definition star_slash_star : bytes := [42; 47; 42].
Definition slash_star : bytes := [47; 42].

(* strings.Split(s, "/") *)
Fixpoint split_slash_acc (cur : bytes) (s : bytes) : list bytes :=
  match s with
  | [] => [rev cur]
  | c :: r => if Nat.eqb c slash then rev cur :: split_slash_acc [] r else split_slash_acc (c :: cur) r
  end.
Definition split_slash (s : bytes) : list bytes := split_slash_acc [] s.

(* normalizeOffer: the entry up to its first semicolon *)
Definition semicolon : byte := 59.
Definition strip_params (e : bytes) : bytes := fst (span (fun c => negb (Nat.eqb c semicolon)) e).

(* runtime.HasBody: cl = Request.ContentLength > 0, hdr = a Content-Length header is present, nonempty = a byte can be read *)
Definition has_body (cl_positive hdr nonempty : bool) : bool :=
  if cl_positive then true else if hdr then false else nonempty.

(* true = nil error, false = 415. The allowed entries are compared without their parameters (F-C06-1 repair:
   normalizeOffers(allowed), the same normalisation the route's consumer table is built with) *)
Definition validate_content_type (allowed0 : list bytes) (reparse : option bytes) (actual : bytes) : bool :=
  match allowed0 with
  | [] => true
  | _ =>
    match reparse with
    | None => false
    | Some mt =>
      let allowed := map strip_params allowed0 in
      if contains_ci allowed mt then true
      else if contains_ci allowed star_slash_star then true
      else match split_slash actual with
           | [p0; _] => contains_ci allowed (p0 ++ slash_star)
           | _ => false
           end
    end
  end.

(* map lookup route.Consumers[ct]: exact *)
Definition lookup_consumer (keys : list bytes) (ct : bytes) : option bytes :=
  if existsb (bytes_eqb ct) keys then Some ct else None.

(* (statuses of the errors collected, consumer stored in route.Consumer) *)
Definition gate_untyped (hasbody : bool) (parse reparse : option bytes) (consumes keys : list bytes)
  : list nat * option bytes :=
  if hasbody then
    let '(ct, errs1) := match parse with Some mt => (mt, []) | None => ([], [400]) end in
    let errs2 := match errs1 with
                 | [] => if validate_content_type consumes reparse ct then [] else [415]
                 | _ => errs1
                 end in
    match ct with
    | [] => (errs2, None)
    | _ => match lookup_consumer keys ct with
           | Some k => (errs2, Some k)
           | None => (errs2 ++ [500], None)
           end
    end
  else ([], None).

Definition gate_typed (hasbody : bool) (parse reparse : option bytes) (consumes keys : list bytes)
  : list nat * option bytes :=
  if hasbody then
    match parse with
    | None => ([400], None)
    | Some ct =>
      if validate_content_type consumes reparse ct then
        match lookup_consumer keys ct with
        | Some k => ([], Some k)
        | None => ([500], None)
        end
      else ([415], None)
    end
  else ([], None).

(* the consumer that decodes the body: only when no error was collected *)
Definition decoding_consumer (g : list nat * option bytes) : option bytes :=
  match fst g with [] => snd g | _ => None end.
Definition first_status (g : list nat * option bytes) : option nat :=
  match fst g with [] => None | c :: _ => Some c end.

(* AddRoute: the API default media type is appended when not already listed *)
Definition add_route_consumes (declared : list bytes) (default : bytes) : list bytes :=
  match default with
  | [] => declared
  | _ => if contains_ci declared default then declared else declared ++ [default]
  end.

(* API.ConsumersFor(normalizeOffers(consumes)): the route's consumer table has one key per entry of the consumes
   list, cut at its first semicolon, for which a consumer is registered on the API (registered = those media types) *)
Definition route_consumers (consumes registered : list bytes) : list bytes :=
  filter (fun k => existsb (bytes_eqb k) registered) (map strip_params consumes).

(* runtime.ContentType: Header.Get answers the first Content-Type line (empty when there is none); an empty value
   stands for DefaultMime; the value is handed to mime.ParseMediaType unchanged *)
Definition default_mime : bytes :=       (* application/octet-stream *)
  [97;112;112;108;105;99;97;116;105;111;110;47;111;99;116;101;116;45;115;116;114;101;97;109].
Definition header_get (lines : list bytes) : bytes := match lines with [] => [] | v :: _ => v end.
Definition content_type_input (lines : list bytes) : bytes :=
  match header_get lines with [] => default_mime | _ => header_get lines end.
(* pmt = mime.ParseMediaType (media type of the answer, None on error) *)
Definition content_type (pmt : bytes -> option bytes) (lines : list bytes) : option bytes :=
  pmt (content_type_input lines).

(* ---- several requests answered one after the other by ONE Context: an API (default media type, consumers
   registered) with several operations, each with its own declared consumes list; nothing is carried from one
   request to the next - the gate of a request is decided by the list of the operation it addresses alone,
   whichever operations (on the same path or elsewhere) were addressed before ---- *)
Record greq := mkgreq {
  gq_declared : list bytes;        (* the consumes list of the operation addressed, as declared *)
  gq_hasbody : bool;
  gq_parse : option bytes;
  gq_reparse : option bytes;
  gq_typed : bool                  (* entry point: true = BindValidRequest, false = BindAndValidate / the handler *)
}.
Definition gate_req (default : bytes) (registered : list bytes) (q : greq) : list nat * option bytes :=
  let consumes := add_route_consumes (gq_declared q) default in
  let keys := route_consumers consumes registered in
  if gq_typed q then gate_typed (gq_hasbody q) (gq_parse q) (gq_reparse q) consumes keys
  else gate_untyped (gq_hasbody q) (gq_parse q) (gq_reparse q) consumes keys.
Definition gate_history (default : bytes) (registered : list bytes) (qs : list greq) : list (list nat * option bytes) :=
  map (gate_req default registered) qs.

(* ---- what the operation addressed declares to read: a body parameter, no parameter at all, only path / query /
   header parameters, or formData parameters. The gate (validation.contentType, Context.BindValidRequest) never
   consults it: every request that carries a body goes through the gate, whatever the operation declares.
   reflective = what validateRequest makes of a request on the reflective entry point (BindAndValidate, the untyped
   handler) once the gate has answered g: (status served, consumer whose Consume ran).
     an error collected by the gate is served and the parameter stage never runs;
     otherwise the parameter stage runs: a body parameter is decoded by the consumer the gate stored; path / query /
     header parameters read nothing from the body; a formData parameter has the form parsed (media type must be a
     form type, the form well-formed: form_st = the status of that refusal, None when the form stage is content -
     an oracle, the harness asks net/http itself; the stage is the subject of C03 / C04) ---- *)
Inductive opkind := KBody | KNone | KOther | KForm.

Definition reflective (k : opkind) (form_st : option nat) (g : list nat * option bytes) : option nat * option bytes :=
  match fst g with
  | c :: _ => (Some c, None)
  | [] => match k with
          | KBody => (None, snd g)
          | KNone => (None, None)
          | KOther => (None, None)
          | KForm => (form_st, None)
          end
  end.

(* ---- the response format stage. Both entry points negotiate the response format (Accept against the operation's
   produces list) AFTER the gate and only when the gate collected no error: a refusal of the gate is served whatever
   the Accept header says. acc_ok = the request's Accept header can be satisfied by one of the (non-empty list of)
   media types the operation produces, or there is no Accept header - an oracle: the harness asks
   middleware.NegotiateContentType itself on a request of its own (negotiation is the subject of C07).
     reflective entry points (validateRequest): contentType, then responseFormat: 406, then the parameter stage;
     Context.BindValidRequest: the gate, then NegotiateContentType with the request's own media type as the default
     offer: 406 only for a request without body, then the binder ---- *)
Definition not_acceptable : nat := 406.

Definition reflective_acc (k : opkind) (form_st : option nat) (acc_ok : bool) (g : list nat * option bytes)
  : option nat * option bytes :=
  match fst g with
  | c :: _ => (Some c, None)
  | [] => if acc_ok then reflective k form_st g else (Some not_acceptable, None)
  end.

Definition typed_acc (hasbody acc_ok : bool) (g : list nat * option bytes) : option nat * option bytes :=
  match fst g with
  | c :: _ => (Some c, None)
  | [] => if negb hasbody && negb acc_ok then (Some not_acceptable, None) else (None, snd g)
  end.
