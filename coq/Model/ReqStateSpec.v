(* ReqStateSpec.v — C09 in its own words, as a predicate over what was observed of one history:
   the list of calls, what each returned (with whether the same request value came back), and the
   effect counters. No reference to the model's step function. *)
From V Require Export ReqState.
From V Require Import Bytes.

Definition res_eqb (a b : res) : bool :=
  match a, b with
  | RRoute x, RRoute y => opt_eqb Nat.eqb x y
  | RCt x, RCt y => opt_eqb Nat.eqb x y
  | RFmt x, RFmt y => opt_eqb Nat.eqb x y
  | RAuth x, RAuth y => Nat.eqb x y
  | RBind x, RBind y => list_eqb Nat.eqb x y
  | RReset, RReset => true
  | RServed, RServed => true
  | RTampered, RTampered => true
  | RSkipped, RSkipped => true
  | _, _ => false
  end.
Definition step_eqb (a b : res * bool) : bool := res_eqb (fst a) (fst b) && Bool.eqb (snd a) (snd b).

Definition is_success (x : res) : bool :=
  match x with
  | RRoute (Some _) | RCt (Some _) | RFmt (Some _) | RBind _ => true
  | RAuth 1 => true
  | _ => false
  end.

Definition same_stage (a b : op) : bool :=
  match a, b with
  | RouteInfo, RouteInfo | ContentType, ContentType | ResponseFormat _, ResponseFormat _
  | Authorize, Authorize | BindAndValidate, BindAndValidate => true
  | _, _ => false
  end.

Definition is_reset (o : op) : bool := match o with ResetAuth => true | _ => false end.
Definition is_auth (o : op) : bool := match o with Authorize => true | _ => false end.

(* once a stage has succeeded, every later call of that stage (for Authorize: until a ResetAuth)
   returns the same value and hands back the same request value *)
Fixpoint later_reuse (o : op) (x : res) (rest : list (op * (res * bool))) : bool :=
  match rest with
  | [] => true
  | (o', (x', same')) :: r =>
    if is_auth o && is_reset o' then true
    else (if same_stage o o' then res_eqb x x' && same' else true) && later_reuse o x r
  end.

Fixpoint reuse_ok (h : list (op * (res * bool))) : bool :=
  match h with
  | [] => true
  | (o, (x, _)) :: r => (if is_success x then later_reuse o x r else true) && reuse_ok r
  end.

Definition count_op (f : op -> bool) (ops : list op) : nat := length (filter f ops).

(* a successful format negotiation is reused by binding: the first validation that runs after a format was
   negotiated does not negotiate again, so it cannot fail with 406 *)
Fixpoint bind_reuses_format (seen_fmt seen_bind : bool) (steps : list (res * bool)) : bool :=
  match steps with
  | [] => true
  | (x, _) :: r =>
    match x with
    | RFmt (Some _) => bind_reuses_format true seen_bind r
    | RBind errs =>
      (if seen_fmt && negb seen_bind then negb (existsb (Nat.eqb 406) errs) else true) &&
      bind_reuses_format seen_fmt true r
    | _ => bind_reuses_format seen_fmt seen_bind r
    end
  end.

(* the property's clauses for one observed history *)
Definition memo_ok (ops : list op) (steps : list (res * bool)) (lookups authn binds : nat) : bool :=
  Nat.eqb (length ops) (length steps) &&
  reuse_ok (combine ops steps) &&
  bind_reuses_format false false steps &&
  (* the route is looked up at most once after it matched; the body is consumed at most once *)
  (binds <=? 1) &&
  (* an accepting authenticator that yielded a principal is consulted at most once per reset
     (refusals and anonymous admissions, which yield no principal, may be recomputed) *)
  (if existsb (fun s => res_eqb (fst s) (RAuth 2) || res_eqb (fst s) (RAuth 3) || res_eqb (fst s) (RAuth 4)) steps then true
   else authn <=? S (count_op is_reset ops)) &&
  (if existsb (fun s => res_eqb (fst s) (RRoute None)) steps then true else lookups <=? 1).
