(* ClientResp.v — model of the response half of client/runtime.go Submit (lines 444-527) and of
   client/response.go. Definitions only.

   Oracle: mime.ParseMediaType (its answer for the content type at hand is part of the input:
   Some media type, or None when it reports an error). The registry (a Go map) is a list with
   distinct keys; consumers are identified by a tag. *)
From V Require Export Bytes.

Definition star_star : bytes := [42; 47; 42].       (* the catch-all key *)

Definition registry := list (bytes * nat).          (* media type -> consumer tag *)

Fixpoint lookup (r : registry) (k : bytes) : option nat :=
  match r with
  | [] => None
  | (k', c) :: r' => if bytes_eqb k' k then Some c else lookup r' k
  end.

(* the content type Submit works with: the first Content-Type value of the response, or the
   runtime's default media type when that is empty or absent *)
Definition effective_ct (default_mt : bytes) (header_ct : option bytes) : bytes :=
  match header_ct with
  | Some (c :: r) => c :: r
  | _ => default_mt
  end.

Inductive selection :=
| UseConsumer (tag : nat)
| ErrParse (ct : bytes)              (* mime.ParseMediaType failed on ct *)
| ErrNoConsumer (ct : bytes).        (* nothing registered for it and no catch-all *)

Definition select_consumer (reg : registry) (ct : bytes) (parsed : option bytes) : selection :=
  match parsed with
  | None => ErrParse ct
  | Some mt =>
    match lookup reg mt with
    | Some c => UseConsumer c
    | None => match lookup reg star_star with
              | Some c => UseConsumer c
              | None => ErrNoConsumer ct
              end
    end
  end.

(* ---- the response as the reader sees it (client/response.go) ---- *)
Record response := mkresp {
  r_code : nat;
  r_status : bytes;                        (* the status line text, e.g. 404 Not Found *)
  r_headers : list (bytes * list bytes);   (* canonical key -> values *)
  r_body : bytes
}.

Fixpoint header_values (h : list (bytes * list bytes)) (key : bytes) : list bytes :=
  match h with
  | [] => []
  | (k, vs) :: r => if bytes_eqb k key then vs else header_values r key
  end.

(* key is the canonical form of the name asked for (http.CanonicalHeaderKey, supplied by the caller) *)
Definition get_headers (r : response) (key : bytes) : list bytes := header_values (r_headers r) key.
Definition get_header (r : response) (key : bytes) : bytes := hd [] (get_headers r key).

(* ---- which client and which context carry the call ---- *)
Inductive origin := FromOperation | FromTransport | Background.

Definition choose_client (op_client : bool) : origin := if op_client then FromOperation else FromTransport.
Definition choose_context (op_ctx rt_ctx : bool) : origin :=
  if op_ctx then FromOperation else if rt_ctx then FromTransport else Background.

(* ---- one response through Submit ---- *)
Inductive submitted :=
| Delivered (tag : nat) (code : nat) (status : bytes) (body : bytes)
| Failed (s : selection).

Definition submit_response (reg : registry) (default_mt : bytes) (parsed : option bytes) (r : response) : submitted :=
  let ct := effective_ct default_mt (match header_values (r_headers r) [67;111;110;116;101;110;116;45;84;121;112;101] with
                                     | [] => None | v :: _ => Some v end) in
  match select_consumer reg ct parsed with
  | UseConsumer c => Delivered c (r_code r) (r_status r) (r_body r)
  | s => Failed s
  end.

(* ---- which client OBJECT carries the call, seen through what only the client object determines ----
   An http.Client is more than its Transport: its redirect policy, its cookie jar and its timeout are
   applied by the client itself, above the round tripper. A client without a Transport of its own sends
   through the process-wide default transport. Identities are bit masks so that a call that
   consulted two clients is visible: 1 the operation client, 2 the runtime client, 4 the process default. *)
Definition who_op : nat := 1.
Definition who_rt : nat := 2.
Definition who_default : nat := 4.

Record client_cfg := mkclient {
  c_transport : bool;   (* has a Transport of its own *)
  c_redirect : nat;     (* CheckRedirect: 0 none (redirects followed silently), 1 a policy that follows, 2 a policy that stops at the redirect response *)
  c_jar : bool;         (* has a cookie jar *)
  c_timeout : bool      (* has a Timeout shorter than the slow server's delay *)
}.

Record call_trace := mktrace {
  t_transport : nat;    (* mask of the round trippers that saw a request of this call *)
  t_redirect : nat;     (* mask of the clients whose redirect policy was consulted *)
  t_jar : nat;          (* mask of the clients whose jar was consulted *)
  t_cookie : nat;       (* whose cookie the first request carried; 0 none *)
  t_result : nat        (* 0 the final response reached the reader, 1 the redirect response did, 2 the client timed out *)
}.

Definition mask_of (b : bool) (who : nat) : nat := if b then who else 0.

(* the server answers the first request with a redirect to a second location; when slow it first waits
   longer than any client timeout *)
Definition run_client (who : nat) (c : client_cfg) (slow : bool) : call_trace :=
  let tr := if c_transport c then who else who_default in
  let jar := mask_of (c_jar c) who in
  if slow && c_timeout c then mktrace tr 0 jar jar 2
  else mktrace tr (mask_of (negb (Nat.eqb (c_redirect c) 0)) who) jar jar (if Nat.eqb (c_redirect c) 2 then 1 else 0).

(* Submit: the operation client when one is given, whatever its fields; else the runtime client *)
Definition route_call (op : option client_cfg) (rt : client_cfg) (slow : bool) : call_trace :=
  match op with
  | Some c => run_client who_op c slow
  | None => run_client who_rt rt slow
  end.

(* ---- several calls on one runtime; readers that keep the response they were handed ----
   (runtime.NewAPIError keeps the ClientResponse; generated clients return it inside the error.)
   What a kept response answers for code, status text and headers: always its own call's. *)
Definition x_token : bytes := [88;45;84;111;107;101;110].
Definition content_type : bytes := [67;111;110;116;101;110;116;45;84;121;112;101].

Definition retained_view (r : response) : nat * bytes * bytes * bytes :=
  (r_code r, r_status r, get_header r x_token, get_header r content_type).

Definition submit_all (reg : registry) (default_mt : bytes) (calls : list (option bytes * response)) : list submitted :=
  map (fun pc => submit_response reg default_mt (fst pc) (snd pc)) calls.

Definition retained_all (calls : list (option bytes * response)) : list (nat * bytes * bytes * bytes) :=
  map (fun pc => retained_view (snd pc)) calls.

(* ---- which CONTEXT the call runs under, seen through what only the context determines ----
   A context is more than a marker: it carries values (request ids, trace spans), possibly a deadline, and it
   can be cancelled - before the call or while it is under way. Submit derives the context of the request from
   ONE parent: the operation context when the operation has one, else the runtime context, else the background
   context; the request timeout (0: none) is laid on top of it, the earlier deadline applying.
   Deadlines are ranks (0: none; a smaller rank is an earlier instant). *)
Record ctx_cfg := mkctx {
  x_deadline : nat;     (* 0 none *)
  x_cancelled : bool    (* cancelled before the call *)
}.

Record ctx_seen := mkseen {
  n_value : nat;        (* whose value reached the round tripper: 0 the operation context, 1 the runtime context, 2 neither *)
  n_deadline : nat;     (* the deadline of the request context as the round tripper sees it (rank; 0 none) *)
  n_ended : bool;       (* the request context was done: on arrival, or after the cancellation made during the call *)
  n_failed : bool       (* Submit returned an error *)
}.

Definition who_code (o : origin) : nat :=
  match o with FromOperation => 0 | FromTransport => 1 | Background => 2 end.

Definition earlier_deadline (a b : nat) : nat :=
  if Nat.eqb a 0 then b else if Nat.eqb b 0 then a else Nat.min a b.

(* what is cancelled while the request is with the round tripper: 0 nothing, 1 the operation context, 2 the runtime context *)
Definition cancels (action : nat) (o : origin) : bool :=
  match o with
  | FromOperation => Nat.eqb action 1
  | FromTransport => Nat.eqb action 2
  | Background => false
  end.

Definition run_under (o : origin) (c : ctx_cfg) (timeout action : nat) : ctx_seen :=
  let ended := x_cancelled c || cancels action o in
  mkseen (who_code o) (earlier_deadline (x_deadline c) timeout) ended ended.

Definition submit_context (op rt : option ctx_cfg) (timeout action : nat) : ctx_seen :=
  match op with
  | Some c => run_under FromOperation c timeout action
  | None =>
    match rt with
    | Some c => run_under FromTransport c timeout action
    | None => mkseen (who_code Background) timeout false false
    end
  end.
