(* ClientResp.v — model of the response half of client/runtime.go Submit (lines 444-527) and of
   client/response.go. Definitions only.

   Oracle: mime.ParseMediaType (its answer for the content type at hand is part of the input:
   Some media type, or None when it reports an error). The registry (a Go map) is a list with
   distinct keys; consumers are identified by a tag. *)
From V Require Export Bytes.

Definition star_star : bytes := [42; 47; 42].       (* the catch-all key *)

Definition registry := list (bytes * nat).          (* media type -> consumer tag *)

Fixpoint lookup (r : registry) (k : bytes) : option nat :=
  match r with
  | [] => None
  | (k', c) :: r' => if bytes_eqb k' k then Some c else lookup r' k
  end.

(* the content type Submit works with: the first Content-Type value of the response, or the
   runtime's default media type when that is empty or absent *)
Definition effective_ct (default_mt : bytes) (header_ct : option bytes) : bytes :=
  match header_ct with
  | Some (c :: r) => c :: r
  | _ => default_mt
  end.

Inductive selection :=
| UseConsumer (tag : nat)
| ErrParse (ct : bytes)              (* mime.ParseMediaType failed on ct *)
| ErrNoConsumer (ct : bytes).        (* nothing registered for it and no catch-all *)

Definition select_consumer (reg : registry) (ct : bytes) (parsed : option bytes) : selection :=
  match parsed with
  | None => ErrParse ct
  | Some mt =>
    match lookup reg mt with
    | Some c => UseConsumer c
    | None => match lookup reg star_star with
              | Some c => UseConsumer c
              | None => ErrNoConsumer ct
              end
    end
  end.

(* ---- the response as the reader sees it (client/response.go) ---- *)
Record response := mkresp {
  r_code : nat;
  r_status : bytes;                        (* the status line text, e.g. 404 Not Found *)
  r_headers : list (bytes * list bytes);   (* canonical key -> values *)
  r_body : bytes
}.

Fixpoint header_values (h : list (bytes * list bytes)) (key : bytes) : list bytes :=
  match h with
  | [] => []
  | (k, vs) :: r => if bytes_eqb k key then vs else header_values r key
  end.

(* key is the canonical form of the name asked for (http.CanonicalHeaderKey, supplied by the caller) *)
Definition get_headers (r : response) (key : bytes) : list bytes := header_values (r_headers r) key.
Definition get_header (r : response) (key : bytes) : bytes := hd [] (get_headers r key).

(* ---- which client and which context carry the call ---- *)
Inductive origin := FromOperation | FromTransport | Background.

Definition choose_client (op_client : bool) : origin := if op_client then FromOperation else FromTransport.
Definition choose_context (op_ctx rt_ctx : bool) : origin :=
  if op_ctx then FromOperation else if rt_ctx then FromTransport else Background.

(* ---- one response through Submit ---- *)
Inductive submitted :=
| Delivered (tag : nat) (code : nat) (status : bytes) (body : bytes)
| Failed (s : selection).

Definition submit_response (reg : registry) (default_mt : bytes) (parsed : option bytes) (r : response) : submitted :=
  let ct := effective_ct default_mt (match header_values (r_headers r) [67;111;110;116;101;110;116;45;84;121;112;101] with
                                     | [] => None | v :: _ => Some v end) in
  match select_consumer reg ct parsed with
  | UseConsumer c => Delivered c (r_code r) (r_status r) (r_body r)
  | s => Failed s
  end.
