(* Negotiate.v — model of middleware/negotiate.go. Definitions only. *)
From V Require Export AcceptParse.

Fixpoint split_semi (s : bytes) : bytes :=     (* strings.SplitN(orig, semicolon, 2)[0] *)
  match s with
  | [] => []
  | c :: r => if Nat.eqb c SEMI then [] else c :: split_semi r
  end.
Definition normalize_offer (o : bytes) : bytes := split_semi o.

Definition STAR_STAR : bytes := [42; 47; 42].  (* star slash star *)
Definition SLASH_STAR : bytes := [47; 42].     (* slash star *)

(* which arm of the switch a range falls in against a normalised offer:
   Some w = matches with wildcard level w: 0 exact, 1 type-wildcard, 2 full wildcard *)
Definition range_match (v offer : bytes) : option nat :=
  if bytes_eqb v STAR_STAR then Some 2
  else if has_suffix SLASH_STAR v then
    (if has_prefix (removelast v) offer then Some 1 else None)
  else if bytes_eqb v offer then Some 0 else None.

Record best := mkbest { b_offer : bytes; b_q : qv; b_wild : nat }.

Definition step_spec (raw offer : bytes) (b : best) (sp : spec) : best :=
  if q_is0 (sq sp) then b
  else if q_lt (sq sp) (b_q b) then b
  else match range_match (sval sp) offer with
       | Some w => if q_lt (b_q b) (sq sp) || (w <? b_wild b)
                   then mkbest raw (sq sp) w else b
       | None => b
       end.

Definition step_offer (specs : list spec) (b : best) (raw : bytes) : best :=
  fold_left (step_spec raw (normalize_offer raw)) specs b.

Definition negotiate_content_type (specs : list spec) (offers : list bytes) (default : bytes) : bytes :=
  match specs, offers with
  | [], o :: _ => o
  | _, _ => b_offer (fold_left (step_offer specs) offers (mkbest default q_neg1 3))
  end.

(* NegotiateContentEncoding *)
Definition STAR1 : bytes := [42].
Definition IDENTITY : bytes := [105; 100; 101; 110; 116; 105; 116; 121].

Definition enc_step_spec (offer : bytes) (b : bytes * qv) (sp : spec) : bytes * qv :=
  if q_lt (snd b) (sq sp) && (bytes_eqb (sval sp) STAR1 || bytes_eqb (sval sp) offer)
  then (offer, sq sp) else b.

Definition negotiate_content_encoding (specs : list spec) (offers : list bytes) : bytes :=
  let '(o, q) := fold_left (fun b offer => fold_left (enc_step_spec offer) specs b)
                           offers (IDENTITY, q_neg1) in
  if q_is0 q then [] else o.
