(* SecuritySpec.v — C02 in the property's own words, as executable predicates over an observed
   event trace. Nothing here refers to the loops of Security.v (only to its data types, all_scopes,
   code_of/msg_of). The same predicates are (a) proved of the model's traces for all inputs
   (Proofs/SecurityProofs.v) and (b) evaluated on the implementation's traces in every run (Check_C02.v). *)
From V Require Export Security.

Definition is_nil {A} (l : list A) : bool := match l with [] => true | _ => false end.

Definition accepts_with_principal (o : outcome) : bool :=
  match o with Acc (Some _) => true | _ => false end.

(* an alternative is fully satisfied: it names at least one scheme, every scheme has a registered
   authenticator, finds credentials and accepts them yielding a non-nil principal (read per scheme) *)
Definition satisfied (out : oracle) (l : list sreq) : bool :=
  negb (is_nil l) && forallb (fun s => sreg s && accepts_with_principal (out (sname s) (sscopes s))) l.

(* p is a principal yielded by a scheme of the alternative *)
Definition yields (out : oracle) (l : list sreq) (p : principal) : bool :=
  existsb (fun s => match out (sname s) (sscopes s) with Acc (Some q) => Nat.eqb p q | _ => false end) l.

Definition subset (a b : list nat) : bool := forallb (fun x => existsb (Nat.eqb x) b) a.
Definition same_set (a b : list nat) : bool := subset a b && subset b a.

(* the scopes required by the alternative, as a set *)
Definition scopes_of (l : list sreq) : list nat := flat_map sscopes l.

Definition is_rej (o : outcome) : bool := match o with Rej _ => true | _ => false end.

(* some scheme that was asked rejected the credentials presented *)
Definition rejected_in (out : oracle) (tr : list event) : bool :=
  existsb (fun ev => match ev with AuthCalled s sc => is_rej (out s sc) | _ => false end) tr.

(* the error of the scheme that rejected last *)
Fixpoint last_rej (out : oracle) (tr : list event) (acc : option err) : option err :=
  match tr with
  | [] => acc
  | AuthCalled s sc :: r => last_rej out r (match out s sc with Rej e => Some e | _ => acc end)
  | _ :: r => last_rej out r acc
  end.

Definition is_na (o : outcome) : bool := match o with NA => true | _ => false end.

(* the request presented credentials for the whole alternative (every scheme has an authenticator and found its
   credentials in the request) and one of its schemes rejected them. Stated over the DECLARED alternative, not
   over the calls that were made: a scheme that was never asked although the alternative required it counts. *)
Definition presented_and_rejected (out : oracle) (l : list sreq) : bool :=
  forallb (fun s => sreg s && negb (is_na (out (sname s) (sscopes s)))) l &&
  existsb (fun s => is_rej (out (sname s) (sscopes s))) l.

Definition rejected_declared (out : oracle) (alts : list alt) : bool :=
  existsb (fun a => match a with Reqs l => presented_and_rejected out l | Anon => false end) alts.

(* no scheme rejected credentials that were presented: none of those asked, and none in an alternative that applied *)
Definition nothing_rejected (out : oracle) (alts : list alt) (tr : list event) : bool :=
  negb (rejected_in out tr) && negb (rejected_declared out alts).

Definition az_accepts (az : authorizer) (p : option principal) : bool :=
  match az with None => true | Some f => negb (is_some (f p)) end.

(* the authorizer's error as served: its own status when it carries one, else 403 *)
Definition az_error (e : err) : err := match e with EStatus c m => EStatus c m | EPlain m => EStatus 403 m end.

(* a handler that read principal p and scopes sc is justified by the requirement structure *)
Definition handle_justified (out : oracle) (alts : list alt) (az : authorizer) (tr : list event)
           (p : option principal) (sc : list nat) : bool :=
  match p with
  | Some q =>
    existsb (fun a => match a with
                      | Reqs l => satisfied out l && yields out l q && same_set sc (scopes_of l)
                      | Anon => false
                      end) alts
    && az_accepts az p
  | None =>
    allows_anon alts && is_nil sc && nothing_rejected out alts tr && az_accepts az None
  end.

(* some justification exists for letting the request through at all (used for Bind and for the
   untyped handler, which cannot read the principal) *)
Definition admissible (out : oracle) (alts : list alt) (az : authorizer) (tr : list event) : bool :=
  existsb (fun a => match a with
                    | Reqs l => satisfied out l &&
                                existsb (fun s => match out (sname s) (sscopes s) with
                                                  | Acc (Some q) => az_accepts az (Some q)
                                                  | _ => false
                                                  end) l
                    | Anon => false
                    end) alts
  || (allows_anon alts && nothing_rejected out alts tr && az_accepts az None).

Definition is_bind (ev : event) : bool := match ev with Bind => true | _ => false end.
Definition is_handle (ev : event) : bool := match ev with Handle _ _ => true | _ => false end.
Definition is_panic (ev : event) : bool := match ev with Panicked => true | _ => false end.

Definition az_called (tr : list event) : option (option principal) :=
  match find (fun ev => match ev with AuthorizerCalled _ => true | _ => false end) tr with
  | Some (AuthorizerCalled p) => Some p
  | _ => None
  end.

Definition err_eqb (a b : err) : bool :=
  match a, b with
  | EStatus c m, EStatus c' m' => Nat.eqb c c' && Nat.eqb m m'
  | EPlain m, EPlain m' => Nat.eqb m m'
  | _, _ => false
  end.

(* the error a refused request must be answered with: Some (Some e) = exactly e; Some None = a 401;
   None = the trace is inconsistent (an authorizer was consulted that does not refuse, or was consulted for the
   nil principal although presented credentials were rejected, or nothing reports a rejection although an
   alternative that applied was rejected) *)
Definition expected_refusal (out : oracle) (alts : list alt) (az : authorizer) (tr : list event) : option (option err) :=
  match az_called tr with
  | Some p =>                                   (* the authorizer was consulted: its error, 403 unless it has a status *)
    match az with
    | Some f => match f p with
                | Some e' => if is_some p || nothing_rejected out alts tr then Some (Some (az_error e')) else None
                | None => None
                end
    | None => None
    end
  | None =>
    match last_rej out tr None with
    | Some e => Some (Some e)                   (* the rejecting scheme's error *)
    | None => if rejected_declared out alts then None else Some None   (* 401 when nothing that applied was rejected *)
    end
  end.

Definition refusal_ok (out : oracle) (alts : list alt) (az : authorizer) (tr : list event) (e : err) : bool :=
  match expected_refusal out alts az tr with
  | Some (Some e') => err_eqb e e'
  | Some None => Nat.eqb (code_of e) 401
  | None => false
  end.

Definition response_ok (out : oracle) (alts : list alt) (az : authorizer) (tr : list event) (c m : nat) : bool :=
  match expected_refusal out alts az tr with
  | Some (Some e') => Nat.eqb c (code_of e') && Nat.eqb m (msg_of e')
  | Some None => Nat.eqb c 401
  | None => false
  end.

Definition responded (tr : list event) : option (nat * nat) :=
  match last tr Bind with Respond c m => Some (c, m) | _ => None end.

(* ---- the property, over the trace of one request through the secured handler ---- *)
Definition sec_ok (out : oracle) (alts : list alt) (az : authorizer) (bind_ok strict : bool) (tr : list event) : bool :=
  is_nil alts ||                                                     (* no requirement declared: out of scope *)
  (negb (existsb is_panic tr) &&
   (* the handler runs only for a justified principal and scopes (strict: the trace shows them) *)
   forallb (fun ev => match ev with
                      | Handle p sc => if strict then handle_justified out alts az tr p sc else admissible out alts az tr
                      | _ => true
                      end) tr &&
   (* parameter binding runs only for an admissible request *)
   (if existsb is_bind tr then admissible out alts az tr && (negb bind_ok || existsb is_handle tr)
    else
      (* every other request: refused with the right error, and neither binding nor the handler ran *)
      negb (existsb is_handle tr) &&
      match responded tr with
      | Some (c, m) => response_ok out alts az tr c m
      | None => false
      end)).

(* ---- the same, over the result of Context.Authorize (what generated servers call) ---- *)
Definition authorize_ok (out : oracle) (alts : list alt) (az : authorizer) (tr : list event) (r : authz) : bool :=
  is_nil alts ||
  match r with
  | Granted p sc => handle_justified out alts az tr p sc
  | Refused e => refusal_ok out alts az tr e
  | AuthPanic => false
  end.

(* ---- and over the raw answer of RouteAuthenticators.Authenticate ---- *)
Definition authenticate_ok (out : oracle) (alts : list alt) (tr : list event)
           (applies : bool) (usr : option principal) (e : option err) : bool :=
  match e with
  | Some e' => applies && negb (is_some usr) && opt_eqb err_eqb (last_rej out tr None) (Some e')
  | None =>
    match usr with
    | Some q => applies && existsb (fun a => match a with Reqs l => satisfied out l && yields out l q | Anon => false end) alts
    | None => nothing_rejected out alts tr && (negb applies || allows_anon alts)
    end
  end.

(* ---- the library's own authenticators over a table-driven validation callback ----
   security.BearerAuth / BearerAuthCtx hand the token and the scopes required by the operation to the callback;
   APIKeyAuth / APIKeyAuthCtx / BasicAuth / BasicAuthCtx hand over the credential only. What a scheme answers for a
   request is a function of the credential the request carries for it, the scopes the operation requires and
   the callback's table - and of nothing else (no earlier request, no other operation). *)
Record grant := mk_grant { g_scheme : nat; g_token : nat; g_princ : option principal; g_scopes : list nat }.

Definition cred_oracle (scoped : nat -> bool) (unk insuf : nat -> err) (grants : list grant)
           (creds : list (nat * nat)) : oracle :=
  fun s sc =>
    match find (fun c => Nat.eqb (fst c) s) creds with
    | None => NA                                       (* no credentials for this scheme in the request *)
    | Some (_, tok) =>
      match find (fun g => Nat.eqb (g_scheme g) s && Nat.eqb (g_token g) tok) grants with
      | None => Rej (unk s)                            (* unknown credential *)
      | Some g => if negb (scoped s) || subset sc (g_scopes g) then Acc (g_princ g) else Rej (insuf s)
      end
    end.

(* ---- a history: several requests served by ONE api instance. Each request is answered as the same request is
   answered by a fresh instance: the model of a history is the single-request model mapped over the list. ---- *)
Record hreq := mk_hreq { hq_op : nat; hq_creds : list (nat * nat); hq_bind : bool }.

Definition history (oracle_for : list (nat * nat) -> oracle) (ops : list (list alt)) (az : authorizer)
           (calls : list hreq) : list (list event) :=
  map (fun c => secure_handler (oracle_for (hq_creds c)) (nth (hq_op c) ops []) az (hq_bind c)) calls.

(* ---- the property for a request whose Accept header may admit none of the offers (fmt_ok = false). Nothing changes
   for a request that is refused: the rejecting scheme's error, 401 or the authorizer's error, whatever else is right
   or wrong with the request. Only a request that is justified in being let through may be answered 406 instead
   (before binding, without the handler). ---- *)
Definition sec_ok_fmt (out : oracle) (alts : list alt) (az : authorizer) (bind_ok fmt_ok strict : bool) (tr : list event) : bool :=
  if fmt_ok then sec_ok out alts az bind_ok strict tr
  else
    match responded tr with
    | Some (c, _) =>
      if Nat.eqb c 406 && negb (existsb is_bind tr) && negb (existsb is_handle tr) && negb (existsb is_panic tr) &&
         (is_nil alts || admissible out alts az tr)
      then true
      else sec_ok out alts az bind_ok strict tr
    | None => sec_ok out alts az bind_ok strict tr
    end.
