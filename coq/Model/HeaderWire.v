(* HeaderWire.v — the HTTP/1.1 header line as the client side writes it (net/http Header.writeSubset) and the
   server side reads it (net/textproto readMIMEHeader / readContinuedLineSlice), and the name handling of the
   runtime around it (client request.SetHeaderParam stores under the canonical name; the server binder looks the
   declared name up in canonical form). Definitions only.

   MODELLED, not verified: these are Go standard-library functions; the model is tied to them by the C04
   correspondence run (case CHdrWire: the line actually written for the header parameter and the value the handler got). *)
From Coq Require Import List Arith Bool.
Import ListNotations.
From V Require Import Bytes.

Definition is_ows (c : byte) : bool := Nat.eqb c 32 || Nat.eqb c 9.

(* textproto.trim, textproto.TrimString *)
Definition trim_left (s : bytes) : bytes := drop_while is_ows s.
Definition trim_right (s : bytes) : bytes := rev (drop_while is_ows (rev s)).
Definition trim (s : bytes) : bytes := trim_right (trim_left s).

(* http.headerNewlineToSpace *)
Definition nl_to_space (c : byte) : byte := if Nat.eqb c 10 || Nat.eqb c 13 then 32 else c.

(* textproto.validHeaderFieldByte: RFC 7230 token bytes *)
Definition is_alnum (c : byte) : bool :=
  (Nat.leb 48 c && Nat.leb c 57) || (Nat.leb 97 c && Nat.leb c 122) || (Nat.leb 65 c && Nat.leb c 90).
Definition field_byte (c : byte) : bool :=
  is_alnum c || mem_byte c [33; 35; 36; 37; 38; 39; 42; 43; 45; 46; 94; 95; 96; 124; 126].

(* textproto.validHeaderValueByte: HTAB, SP, VCHAR and obs-text (bytes from 128 up) *)
Definition value_byte (c : byte) : bool :=
  Nat.eqb c 9 || (Nat.leb 32 c && negb (Nat.eqb c 127)).

(* textproto.canonicalMIMEHeaderKey: None = not ok (empty, or a byte that is neither a token byte nor a space);
   a name containing a space is accepted unchanged; otherwise first letter and every letter after a dash upper case,
   the others lower case (the table of common headers only interns the same spelling) *)
Fixpoint canon_go (up : bool) (s : bytes) : bytes :=
  match s with
  | [] => []
  | c :: r =>
    let c' := if up then to_upper c else to_lower c in
    c' :: canon_go (Nat.eqb c' 45) r
  end.

Definition canonical_key (k : bytes) : option bytes :=
  match k with
  | [] => None
  | _ =>
    if forallb (fun c => field_byte c || Nat.eqb c 32) k
    then Some (if existsb (Nat.eqb 32) k then k else canon_go true k)
    else None
  end.

(* textproto.CanonicalMIMEHeaderKey / http.CanonicalHeaderKey (the exported form: invalid names come back unchanged) *)
Definition canonical_name (k : bytes) : bytes :=
  if forallb field_byte k then canon_go true k else k.

(* WRITING. Header.writeSubset: name, colon, space, the value with CR and LF turned into spaces and then trimmed, CRLF *)
Definition hdr_value_on_wire (v : bytes) : bytes := trim (map nl_to_space v).
Definition hdr_write (k v : bytes) : bytes := k ++ [58; 32] ++ hdr_value_on_wire v ++ [13; 10].

(* READING. readLineSlice: up to the first LF; the LF and a CR just before it are dropped. None = no LF (EOF). *)
Fixpoint split_lf (s : bytes) : option (bytes * bytes) :=
  match s with
  | [] => None
  | c :: r =>
    if Nat.eqb c 10 then Some ([], r)
    else match split_lf r with
         | Some (l, rest) => Some (c :: l, rest)
         | None => None
         end
  end.

Definition drop_cr (l : bytes) : bytes :=
  match rev l with
  | c :: r => if Nat.eqb c 13 then rev r else l
  | [] => l
  end.

Definition read_line (s : bytes) : option (bytes * bytes) :=
  match split_lf s with
  | Some (l, rest) => Some (drop_cr l, rest)
  | None => None
  end.

(* readContinuedLineSlice: the trimmed line, followed by every continuation line (a line that starts with a space or a
   tab), each trimmed and joined by one space. Fuel = number of continuation lines at most. *)
Fixpoint read_continuations (fuel : nat) (acc rest : bytes) : bytes * bytes :=
  match fuel with
  | O => (acc, rest)
  | S f =>
    match rest with
    | c :: _ =>
      if is_ows c then
        match read_line (trim_left rest) with
        | Some (l, rest') => read_continuations f (acc ++ [32] ++ trim l) rest'
        | None => (acc, rest)
        end
      else (acc, rest)
    | [] => (acc, rest)
    end
  end.

Definition read_continued_line (s : bytes) : option (bytes * bytes) :=
  match read_line s with
  | None => None
  | Some (l, rest) =>
    match l with
    | [] => Some ([], rest)                                 (* the blank line that ends the header block *)
    | _ => if mem_byte 58 l                                  (* mustHaveFieldNameColon *)
           then Some (read_continuations (length rest) (trim l) rest)
           else None
    end
  end.

(* bytes.Cut at the first colon *)
Definition cut_colon (kv : bytes) : option (bytes * bytes) :=
  let (k, r) := span (fun c => negb (Nat.eqb c 58)) kv in
  match r with
  | _ :: v => Some (k, v)
  | [] => None
  end.

Inductive hdr_read_result :=
| HdrEnd (rest : bytes)                       (* blank line *)
| HdrField (key value rest : bytes)
| HdrMalformed.

(* one iteration of the loop of readMIMEHeader *)
Definition read_header (s : bytes) : hdr_read_result :=
  match read_continued_line s with
  | None => HdrMalformed
  | Some ([], rest) => HdrEnd rest
  | Some (kv, rest) =>
    match cut_colon kv with
    | None => HdrMalformed
    | Some (k, v) =>
      match canonical_key k with
      | None => HdrMalformed
      | Some key =>
        if forallb value_byte v then HdrField key (trim_left v) rest else HdrMalformed
      end
    end
  end.

(* A value the caller may set on a header parameter and expect back unchanged: no control bytes other than HTAB (CR and
   LF included), and no white space at either end (HTTP strips it). *)
Definition hdr_value_ok (v : bytes) : bool :=
  forallb value_byte v &&
  match v with [] => true | c :: _ => negb (is_ows c) end &&
  match rev v with [] => true | c :: _ => negb (is_ows c) end.

Definition hdr_name_ok (k : bytes) : bool :=
  match k with [] => false | _ => forallb field_byte k end.
