(* BinderSpec.v -- C03 in the property's own vocabulary: which texts the client sent for the declared
   name (by the rule of the location), what a text denotes for a declared type, and the outcome the
   property demands. Executable; organised by the clauses of the property, not by the Go control flow.
   Proofs/BinderProofs.v shows that the model of the code (Binder.bind_param) meets it. *)
From V Require Export Binder.
Local Open Scope nat_scope.

(* names compare case-insensitively (ASCII) in headers, exactly elsewhere *)
Definition eq_fold (a b : bytes) : bool := bytes_eqb (lower a) (lower b).

(* the texts sent for the declared name, in the order sent *)
Definition occurrences (d : decl) (rq : request) : list bytes :=
  match d_in d with
  | LQuery => values_of (d_name d) (r_query rq)
  | LHeader => List.map snd (List.filter (fun p => eq_fold (fst p) (d_name d)) (r_header rq))
  | LPath => values_of (d_name d) (r_path rq)
  | LForm => values_of (d_name d) (r_form rq)
  end.

Section Spec.
Variable O : oracles.

(* the value a non-empty text denotes for a scalar type; None: not a valid in-range literal.
   Integers: base-10 literal (Decimal.dec_denotes) within the width. Booleans: swag's total convention.
   Floats and registered formats: the library's answer (oracle). *)
Definition denote (t : stype) (txt : bytes) : option sval :=
  match t with
  | SInt w => match dec_denotes txt with
              | Some z => if in_int_range w z then Some (VInt w z) else None
              | None => None
              end
  | SBool => Some (VBool (convert_bool txt))
  | SStr => Some (VStr txt)
  | SF32 => match o_float O txt with Some (_, false, b32) => Some (VF32 b32) | _ => None end
  | SF64 => match o_float O txt with Some (b64, _, _) => Some (VF64 b64) | None => None end
  | SFmt f => match o_format O f txt with Some r => Some (VFmt f r) | None => None end
  end.

Definition no_default (d : decl) : bool := match d_default d with None => true | Some _ => false end.

(* an empty text without a default: the zero value (a registered format decides itself) *)
Definition empty_value (t : stype) : res sval :=
  match t with
  | SFmt f => match denote t [] with Some v => Ok v | None => Err code_invalid_type end
  | _ => Ok (zero_of t)
  end.

Definition text_value (t : stype) (txt : bytes) : res sval :=
  match denote t txt with Some v => Ok v | None => Err code_invalid_type end.

(* scalar: the last occurrence decides; absent or empty -> default; required -> 422 *)
Definition scalar_value (d : decl) (t : stype) (texts : list bytes) : res sval :=
  let txt := List.last texts [] in
  if is_nil txt then
    match d_default d with
    | Some (DScalar v) => if sval_has_type v t then Ok v else UnspecR
    | Some _ => UnspecR
    | None =>
      if d_required d && (is_nil texts || negb (d_allow_empty d)) then Err code_required
      else empty_value t
    end
  else text_value t txt.

(* one item of an array; an empty item can only come from a repeated (multi) key *)
Definition item_value (d : decl) (t : stype) (txt : bytes) : res sval :=
  if is_nil txt then
    if d_required d && negb (d_allow_empty d) && no_default d then Err code_required
    else empty_value t
  else text_value t txt.

Fixpoint items_value (d : decl) (t : stype) (items : list bytes) : res (list sval) :=
  match items with
  | [] => Ok []
  | x :: r =>
    match item_value d t x with
    | Ok v => match items_value d t r with
              | Ok vs => Ok (v :: vs)
              | e => e
              end
    | Err c => Err c
    | UnspecR => UnspecR
    end
  end.

(* array: multi = every occurrence is an item (query and formData only); otherwise the last
   occurrence is split at the separator, items trimmed, empty items dropped *)
Definition array_value (d : decl) (t : stype) (texts : list bytes) : res gval :=
  let multi := bytes_eqb (d_cf d) s_multi in
  if multi && negb (allows_multi d) then Err code_invalid_type
  else
    let items := if multi then texts else split_by_format (List.last texts []) (d_cf d) in
    let empty := match items with [] => true | [x] => is_nil x | _ => false end in
    if (is_nil texts || (negb (d_allow_empty d) && empty)) && d_required d && no_default d then Err code_required
    else match items with
    | [] =>
      match d_default d with
      | None => Ok (VSlice t [])
      | Some (DSlice l) => if forallb (fun v => sval_has_type v t) l then Ok (VSlice t l) else UnspecR
      | Some _ => UnspecR
      end
    | _ => match items_value d t items with
           | Ok vs => Ok (VSlice t vs)
           | Err c => Err c
           | UnspecR => UnspecR
           end
    end.

(* what the property demands for one declaration and one request; valid = verdict of the declared
   validations on the bound value (None = pass). Unspec: declaration outside the modelled language
   or an ill-typed default consulted. Never Panic. *)
Definition spec_outcome (d : decl) (rq : request) (valid : option nat) : outcome :=
  match gtype_for O d with
  | None => Unspec
  | Some gt =>
    let r := match gt with
             | GScalar t => match scalar_value d t (occurrences d rq) with
                            | Ok v => Ok (VScalar v)
                            | Err c => Err c
                            | UnspecR => UnspecR
                            end
             | GSlice t => array_value d t (occurrences d rq)
             end in
    match r with
    | Ok v => match valid with None => Bound v | Some c => R422 (d_name d) c end
    | Err c => R422 (d_name d) c
    | UnspecR => Unspec
    end
  end.

End Spec.

(* requests as the router and net/http produce them: a route binds each path parameter name once;
   header keys are canonical *)
Definition request_wf (rq : request) : bool :=
  forallb (fun p => bytes_eqb (canon_key (fst p)) (fst p) && forallb is_token_byte (fst p)) (r_header rq) &&
  (fix nodup (l : pairs) : bool :=
     match l with
     | [] => true
     | p :: r => negb (has_key (fst p) r) && nodup r
     end) (r_path rq).

(* ---- equality tests for the case checker ---- *)
Definition stype_eqb (a b : stype) : bool :=
  match a, b with
  | SBool, SBool | SStr, SStr | SF32, SF32 | SF64, SF64 => true
  | SFmt f, SFmt g => bytes_eqb f g
  | SInt w, SInt v => Nat.eqb w v
  | _, _ => false
  end.

Definition sval_eqb (a b : sval) : bool :=
  match a, b with
  | VBool x, VBool y => Bool.eqb x y
  | VStr x, VStr y => bytes_eqb x y
  | VInt w x, VInt v y => Nat.eqb w v && Z.eqb x y
  | VF32 x, VF32 y => Z.eqb x y
  | VF64 x, VF64 y => Z.eqb x y
  | VFmt f x, VFmt g y => bytes_eqb f g && bytes_eqb x y
  | _, _ => false
  end.

Definition gval_eqb (a b : gval) : bool :=
  match a, b with
  | VScalar x, VScalar y => sval_eqb x y
  | VSlice t x, VSlice u y => stype_eqb t u && list_eqb sval_eqb x y
  | _, _ => false
  end.

(* ------------------------------------------------------------------ several parameters of one request *)
(* The clause about a failing parameter is quantified over every parameter of the request: the 422 answer
   names exactly the parameters that are rejected when judged one by one (judge = the single-parameter
   outcome for this request), whatever the others do and in whatever order they are visited. *)
Definition rejected (o : outcome) : bool := match o with R422 _ _ => true | _ => false end.

Definition rejected_names (judge : decl -> option nat -> outcome) (ps : list (decl * option nat)) : list bytes :=
  map (fun p => d_name (fst p)) (filter (fun p => rejected (judge (fst p) (snd p))) ps).

Definition names_incl (a b : list bytes) : bool := forallb (fun x => existsb (bytes_eqb x) b) a.
(* equality of two lists of names as sets *)
Definition same_names (a b : list bytes) : bool := names_incl a b && names_incl b a.
