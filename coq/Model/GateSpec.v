(* GateSpec.v — C06 in the property's own words (executable). *)
From V Require Export Gate.

Definition is_nilb {A} (l : list A) : bool := match l with [] => true | _ => false end.

(* the type part of type/subtype *)
Definition type_of (mt : bytes) : option bytes :=
  match split_slash mt with [t; _] => Some t | _ => None end.

(* one entry of the consumes list admits the media type: the same type (case-insensitively, parameters of the
   entry such as charset ignored), or the wildcard entries */* and type/* *)
Definition entry_admits (mt e0 : bytes) : bool :=
  let e := strip_params e0 in
  ci_eqb mt e || ci_eqb star_slash_star e ||
  match type_of mt with Some t => ci_eqb (t ++ slash_star) e | None => false end.

(* admitted by the consumes list; an empty list admits everything *)
Definition admitted (consumes : list bytes) (mt : bytes) : bool :=
  is_nilb consumes || existsb (entry_admits mt) consumes.

(* what must happen to a request: (status of the refusal if any, consumer that decodes the body if any)
   hasbody = the request carries a body; parse = its media type without parameters, None when the header
   cannot be parsed; keys = media types a consumer is registered for on this route *)
Definition expected (hasbody : bool) (parse : option bytes) (consumes keys : list bytes) : option nat * option bytes :=
  if hasbody then
    match parse with
    | None => (Some 400, None)
    | Some mt =>
      if admitted consumes mt then
        if existsb (bytes_eqb mt) keys then (None, Some mt)
        else (Some 500, None)      (* admitted through a wildcard but nobody can decode it (see notes) *)
      else (Some 415, None)
    end
  else (None, None).

(* ---- the same, from what the API author wrote: the operation's consumes list as declared, the API's default
   media type and the media types a consumer is registered for on the API ---- *)

(* the operation's consumes list, to which the API's default media type is always added *)
Definition spec_consumes (declared : list bytes) (default : bytes) : list bytes :=
  if is_nilb default then declared else declared ++ [default].

(* the media type is named by an entry of the list (parameters of the entry ignored) *)
Definition listed (consumes : list bytes) (mt : bytes) : bool :=
  existsb (fun e => bytes_eqb mt (strip_params e)) consumes.
Definition listed_ci (consumes : list bytes) (mt : bytes) : bool :=
  existsb (fun e => ci_eqb mt (strip_params e)) consumes.

(* the consumers available to the operation: those registered on the API for a media type its list names
   (a type admitted only through a wildcard entry has none, see notes) *)
Definition spec_keys (declared : list bytes) (default : bytes) (registered : list bytes) : list bytes :=
  filter (listed (spec_consumes declared default)) registered.

Definition expected_route (hasbody : bool) (parse : option bytes) (declared : list bytes) (default : bytes)
  (registered : list bytes) : option nat * option bytes :=
  expected hasbody parse (spec_consumes declared default) (spec_keys declared default registered).

(* what the property quantifies over: lists spelled in lower case *)
Definition all_lower (l : list bytes) : bool := forallb (fun e => bytes_eqb (lower e) e) l.

(* what must happen to one request of a history: the expectation of the single request to the operation it addresses *)
Definition expected_req (default : bytes) (registered : list bytes) (q : greq) : option nat * option bytes :=
  expected_route (gq_hasbody q) (gq_parse q) (gq_declared q) default registered.

(* ---- the operation's parameter set. The check on the media type applies to every request that carries a body,
   whether or not the operation declares something to read from it. On the reflective entry point:
   ex = what the gate must answer (expected / expected_route); status, cons, ran = status of the refusal served,
   consumer whose Consume ran, the request went through (BindAndValidate answered no error / the handler ran).
   A refusal of the gate is served as it is, no consumer and no handler runs. Past the gate the consumer picked
   decodes the body only for an operation that declares a body parameter; a formData operation may still be refused
   by its form stage (form_refused; which status is not this property's matter) ---- *)
Definition reads_body (k : opkind) : bool := match k with KBody => true | _ => false end.
Definition is_form (k : opkind) : bool := match k with KForm => true | _ => false end.
Definition is_some {A} (o : option A) : bool := match o with Some _ => true | None => false end.
Definition is_none {A} (o : option A) : bool := match o with Some _ => false | None => true end.

Definition reflective_ok (k : opkind) (form_refused : bool) (ex : option nat * option bytes)
  (status : option nat) (cons : option bytes) (ran : bool) : bool :=
  match fst ex with
  | Some s => opt_eqb Nat.eqb status (Some s) && is_none cons && negb ran
  | None =>
    if is_form k && form_refused then is_some status && is_none cons && negb ran
    else is_none status && opt_eqb bytes_eqb cons (if reads_body k then snd ex else None) && ran
  end.

(* the consumer the entry point picked for the request (route.Consumer), when it did not refuse: the gate's *)
Definition picked_ok (ex : option nat * option bytes) (picked : option bytes) : bool :=
  match fst ex with Some _ => true | None => opt_eqb bytes_eqb picked (snd ex) end.

(* ---- the Accept header has no say at the gate: when the response format cannot be negotiated (acc_ok = false) a
   request the gate refuses is still answered with the gate's refusal (400 / 415 / 500), by every entry point; only
   a request the gate lets through may be answered 406 Not Acceptable instead of going on (nothing decoded, nothing
   run). old = the verdict of the clause that holds for a request whose Accept header can be satisfied ---- *)
Definition refused_406 (status : option nat) (cons : option bytes) (ran : bool) : bool :=
  opt_eqb Nat.eqb status (Some 406) && is_none cons && negb ran.

Definition gate_before_format (acc_ok : bool) (ex : option nat * option bytes) (old : bool)
  (status : option nat) (cons : option bytes) (ran : bool) : bool :=
  if acc_ok then old
  else match fst ex with
       | Some _ => old
       | None => old || refused_406 status cons ran
       end.
