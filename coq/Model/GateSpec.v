(* GateSpec.v — C06 in the property's own words (executable). *)
From V Require Export Gate.

Definition is_nilb {A} (l : list A) : bool := match l with [] => true | _ => false end.

(* the type part of type/subtype *)
Definition type_of (mt : bytes) : option bytes :=
  match split_slash mt with [t; _] => Some t | _ => None end.

(* one entry of the consumes list admits the media type: the same type (case-insensitively, parameters of the
   entry such as charset ignored), or the wildcard entries */* and type/* *)
Definition entry_admits (mt e0 : bytes) : bool :=
  let e := strip_params e0 in
  ci_eqb mt e || ci_eqb star_slash_star e ||
  match type_of mt with Some t => ci_eqb (t ++ slash_star) e | None => false end.

(* admitted by the consumes list; an empty list admits everything *)
Definition admitted (consumes : list bytes) (mt : bytes) : bool :=
  is_nilb consumes || existsb (entry_admits mt) consumes.

(* what must happen to a request: (status of the refusal if any, consumer that decodes the body if any)
   hasbody = the request carries a body; parse = its media type without parameters, None when the header
   cannot be parsed; keys = media types a consumer is registered for on this route *)
Definition expected (hasbody : bool) (parse : option bytes) (consumes keys : list bytes) : option nat * option bytes :=
  if hasbody then
    match parse with
    | None => (Some 400, None)
    | Some mt =>
      if admitted consumes mt then
        if existsb (bytes_eqb mt) keys then (None, Some mt)
        else (Some 500, None)      (* admitted through a wildcard but nobody can decode it (see notes) *)
      else (Some 415, None)
    end
  else (None, None).
