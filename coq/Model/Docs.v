(* Docs.v — model of the spec and documentation-UI middlewares (C20). Definitions only.
   middleware/spec.go (Spec), ui_options.go (EnsureDefaults, serveUI), redoc.go / rapidoc.go / swaggerui.go /
   swaggerui_oauth2.go (path and page of each flavour), context.go (uiOptionsForHandler, APIHandler* flavours).
   A request is its URL path (bytes); the method is ignored by the code and by the model. *)
From V Require Export PathCleanD.

Inductive ctype := CTJson | CTHtml | CTPlain.     (* application/json | text/html; charset=utf-8 | text/plain *)

(* what a middleware does with a request *)
Inductive outcome :=
| Serve (ct : ctype) (body : bytes)                (* 200 with this Content-Type and body *)
| Next                                             (* next.ServeHTTP(rw, r) with the very same request *)
| R404 (ct : ctype).                               (* no next handler: 404 *)

(* the common shape of Spec's and serveUI's handler functions *)
Definition handler (pth : bytes) (ct : ctype) (body : bytes) (ct404 : ctype) (has_next : bool) (req : bytes) : outcome :=
  if bytes_eqb (clean req) pth then Serve ct body
  else if has_next then Next
  else R404 ct404.

(* ---- Spec ---- *)
Definition swagger_json : bytes := [115;119;97;103;103;101;114;46;106;115;111;110].   (* swagger.json *)

(* opath: WithSpecPath given?  odoc: WithSpecDocument given? (an empty document name is ignored) *)
Definition spec_doc_path (base : bytes) (opath odoc : option bytes) : bytes :=
  let base' := if is_nil base then [slash] else base in
  let p := match opath with Some x => x | None => [] end in
  let d := match odoc with Some x => if is_nil x then swagger_json else x | None => swagger_json end in
  path_join [base'; p; d].

Definition spec_handler (base : bytes) (opath odoc : option bytes) (b : bytes) (has_next : bool) (req : bytes) : outcome :=
  handler (spec_doc_path base opath odoc) CTJson b CTJson has_next req.

(* ---- UI middlewares ---- *)
Inductive flavour := Redoc | RapiDoc | SwaggerUI | OAuth2Callback.

Record ui_opts := mkUI {
  u_base : bytes; u_path : bytes; u_spec_url : bytes; u_title : bytes;
  u_oauth_cb : bytes;                              (* SwaggerUIOpts.OAuthCallbackURL; unused by Redoc and RapiDoc *)
  u_assets : list bytes                            (* the flavour's own options, in struct order: RedocURL | RapiDocURL |
                                                      SwaggerURL, SwaggerPresetURL, SwaggerStylesURL, Favicon32, Favicon16.
                                                      They are printed into the page and used nowhere else. *)
}.

Definition with_assets (o : ui_opts) (l : list bytes) : ui_opts :=
  {| u_base := u_base o; u_path := u_path o; u_spec_url := u_spec_url o; u_title := u_title o;
     u_oauth_cb := u_oauth_cb o; u_assets := l |}.

Definition docs : bytes := [100;111;99;115].                                           (* docs *)
Definition default_spec_url : bytes := slash :: swagger_json.                         (* /swagger.json *)
Definition default_title : bytes :=                                                   (* API Documentation *)
  [65;80;73;32;68;111;99;117;109;101;110;116;97;116;105;111;110].
Definition oauth2_callback : bytes := [111;97;117;116;104;50;45;99;97;108;108;98;97;99;107].   (* oauth2-callback *)

Definition or_default (s d : bytes) : bytes := if is_nil s then d else s.

(* uiOptions.EnsureDefaults (the gob round trip copies the four shared fields unchanged), then the
   SwaggerUI-specific default of the callback URL *)
Definition ensure_defaults (o : ui_opts) : ui_opts :=
  let b := or_default (u_base o) [slash] in
  let p := or_default (u_path o) docs in
  {| u_base := b; u_path := p;
     u_spec_url := or_default (u_spec_url o) default_spec_url;
     u_title := or_default (u_title o) default_title;
     u_oauth_cb := or_default (u_oauth_cb o) (path_join [b; p; oauth2_callback]);
     u_assets := u_assets o                        (* an empty one becomes the CDN default: a constant, not modelled *) |}.

(* the path a flavour answers on. The OAuth2 callback uses the configured URL as it is (not cleaned). *)
Definition ui_path (f : flavour) (o : ui_opts) : bytes :=
  let o' := ensure_defaults o in
  match f with
  | OAuth2Callback => u_oauth_cb o'
  | _ => path_join [u_base o'; u_path o']
  end.

Definition serve_ui (f : flavour) (o : ui_opts) (page : bytes) (has_next : bool) (req : bytes) : outcome :=
  handler (ui_path f o) CTHtml page CTPlain has_next req.

(* ---- the page: a template whose actions print option values through an escaper ---- *)
Inductive chunk := Lit (b : bytes) | Act (field : nat).

(* esc i v: what the template engine prints for value v at the i-th action (html/template escapes by context,
   so the escaper depends on the position). *)
Fixpoint render (esc : nat -> bytes -> bytes) (val : nat -> bytes) (i : nat) (t : list chunk) : bytes :=
  match t with
  | [] => []
  | Lit b :: r => b ++ render esc val i r
  | Act f :: r => esc i (val f) ++ render esc val (S i) r
  end.

Fixpoint literals (t : list chunk) : bytes :=
  match t with
  | [] => []
  | Lit b :: r => b ++ literals r
  | Act _ :: r => literals r
  end.

(* bytes that can open or close markup or a quoted attribute / script string: < > double quote, single quote *)
Definition is_meta (c : nat) : bool := Nat.eqb c 60 || Nat.eqb c 62 || Nat.eqb c 34 || Nat.eqb c 39.
Definition skeleton (s : bytes) : bytes := filter is_meta s.

(* ---- the API handler flavours (Context.APIHandler, APIHandlerSwaggerUI, APIHandlerRapiDoc) ---- *)
Record api_in := mkAPI {
  a_ctx_base : bytes;                              (* c.BasePath() *)
  a_spec_title : bytes;                            (* info.title of the spec, possibly empty *)
  a_o_base : option bytes;                         (* WithUIBasePath *)
  a_o_path : option bytes;                         (* WithUIPath *)
  a_o_spec_url : option bytes;                     (* WithUISpecURL *)
  a_o_title : option bytes;                        (* WithUITitle *)
  a_url_path : bytes                               (* oracle: url.Parse(SpecURL).Path, empty when it does not parse *)
}.

Definition with_slash (b : bytes) : bytes := if rooted b then b else slash :: b.     (* WithUIBasePath *)
Definition opt_or {A} (o : option A) (d : A) : A := match o with Some x => x | None => d end.

(* uiOptionsForHandler: the options handed to the UI middleware ... *)
Definition api_ui_opts (a : api_in) : ui_opts :=
  {| u_base := with_slash (opt_or (a_o_base a) (a_ctx_base a));
     u_path := opt_or (a_o_path a) [];
     u_spec_url := opt_or (a_o_spec_url a) [];
     u_title := opt_or (a_o_title a) (a_spec_title a);
     u_oauth_cb := [];
     u_assets := [] |}.                            (* the API handlers copy the common options only *)

(* ... and the path the Spec middleware is given: directory and document of the path component of SpecURL *)
Definition api_spec_path (a : api_in) : bytes :=
  let '(d, f) := path_split (a_url_path a) in
  let d' := if is_dot d then [] else d in
  spec_doc_path d' None (Some f).

(* the location the served page tells the browser to load the spec from *)
Definition api_spec_ref (a : api_in) : bytes := u_spec_url (ensure_defaults (api_ui_opts a)).

(* bytes a URL keeps as they are wherever it is written (letters, digits, / . _ ~ : -): a spec URL made of these is
   found in the page literally; any other one is compared through the request a browser makes for it *)
Definition url_safe_byte (c : nat) : bool :=
  (Nat.leb 97 c && Nat.leb c 122) || (Nat.leb 65 c && Nat.leb c 90) || (Nat.leb 45 c && Nat.leb c 58) ||
  Nat.eqb c 95 || Nat.eqb c 126.
Definition url_safe (s : bytes) : bool := forallb url_safe_byte s.

Inductive api_outcome := ASpec | AUI | ARouter.

(* Spec(specPath, raw, UI(uiOpts, RoutesHandler)): both middlewares always have a next handler here *)
Definition api_handler (f : flavour) (a : api_in) (req : bytes) : api_outcome :=
  match handler (api_spec_path a) CTJson [] CTJson true req with
  | Serve _ _ => ASpec
  | Next =>
    match serve_ui f (api_ui_opts a) [] true req with
    | Serve _ _ => AUI
    | Next => ARouter
    | R404 _ => ARouter
    end
  | R404 _ => ARouter
  end.

(* ---- several middlewares / API handlers built in ONE process, requested afterwards ----
   A member is a UI middleware or an API handler together with the page it serves when it is the only thing ever
   built (an oracle: the harness builds it alone and fetches the page at once). Building has no memory: whatever else is
   built before or after, side by side or as the next handler, a member answers as if alone. *)
Inductive member :=
| MUI (f : flavour) (o : ui_opts) (page : bytes)
| MAPI (f : flavour) (a : api_in) (page : bytes).

Inductive houtcome :=
| HServe (ct : ctype) (body : bytes)               (* 200, this content type, this body *)
| HSpec                                            (* API handler: the spec document *)
| HNext                                            (* the handler behind the (last) middleware got the very same request *)
| H404 (ct : ctype)
| HRouter.                                         (* API handler: handed to the router *)

Definition member_path (m : member) : bytes :=
  match m with MUI f o _ => ui_path f o | MAPI f a _ => ui_path f (api_ui_opts a) end.
Definition member_page (m : member) : bytes := match m with MUI _ _ p => p | MAPI _ _ p => p end.
Definition is_ui_member (m : member) : bool := match m with MUI _ _ _ => true | MAPI _ _ _ => false end.

(* a member requested on its own (side by side with the others) *)
Definition member_handler (m : member) (has_next : bool) (req : bytes) : houtcome :=
  match m with
  | MUI f o page =>
    match serve_ui f o page has_next req with Serve ct b => HServe ct b | Next => HNext | R404 ct => H404 ct end
  | MAPI f a page =>
    match api_handler f a req with ASpec => HSpec | AUI => HServe CTHtml page | ARouter => HRouter end
  end.

(* UI middlewares chained: each one is the next handler of the one before, e.g. SwaggerUI(o, SwaggerUIOAuth2Callback(o, next));
   has_next: is there a handler behind the last one *)
Fixpoint chain_handler (ms : list member) (has_next : bool) (req : bytes) : houtcome :=
  match ms with
  | [] => if has_next then HNext else H404 CTPlain
  | m :: r =>
    match r with
    | [] => member_handler m has_next req
    | _ :: _ => match member_handler m true req with HNext => chain_handler r has_next req | x => x end
    end
  end.
