(* APIValidate.v — model of middleware/untyped/api.go: the Register* normalisation, validate and verify,
   with the description side (what analysis.Spec requires) computed from the description's consumes,
   produces, security and operations. Definitions only.
   Go maps are lists here; verify's answer is proved independent of their order (APIValidateProofs). *)
From V Require Export Respond.
From V Require Export PathCleanLib.

(* ---- byte strings ordered as sort.Strings orders them ---- *)
Fixpoint bytes_leb (a b : bytes) : bool :=
  match a, b with
  | [], _ => true
  | _ :: _, [] => false
  | x :: a', y :: b' => if x <? y then true else if y <? x then false else bytes_leb a' b'
  end.
Fixpoint insert_sorted (x : bytes) (l : list bytes) : list bytes :=
  match l with
  | [] => [x]
  | y :: r => if bytes_leb x y then x :: l else y :: insert_sorted x r
  end.
Definition sort_bytes (l : list bytes) : list bytes := fold_right insert_sorted [] l.

(* ---- the description ---- *)
Record opdesc := mkop {
  op_method : bytes;                          (* as the analyzer spells it: upper case *)
  op_path : bytes;
  op_consumes : list bytes;
  op_produces : list bytes;
  op_security : option (list (list bytes))    (* None: not stated; Some alternatives, each a list of scheme names *)
}.
Record desc := mkdesc {
  g_base : bytes;                             (* basePath as the description writes it; empty when absent *)
  g_consumes : list bytes;
  g_produces : list bytes;
  g_security : list (list bytes);
  g_defs : list bytes;                        (* names under securityDefinitions *)
  g_ops : list opdesc
}.

Definition SP : byte := 32.
Definition op_key (method path : bytes) : bytes := upper method ++ SP :: path.

Definition op_schemes (o : opdesc) : list bytes :=
  match op_security o with Some alts => concat alts | None => [] end.

(* analysis.Spec: RequiredConsumes / RequiredProduces / RequiredSecuritySchemes / OperationMethodPaths (as sets) *)
Definition required_consumes (d : desc) : list bytes := g_consumes d ++ flat_map op_consumes (g_ops d).
Definition required_produces (d : desc) : list bytes := g_produces d ++ flat_map op_produces (g_ops d).
Definition required_schemes (d : desc) : list bytes := concat (g_security d) ++ flat_map op_schemes (g_ops d).
Definition required_ops (d : desc) : list bytes := map (fun o => op_key (op_method o) (op_path o)) (g_ops d).

(* ---- the registrations ---- *)
Inductive reg :=
| RConsumer (mt : bytes)
| RProducer (mt : bytes)
| ROperation (method path : bytes)
| RAuth (scheme : bytes)
| RWithoutJSON.

Record api := mkapi {
  a_consumers : list bytes;
  a_producers : list bytes;
  a_ops : list bytes;
  a_auths : list bytes;
  a_default : bytes           (* DefaultProduces = DefaultConsumes *)
}.

Definition add_key (k : bytes) (l : list bytes) : list bytes := if mem_bytes k l then l else l ++ [k].
Definition del_key (k : bytes) (l : list bytes) : list bytes := filter (fun x => negb (bytes_eqb x k)) l.

(* NewAPI: JSON defaults loaded *)
Definition new_api : api := mkapi [JSON_MIME] [JSON_MIME] [] [] JSON_MIME.

Definition apply_reg (a : api) (r : reg) : api :=
  match r with
  | RConsumer mt => mkapi (add_key (lower mt) (a_consumers a)) (a_producers a) (a_ops a) (a_auths a) (a_default a)
  | RProducer mt => mkapi (a_consumers a) (add_key (lower mt) (a_producers a)) (a_ops a) (a_auths a) (a_default a)
  | ROperation m p => mkapi (a_consumers a) (a_producers a) (add_key (op_key m p) (a_ops a)) (a_auths a) (a_default a)
  | RAuth s => mkapi (a_consumers a) (a_producers a) (a_ops a) (add_key s (a_auths a)) (a_default a)
  | RWithoutJSON => mkapi (del_key JSON_MIME (a_consumers a)) (del_key JSON_MIME (a_producers a)) (a_ops a) (a_auths a) []
  end.
Definition build_api (rs : list reg) : api := fold_left apply_reg rs new_api.

(* ---- verify / validate ---- *)
Record failure := mkfail {
  f_section : nat;                 (* 0 consumes, 1 produces, 2 operation, 3 auth scheme, 4 security definitions *)
  f_unspecified : list bytes;      (* MissingSpecification: registered, not required *)
  f_unregistered : list bytes      (* MissingRegistration: required, not registered *)
}.

Definition verify (section : nat) (registrations expectations : list bytes) : option failure :=
  let unspecified := sort_bytes (filter (fun v => negb (mem_bytes v expectations)) registrations) in
  let unregistered := sort_bytes (dedup (filter (fun v => negb (mem_bytes v registrations)) expectations)) in
  match unregistered, unspecified with
  | [], [] => None
  | _, _ => Some (mkfail section unspecified unregistered)
  end.

Definition or_else (a b : option failure) : option failure := match a with Some f => Some f | None => b end.

Definition validate (a : api) (d : desc) : option failure :=
  or_else (verify 0 (a_consumers a) (required_consumes d))
  (or_else (verify 1 (a_producers a) (required_produces d))
  (or_else (verify 2 (a_ops a) (required_ops d))
  (or_else (verify 3 (a_auths a) (required_schemes d))
           (verify 4 (g_defs d) (required_schemes d))))).

(* ---- request time: what AddRoute puts in the route of an operation ---- *)
Definition effective_consumes (d : desc) (o : opdesc) : list bytes :=
  match op_consumes o with [] => g_consumes d | l => l end.
Definition effective_produces (d : desc) (o : opdesc) : list bytes :=
  match op_produces o with [] => g_produces d | l => l end.
Definition effective_security (d : desc) (o : opdesc) : list (list bytes) :=
  match op_security o with Some alts => alts | None => g_security d end.

(* ---- the route table: DefaultRouter / AddRoute ----
   Every declared operation is handed to AddRoute under path.Join(basePath, template). AddRoute recovers the
   template by cutting the cleaned base path (without a trailing slash) off the front, an empty rest being the
   root template, and asks the API for the handler of (method, template); without a handler no route is added.
   The handler table (newRoutableUntypedAPI) holds the declared operations that have a registered handler. *)
Definition trim_prefix (pre s : bytes) : bytes := if has_prefix pre s then skipn (length pre) s else s.
Definition route_base (base : bytes) : bytes :=
  let bp := clean base in if has_suffix [SL] bp then removelast bp else bp.
Definition full_route (d : desc) (o : opdesc) : bytes := path_join (g_base d) (op_path o).
Definition route_template (d : desc) (o : opdesc) : bytes :=
  match trim_prefix (route_base (g_base d)) (full_route d o) with
  | [] => [SL]
  | t => t
  end.
Definition handler_for (a : api) (d : desc) (method path : bytes) : bool :=
  mem_bytes (op_key method path) (a_ops a) && mem_bytes (op_key method path) (required_ops d).
Definition route_added (a : api) (d : desc) (o : opdesc) : bool :=
  handler_for a d (op_method o) (route_template d o).

(* the route's produces (after the declared-order repair) and the answer to a plain GET-like request
   without Accept header whose handler returns a value, for an operation declaring a 200 response *)
Definition route_of (a : api) (d : desc) (o : opdesc) : route :=
  mkroute (route_produces_of (a_default a) (effective_produces d o)) true [200].
Definition exercise (a : api) (d : desc) (o : opdesc) : outcome :=
  serve (a_default a) (a_producers a) (route_of a d o) [] false NoAuth DValue.

(* ---- a history on ONE API value: batches of registrations, Validate() after each batch ----
   Validate keeps nothing between calls: the k-th answer is what a fresh API value holding every
   registration made so far answers. *)
Fixpoint validate_history (a : api) (d : desc) (steps : list (list reg)) : list (option failure) :=
  match steps with
  | [] => []
  | s :: r => let a' := fold_left apply_reg s a in validate a' d :: validate_history a' d r
  end.

(* ---- one request to a declared operation of the API, through the whole handler ----
   The request: the operation addressed (index in the description), the Content-Type header as sent (empty = no body),
   the Accept header lines (none = header absent), the schemes for which it carries valid credentials. *)
Record request := mkreq { rq_op : nat; rq_ct : bytes; rq_accept : list bytes; rq_creds : list bytes }.
(* What comes back. Outcome: 0 the handler of that operation ran and 200 was written, 1 answered 500 no consumer registered,
   2 panic cannot find a producer, 3 anything else, 4 not routed (404 or 405), 5 content type refused (415),
   6 nothing acceptable (406), 7 not authenticated (401). For outcome 0: the Content-Type of the response and the
   key of the producer that wrote it (empty for the body-less answer to HEAD); both empty otherwise. *)
Record result := mkres { rs_outcome : nat; rs_ctype : bytes; rs_producer : bytes }.
Definition res_fail (k : nat) : result := mkres k [] [].

(* mime.ParseMediaType on a well-formed header: the text before the first semicolon, lower-cased, blanks trimmed *)
Definition trim_space (s : bytes) : bytes := rev (drop_while is_space (rev (drop_while is_space s))).
Definition media_type_of (ct : bytes) : bytes := lower (trim_space (split_semi ct)).

(* RouteAuthenticators.Authenticate over authenticators that accept exactly the credentials of their own scheme:
   an alternative applies when each of its schemes has a registered authenticator and credentials in the request;
   the empty alternative allows anonymous access when no other applies; no alternatives = no authentication *)
Definition is_nil {A} (l : list A) : bool := match l with [] => true | _ => false end.
Definition alt_applies (auths creds alt : list bytes) : bool :=
  negb (is_nil alt) && forallb (fun s => mem_bytes s auths && mem_bytes s creds) alt.
Definition auth_passes (auths : list bytes) (alts : list (list bytes)) (creds : list bytes) : bool :=
  is_nil alts || existsb (alt_applies auths creds) alts || existsb is_nil alts.

(* the route's consumes: the admitted media types, then the API default unless it is there up to letter case
   (AddRoute treats consumes and produces alike) *)
Definition route_consumes_of (a : api) (d : desc) (o : opdesc) : list bytes :=
  route_produces_of (a_default a) (effective_consumes d o).
(* validateContentType for consumes entries without wildcards: nothing declared admits anything *)
Definition content_admitted (allowed : list bytes) (mt : bytes) : bool :=
  is_nil allowed || contains_ci (map normalize_offer allowed) mt.
(* route.Consumers = api.ConsumersFor(normalizeOffers(route.Consumes)), looked up under the parsed media type *)
Definition consumer_found (a : api) (allowed : list bytes) (mt : bytes) : bool :=
  mem_bytes mt (map normalize_offer allowed) && mem_bytes mt (a_consumers a).

(* Two declared operations of one method whose templates path.Clean maps to one route (F-C19-2, the colliding sub-case):
   AddRoute finds, for the operation whose template is not in normal form, the handler registered under the cleaned
   template, i.e. the OTHER operation's handler, and adds a second record under the same route. Which of the two records
   the router keeps depends on a map order (consumes, produces and security of the winner apply: unspecified here); the
   handler is the other operation's in both, so a request to the operation with the unclean template never runs its own
   handler. *)
Definition own_template (d : desc) (o : opdesc) : bool := bytes_eqb (route_template d o) (op_path o).
Definition same_route (d : desc) (o o' : opdesc) : bool :=
  bytes_eqb (upper (op_method o)) (upper (op_method o')) && bytes_eqb (full_route d o) (full_route d o') &&
  negb (bytes_eqb (op_path o) (op_path o')).
Definition route_collides (d : desc) (o : opdesc) : bool := existsb (same_route d o) (g_ops d).

(* the method of the operation is HEAD (the analyzer spells methods in upper case; folded all the same) *)
Definition HEAD_M : bytes := [72; 69; 65; 68].
Definition is_head (o : opdesc) : bool := bytes_eqb (upper (op_method o)) HEAD_M.

(* router, security, content type, response format, handler returning a value (C08's serve).
   A request is sent with the method of the operation it addresses. To a HEAD request Respond writes the status and the
   Content-Type header and nothing else: no producer is looked up (none can be missing), the body stays empty. *)
Definition serve_request (a : api) (d : desc) (o : opdesc) (rq : request) : result :=
  if negb (route_added a d o) then res_fail 4 else
  if negb (own_template d o) then res_fail 3 else     (* routed to the handler of the operation declared under the cleaned template *)
  if negb (auth_passes (a_auths a) (effective_security d o) (rq_creds rq)) then res_fail 7 else
  let allowed := route_consumes_of a d o in
  let mt := media_type_of (rq_ct rq) in
  let has_body := negb (is_nil (rq_ct rq)) in
  if has_body && negb (content_admitted allowed mt) then res_fail 5 else
  if has_body && negb (consumer_found a allowed mt) then res_fail 1 else
  match parse_accept (rq_accept rq) with
  | None => res_fail 3
  | Some specs =>
    match serve (a_default a) (a_producers a) (route_of a d o) specs (is_head o) NoAuth DValue with
    | Panicked PNoProducer _ => res_fail 2
    | Panicked PNilRoute _ => res_fail 3
    | Responded r =>
      match o_error r, o_producer r with
      | Some e, _ => if Nat.eqb e 406 then res_fail 6 else res_fail 3
      | None, Some p => mkres 0 (o_ctype r) p
      | None, None => if is_head o then mkres 0 (o_ctype r) [] else res_fail 3
      end
    end
  end.

Definition serve_one (a : api) (d : desc) (rq : request) : result :=
  match nth_error (g_ops d) (rq_op rq) with
  | None => res_fail 3
  | Some o => serve_request a d o rq
  end.
(* a history of requests on ONE handler: the handler keeps nothing between requests *)
Definition serve_history (a : api) (d : desc) (rqs : list request) : list result := map (serve_one a d) rqs.
