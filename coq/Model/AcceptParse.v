(* AcceptParse.v — model of middleware/header/header.go: octet classes, skipSpace,
   expectTokenSlash, expectQuality, ParseAccept. Definitions only. *)
From V Require Export Bytes.

(* ---- octet classes (init() in header.go) ---- *)
Definition separators : bytes :=
  [32; 9; 34; 40; 41; 44; 47; 58; 59; 60; 61; 62; 63; 64; 91; 93; 92; 123; 125].
  (* space tab dquote ( ) , / : ; < = > ? @ [ ] backslash { } *)

Definition is_space (c : byte) : bool :=
  Nat.eqb c 32 || Nat.eqb c 9 || Nat.eqb c 13 || Nat.eqb c 10.

Definition is_ctl (c : byte) : bool := (c <=? 31) || Nat.eqb c 127.
Definition is_char (c : byte) : bool := c <=? 127.
Definition is_token (c : byte) : bool :=
  is_char c && negb (is_ctl c) && negb (mem_byte c separators).

(* octetTypes[c] as the pair of flags (isToken=1, isSpace=2) *)
Definition octet_type (c : byte) : nat :=
  (if is_token c then 1 else 0) + (if is_space c then 2 else 0).

(* ---- scanners ---- *)
Definition skip_space (s : bytes) : bytes := drop_while is_space s.

Definition is_token_slash (c : byte) : bool := is_token c || Nat.eqb c 47.
Definition expect_token_slash (s : bytes) : bytes * bytes := span is_token_slash s.
Definition expect_token (s : bytes) : bytes * bytes := span is_token s.

(* ---- quality values ----
   A quality is the exact rational q0 + qn/qd (qd > 0). Go computes
   q + float64(n)/float64(d); with at most 15 accumulated digits n < d <= 10^15 < 2^53,
   so n, d and the quotient's nearest double are determined by this rational. *)
Record qv := mkq { q0 : Z; qn : Z; qd : Z }.

Definition q_neg1 : qv := mkq (-1) 0 1.
Definition q_one : qv := mkq 1 0 1.
Definition q_num (q : qv) : Z := q0 q * qd q + qn q.   (* numerator over qd *)
Definition q_lt (a b : qv) : bool := (q_num a * qd b <? q_num b * qd a)%Z.
Definition q_eq (a b : qv) : bool := (q_num a * qd b =? q_num b * qd a)%Z.
Definition q_is0 (a : qv) : bool := (q_num a =? 0)%Z.
Definition q_isneg (a : qv) : bool := (q_num a <? 0)%Z.

Definition is_digit (c : byte) : bool := (48 <=? c) && (c <=? 57).
Definition max_quality_digits : nat := 15.

(* the digit loop: accumulates the first max_quality_digits digits, consumes all of them *)
Fixpoint q_digits (i : nat) (n d : Z) (s : bytes) : Z * Z * bytes :=
  match s with
  | [] => (n, d, [])
  | b :: r =>
    if is_digit b then
      if i <? max_quality_digits
      then q_digits (S i) (n * 10 + Z.of_nat b - 48)%Z (d * 10)%Z r
      else q_digits (S i) n d r
    else (n, d, s)
  end.

(* after the integer digit: an optional fraction *)
Definition q_cont (q : Z) (s' : bytes) : qv * bytes :=
  match s' with
  | c :: s'' => if Nat.eqb c 46
                then let '(n, d, rest) := q_digits 0 0%Z 1%Z s'' in (mkq q n d, rest)
                else (mkq q 0 1, s')
  | [] => (mkq q 0 1, s')
  end.

Definition expect_quality (s : bytes) : qv * bytes :=
  match s with
  | [] => (q_neg1, [])
  | c :: r =>
    if Nat.eqb c 48 then q_cont 0%Z r
    else if Nat.eqb c 49 then q_cont 1%Z r
    else if Nat.eqb c 46 then q_cont 0%Z s
    else (q_neg1, [])
  end.

(* ---- ParseAccept ---- *)
Record spec := mkspec { sval : bytes; sq : qv }.

Definition Q_EQ : bytes := [113; 61].      (* q= *)
Definition COMMA : byte := 44.
Definition SEMI : byte := 59.

(* looking for the weight among the parameters (entered with s space-skipped, at the start of a parameter):
     for !HasPrefix(s,q=) && s nonempty && !HasPrefix(s,comma) {
        for s nonempty && !HasPrefix(s,semicolon) && !HasPrefix(s,comma) { s = s[1:] }   -- skip this parameter
        if HasPrefix(s,semicolon) { s = skipSpace(s[1:]) } }
   as one structural scan: at_start = at the start of a parameter (spaces still to be skipped) *)
Fixpoint seek_q_at (at_start : bool) (s : bytes) : bytes :=
  match s with
  | [] => []
  | c :: r =>
    if at_start then
      if is_space c then seek_q_at true r
      else if has_prefix Q_EQ s then s
      else if Nat.eqb c COMMA then s
      else if Nat.eqb c SEMI then seek_q_at true r
      else seek_q_at false r
    else
      if Nat.eqb c SEMI then seek_q_at true r
      else if Nat.eqb c COMMA then s
      else seek_q_at false r
  end.
Definition seek_q (s : bytes) : bytes := seek_q_at true s.

(* after the weight: if a semicolon follows, everything up to the next comma is ignored *)
Fixpoint to_comma (s : bytes) : bytes :=
  match s with
  | [] => []
  | c :: r => if Nat.eqb c COMMA then s else to_comma r
  end.
Definition skip_ext (s : bytes) : bytes :=
  match s with
  | c :: _ => if Nat.eqb c SEMI then to_comma s else s
  | [] => []
  end.

(* one header line; None = out of fuel (excluded by parse_line_total) *)
Fixpoint parse_line (fuel : nat) (s : bytes) (acc : list spec) : option (list spec) :=
  match fuel with
  | O => None
  | S fuel' =>
    let '(v, s1) := expect_token_slash s in
    match v with
    | [] => Some acc
    | _ =>
      let s2 := skip_space s1 in
      let after (q : qv) (s3 : bytes) : option (list spec) :=
        let acc' := acc ++ [mkspec v q] in
        match skip_space s3 with
        | c :: s4 => if Nat.eqb c COMMA then parse_line fuel' (skip_space s4) acc' else Some acc'
        | [] => Some acc'
        end in
      match s2 with
      | c :: s2' =>
        if Nat.eqb c SEMI then
          let s3 := seek_q (skip_space s2') in
          if has_prefix Q_EQ s3 then
            let '(q, s4) := expect_quality (skipn 2 s3) in
            if q_isneg q then Some acc else after q (skip_ext (skip_space s4))
          else after q_one s3
        else after q_one s2
      | [] => after q_one s2
      end
    end
  end.

Fixpoint parse_lines (ls : list bytes) (acc : list spec) : option (list spec) :=
  match ls with
  | [] => Some acc
  | l :: r => match parse_line (S (length l)) l acc with
              | Some acc' => parse_lines r acc'
              | None => None
              end
  end.

Definition parse_accept (lines : list bytes) : option (list spec) := parse_lines lines [].
