(* StreamCodecsSpec.v — C15 in its own words: what an observable of Consume / Produce must satisfy.
   These predicates do not look at the dispatch of the model; they speak about the reader / writer
   script, the destination / source kind, and the observable (panicked?, returned error, content of
   the destination or sink after the call, Close counters). Check_C15 evaluates them on the
   observable of the IMPLEMENTATION; StreamCodecsProofs proves them of the model for all inputs. *)
From V Require Export StreamCodecs.

Definition codec_eqb (a b : codec) : bool :=
  match a, b with ByteStream, ByteStream | Text, Text => true | _, _ => false end.

Definition opt_bytes_eqb (a b : option bytes) : bool :=
  match a, b with
  | Some x, Some y => bytes_eqb x y
  | None, None => true
  | _, _ => false
  end.

Definition opt_err_eqb (a b : option err) : bool :=
  match a, b with
  | Some x, Some y => err_eqb x y
  | None, None => true
  | _, _ => false
  end.

Definition is_eof (t : err) : bool := match t with EOF => true | _ => false end.
Definition is_nilb {A} (l : list A) : bool := match l with [] => true | _ => false end.
Definition is_some {A} (o : option A) : bool := match o with Some _ => true | None => false end.

(* a reader as the cases give it: nil, or the steps of its script and whether it is an io.Closer *)
Definition live (rd : option (list rstep * bool)) : option (rstate * bool) :=
  match rd with Some (l, cl) => Some (Live l, cl) | None => None end.

(* ---------- Consume ---------- *)
(* the destination kinds each codec documents as supported and that can succeed *)
Definition dk_supported (c : codec) (d : dkind) : bool :=
  match c, d with
  | ByteStream, DReaderFrom _ | ByteStream, DWriter _ => true
  | ByteStream, DBinUnm _ None => true
  | ByteStream, DPtrAny (AString _) | ByteStream, DPtrAny (ABytes _) => true
  | ByteStream, DPtrBytes _ | ByteStream, DPtrString _ => true
  | Text, DTextUnm _ None | Text, DPtrString _ => true
  | _, _ => false
  end.

(* stream destinations append to what they hold, the others are overwritten *)
Definition dk_prefix (d : dkind) : bytes :=
  match d with DReaderFrom pre => pre | DWriter w => w_got w | _ => [] end.

(* the destination holds something before the call that is not what an empty input stands for *)
Definition dk_prepopulated (d : dkind) : bool :=
  match d with
  | DReaderFrom _ | DWriter _ => false
  | _ => match dk_initial d with Some (_ :: _) => true | _ => false end
  end.

(* the only codec with a Close option is the byte stream codec *)
Definition expected_closes (c : codec) (close_opt closable : bool) : nat :=
  match c with ByteStream => closes_of close_opt closable | Text => 0 end.

(* The one documented exception (text.go: an empty buffer is not unmarshalled): the text consumer
   answers an empty input with nil for every destination and leaves it untouched. *)
Definition text_empty_exception (c : codec) (data : bytes) : bool :=
  codec_eqb c Text && is_nilb data.

Definition consume_ok (c : codec) (close_opt : bool) (rd : option (list rstep * bool)) (d : dkind)
           (panicked : bool) (e : option err) (stored : option bytes) (closes : nat) : bool :=
  negb panicked &&
  match rd with
  | None => is_some e && Nat.eqb closes 0                       (* nil reader: an error *)
  | Some (l, closable) =>
    (* closed if and only if the option was requested (and there is something to close) *)
    Nat.eqb closes (expected_closes c close_opt closable) &&
    match e with
    | Some _ => true
    | None =>
      (* success: the stream ended in io.EOF (a read error is never a shorter success) and the
         destination holds exactly the bytes read; an unsupported / nil / typed-nil destination
         never succeeds *)
      is_eof (steps_term l) &&
      if text_empty_exception c (steps_bytes l)
      then (if dk_supported c d then opt_bytes_eqb stored (Some (dk_prefix d ++ steps_bytes l))
            else opt_bytes_eqb stored (dk_initial d))
      else dk_supported c d && opt_bytes_eqb stored (Some (dk_prefix d ++ steps_bytes l))
    end
  end.

(* ---------- Produce ---------- *)
Definition json_bytes (jo : bytes * option err) : option bytes :=
  match snd jo with None => Some (fst jo) | Some _ => None end.

(* the bytes a source stands for under a codec; None: a source that cannot succeed *)
Definition src_bytes (c : codec) (src : skind) (jo : bytes * option err) : option bytes :=
  match src with
  | SNil | SUnsupported | SNilPtr => None
  | SBuffer b => Some b
  | SError m => Some m
  | SString b => Some b
  | SJson => json_bytes jo
  | SWriterToRC b => match c with ByteStream => Some b | Text => json_bytes jo end
  | SReader s _ =>
    match c with
    | ByteStream => if is_eof (script_term s) then Some (script_bytes s) else None
    | Text => json_bytes jo
    end
  | SBinMar b r =>
    match c with
    | ByteStream => match r with None => Some b | Some _ => None end
    | Text => json_bytes jo
    end
  | SBytes b => match c with ByteStream => Some b | Text => json_bytes jo end
  | STextMar b r =>
    match c with
    | Text => match r with None => Some b | Some _ => None end
    | ByteStream => json_bytes jo
    end
  | SStringer b => match c with Text => Some b | ByteStream => json_bytes jo end
  end.

(* only the byte stream producer closes a payload *)
Definition expected_pcloses (c : codec) (src : skind) : nat :=
  match c with ByteStream => if src_is_readcloser src then 1 else 0 | Text => 0 end.

Definition produce_ok (c : codec) (close_opt : bool) (wr : option (wstate * bool)) (src : skind)
           (jo : bytes * option err)
           (panicked : bool) (e : option err) (got : bytes) (wcloses pcloses : nat) : bool :=
  negb panicked &&
  Nat.eqb pcloses (expected_pcloses c src) &&                  (* closable payload: exactly once *)
  match wr with
  | None => is_some e && Nat.eqb wcloses 0                      (* nil writer: an error *)
  | Some (w, closable) =>
    Nat.eqb wcloses (expected_closes c close_opt closable) &&
    match e with
    | Some _ => true
    | None =>
      (* success: the sink received exactly the source bytes. A writer that reports a short count
         with a nil error breaks the io.Writer contract; a single Write of the codec to such a
         writer is outside the property (io.Copy and Buffer.WriteTo detect it all the same). *)
      match src_bytes c src jo with
      | Some b => bytes_eqb got (w_got w ++ b) || negb (wlawful_next b w)
      | None => false
      end
    end
  end.

(* ---------- JSON / XML / YAML round trip: number slots ---------- *)
(* The encoders are not modelled. What the property says about a number that travels through a
   producer and a consumer is stated on texts: the harness walks the value it gave to the producer
   and the value the consumer rebuilt in one fixed order (struct fields in declaration order, map
   keys sorted, elements by index, through pointers and interfaces) and prints every leaf as
   path = kind : exact decimal text. The clause holds when no call failed and the two lists are the
   same texts, byte for byte: a leaf that went through a float64 on the way shows its rounded
   digits and differs. *)
Definition leaves_preserved (want got : list bytes) : bool := list_eqb bytes_eqb want got.

Definition number_slots_ok (panicked failed : bool) (want got : list bytes) : bool :=
  negb panicked && negb failed && negb (is_nilb want) && leaves_preserved want got.

(* ---------- JSON / XML / YAML round trip: documents with drawn names ---------- *)
(* Same reading as for the number slots, for documents whose element / attribute / key names and
   texts are drawn from a pool (names of HTML void elements, dashes, dots, digits, mixed case,
   namespaces; texts with entity-like and CDATA-like content): no call failed, and the leaves of
   the value the consumer rebuilt are the leaves of the value the producer was given. *)
Definition doc_leaves_ok (panicked failed : bool) (want got : list bytes) : bool :=
  number_slots_ok panicked failed want got.

(* ---------- histories: one codec value used for several calls ---------- *)
(* A codec value carries no state from one call to the next: every call of a history must answer
   what the same call answers on a fresh codec value. For the modelled codecs the expected
   observable of a history is therefore the map of the single-call model over its calls. *)
Definition consume_history (c : codec) (bufm1 : nat) (pol : nat -> nat) (close_opt : bool)
           (l : list (option (list rstep * bool) * dkind)) : list cres :=
  map (fun x => consume c bufm1 pol close_opt (live (fst x)) (snd x)) l.

Definition produce_history (c : codec) (bufm1 : nat) (close_opt : bool)
           (l : list (option (wstate * bool) * skind * (bytes * option err))) : list pres :=
  map (fun x => produce c bufm1 close_opt (fst (fst x)) (snd (fst x)) (snd x)) l.

(* the situation of F-C15-2, as a function of one call *)
Definition call_excepted (cd : codec) (x : option (list rstep * bool) * dkind) : bool :=
  match fst x with
  | Some (l, _) => text_empty_exception cd (steps_bytes l) && dk_supported cd (snd x) && dk_prepopulated (snd x)
  | None => false
  end.

(* JSON / XML / YAML calls of a history (encoders not modelled: stated on the observables).
   Produce of a supported value into a writer script that accepts everything (wfail = false) or
   fails at some offset and keeps failing (wfail = true); pre = what the sink held, full = the
   bytes a fresh producer writes for this value into an accepting sink; want / back = leaves of the
   value and of what a fresh consumer rebuilds from the bytes this call added to the sink.
   Success only on a healthy writer, the sink then holds pre ++ full, nothing before it and
   nothing after it, and that reads back as the value; a failure is reported as an error and the
   sink holds a prefix of pre ++ full. *)
Definition doc_produce_ok (wfail : bool) (pre full : bytes) (panicked : bool) (e : option err)
           (got : bytes) (want back : list bytes) : bool :=
  negb panicked &&
  match e with
  | None => negb wfail && bytes_eqb got (pre ++ full) && negb (is_nilb want) && leaves_preserved want back
  | Some _ => wfail && has_prefix got (pre ++ full)
  end.

(* Consume of the bytes a fresh producer wrote for a value, through a reader script that delivers
   them all and ends in io.EOF (rfail = false) or fails strictly inside the document: success
   only on the healthy reader, and then the destination reads as the value; want / got = leaves. *)
Definition doc_consume_ok (rfail : bool) (panicked : bool) (e : option err)
           (want got : list bytes) : bool :=
  negb panicked &&
  match e with
  | None => negb rfail && negb (is_nilb want) && leaves_preserved want got
  | Some _ => rfail
  end.
