(* Binder.v -- C03: model of the untyped parameter binder (middleware/parameter.go, request.go
   UntypedRequestBinder.Bind with a map target, values.go, router.go RouteParams.GetOK) for non-body
   parameters. Definitions only. The model follows the Go control flow of the REPAIRED tree
   (fix commits for F-C03-1, F-C03-2, F-C03-3 in the scratch worktree; see notes/C03.md).

   Exact: value sources and lookups, last-value rule, collection formats (strings.Split,
   strings.TrimSpace incl. the non-ASCII code points of unicode.IsSpace), required/default/empty rules,
   integers (strconv.ParseInt base 10 + OverflowInt), booleans (swag.ConvertBool, ASCII lowering),
   header key canonicalisation (textproto.CanonicalMIMEHeaderKey).
   Oracles (record [oracles], supplied per case by the harness from the real functions):
   strfmt registry membership, UnmarshalText of a registered format, strconv.ParseFloat. *)
From V Require Export Bytes Decimal.
From Coq Require Import String.
Local Open Scope nat_scope.

(* ------------------------------------------------------------------ declarations *)
Inductive loc := LQuery | LHeader | LPath | LForm.
Inductive kind := KString | KInteger | KNumber | KBoolean | KArray | KFile.

(* Go types of scalar targets *)
Inductive stype := SBool | SStr | SFmt (f : bytes) | SInt (w : nat) | SF32 | SF64.
Inductive gtype := GScalar (t : stype) | GSlice (t : stype).

(* dynamic values handed to the handler: Go type and value *)
Inductive sval :=
| VBool (b : bool)
| VStr (s : bytes)
| VInt (w : nat) (z : Z)          (* intw(z) *)
| VF32 (bits : Z)                 (* math.Float32bits *)
| VF64 (bits : Z)                 (* math.Float64bits *)
| VFmt (f : bytes) (txt : bytes). (* value of the Go type registered for format f, rendered by the harness *)
Inductive gval := VScalar (v : sval) | VSlice (t : stype) (l : list sval).

(* a declared default that conforms to the declared type, already as a value of the target type
   (the harness converts the JSON default; DIll = does not conform: outside the description language) *)
Inductive dval := DScalar (v : sval) | DSlice (l : list sval) | DIll.

Record decl := {
  d_name : bytes;
  d_in : loc;
  d_kind : kind;
  d_format : bytes;
  d_item_kind : option kind;      (* items.type for arrays *)
  d_item_format : bytes;
  d_cf : bytes;                   (* collectionFormat as written *)
  d_required : bool;
  d_default : option dval;
  d_allow_empty : bool
}.

Definition pairs := list (bytes * bytes).

(* the parsed request: every source is the list of (key, value) in the order the values were appended
   to the Go map entry (url.ParseQuery, textproto header parsing, ParseForm) *)
Record request := {
  r_query : pairs;
  r_header : pairs;     (* keys as net/http stores them (canonical) *)
  r_path : pairs;       (* RouteParams, in route order *)
  r_form : pairs
}.

Record oracles := {
  o_registered : bytes -> bool;                 (* formats.GetType(format) succeeds *)
  o_format : bytes -> bytes -> option bytes;    (* UnmarshalText of format f on a text; None = error *)
  o_float : bytes -> option (Z * bool * Z)      (* ParseFloat(text, 64): Float64bits, overflows float32, Float32bits(float32(f)) *)
}.

(* ------------------------------------------------------------------ constants *)
Definition s_int8 := Eval compute in bytes_of_string "int8".
Definition s_int16 := Eval compute in bytes_of_string "int16".
Definition s_int32 := Eval compute in bytes_of_string "int32".
Definition s_float := Eval compute in bytes_of_string "float".
Definition s_ssv := Eval compute in bytes_of_string "ssv".
Definition s_tsv := Eval compute in bytes_of_string "tsv".
Definition s_pipes := Eval compute in bytes_of_string "pipes".
Definition s_multi := Eval compute in bytes_of_string "multi".
Definition true_words : list bytes := Eval compute in
  List.map bytes_of_string ["true"; "1"; "yes"; "ok"; "y"; "on"; "selected"; "checked"; "t"; "enabled"]%string.

(* error codes of go-openapi/errors *)
Definition code_invalid_type := 601.
Definition code_required := 602.

(* ------------------------------------------------------------------ outcomes *)
Inductive res (A : Type) := Ok (a : A) | Err (code : nat) | UnspecR.
Arguments Ok {A}. Arguments Err {A}. Arguments UnspecR {A}.

Inductive outcome :=
| Bound (v : gval)                 (* the handler runs and receives v under the declared name *)
| R422 (name : bytes) (code : nat) (* 422 naming the parameter, handler does not run *)
| Panic (k : nat)
| Unspec.                          (* ill-typed default consulted: outside the description language *)

Definition panic_nil_type := 1.

(* ------------------------------------------------------------------ typeForSchema *)
Section Bind.
Variable O : oracles.

Definition stype_for (k : kind) (fmt : bytes) : option stype :=
  match k with
  | KBoolean => Some SBool
  | KString => if o_registered O fmt then Some (SFmt fmt) else Some SStr
  | KInteger =>
    if bytes_eqb fmt s_int8 then Some (SInt 8)
    else if bytes_eqb fmt s_int16 then Some (SInt 16)
    else if bytes_eqb fmt s_int32 then Some (SInt 32)
    else Some (SInt 64)
  | KNumber => if bytes_eqb fmt s_float then Some SF32 else Some SF64   (* no format: float64 (fix F-C03-1) *)
  | KArray | KFile => None
  end.

Definition gtype_for (d : decl) : option gtype :=
  match d_kind d with
  | KArray =>
    match d_item_kind d with
    | Some ik => match stype_for ik (d_item_format d) with Some t => Some (GSlice t) | None => None end
    | None => None
    end
  | KFile => None
  | k => match stype_for k (d_format d) with Some t => Some (GScalar t) | None => None end
  end.

(* ------------------------------------------------------------------ sources *)
Definition values_of (k : bytes) (ps : pairs) : list bytes :=
  List.map snd (List.filter (fun p => bytes_eqb (fst p) k) ps).
Definition has_key (k : bytes) (ps : pairs) : bool :=
  existsb (fun p => bytes_eqb (fst p) k) ps.

(* runtime.Values.GetOK: values, hasKey, hasValue *)
Definition get_ok (k : bytes) (ps : pairs) : list bytes * bool * bool :=
  (values_of k ps, has_key k ps, negb (is_nil (values_of k ps))).

(* RouteParams.GetOK: first entry of that name *)
Fixpoint route_get_ok (k : bytes) (ps : pairs) : list bytes * bool * bool :=
  match ps with
  | [] => ([], false, false)
  | p :: r => if bytes_eqb (fst p) k then ([snd p], true, negb (is_nil (snd p))) else route_get_ok k r
  end.

(* textproto.CanonicalMIMEHeaderKey *)
Definition is_alpha (c : byte) : bool := ((65 <=? c) && (c <=? 90)) || ((97 <=? c) && (c <=? 122)).
Definition is_token_byte (c : byte) : bool :=
  is_alpha c || is_digit c || mem_byte c [33; 35; 36; 37; 38; 39; 42; 43; 45; 46; 94; 95; 96; 124; 126].
Fixpoint canon_go (up : bool) (s : bytes) : bytes :=
  match s with
  | [] => []
  | c :: r => let c' := if up then to_upper c else to_lower c in c' :: canon_go (Nat.eqb c' 45) r
  end.
Definition canon_key (s : bytes) : bytes := if forallb is_token_byte s then canon_go true s else s.

(* the Gettable of each location (header: canonical key, fix F-C03-3) *)
Definition source_get_ok (d : decl) (rq : request) : list bytes * bool * bool :=
  match d_in d with
  | LQuery => get_ok (d_name d) (r_query rq)
  | LHeader => get_ok (canon_key (d_name d)) (r_header rq)
  | LPath => route_get_ok (d_name d) (r_path rq)
  | LForm => get_ok (d_name d) (r_form rq)
  end.

(* ------------------------------------------------------------------ swag.SplitByFormat *)
Fixpoint split_raw (sep : byte) (s : bytes) : list bytes :=      (* strings.Split, one-byte separator *)
  match s with
  | [] => [[]]
  | c :: r =>
    if Nat.eqb c sep then [] :: split_raw sep r
    else match split_raw sep r with
         | h :: t => (c :: h) :: t
         | [] => [[c]]
         end
  end.

Definition is_ascii_space (c : byte) : bool := mem_byte c [9; 10; 11; 12; 13; 32].
(* UTF-8 encodings of U+0085, U+00A0 *)
Definition space2 (c1 c2 : byte) : bool := Nat.eqb c1 194 && (Nat.eqb c2 133 || Nat.eqb c2 160).
(* U+1680, U+2000..U+200A, U+2028, U+2029, U+202F, U+205F, U+3000 *)
Definition space3 (c1 c2 c3 : byte) : bool :=
  (Nat.eqb c1 225 && Nat.eqb c2 154 && Nat.eqb c3 128) ||
  (Nat.eqb c1 226 && Nat.eqb c2 128 &&
     (((128 <=? c3) && (c3 <=? 138)) || Nat.eqb c3 168 || Nat.eqb c3 169 || Nat.eqb c3 175)) ||
  (Nat.eqb c1 226 && Nat.eqb c2 129 && Nat.eqb c3 159) ||
  (Nat.eqb c1 227 && Nat.eqb c2 128 && Nat.eqb c3 128).

Fixpoint trim_left (s : bytes) : bytes :=
  match s with
  | [] => []
  | c1 :: r1 =>
    if is_ascii_space c1 then trim_left r1
    else match r1 with
         | [] => s
         | c2 :: r2 =>
           if space2 c1 c2 then trim_left r2
           else match r2 with
                | [] => s
                | c3 :: r3 => if space3 c1 c2 c3 then trim_left r3 else s
                end
         end
  end.

(* on the reversed string: the last byte comes first *)
Fixpoint trim_left_rev (s : bytes) : bytes :=
  match s with
  | [] => []
  | c1 :: r1 =>
    if is_ascii_space c1 then trim_left_rev r1
    else match r1 with
         | [] => s
         | c2 :: r2 =>
           if space2 c2 c1 then trim_left_rev r2
           else match r2 with
                | [] => s
                | c3 :: r3 => if space3 c3 c2 c1 then trim_left_rev r3 else s
                end
         end
  end.

Definition trim_space (s : bytes) : bytes := rev (trim_left_rev (rev (trim_left s))).

Definition sep_of (cf : bytes) : byte :=
  if bytes_eqb cf s_ssv then 32 else if bytes_eqb cf s_tsv then 9 else if bytes_eqb cf s_pipes then 124 else 44.

Definition split_by_format (data cf : bytes) : list bytes :=
  if is_nil data then []
  else if bytes_eqb cf s_multi then []
  else List.filter (fun t => negb (is_nil t)) (List.map trim_space (split_raw (sep_of cf) data)).

(* ------------------------------------------------------------------ readValue *)
Definition allows_multi (d : decl) : bool := match d_in d with LQuery | LForm => true | _ => false end.

Definition last_or_empty (l : list bytes) : bytes := List.last l [].

(* data, hasKey; or the collection-format error *)
Definition read_value (d : decl) (rq : request) : res (list bytes * bool) :=
  let '(vv, hk, hv) := source_get_ok d rq in
  match d_kind d with
  | KArray =>
    if bytes_eqb (d_cf d) s_multi then
      if allows_multi d then Ok (vv, hk) else Err code_invalid_type
    else if hv then Ok (split_by_format (last_or_empty vv) (d_cf d), hk)
    else Ok ([], hk)
  | _ => Ok (vv, hk)
  end.

(* ------------------------------------------------------------------ setFieldValue *)
Definition convert_bool (s : bytes) : bool := existsb (bytes_eqb (lower s)) true_words.

Definition zero_of (t : stype) : sval :=
  match t with
  | SBool => VBool false
  | SStr => VStr []
  | SFmt f => VFmt f []      (* not used: format-typed targets take the unmarshaler path *)
  | SInt w => VInt w 0
  | SF32 => VF32 0
  | SF64 => VF64 0
  end.

(* a converted default has the target type (integers also in range) *)
Definition sval_has_type (v : sval) (t : stype) : bool :=
  match v, t with
  | VBool _, SBool => true
  | VStr _, SStr => true
  | VFmt f _, SFmt f' => bytes_eqb f f'
  | VInt w z, SInt w' => Nat.eqb w w' && in_int_range w z
  | VF32 _, SF32 => true
  | VF64 _, SF64 => true
  | _, _ => false
  end.

Definition default_or_zero (t : stype) (def : option dval) : res sval :=
  match def with
  | None => Ok (zero_of t)
  | Some (DScalar v) => if sval_has_type v t then Ok v else UnspecR
  | Some _ => UnspecR
  end.

Definition required_fails (d : decl) (hk : bool) (data_empty : bool) : bool :=
  (negb hk || (negb (d_allow_empty d) && data_empty)) && d_required d &&
  match d_default d with None => true | Some _ => false end.

Definition set_field (d : decl) (t : stype) (def : option dval) (data : bytes) (hk : bool) : res sval :=
  if required_fails d hk (is_nil data) then Err code_required
  else match t with
  | SFmt f =>        (* tryUnmarshaler: every registered format type is a TextUnmarshaler *)
    match def, data with
    | Some dv, [] => default_or_zero t (Some dv)
    | _, _ => match o_format O f data with
              | Some txt => Ok (VFmt f txt)
              | None => Err code_invalid_type
              end
    end
  | SBool => if is_nil data then default_or_zero t def else Ok (VBool (convert_bool data))
  | SInt w =>
    if is_nil data then default_or_zero t def
    else match parse_int_dec data with
         | None => Err code_invalid_type
         | Some z => if in_int_range w z then Ok (VInt w z) else Err code_invalid_type
         end
  | SF32 =>
    if is_nil data then default_or_zero t def
    else match o_float O data with
         | None => Err code_invalid_type
         | Some (b64, ov32, b32) => if ov32 then Err code_invalid_type else Ok (VF32 b32)
         end
  | SF64 =>
    if is_nil data then default_or_zero t def
    else match o_float O data with
         | None => Err code_invalid_type
         | Some (b64, ov32, b32) => Ok (VF64 b64)
         end
  | SStr => if is_nil data then default_or_zero t def else Ok (VStr data)
  end.

(* the item loop of setSliceFieldValue: first error wins *)
Fixpoint set_items (d : decl) (t : stype) (data : list bytes) (hk : bool) : res (list sval) :=
  match data with
  | [] => Ok []
  | x :: r =>
    match set_field d t None x hk with
    | Ok v => match set_items d t r hk with
              | Ok vs => Ok (v :: vs)
              | Err c => Err c
              | UnspecR => UnspecR
              end
    | Err c => Err c
    | UnspecR => UnspecR
    end
  end.

Definition slice_required_fails (d : decl) (hk : bool) (data : list bytes) : bool :=
  let empty := match data with [] => true | [x] => is_nil x | _ => false end in
  (negb hk || (negb (d_allow_empty d) && empty)) && d_required d &&
  match d_default d with None => true | Some _ => false end.

Definition set_slice (d : decl) (t : stype) (data : list bytes) (hk : bool) : res gval :=
  if slice_required_fails d hk data then Err code_required
  else match data with
  | [] =>
    match d_default d with
    | None => Ok (VSlice t [])
    | Some (DSlice l) => if forallb (fun v => sval_has_type v t) l then Ok (VSlice t l) else UnspecR
    | Some _ => UnspecR
    end
  | _ =>
    match set_items d t data hk with
    | Ok vs => Ok (VSlice t vs)
    | Err c => Err c
    | UnspecR => UnspecR
    end
  end.

(* ------------------------------------------------------------------ bindValue, Bind *)
Definition bind_value (d : decl) (gt : gtype) (data : list bytes) (hk : bool) : res gval :=
  match gt with
  | GSlice t => set_slice d t data hk
  | GScalar t =>
    match set_field d t (d_default d) (last_or_empty data) hk with
    | Ok v => Ok (VScalar v)
    | Err c => Err c
    | UnspecR => UnspecR
    end
  end.

(* UntypedRequestBinder.Bind for one parameter into the map target, then the parameter validator
   (valid = None: the validate library accepts the bound value; Some c: first error code) *)
Definition bind_param (d : decl) (rq : request) (valid : option nat) : outcome :=
  match gtype_for d with
  | None => Panic panic_nil_type
  | Some gt =>
    match read_value d rq with
    | Err c => R422 (d_name d) c
    | UnspecR => Unspec
    | Ok (data, hk) =>
      match bind_value d gt data hk with
      | Ok v => match valid with None => Bound v | Some c => R422 (d_name d) c end
      | Err c => R422 (d_name d) c
      | UnspecR => Unspec
      end
    end
  end.

End Bind.

(* ------------------------------------------------------------------ UntypedRequestBinder.Bind: all parameters *)
(* The loop of UntypedRequestBinder.Bind over the declared parameters of the operation (a Go map: the list
   is the iteration order of this call), each with the verdict of its own validator. Every parameter is
   bound AND validated whatever happened to the earlier ones; an error is appended to the result, a bound
   value is put into the map target; at the end a non-empty result is the composite 422 error (here: the
   names it names, in the order met), else the handler runs with the values. *)
Inductive req_outcome :=
| AllBound (vals : list (bytes * gval))
| Rejected (names : list bytes)
| ReqPanic (k : nat)
| ReqUnspec.

Fixpoint bind_loop (O : oracles) (rq : request) (ps : list (decl * option nat))
         (vals : list (bytes * gval)) (errs : list bytes) : req_outcome :=
  match ps with
  | [] => match errs with [] => AllBound vals | _ :: _ => Rejected errs end
  | p :: r =>
    match bind_param O (fst p) rq (snd p) with
    | Bound v => bind_loop O rq r (vals ++ [(d_name (fst p), v)]) errs
    | R422 n _ => bind_loop O rq r vals (errs ++ [n])
    | Panic k => ReqPanic k
    | Unspec => ReqUnspec
    end
  end.

Definition bind_request (O : oracles) (ps : list (decl * option nat)) (rq : request) : req_outcome :=
  bind_loop O rq ps [] [].

(* ------------------------------------------------------------------ /repo request.go *)
(* runtime.ReadSingleValue / ReadCollectionValue (used by generated typed binders) *)
Definition read_single_value (k : bytes) (ps : pairs) : bytes := last_or_empty (values_of k ps).
Definition read_collection_value (k : bytes) (ps : pairs) (cf : bytes) : list bytes :=
  split_by_format (read_single_value k ps) cf.

(* ------------------------------------------------------------------ well-formed declarations *)
Definition scalar_kind (k : kind) : bool :=
  match k with KString | KInteger | KNumber | KBoolean => true | _ => false end.

Definition default_conforms (O : oracles) (d : decl) : bool :=
  match d_default d, gtype_for O d with
  | None, _ => true
  | Some (DScalar v), Some (GScalar t) => sval_has_type v t
  | Some (DSlice l), Some (GSlice t) => forallb (fun v => sval_has_type v t) l
  | _, _ => false
  end.

(* the declarations the model speaks about: scalar of the four primitive types, or an array of those
   (Swagger 2.0 requires items for arrays); the default, when present, conforms to the type *)
Definition decl_wf (O : oracles) (d : decl) : bool :=
  match d_kind d with
  | KArray => match d_item_kind d with Some ik => scalar_kind ik | None => false end
  | k => scalar_kind k
  end && default_conforms O d.
