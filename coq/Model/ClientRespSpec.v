(* ClientRespSpec.v — the vocabulary of property C13, independent of select_consumer's algorithm. *)
From V Require Export ClientResp.

Definition keys (reg : registry) : list bytes := map fst reg.
Definition has_key (reg : registry) (k : bytes) : bool := existsb (bytes_eqb k) (keys reg).
Definition has_entry (reg : registry) (k : bytes) (c : nat) : bool :=
  existsb (fun e => bytes_eqb (fst e) k && Nat.eqb (snd e) c) reg.

(* the consumer a reader may be handed for a response whose media type is mt: the one registered for mt;
   only when there is none, the catch-all one; never another *)
Definition right_consumer (reg : registry) (mt : bytes) (c : nat) : bool :=
  if has_key reg mt then has_entry reg mt c else has_entry reg star_star c.

(* a consumer exists for mt *)
Definition servable (reg : registry) (mt : bytes) : bool := has_key reg mt || has_key reg star_star.

Fixpoint is_infix (p s : bytes) : bool :=
  has_prefix p s || match s with [] => false | _ :: r => is_infix p r end.
