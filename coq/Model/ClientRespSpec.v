(* ClientRespSpec.v — the vocabulary of property C13, independent of select_consumer's algorithm. *)
From V Require Export ClientResp.

Definition keys (reg : registry) : list bytes := map fst reg.
Definition has_key (reg : registry) (k : bytes) : bool := existsb (bytes_eqb k) (keys reg).
Definition has_entry (reg : registry) (k : bytes) (c : nat) : bool :=
  existsb (fun e => bytes_eqb (fst e) k && Nat.eqb (snd e) c) reg.

(* the consumer a reader may be handed for a response whose media type is mt: the one registered for mt;
   only when there is none, the catch-all one; never another *)
Definition right_consumer (reg : registry) (mt : bytes) (c : nat) : bool :=
  if has_key reg mt then has_entry reg mt c else has_entry reg star_star c.

(* a consumer exists for mt *)
Definition servable (reg : registry) (mt : bytes) : bool := has_key reg mt || has_key reg star_star.

Fixpoint is_infix (p s : bytes) : bool :=
  has_prefix p s || match s with [] => false | _ :: r => is_infix p r end.

(* ---- the call was carried by client c (identity who) and by no other ----
   every part of the trace is what c alone determines: its transport (the process default when it has none),
   its jar, its redirect policy, its timeout *)
Definition behaves_as (who : nat) (c : client_cfg) (slow : bool) (t : call_trace) : bool :=
  Nat.eqb (t_transport t) (if c_transport c then who else who_default) &&
  Nat.eqb (t_jar t) (mask_of (c_jar c) who) &&
  Nat.eqb (t_cookie t) (mask_of (c_jar c) who) &&
  (if slow && c_timeout c
   then Nat.eqb (t_result t) 2 && Nat.eqb (t_redirect t) 0
   else Nat.eqb (t_redirect t) (mask_of (negb (Nat.eqb (c_redirect c) 0)) who) &&
        Nat.eqb (t_result t) (if Nat.eqb (c_redirect c) 2 then 1 else 0)).

(* a per-operation client takes precedence over the runtime-wide one: whenever the operation names a client,
   that client carried the call, whichever fields it sets *)
Definition right_client (op : option client_cfg) (rt : client_cfg) (slow : bool) (t : call_trace) : bool :=
  match op with
  | Some c => behaves_as who_op c slow t
  | None => behaves_as who_rt rt slow t
  end.

Definition trace_eqb (a b : call_trace) : bool :=
  Nat.eqb (t_transport a) (t_transport b) && Nat.eqb (t_redirect a) (t_redirect b) &&
  Nat.eqb (t_jar a) (t_jar b) && Nat.eqb (t_cookie a) (t_cookie b) && Nat.eqb (t_result a) (t_result b).

Definition view_eqb (a b : nat * bytes * bytes * bytes) : bool :=
  let '(c1, s1, t1, h1) := a in let '(c2, s2, t2, h2) := b in
  Nat.eqb c1 c2 && bytes_eqb s1 s2 && bytes_eqb t1 t2 && bytes_eqb h1 h2.

(* ---- the call ran under context c (of origin o) and under no other ----
   the value that arrives is c's, the deadline is c's unless the request timeout is earlier, the call ends exactly
   when c is cancelled (it was beforehand, or it is the one cancelled during the call), and then Submit fails *)
Definition governed_by (o : origin) (c : ctx_cfg) (timeout action : nat) (s : ctx_seen) : bool :=
  Nat.eqb (n_value s) (who_code o) &&
  Nat.eqb (n_deadline s) (earlier_deadline (x_deadline c) timeout) &&
  Bool.eqb (n_ended s) (x_cancelled c || cancels action o) &&
  Bool.eqb (n_failed s) (n_ended s).

(* a per-operation context takes precedence over the runtime-wide one: whenever the operation names a context the
   call runs under it, whatever the runtime context is (with or without a deadline, cancelled or not) *)
Definition right_context (op rt : option ctx_cfg) (timeout action : nat) (s : ctx_seen) : bool :=
  match op with
  | Some c => governed_by FromOperation c timeout action s
  | None =>
    match rt with
    | Some c => governed_by FromTransport c timeout action s
    | None => Nat.eqb (n_value s) 2 && Nat.eqb (n_deadline s) timeout && negb (n_ended s) && negb (n_failed s)
    end
  end.

Definition seen_eqb (a b : ctx_seen) : bool :=
  Nat.eqb (n_value a) (n_value b) && Nat.eqb (n_deadline a) (n_deadline b) &&
  Bool.eqb (n_ended a) (n_ended b) && Bool.eqb (n_failed a) (n_failed b).
