(* ReqState.v — model of the per-request stage memoisation in middleware/context.go:
   RouteInfo, ContentType, ResponseFormat, Authorize, BindAndValidate, ResetAuth, applied to one
   request value whose context carries the cached stage results. Definitions only.

   What a stage computes is request data, fixed per request (record `static`); the model is about
   WHEN each underlying effect runs (counters) and WHICH value every call returns. *)
From Coq Require Export List Arith Bool.
Export ListNotations.

(* outcome of consulting the route's authenticators for this request *)
Inductive authres := AuthRefused | AuthPrincipal | AuthAnon.   (* error or not applicable | a principal | anonymous admitted, nil principal *)

(* fixed facts about one request (oracles recorded by the harness from the real functions) *)
Record static := mkstatic {
  st_route : option nat;        (* router lookup: the route id, if any *)
  st_has_auth : bool;           (* the route declares security *)
  st_has_body : bool;           (* runtime.HasBody *)
  st_ct : option nat;           (* runtime.ContentType: Some media-type id, None = parse error *)
  st_ct_admitted : bool;        (* validateContentType against the route's consumes *)
  st_ct_consumer : bool;        (* a consumer is registered for that media type on the route *)
  st_neg : nat -> option nat;   (* NegotiateContentType for offer list k: Some format id, None = nothing acceptable *)
  st_route_offers : nat;        (* which offer list is the route's produces *)
  st_route_has_produces : bool;
  st_auth : authres;            (* what Authenticate yields for this request *)
  st_authorizer : option bool;  (* registered authorizer and whether it accepts *)
  st_bind_ok : bool             (* parameter binding (incl. body decoding) succeeds *)
}.

(* the values cached in the request's context *)
Record req := mkreq {
  c_route : option nat;
  c_ct : option nat;
  c_fmt : option nat;
  c_bound : option (list nat);       (* error codes of the cached validation; [] = valid *)
  c_principal : bool;                (* a non-nil principal is cached *)
  c_scopes : bool
}.
Definition req0 : req := mkreq None None None None false false.

(* how often each underlying effect has run *)
Record counters := mkcnt {
  n_lookup : nat; n_ctparse : nat; n_negotiate : nat; n_authn : nat; n_authz : nat; n_bind : nat
}.
Definition cnt0 : counters := mkcnt 0 0 0 0 0 0.

Inductive op := RouteInfo | ContentType | ResponseFormat (offers : nat) | Authorize | BindAndValidate | ResetAuth
  | ServeFresh    (* a fresh copy of the request is served by the whole handler: nothing is threaded back *)
  | Tamper.       (* the caller changes the query string of the request value it holds: cached stage results must not move *)

(* what a call returns: a small code for the value, and whether the returned request value is the one
   passed in (same) or a fresh shallow copy carrying a new cache entry *)
Inductive res :=
| RRoute (r : option nat)
| RCt (mt : option nat)                (* None = error *)
| RFmt (f : option nat)                (* None = empty string *)
| RAuth (code : nat)                   (* 0 = no auth needed (nil, nil, nil), 1 = principal, 2 = anonymous, 3 = refused 401/err, 4 = forbidden *)
| RBind (errs : list nat)
| RReset
| RServed
| RTampered
| RSkipped.                            (* Authorize/BindAndValidate before any route is known: not issued *)

Definition bump_lookup c := mkcnt (S (n_lookup c)) (n_ctparse c) (n_negotiate c) (n_authn c) (n_authz c) (n_bind c).
Definition bump_ct c := mkcnt (n_lookup c) (S (n_ctparse c)) (n_negotiate c) (n_authn c) (n_authz c) (n_bind c).
Definition bump_neg c := mkcnt (n_lookup c) (n_ctparse c) (S (n_negotiate c)) (n_authn c) (n_authz c) (n_bind c).
Definition bump_authn c := mkcnt (n_lookup c) (n_ctparse c) (n_negotiate c) (S (n_authn c)) (n_authz c) (n_bind c).
Definition bump_authz c := mkcnt (n_lookup c) (n_ctparse c) (n_negotiate c) (n_authn c) (S (n_authz c)) (n_bind c).
Definition bump_bind c := mkcnt (n_lookup c) (n_ctparse c) (n_negotiate c) (n_authn c) (n_authz c) (S (n_bind c)).

Definition set_route r v := mkreq v (c_ct r) (c_fmt r) (c_bound r) (c_principal r) (c_scopes r).
Definition set_ct r v := mkreq (c_route r) v (c_fmt r) (c_bound r) (c_principal r) (c_scopes r).
Definition set_fmt r v := mkreq (c_route r) (c_ct r) v (c_bound r) (c_principal r) (c_scopes r).
Definition set_bound r v := mkreq (c_route r) (c_ct r) (c_fmt r) v (c_principal r) (c_scopes r).
Definition set_auth r p s := mkreq (c_route r) (c_ct r) (c_fmt r) (c_bound r) p s.

Record state := mkstate { s_req : req; s_cnt : counters }.
Definition state0 : state := mkstate req0 cnt0.

(* error codes used for the validation result *)
Definition E400 := 400. Definition E415 := 415. Definition E500 := 500. Definition E406 := 406. Definition E422 := 422.

(* validateRequest: content type -> response format -> parameters; works on a private copy of the
   request, so only the validation itself is cached on the request it returns *)
Definition validate (st : static) (r : req) (c : counters) : list nat * counters :=
  (* content type stage *)
  let '(errs1, c1) :=
    if st_has_body st then
      let '(ct, c') := match c_ct r with
                       | Some mt => (Some mt, c)
                       | None => (st_ct st, bump_ct c)
                       end in
      match ct with
      | None => ([E400], c')
      | Some _ => ((if st_ct_admitted st then [] else [E415]) ++ (if st_ct_consumer st then [] else [E500]), c')
      end
    else ([], c) in
  (* response format stage *)
  let '(errs2, c2) :=
    match errs1 with
    | [] => let '(f, c') := match c_fmt r with
                            | Some f => (Some f, c1)
                            | None => (st_neg st (st_route_offers st), bump_neg c1)
                            end in
            match f with
            | None => ((if st_route_has_produces st then [E406] else []), c')
            | Some _ => ([], c')
            end
    | _ => (errs1, c1)
    end in
  (* parameters stage *)
  match errs2 with
  | [] => ((if st_bind_ok st then [] else [E422]), bump_bind c2)
  | _ => (errs2, c2)
  end.

Definition step (st : static) (s : state) (o : op) : state * res * bool (* same request value returned *) :=
  let r := s_req s in let c := s_cnt s in
  match o with
  | RouteInfo =>
    match c_route r with
    | Some v => (s, RRoute (Some v), true)
    | None => match st_route st with
              | Some v => (mkstate (set_route r (Some v)) (bump_lookup c), RRoute (Some v), false)
              | None => (mkstate r (bump_lookup c), RRoute None, true)   (* nil request returned: the caller keeps its own *)
              end
    end
  | ContentType =>
    match c_ct r with
    | Some v => (s, RCt (Some v), true)
    | None => match st_ct st with
              | Some v => (mkstate (set_ct r (Some v)) (bump_ct c), RCt (Some v), false)
              | None => (mkstate r (bump_ct c), RCt None, true)
              end
    end
  | ResponseFormat k =>
    match c_fmt r with
    | Some v => (s, RFmt (Some v), true)
    | None => match st_neg st k with
              | Some v => (mkstate (set_fmt r (Some v)) (bump_neg c), RFmt (Some v), false)
              | None => (mkstate r (bump_neg c), RFmt None, true)
              end
    end
  | Authorize =>
    match c_route r with
    | None => (s, RSkipped, true)
    | Some _ =>
      if negb (st_has_auth st) then (s, RAuth 0, true)
      else if c_principal r then (s, RAuth 1, true)
      else
        let c1 := bump_authn c in
        match st_auth st with
        | AuthRefused => (mkstate r c1, RAuth 3, true)
        | a =>
          let code := match a with AuthPrincipal => 1 | _ => 2 end in
          let princ := match a with AuthPrincipal => true | _ => false end in
          match st_authorizer st with
          | Some false => (mkstate r (bump_authz c1), RAuth 4, true)
          | Some true => (mkstate (set_auth r princ true) (bump_authz c1), RAuth code, false)
          | None => (mkstate (set_auth r princ true) c1, RAuth code, false)
          end
        end
    end
  | BindAndValidate =>
    match c_route r with
    | None => (s, RSkipped, true)
    | Some _ =>
      match c_bound r with
      | Some errs => (s, RBind errs, true)
      | None => let '(errs, c') := validate st r c in
                (mkstate (set_bound r (Some errs)) c', RBind errs, false)
      end
    end
  | ResetAuth => (mkstate (set_auth r false false) c, RReset, false)
  | ServeFresh => (s, RServed, true)
  | Tamper => (s, RTampered, true)
  end.

Definition step_state st s o := fst (fst (step st s o)).
Definition step_res st s o := snd (fst (step st s o)).

(* a whole history, threading the returned request value *)
Definition run (st : static) (ops : list op) (s : state) : state := fold_left (step_state st) ops s.

Fixpoint trace (st : static) (ops : list op) (s : state) : list (res * bool) :=
  match ops with
  | [] => []
  | o :: r => let '(s', x, same) := step st s o in (x, same) :: trace st r s'
  end.

(* ---- several requests against one handler: each has its own state; the shared part (static data,
   route table) is immutable. A schedule interleaves their operations. ---- *)
Fixpoint upd {A} (l : list A) (i : nat) (v : A) : list A :=
  match l, i with
  | [], _ => []
  | _ :: r, O => v :: r
  | x :: r, S i' => x :: upd r i' v
  end.

Definition step_many (sts : list static) (ss : list state) (e : nat * op) : list state :=
  match nth_error sts (fst e), nth_error ss (fst e) with
  | Some st, Some s => upd ss (fst e) (step_state st s (snd e))
  | _, _ => ss
  end.

Definition run_many (sts : list static) (sched : list (nat * op)) (ss : list state) : list state :=
  fold_left (step_many sts) sched ss.

Definition ops_of (i : nat) (sched : list (nat * op)) : list op :=
  map snd (filter (fun e => Nat.eqb (fst e) i) sched).
