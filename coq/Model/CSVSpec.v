(* CSVSpec.v — the vocabulary of property C16, independent of how the glue computes:
   what the caller asked for, which records a standard parse yields after dropping the skipped ones,
   and the predicates the correspondence run evaluates on the implementation's observables. *)
From Coq Require Import List ZArith Bool Arith.
From V Require Import Bytes CSVGlue.
Import ListNotations.

(* the csv.Reader / csv.Writer a caller would configure by hand from the same option values
   (zero comma / comment / fields-per-record mean: keep the package default) *)
Definition requested_ropts (o : opts) : ropts :=
  let q := o_r o in
  mkR (match r_comma q with O => 44 | c => c end) (r_comment q) (r_fpr q) (r_lazy q) (r_trim q) (r_reuse q).
Definition requested_wopts (o : opts) : wopts :=
  mkW (match w_comma (o_w o) with O => 44 | c => c end) (w_crlf (o_w o)).

(* number of leading records to drop: a count that is not positive drops nothing *)
Definition skipped (o : opts) : nat := Z.to_nat (o_skip o).

(* skipn (Z.to_nat k) l, computed without building a huge unary number (CSVGlueProofs.drop_z_skipn) *)
Definition drop_z (k : Z) (l : list record) : list record :=
  if (Z.of_nat (length l) <=? k)%Z then [] else skipn (Z.to_nat k) l.

(* the records that must be delivered, or the parser's error *)
Definition expected (pr : presult) (o : opts) : list record + bytes :=
  match p_end pr with
  | Some e => inr e
  | None => inl (drop_z (o_skip o) (p_recs pr))
  end.

(* a standard rendering of records: nothing at all for no records *)
Definition rendering (render : wopts -> list record -> bytes) (wo : wopts) (recs : list record) : bytes :=
  match recs with [] => [] | _ => render wo recs end.

(* the input a source denotes: text kinds denote the standard parse of their text under the requested options,
   a caller's CSVReader what it yields, a record table its rows *)
Definition source_input (parse : ropts -> bytes -> presult) (o : opts) (s : source) : presult :=
  match s_kind s with
  | SCSVReader => s_own s
  | SRecords => mkP (s_rows s) None
  | _ => parse (requested_ropts o) (s_text s)
  end.

(* ---- decidable equalities ---- *)
Definition record_eqb (a b : record) : bool := list_eqb bytes_eqb a b.
Definition records_eqb (a b : list record) : bool := list_eqb record_eqb a b.
Definition err_eqb (a b : err) : bool :=
  match a, b with
  | EParser x, EParser y => bytes_eqb x y
  | ENil, ENil => true
  | EUnsupported, EUnsupported => true
  | _, _ => false
  end.
Definition outcome_eqb (a b : outcome) : bool :=
  match a, b with
  | OPanic, OPanic => true
  | OFuel, OFuel => true
  | OErr x, OErr y => err_eqb x y
  | OBytes x, OBytes y => bytes_eqb x y
  | ORecs r1 l1 c1 a1, ORecs r2 l2 c2 a2 => records_eqb r1 r2 && Nat.eqb l1 l2 && Nat.eqb c1 c2 && Bool.eqb a1 a2
  | _, _ => false
  end.

(* ---- re-parsing a byte sink with encoding/csv ---- *)
Inductive reparse := RNone | RFail | ROk (recs : list record).

(* records that the csv text format itself represents losslessly: no record that is empty or a single empty field
   (written as an empty line, which a reader skips) and no carriage return inside a field (normalised by reader and writer) *)
Definition rt_safe (recs : list record) : bool :=
  forallb (fun r => negb (match r with [] => true | [[]] => true | _ => false end)
                    && forallb (fun f => negb (mem_byte 13 f)) r) recs.

Definition reparse_ok (recs : list record) (rep : reparse) : bool :=
  match rep with
  | RNone => true
  | RFail => negb (rt_safe recs)
  | ROk r => if rt_safe recs then records_eqb r recs else true
  end.

(* ---- the property on one observed run ---- *)

(* obs: what the destination received / the error / a panic; untouched: on error the destination still holds what it
   held before; rep: the byte sink re-parsed *)
Definition delivered_ok (render : wopts -> list record -> bytes) (o : opts) (want : list record + bytes)
           (record_sink : bool) (obs : outcome) (untouched : bool) (rep : reparse) : bool :=
  match want with
  | inr e => outcome_eqb obs (OErr (EParser e)) && untouched
  | inl recs =>
    if record_sink
    then match obs with ORecs rows _ _ aliased => records_eqb rows recs && negb aliased | _ => false end
    else outcome_eqb obs (OBytes (rendering render (requested_wopts o) recs)) && reparse_ok recs rep
  end.

Definition no_panic (obs : outcome) : bool := match obs with OPanic | OFuel => false | _ => true end.
Definition is_error (obs : outcome) : bool := match obs with OErr _ => true | _ => false end.

Definition is_record_sink (k : dkind) : bool := match k with DCSVWriter | DRecords => true | _ => false end.

(* destinations / sources that can receive / provide records at all: not a nil pointer of a kind the codec dereferences,
   and for record tables a row type of []string *)
Definition d_usable (d : dest) : bool :=
  negb (d_nil d && d_owned (d_kind d)) && (d_compat d || negb (match d_kind d with DRecords => true | _ => false end)).
Definition s_usable (s : source) : bool :=
  negb (s_nil s && s_owned (s_kind s)) && (s_compat s || negb (match s_kind s with SRecords => true | _ => false end)).

Definition consume_ok (parse : ropts -> bytes -> presult) (render : wopts -> list record -> bytes)
           (o : opts) (d : dest) (text : bytes) (obs : outcome) (untouched : bool) (rep : reparse) : bool :=
  no_panic obs &&
  (if negb (d_usable d) then is_error obs && untouched   (* such a destination can receive nothing: an error, never a panic *)
   else delivered_ok render o (expected (parse (requested_ropts o) text) o) (is_record_sink (d_kind d)) obs untouched rep).

Definition produce_ok (parse : ropts -> bytes -> presult) (render : wopts -> list record -> bytes)
           (o : opts) (s : source) (obs : outcome) (rep : reparse) : bool :=
  no_panic obs &&
  (if negb (s_usable s) then is_error obs
   else delivered_ok render o (expected (source_input parse o s) o) false obs true rep).

(* ---------- histories: ONE consumer / producer value used for several calls ---------- *)
(* The options are fixed when the codec value is built; a codec value carries nothing from one call to the next
   (no counter that runs down, no buffer that an earlier result still looks at). The expected observable of a
   history is therefore the map of the single-call function over its calls, all under the SAME options, and what a
   call delivered reads the same after every later call. *)
Definition consume_history (parse : ropts -> bytes -> presult) (render : wopts -> list record -> bytes)
           (o : opts) (l : list (dest * bytes)) : list outcome :=
  map (fun x => consume parse render o (fst x) (snd x)) l.

Definition produce_history (parse : ropts -> bytes -> presult) (render : wopts -> list record -> bytes)
           (o : opts) (l : list source) : list outcome :=
  map (fun s => produce parse render o s) l.
