(* SpecRouterSegs.v — simple path templates written as segment lists, and what the router makes of
   them: the template text (render), the denco key pathConverter produces (render_key), the shape of
   that key (tshape), and request paths written as segment lists (render_path). Definitions only;
   Proofs/SpecRouterSegProofs.v shows that these are what convert_template / key_shape / smatch
   compute, which ties the shape-level theorems of C01 to the segment-level reading of the property
   (SpecRouterSpec.seg_match / seg_pref_b). *)
From V Require Import Bytes DencoSpec PathCleanLib SpecRouter SpecRouterSpec.

Definition seg_text (t : tseg) : bytes :=
  match t with TLit l => l | TPar n => LBRACE :: n ++ [RBRACE] | TComp _ _ => [] end.
Definition seg_key (t : tseg) : bytes :=
  match t with TLit l => l | TPar n => COLON :: n | TComp _ _ => [] end.
Definition seg_shape (t : tseg) : shape :=
  match t with TLit l => map SLit l | TPar _ => [SPar] | TComp _ _ => [] end.

(* a simple segment: a well-formed literal or a whole-segment placeholder with a well-formed name *)
Definition seg_ok (t : tseg) : bool :=
  match t with TLit l => lit_ok l | TPar n => name_ok n | TComp _ _ => false end.
Definition simple_ok (ts : list tseg) : bool := forallb seg_ok ts.

Definition slashed {A} (f : A -> bytes) (l : list A) : bytes := flat_map (fun x => SLASH :: f x) l.

(* the root template / root path is a single slash *)
Definition render (ts : list tseg) : bytes := match ts with [] => [SLASH] | _ => slashed seg_text ts end.
Definition render_key (ts : list tseg) : bytes := match ts with [] => [SLASH] | _ => slashed seg_key ts end.
Definition render_path (segs : list bytes) : bytes := match segs with [] => [SLASH] | _ => slashed (fun s => s) segs end.

Definition tshape' (ts : list tseg) : shape := flat_map (fun t => SLit SLASH :: seg_shape t) ts.
Definition tshape (ts : list tseg) : shape := match ts with [] => [SLit SLASH] | _ => tshape' ts end.

Definition is_lit (t : tseg) : bool := match t with TLit _ => true | _ => false end.
