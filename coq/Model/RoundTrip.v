(* RoundTrip.v — C04, the path part: what the client puts on the wire for a simple path template and what
   the server's router and binder recover from it. Definitions only; the pieces are the models of C10
   (Lib/UrlEscape.v: url.PathEscape), C01/C05 (Model/SpecRouter*.v: the router) and Lib/PathCleanLib.v. *)
From V Require Import Bytes PathCleanLib SpecRouterSpec SpecRouterSegs.
From V Require UrlEscape PathUnescapeLib.

(* the segments of the request path the client builds for a simple template: literal segments as they are,
   every placeholder replaced by the percent-escaped value (url.PathEscape); None when the values do not
   fit the placeholders or the template is not simple *)
Fixpoint inst (ts : list tseg) (vals : list bytes) : option (list bytes) :=
  match ts with
  | [] => match vals with [] => Some [] | _ => None end
  | TLit l :: ts' => match inst ts' vals with Some r => Some (l :: r) | None => None end
  | TPar _ :: ts' =>
    match vals with
    | v :: vals' => match inst ts' vals' with Some r => Some (UrlEscape.path_escape v :: r) | None => None end
    | [] => None
    end
  | TComp _ _ :: _ => None
  end.

(* the values the guarantee speaks about: bytes, not empty, not a dot segment *)
Definition value_ok (v : bytes) : bool :=
  negb (is_empty v) && negb (is_dot v) && negb (is_dotdot v) && UrlEscape.wf_bytesb v.

(* the escaped request path of the client for template ts (already joined with the base path) *)
Definition client_path (ts : list tseg) (vals : list bytes) : option bytes :=
  match inst ts vals with Some segs => Some (render_path segs) | None => None end.
