(* DencoDA.v — the real data structure of denco: the BASE/CHECK double array and the node table,
   with doubleArray.lookup followed line by line (greedy literal walk recording the
   parameter-capable nodes, then LIFO backtracking: single parameter, then wildcard), every
   slice access checked. Definitions only.
   Bit layout of a cell (baseCheck, uint32): BASE = x >> 10, CHECK = x & 255,
   single-parameter flag = 256, wildcard flag = 512. *)
From V Require Import Bytes DencoSpec DencoTrie.

Section DA.
Context {V : Type}.

Record da := mkDA { bc : list N; nodes : list (V * list bytes) }.

Definition base (x : N) : N := N.shiftr x 10.
Definition check (x : N) : N := N.land x 255.
Definition is_single (x : N) : bool := negb (N.eqb (N.land x 256) 0).
Definition is_wild (x : N) : bool := negb (N.eqb (N.land x 512) 0).
Definition is_any (x : N) : bool := negb (N.eqb (N.land x 768) 0).
Definition cell (d : da) (i : N) : option N := nth_error (bc d) (N.to_nat i).
Definition nxt (b : N) (c : byte) : N := N.lxor b (N.of_nat c).   (* nextIndex *)

(* path bytes that are never followed as an edge: the three bytes that label the special edges
   of the array, and 0 (the CHECK of an unused cell) *)
Definition reserved (c : byte) : bool :=
  Nat.eqb c COLON || Nat.eqb c STAR || Nat.eqb c SHARP || Nat.eqb c 0.

Inductive raw := RFound (node : N) (vals : list bytes) | RNot | RPanic | RFuel.

(* the for loop of lookup. Result: None = index panic; otherwise the stack of recorded
   (remaining path, index) pairs, most recent first, and the index reached when the whole path
   was consumed. *)
Fixpoint walk (d : da) (path : bytes) (idx : N) (stack : list (bytes * N))
  : option (list (bytes * N) * option N) :=
  match cell d idx with
  | None => None
  | Some b =>
    match path with
    | [] => Some (stack, Some idx)
    | c :: rest =>
      if reserved c then Some (if is_any b then (path, idx) :: stack else stack, None)
      else
        match cell d (nxt (base b) c) with
        | None => Some (if is_any b then (path, idx) :: stack else stack, None)
        | Some bj =>
          if N.eqb (check bj) (N.of_nat c)
          then walk d rest (nxt (base b) c) (if is_any b then (path, idx) :: stack else stack)
          else Some (if is_any b then (path, idx) :: stack else stack, None)
        end
    end
  end.

(* da.node[da.bc[j].Base()] : the node index, None = bc index panic *)
Definition leaf_node (d : da) (j : N) : option N :=
  match cell d j with Some bj => Some (base bj) | None => None end.

Inductive single_outcome := SBreak | SRes (r : raw) | SNext.

(* the IsSingleParam block of the backtracking loop *)
Definition try_single (d : da) (rec : bytes -> list bytes -> N -> raw)
           (b : N) (suffix : bytes) (vals : list bytes) : single_outcome :=
  if is_single b then
    match cell d (nxt (base b) COLON) with
    | None => SBreak                       (* nextIdx >= len(da.bc): break *)
    | Some _ =>
      match rec (snd (span_seg suffix)) (vals ++ [fst (span_seg suffix)]) (nxt (base b) COLON) with
      | RNot => SNext
      | r => SRes r
      end
    end
  else SNext.

Fixpoint backtrack (d : da) (rec : bytes -> list bytes -> N -> raw)
         (stack : list (bytes * N)) (vals : list bytes) : raw :=
  match stack with
  | [] => RNot
  | (suffix, idx) :: more =>
    match cell d idx with
    | None => RPanic
    | Some b =>
      match try_single d rec b suffix vals with
      | SBreak => RNot
      | SRes r => r
      | SNext =>
        if is_wild b then
          match leaf_node d (nxt (base b) STAR) with
          | Some nd => RFound nd (vals ++ [suffix])
          | None => RPanic
          end
        else backtrack d rec more vals
      end
    end
  end.

(* one activation of lookup, the recursive call abstracted as rec *)
Definition run (d : da) (rec : bytes -> list bytes -> N -> raw)
           (path : bytes) (idx : N) (stack : list (bytes * N)) (vals : list bytes) : raw :=
  match walk d path idx stack with
  | None => RPanic
  | Some (st, None) => backtrack d rec st vals
  | Some (st, Some i) =>
    match cell d i with
    | None => RPanic
    | Some b =>
      match cell d (nxt (base b) SHARP) with
      | Some bj => if N.eqb (check bj) (N.of_nat SHARP) then RFound (base bj) vals
                   else backtrack d rec st vals
      | None => backtrack d rec st vals
      end
    end
  end.

Fixpoint lookup (fuel : nat) (d : da) (path : bytes) (vals : list bytes) (idx : N) : raw :=
  match fuel with
  | 0 => RFuel
  | S f => run d (lookup f d) path idx [] vals
  end.

(* Router.Lookup on the real structure *)
Definition da_router_lookup (fuel : nat) (pats : list (bytes * V)) (d : da) (path : bytes) : lres V :=
  match static_lookup pats path None with
  | Some v => Found v []
  | None =>
    if Nat.eqb (length (nodes d)) 1 then NotFound
    else match lookup fuel d path [] 1%N with
         | RFound nd vals =>
           match nth_error (nodes d) (N.to_nat nd) with
           | None => Panic
           | Some (v, ns) => match zip_names ns vals with Some ps => Found v ps | None => Panic end
           end
         | RNot => NotFound
         | RPanic => Panic
         | RFuel => OutOfFuel
         end
  end.

(* ---------- the representation check: does the array represent this trie? ---------- *)
Variable veqb : V -> V -> bool.

Definition vt_eqb (a b : V * list bytes) : bool :=
  veqb (fst a) (fst b) && list_eqb bytes_eqb (snd a) (snd b).

(* cell j carries CHECK c and its BASE indexes the node (value, names) v *)
Definition leaf_is (d : da) (j : N) (c : byte) (v : V * list bytes) : bool :=
  match cell d j with
  | Some bj => N.eqb (check bj) (N.of_nat c) &&
               match nth_error (nodes d) (N.to_nat (base bj)) with
               | Some nv => vt_eqb nv v | None => false end
  | None => false
  end.

(* no transition labelled c out of the cell b *)
Definition no_edge (d : da) (b : N) (c : byte) : bool :=
  match cell d (nxt (base b) c) with
  | Some bj => negb (N.eqb (check bj) (N.of_nat c))
  | None => true
  end.

Definition edge_to (d : da) (b : N) (c : byte) : bool :=
  match cell d (nxt (base b) c) with
  | Some bj => N.eqb (check bj) (N.of_nat c)
  | None => false
  end.

Fixpoint repr_check (d : da) (tr : trie (V * list bytes)) (idx : N) {struct tr} : bool :=
  match tr with
  | Node leaf lits par wild =>
    match cell d idx with
    | None => false
    | Some b =>
      (match leaf with Some v => leaf_is d (nxt (base b) SHARP) SHARP v | None => no_edge d b SHARP end)
      && (fix go (l : list (byte * trie (V * list bytes))) : bool :=
            match l with
            | [] => true
            | ct :: r =>
              negb (reserved (fst ct)) && edge_to d b (fst ct)
              && repr_check d (snd ct) (nxt (base b) (fst ct)) && go r
            end) lits
      && (match par with
          | Some tp => is_single b && edge_to d b COLON && repr_check d tp (nxt (base b) COLON)
          | None => negb (is_single b) end)
      && (match wild with
          | Some v => is_wild b && leaf_is d (nxt (base b) STAR) STAR v
          | None => negb (is_wild b) end)
      && forallb (fun c => reserved c || mem_byte c (map fst lits) || no_edge d b c) (seq 1 255)
    end
  end.

Fixpoint lits_check (d : da) (b : N) (l : list (byte * trie (V * list bytes))) : bool :=
  match l with
  | [] => true
  | ct :: r =>
    negb (reserved (fst ct)) && edge_to d b (fst ct)
    && repr_check d (snd ct) (nxt (base b) (fst ct)) && lits_check d b r
  end.

(* what Build must have produced for these records: a non-trivial node table and an array that
   represents the trie of the parameterised keys from index 1 *)
Definition repr_ok (pats : list (bytes * V)) (d : da) : bool :=
  match param_pats pats with
  | [] => Nat.eqb (length (nodes d)) 1
  | _ => negb (Nat.eqb (length (nodes d)) 1) && repr_check d (model_trie pats) 1%N
  end.

End DA.

Arguments da : clear implicits.

(* ---------- variants with the per-table work done once (used by the correspondence run) ----------
   router_lookup, da_router_lookup and answer_ok re-tokenise every key of the table for every path.
   A case of the run holds one table and up to some hundred paths, so Check_C05.check_case computes
   the static records, the model trie and the tokenised entries once (vm_compute evaluates a
   let-bound value once) and hands them to the variants below. Proofs/DencoDAProofs.v shows that
   each variant IS the definition the theorems speak about (C05_check_shortcuts). *)
Section Shared.
Context {V : Type}.

Definition statics_of (pats : list (bytes * V)) : list (bytes * V) :=
  filter (fun kv => negb (is_param_key (fst kv))) pats.

Fixpoint assoc_last (l : list (bytes * V)) (path : bytes) (acc : option V) : option V :=
  match l with
  | [] => acc
  | kv :: r => assoc_last r path (if bytes_eqb (fst kv) path then Some (snd kv) else acc)
  end.

Definition router_lookup_pre (st : list (bytes * V)) (t : trie (V * list bytes)) (path : bytes) : lres V :=
  match assoc_last st path None with
  | Some v => Found v []
  | None =>
    match tlookup t path with
    | Some ((v, ns), vals) =>
      match zip_names ns vals with Some ps => Found v ps | None => Panic end
    | None => NotFound
    end
  end.

Definition da_router_lookup_pre (fuel : nat) (st : list (bytes * V)) (d : da V) (path : bytes) : lres V :=
  match assoc_last st path None with
  | Some v => Found v []
  | None =>
    if Nat.eqb (length (nodes d)) 1 then NotFound
    else match lookup fuel d path [] 1%N with
         | RFound nd vals =>
           match nth_error (nodes d) (N.to_nat nd) with
           | None => Panic
           | Some (v, ns) => match zip_names ns vals with Some ps => Found v ps | None => Panic end
           end
         | RNot => NotFound
         | RPanic => Panic
         | RFuel => OutOfFuel
         end
  end.

(* answer_ok with the tokenised table passed in, the entries matching the path computed once per
   path, and the conjunction evaluated left to right with if (andb evaluates both sides under
   vm_compute, which made the preference clause quadratic in the table for every path) *)
Definition cand_ok (veqb : V -> V -> bool) (ms : list (shape * (V * list bytes))) (p : bytes) (v : V)
           (ps : list (bytes * bytes)) (e : shape * (V * list bytes)) : bool :=
  if veqb (fst (snd e)) v then
  if list_eqb bytes_eqb (snd (snd e)) (map fst ps) then
  if Nat.eqb (length ps) (placeholders (fst e)) then
  if opt_eqb bytes_eqb (subst (fst e) (map snd ps)) (Some p) then
  if par_texts_ok (fst e) (map snd ps) then
  if matches_b (fst e) p then
    forallb (fun e' => shape_eqb (fst e) (fst e') || pref_b (fst e) (fst e')) ms
  else false else false else false else false else false else false.

Definition answer_ok_pre (veqb : V -> V -> bool) (ents : list (shape * (V * list bytes))) (p : bytes)
           (ans : option (V * list (bytes * bytes))) : bool :=
  match ans with
  | None => forallb (fun e => negb (matches_b (fst e) p)) ents
  | Some (v, ps) =>
    let ms := filter (fun e => matches_b (fst e) p) ents in
    existsb (cand_ok veqb ms p v ps) ents
  end.

(* wf_patset with its conjunctions evaluated left to right. shape_eqb compares two shapes with andb, which
   evaluates both sides under vm_compute: every pair of keys was compared over its whole length, so the
   pairwise-distinct-shapes clause cost (number of keys)^2 * key length (200 s for 1 600 keys of 70 bytes).
   The variant below stops at the first differing token; wf_patset_sc_eq shows it IS wf_patset. *)
Fixpoint shape_eqb_sc (a b : shape) : bool :=
  match a, b with
  | [], [] => true
  | x :: a', y :: b' => if stok_eqb x y then shape_eqb_sc a' b' else false
  | _, _ => false
  end.

Fixpoint nodup_shapes_sc (l : list shape) : bool :=
  match l with
  | [] => true
  | x :: r => if existsb (shape_eqb_sc x) r then false else nodup_shapes_sc r
  end.

Definition wf_patset_sc (pats : list (bytes * V)) : bool :=
  if forallb (fun kv => key_ok (fst kv)) pats then nodup_shapes_sc (map fst (entries_of pats)) else false.

End Shared.
