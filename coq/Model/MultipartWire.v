(* MultipartWire.v — the framing of a multipart/form-data document as the client side writes it (mime/multipart
   Writer: CreatePart, the part writer, Close; used by client/request.go buildHTTP through WriteField and CreatePart)
   and as the server side reads it (mime/multipart Reader: nextPart, isBoundaryDelimiterLine, isFinalBoundary,
   the header block up to the blank line, scanUntilBoundary with matchAfterPrefix; used by request.ParseMultipartForm
   in middleware/parameter.go). Definitions only.

   MODELLED, not verified: these are Go standard-library functions; the model is tied to them by the C04
   correspondence run (case CMultipart: the body the real client wrote must be what the model writer renders from the
   parts the model reader finds in it, and the contents the model reader finds must be what the handler got;
   case CMpRead: documents with delimiter look-alikes and malformed documents, model reader against the real Reader).

   A part is a pair (header block, content). The header block is the text of the header lines, each WITH its line end
   (so the block of the runtime's form field f1 is the Content-Disposition line followed by CR LF), without the blank
   line that ends the block. Which header lines the Reader accepts (net/textproto) is taken from HeaderWire.v
   (read_header); what the fields mean (the name and filename parameters of Content-Disposition) is not modelled.

   The Reader works on a 4096-byte peek buffer; the model reads the whole document at once (end of input = the
   read error the Reader sees at EOF). Not modelled: lines longer than the peek buffer outside part contents
   (ReadSlice fails with ErrBufferFull), the size limits of ReadForm, quoted-printable transfer decoding. *)
From Coq Require Import List Arith Bool.
Import ListNotations.
From V Require Import Bytes HeaderWire.

Definition crlf : bytes := [13; 10].
Definition dashes : bytes := [45; 45].

(* Reader.dashBoundary, Reader.dashBoundaryDash *)
Definition dash_boundary (b : bytes) : bytes := dashes ++ b.
Definition dash_boundary_dash (b : bytes) : bytes := dashes ++ b ++ dashes.

(* ---------- WRITING ---------- *)

(* CreatePart: the delimiter line (preceded by CR LF unless this is the first part), the header lines, a blank line;
   then whatever is written to the part. *)
Definition mp_part (b : bytes) (p : bytes * bytes) : bytes :=
  dash_boundary b ++ crlf ++ fst p ++ crlf ++ snd p.

(* Close: CR LF, the boundary with two more dashes, CR LF (also when no part was created) *)
Definition mp_close (b : bytes) : bytes := crlf ++ dash_boundary_dash b ++ crlf.

Fixpoint mp_render_rest (b : bytes) (parts : list (bytes * bytes)) : bytes :=
  match parts with
  | [] => mp_close b
  | p :: ps => crlf ++ mp_part b p ++ mp_render_rest b ps
  end.

Definition mp_render (b : bytes) (parts : list (bytes * bytes)) : bytes :=
  match parts with
  | [] => mp_close b
  | p :: ps => mp_part b p ++ mp_render_rest b ps
  end.

(* ---------- READING ---------- *)

Definition is_lwsp (c : byte) : bool := Nat.eqb c 32 || Nat.eqb c 9.

(* skipLWSPChar *)
Definition skip_lwsp (s : bytes) : bytes := drop_while is_lwsp s.

(* bufio ReadSlice up to LF: the line with its LF and the rest; None = no LF before the end of input *)
Fixpoint read_slice (s : bytes) : option (bytes * bytes) :=
  match s with
  | [] => None
  | c :: r =>
    if Nat.eqb c 10 then Some ([c], r)
    else match read_slice r with
         | Some (l, rest) => Some (c :: l, rest)
         | None => None
         end
  end.

(* isFinalBoundary: the boundary with its dashes on both sides, optional blanks, then nothing or the line end in use *)
Definition is_final_boundary (b nl line : bytes) : bool :=
  if has_prefix (dash_boundary_dash b) line then
    let rest := skip_lwsp (skipn (length (dash_boundary_dash b)) line) in
    match rest with
    | [] => true
    | _ => bytes_eqb rest nl
    end
  else false.

(* isBoundaryDelimiterLine: None = not a delimiter line; Some nl' = it is one, nl' is the line end in use from now on
   (before the first part a delimiter line that ends in a bare LF switches the Reader to bare-LF line ends) *)
Definition is_delimiter_line (b nl : bytes) (first : bool) (line : bytes) : option bytes :=
  if has_prefix (dash_boundary b) line then
    let rest := skip_lwsp (skipn (length (dash_boundary b)) line) in
    let nl' := if first && bytes_eqb rest [10] then [10] else nl in
    if bytes_eqb rest nl' then Some nl' else None
  else None.

Inductive next_part_result :=
| NPPart (rest nl : bytes)      (* a delimiter line was read: a part follows *)
| NPFinal                       (* the final boundary: no more parts *)
| NPError.                      (* malformed, or out of fuel *)

(* the loop of Reader.nextPart; first = no part was read yet (partsRead is 0); expect = expectNewPart.
   Every round reads one line, so fuel = length of s plus one is enough. *)
Fixpoint next_part (fuel : nat) (b nl : bytes) (first expect : bool) (s : bytes) : next_part_result :=
  match fuel with
  | O => NPError
  | S f =>
    match read_slice s with
    | None => if is_final_boundary b nl s then NPFinal else NPError     (* EOF while reading the line *)
    | Some (line, rest) =>
      match is_delimiter_line b nl first line with
      | Some nl' => NPPart rest nl'
      | None =>
        if is_final_boundary b nl line then NPFinal
        else if expect then NPError                                     (* expecting a new Part; got line ... *)
        else if first then next_part f b nl first false rest            (* preamble: skip the line *)
        else if bytes_eqb line nl then next_part f b nl first true rest (* the line end that closes the content *)
        else NPError                                                    (* unexpected line in Next() *)
      end
    end
  end.

(* The header block: lines are read up to LF, one CR before the LF does not count, and the first line that is then
   empty ends the block (textproto readLineSlice / readContinuedLineSlice, len(line) == 0).
   st says what the current line consists of so far: 0 = nothing, 1 = exactly one CR, 2 = anything else.
   The result holds everything before the LF of the blank line; hdr_block then takes the CR of a CR LF blank line off.
   End of input where a line would start: readMIMEHeader reports io.EOF, newPart and NextPart pass it on, and the
   caller takes it for the end of the document (HEof, with the complete lines read before it: a line textproto
   refuses is reported first). End of input inside a line: the real outcome depends on the
   syntax of the unfinished line (refused, or again io.EOF); the model says HBad, and the run does not cut there. *)
Inductive hdr_result :=
| HBlock (h rest : bytes)
| HEof (h : bytes)
| HBad.

Definition hcons (c : byte) (r : hdr_result) : hdr_result :=
  match r with
  | HBlock a rest => HBlock (c :: a) rest
  | HEof a => HEof (c :: a)
  | HBad => HBad
  end.

Fixpoint hdr_scan (st : nat) (s : bytes) : hdr_result :=
  match s with
  | [] => if Nat.eqb st 0 then HEof [] else HBad
  | c :: r =>
    if Nat.eqb c 10 then
      if Nat.ltb st 2 then HBlock [] r
      else hcons c (hdr_scan 0 r)
    else hcons c (hdr_scan (if Nat.eqb st 0 && Nat.eqb c 13 then 1 else 2) r)
  end.

Definition cons_fst (c : byte) (r : option (bytes * bytes)) : option (bytes * bytes) :=
  match r with
  | Some (a, rest) => Some (c :: a, rest)
  | None => None
  end.

Definition hdr_block (s : bytes) : hdr_result :=
  match hdr_scan 0 s with
  | HBlock raw rest => HBlock (drop_cr raw) rest
  | other => other
  end.

(* readMIMEHeader on the lines of a block: the first line must not start with a space or tab, and every field must
   be one that HeaderWire.read_header (the model of one round of readMIMEHeader, continuation lines included) accepts.
   The result is the list of fields; None = a line is refused (NextPart then fails with that error). *)
Fixpoint hdr_fields (fuel : nat) (s : bytes) : option (list (bytes * bytes)) :=
  match fuel with
  | O => None
  | S f =>
    match read_header s with
    | HdrEnd _ => Some []
    | HdrField k v rest =>
      match hdr_fields f rest with
      | Some fs => Some ((k, v) :: fs)
      | None => None
      end
    | HdrMalformed => None
    end
  end.

Definition hdr_valid (h : bytes) : bool :=
  match h with
  | c :: _ => negb (is_ows c)
  | [] => true
  end &&
  match hdr_fields (S (length h)) (h ++ crlf) with
  | Some _ => true
  | None => false
  end.

(* matchAfterPrefix at the end of input (readErr is set): true = this is a boundary (+1), false = it is not (-1).
   after = what follows the prefix. *)
Definition match_after (after : bytes) : bool :=
  match after with
  | [] => true
  | c :: r =>
    if Nat.eqb c 32 || Nat.eqb c 9 || Nat.eqb c 13 || Nat.eqb c 10 then true
    else if Nat.eqb c 45 then
      match r with
      | [] => false
      | d :: _ => Nat.eqb d 45
      end
    else false
  end.

(* scanUntilBoundary, general part: nldb is the line end followed by dash-boundary. The content ends before the first
   occurrence of nldb that matchAfterPrefix accepts; an occurrence it rejects is content, and scanning goes on
   behind it (skip counts the bytes already known to be content). None = end of input inside the content. *)
Fixpoint scan_content (nldb : bytes) (skip : nat) (s : bytes) : option (bytes * bytes) :=
  match s with
  | [] => None
  | c :: r =>
    match skip with
    | S k => cons_fst c (scan_content nldb k r)
    | O =>
      if has_prefix nldb s then
        if match_after (skipn (length nldb) s) then Some ([], s)
        else cons_fst c (scan_content nldb (length nldb - 1) r)
      else cons_fst c (scan_content nldb 0 r)
    end
  end.

(* scanUntilBoundary from the start of a content (total is 0): a dash-boundary right at the start counts without a
   line end before it *)
Definition scan_part (b nl : bytes) (s : bytes) : option (bytes * bytes) :=
  let db := dash_boundary b in
  if has_prefix db s then
    if match_after (skipn (length db) s) then Some ([], s)
    else scan_content (nl ++ db) (length db) s
  else scan_content (nl ++ db) 0 s.

(* NextPart until EOF, each part read to its end (as ReadForm does); first = no part read yet *)
Fixpoint mp_parts (fuel : nat) (b nl : bytes) (first : bool) (s : bytes) : option (list (bytes * bytes)) :=
  match fuel with
  | O => None
  | S f =>
    match next_part (S (length s)) b nl first false s with
    | NPError => None
    | NPFinal => Some []
    | NPPart rest nl' =>
      match hdr_block rest with
      | HBad => None
      | HEof h => if hdr_valid h then Some [] else None
      | HBlock h body =>
        if hdr_valid h then
          match scan_part b nl' body with
          | None => None
          | Some (c, rest') =>
            match mp_parts f b nl' false rest' with
            | Some ps => Some ((h, c) :: ps)
            | None => None
            end
          end
        else None
      end
    end
  end.

(* NewReader + the loop above. An empty boundary is refused by nextPart. None = malformed or out of fuel
   (fuel = length of the document is always enough: every round consumes at least one byte). *)
Definition mp_parse (fuel : nat) (b doc : bytes) : option (list (bytes * bytes)) :=
  match b with
  | [] => None
  | _ => mp_parts fuel b crlf true doc
  end.

(* ---------- the domain of the round trip ---------- *)

(* does s contain p as a substring *)
Fixpoint contains (p s : bytes) : bool :=
  has_prefix p s ||
  match s with
  | [] => false
  | _ :: r => contains p r
  end.

(* Writer.SetBoundary: 1 to 70 bytes out of letters, digits, thirteen punctuation bytes and space, not ending in a space
   (NewWriter draws 60 hex digits) *)
Definition boundary_byte (c : byte) : bool :=
  (Nat.leb 48 c && Nat.leb c 57) || (Nat.leb 97 c && Nat.leb c 122) || (Nat.leb 65 c && Nat.leb c 90) ||
  mem_byte c [39; 40; 41; 43; 95; 44; 45; 46; 47; 58; 61; 63; 32].

Definition boundary_ok (b : bytes) : bool :=
  negb (Nat.eqb (length b) 0) && Nat.leb (length b) 70 && forallb boundary_byte b &&
  match rev b with
  | c :: _ => negb (Nat.eqb c 32)
  | [] => false
  end.

(* a header block: complete lines (each ends in LF), none of them empty or a lone CR; st as in hdr_scan *)
Fixpoint hdr_lines_ok (st : nat) (h : bytes) : bool :=
  match h with
  | [] => Nat.eqb st 0
  | c :: r =>
    if Nat.eqb c 10 then Nat.leb 2 st && hdr_lines_ok 0 r
    else hdr_lines_ok (if Nat.eqb st 0 && Nat.eqb c 13 then 1 else 2) r
  end.

Definition hdr_ok (h : bytes) : bool := hdr_lines_ok 0 h.

(* THE proviso of the format: the content, seen after the CR LF of the blank line before it, does not contain
   CR LF dash dash boundary. (That is: it does not contain it, and it does not start with dash dash boundary.) *)
Definition no_delim (b c : bytes) : bool := negb (contains (crlf ++ dash_boundary b) (crlf ++ c)).

Definition part_okb (b : bytes) (p : bytes * bytes) : bool := hdr_ok (fst p) && hdr_valid (fst p) && no_delim b (snd p).
Definition part_ok (b : bytes) (p : bytes * bytes) : Prop := part_okb b p = true.

(* The sharper proviso: only a LIVE delimiter matters, one that matchAfterPrefix accepts: followed by a blank, tab,
   CR, LF or two dashes, or standing at the very end of the content (the line end the writer puts after the content
   then follows it). A delimiter followed by any other byte is content. *)
Definition live_at (nldb s : bytes) : bool := has_prefix nldb s && match_after (skipn (length nldb) s).

Fixpoint has_live (nldb s : bytes) : bool :=
  live_at nldb s ||
  match s with
  | [] => false
  | _ :: r => has_live nldb r
  end.

Definition no_live_delim (b c : bytes) : bool := negb (has_live (crlf ++ dash_boundary b) (crlf ++ c)).

Definition part_okb_sharp (b : bytes) (p : bytes * bytes) : bool :=
  hdr_ok (fst p) && hdr_valid (fst p) && no_live_delim b (snd p).
Definition part_ok_sharp (b : bytes) (p : bytes * bytes) : Prop := part_okb_sharp b p = true.

(* ---------- what the tie looks at ---------- *)

(* the content of the first part whose header block starts with the given text *)
Fixpoint part_content (hprefix : bytes) (parts : list (bytes * bytes)) : option bytes :=
  match parts with
  | [] => None
  | p :: ps => if has_prefix hprefix (fst p) then Some (snd p) else part_content hprefix ps
  end.
