(* ClientBodySpec.v — the vocabulary of property C11, independent of the algorithm in ClientBody.v:
   what a receiver decodes from a part, what must be in the document, what the header must say. *)
From V Require Export ClientBody.

(* ---------- reading a quoted-string back (what a MIME parameter parser does) ---------- *)
(* after the opening quote: the value up to the first unescaped quote, and what follows it *)
Fixpoint scan_quoted (s : bytes) : option (bytes * bytes) :=
  match s with
  | [] => None
  | c :: r =>
    if Nat.eqb c 34 then Some ([], r)
    else if Nat.eqb c 92 then
      match r with
      | d :: r' =>
        if Nat.eqb d 92 || Nat.eqb d 34 then
          match scan_quoted r' with Some (v, rest) => Some (d :: v, rest) | None => None end
        else
          match scan_quoted r with Some (v, rest) => Some (c :: v, rest) | None => None end
      | [] => None
      end
    else
      match scan_quoted r with Some (v, rest) => Some (c :: v, rest) | None => None end
  end.

Definition unescape_quotes (s : bytes) : bytes :=
  match scan_quoted (s ++ [34]) with Some (v, _) => v | None => s end.

(* ---------- the decoded view of a part: field name, file name, content type, content ---------- *)
Record pview := mkview { v_name : bytes; v_filename : option bytes; v_ctype : option bytes; v_data : bytes }.

Definition pview_eqb (a b : pview) : bool :=
  bytes_eqb (v_name a) (v_name b) && opt_eqb bytes_eqb (v_filename a) (v_filename b) &&
  opt_eqb bytes_eqb (v_ctype a) (v_ctype b) && bytes_eqb (v_data a) (v_data b).

Section Expected.
Variable sniff : bytes -> bytes.

(* the type a file part must carry: the declared one, else the one sniffed from the content
   (DetectContentType looks at no more than the first 512 bytes) *)
Definition expected_type (f : file_in) : bytes :=
  match f_declared f with Some t => t | None => sniff (firstn 512 (f_content f)) end.

Definition expected_field_views (f : field) : list pview :=
  map (fun v => mkview (fst f) None None v) (snd f).
Definition expected_file_views (ff : filefield) : list pview :=
  map (fun f => mkview (fst ff) (Some (path_base (f_name f))) (Some (expected_type f)) (f_content f)) (snd ff).

(* every form-field value and every file, once each *)
Definition expected_views (form : list field) (files : list filefield) : list pview :=
  flat_map expected_field_views form ++ flat_map expected_file_views files.
End Expected.

(* multiset equality of two lists of views *)
Fixpoint remove_first (x : pview) (l : list pview) : option (list pview) :=
  match l with
  | [] => None
  | y :: r => if pview_eqb x y then Some r
              else match remove_first x r with Some r' => Some (y :: r') | None => None end
  end.
Fixpoint same_views (a b : list pview) : bool :=
  match a with
  | [] => is_nil b
  | x :: a' => match remove_first x b with Some b' => same_views a' b' | None => false end
  end.

(* ---------- the url-encoded form: the (name, value) pairs a receiver gets, names sorted ---------- *)
Definition form_pairs (form : list field) : list (bytes * bytes) :=
  flat_map (fun f => map (fun v => (fst f, v)) (snd f)) (sort_fields form).

Definition pair_eqb (a b : bytes * bytes) : bool := bytes_eqb (fst a) (fst b) && bytes_eqb (snd a) (snd b).

(* ---------- what the header must say ---------- *)
(* a multipart document is announced as multipart/form-data (with the boundary as parameter, which is
   checked by decoding the body with it); any other body by the chosen media type *)
Inductive body_kind := KNone | KValue | KReader | KUrlencoded | KMultipart.

Definition kind_of (i : body_in) : body_kind :=
  if has_form i then (if is_multipart i then KMultipart else KUrlencoded)
  else match bi_payload i with
       | PNil => KNone
       | PValue => KValue
       | PReader _ | PReadCloser _ | PBuffer _ => KReader
       end.

(* the answers an auth writer got from GetBody are the bytes sent, all of them. An answer is recorded as
   None when it is byte for byte what was then read from the request body, else as Some of its bytes. *)
Definition answers_are_sent (answers : list (option bytes)) : bool :=
  forallb (fun a => match a with None => true | Some _ => false end) answers.

(* ---------- decoding a Content-Disposition written by the client ----------
   form-data; name=QUOTED            (a form field)
   form-data; name=QUOTED; filename=QUOTED   (a file) *)
Fixpoint strip_prefix (p s : bytes) : option bytes :=
  match p, s with
  | [], _ => Some s
  | x :: p', y :: s' => if Nat.eqb x y then strip_prefix p' s' else None
  | _ :: _, [] => None
  end.

Definition txt_filename_tail : bytes := Eval compute in tl txt_filename.   (* ; filename=QUOTE *)

Definition decode_disp (d : bytes) : option (bytes * option bytes) :=
  match strip_prefix txt_fd_name d with
  | None => None
  | Some r =>
    match scan_quoted r with
    | None => None
    | Some (name, []) => Some (name, None)
    | Some (name, rest) =>
      match strip_prefix txt_filename_tail rest with
      | None => None
      | Some r2 => match scan_quoted r2 with
                   | Some (fname, []) => Some (name, Some fname)
                   | _ => None
                   end
      end
    end
  end.

Definition decode_part (p : part) : option pview :=
  match decode_disp (p_disp p) with
  | Some (name, fname) => Some (mkview name fname (p_ctype p) (p_data p))
  | None => None
  end.
