(* Respond.v — model of middleware/context.go Respond (and ResponseFormat), the errorResp responder of
   middleware/not_implemented.go, the realm marker of security/authenticator.go, and the three stages of
   the request pipeline that can call Respond (security, validation, handler). Definitions only.

   A producer is identified by the key it is registered under in the API (RegisterProducer lower-cases
   that key). A Go map[string]Producer built by ProducersFor(mts) is the pair (mts, registered):
   a key is present iff it is one of mts and registered. *)
From V Require Export Negotiate.

Definition mem_bytes (x : bytes) (l : list bytes) : bool := existsb (bytes_eqb x) l.

(* api.ProducersFor(mts)[key] *)
Definition producers_for (registered mts : list bytes) (key : bytes) : option bytes :=
  if mem_bytes key mts && mem_bytes key registered then Some key else None.

(* prods := api.ProducersFor(normalizeOffers([default])); prods[default] *)
Definition default_fallback (registered : list bytes) (d : bytes) : option bytes :=
  producers_for registered [normalize_offer d] d.

(* Operation.SuccessResponse: the smallest declared code in 200..299 *)
Definition is_2xx (c : nat) : bool := (200 <=? c) && (c <? 300).
Fixpoint min_list (l : list nat) : option nat :=
  match l with
  | [] => None
  | c :: r => match min_list r with
              | Some m => Some (Nat.min c m)
              | None => Some c
              end
  end.
Definition success_code (codes : list nat) : option nat := min_list (filter is_2xx codes).

(* what the handler (or an earlier stage) hands to Respond *)
Inductive data :=
| DResponder (code : Z)   (* middleware.Error(code, payload) / NotImplemented: an errorResp *)
| DError (code : nat)     (* an error value (its code is what the error responder is shown) *)
| DValue.                 (* any other value, nil included *)

(* the matched route as Respond sees it *)
Record route := mkroute {
  rt_produces : list bytes;    (* MatchedRoute.Produces, in the route's own order *)
  rt_has_op : bool;            (* route.Operation <> nil *)
  rt_codes : list nat          (* declared status codes of the operation *)
}.

(* route.Producers = api.ProducersFor(normalizeOffers(route.Produces)) *)
Definition route_producer (registered : list bytes) (rt : route) (key : bytes) : option bytes :=
  producers_for registered (map normalize_offer (rt_produces rt)) key.

Inductive panic_kind := PNilRoute | PNoProducer.

Record resp := mkresp {
  o_ctype : bytes;               (* Content-Type header *)
  o_status : nat;                (* status written by Respond or by the errorResp; 0 = left to the error responder *)
  o_www : option bytes;          (* WWW-Authenticate header *)
  o_producer : option bytes;     (* key of the producer whose Produce was called *)
  o_handed : option bytes;       (* Responder branch: key of the producer handed to WriteResponse *)
  o_error : option nat           (* error responder invoked with an error of this code *)
}.
(* a panic happens after the Content-Type header was set: ct is that header *)
Inductive outcome := Panicked (k : panic_kind) (ct : bytes) | Responded (r : resp).

Definition JSON_MIME : bytes :=
  [97; 112; 112; 108; 105; 99; 97; 116; 105; 111; 110; 47; 106; 115; 111; 110].  (* application/json *)

(* offers: produces without the API default, then the API default *)
Definition respond_offers (d : bytes) (produces : list bytes) : list bytes :=
  filter (fun mt => negb (bytes_eqb mt d)) produces ++ [d].

(* Context.ResponseFormat *)
Definition response_format (cached : option bytes) (specs : list spec) (offers : list bytes) : bytes :=
  match cached with
  | Some v => v
  | None => negotiate_content_type specs offers []
  end.

(* fmt.Sprintf of Basic realm=%q for a realm of printable ASCII: strconv.Quote escapes dquote and backslash *)
Definition DQ : byte := 34.
Definition BSL : byte := 92.
Fixpoint quote_body (s : bytes) : bytes :=
  match s with
  | [] => []
  | c :: r => if Nat.eqb c DQ || Nat.eqb c BSL then BSL :: c :: quote_body r else c :: quote_body r
  end.
Definition go_quote (s : bytes) : bytes := DQ :: quote_body s ++ [DQ].
Definition BASIC_REALM : bytes := [66; 97; 115; 105; 99; 32; 114; 101; 97; 108; 109; 61].  (* Basic realm= *)
Definition challenge (realm : bytes) : bytes := BASIC_REALM ++ go_quote realm.

Definition errorresp_status (code : Z) : nat := if (0 <? code)%Z then Z.to_nat code else 500.

(* the producer for a format inside a route, with the fall-back to the API default producer *)
Definition route_or_default (registered : list bytes) (d : bytes) (rt : route) (key : bytes) : option bytes :=
  match route_producer registered rt key with
  | Some p => Some p
  | None => default_fallback registered d
  end.

(* the branch for route == nil or route.Operation == nil: 200, producers of the offers *)
Definition respond_plain (registered offers : list bytes) (format : bytes) (head : bool) : outcome :=
  if head then Responded (mkresp format 200 None None None None)
  else match producers_for registered (map normalize_offer offers) (normalize_offer format) with
       | Some p => Responded (mkresp format 200 None (Some p) None None)
       | None => Panicked PNoProducer format
       end.

(* Context.Respond(rw, r, produces, route, data).
   head = the request method is HEAD; marker = security.FailedBasicAuth(r) (empty = none). *)
Definition respond (d : bytes) (registered : list bytes) (produces : list bytes) (rt : option route)
           (cached : option bytes) (specs : list spec) (head : bool) (marker : bytes) (dt : data) : outcome :=
  let offers := respond_offers d produces in
  let format := response_format cached specs offers in
  match dt with
  | DResponder code =>
    match rt with
    | None => Panicked PNilRoute format                    (* route.Producers on a nil route *)
    | Some r =>
      match route_or_default registered d r (normalize_offer format) with
      | Some p => Responded (mkresp format (errorresp_status code) None (Some p) (Some p) None)
      | None => Panicked PNoProducer format
      end
    end
  | DError code =>
    let ct := match format with [] => JSON_MIME | _ => format end in
    let www := match marker with [] => None | _ => Some (challenge marker) end in
    Responded (mkresp ct 0 www None None (Some code))
  | DValue =>
    match rt with
    | None => respond_plain registered offers format head
    | Some r =>
      if negb (rt_has_op r) then respond_plain registered offers format head
      else match success_code (rt_codes r) with
           | Some code =>
             if Nat.eqb code 204 || head then Responded (mkresp format code None None None None)
             else match route_or_default registered d r (normalize_offer format) with
                  | Some p => Responded (mkresp format code None (Some p) None None)
                  | None => Panicked PNoProducer format
                  end
           | None => Responded (mkresp format 0 None None None (Some 500))   (* cannot produce response *)
           end
    end
  end.

(* ---- the realm marker (security.BasicAuthRealm) ---- *)
(* what the request presents to the authenticator (net/http Request.BasicAuth decides):
   NoCreds         no Authorization header (or an empty one)
   BadCreds        Basic credentials that decode to user:password, refused by the authentication function
   GoodCreds       Basic credentials accepted by the authentication function
   MalformedCreds  an Authorization header of the Basic scheme that yields no user:password
                   (scheme only, not base64, decoded text without a colon)
   ForeignScheme   an Authorization header of another scheme (Bearer, Digest, ...)
   Only BadCreds and GoodCreds reach the authentication function. Every attempt but GoodCreds is a
   failed basic-auth attempt. *)
Inductive basic_attempt := NoCreds | BadCreds | GoodCreds | MalformedCreds | ForeignScheme.
(* Request.BasicAuth returned ok: the authentication function is consulted *)
Definition attempt_has_credentials (a : basic_attempt) : bool :=
  match a with BadCreds | GoodCreds => true | _ => false end.
Definition API_REALM : bytes := [65; 80; 73].
Definition effective_realm (realm : bytes) : bytes := match realm with [] => API_REALM | _ => realm end.
(* the marker left on the request after the authenticator ran (BasicAuthRealm and BasicAuthRealmCtx alike;
   BasicAuth and BasicAuthCtx are the same with the realm API): without usable credentials the
   authenticator records the realm and does not apply; with credentials it records the realm when the
   authentication function returns an error *)
Definition basic_marker (realm : bytes) (a : basic_attempt) : bytes :=
  match a with
  | GoodCreds => []
  | BadCreds => effective_realm realm
  | NoCreds | MalformedCreds | ForeignScheme => effective_realm realm
  end.
(* the marker found on a request that a basic authenticator (configured realm, attempt) examined, if any did *)
Definition model_marker (auth : option (bytes * basic_attempt)) : bytes :=
  match auth with Some (realm, a) => basic_marker realm a | None => [] end.

(* ---- the pipeline of one operation: security, validation (response format), handler ---- *)
Inductive auth_cfg :=
| NoAuth
| Basic (realm : bytes) (attempt : basic_attempt) (errcode : nat).   (* errcode: code of the error the authentication function returns on BadCreds *)

(* every stage answers through Respond with route.Produces and the matched route *)
Definition serve_respond (d : bytes) (registered : list bytes) (rt : route) (specs : list spec) (head : bool)
           (cached : option bytes) (marker : bytes) (dt : data) : outcome :=
  respond d registered (rt_produces rt) (Some rt) cached specs head marker dt.

(* validateRequest (no body, no parameters: only the response format stage can fail), then the handler.
   The stage negotiates over route.Produces as they are; the request in which ResponseFormat stored a
   non-empty answer is dropped by validation.responseFormat, so Respond negotiates again (over its own
   ordering of the offers) and nothing is found in the request context. *)
Definition serve_validated (d : bytes) (registered : list bytes) (rt : route) (specs : list spec) (head : bool)
           (marker : bytes) (result : data) : outcome :=
  let f := negotiate_content_type specs (rt_produces rt) [] in
  match f, rt_produces rt with
  | [], _ :: _ => serve_respond d registered rt specs head None marker (DError 406)
  | _, _ => serve_respond d registered rt specs head None marker result
  end.

(* the route handler of newRoutableUntypedAPI behind newSecureAPI *)
Definition serve (d : bytes) (registered : list bytes) (rt : route) (specs : list spec) (head : bool)
           (auth : auth_cfg) (result : data) : outcome :=
  match auth with
  | NoAuth => serve_validated d registered rt specs head [] result
  | Basic realm NoCreds _ => serve_respond d registered rt specs head None (basic_marker realm NoCreds) (DError 401)
  | Basic realm BadCreds code => serve_respond d registered rt specs head None (basic_marker realm BadCreds) (DError code)
  | Basic realm GoodCreds _ => serve_validated d registered rt specs head (basic_marker realm GoodCreds) result
  (* the authenticator does not apply, no other does: Authorize answers 401 invalid credentials, as for NoCreds *)
  | Basic realm MalformedCreds _ => serve_respond d registered rt specs head None (basic_marker realm MalformedCreds) (DError 401)
  | Basic realm ForeignScheme _ => serve_respond d registered rt specs head None (basic_marker realm ForeignScheme) (DError 401)
  end.

(* ---- the route's produces (router.go AddRoute): the declared produces in their declared order, each once,
   then the API default unless it is already there up to letter case ---- *)
Fixpoint dedup (l : list bytes) : list bytes :=
  match l with
  | [] => []
  | x :: r => x :: filter (fun y => negb (bytes_eqb y x)) (dedup r)
  end.
Definition contains_ci (l : list bytes) (x : bytes) : bool := existsb (fun y => bytes_eqb (lower y) (lower x)) l.
Definition route_produces_of (d : bytes) (declared : list bytes) : list bytes :=
  let ps := dedup declared in
  match d with
  | [] => ps
  | _ => if contains_ci ps d then ps else ps ++ [d]
  end.

(* ---- security requirements with several alternatives and several schemes per alternative
   (middleware/router.go RouteAuthenticators.Authenticate, RouteAuthenticator.Authenticate, Context.Authorize).
   One basic scheme (realm, attempt, errcode as above) and any number of api-key schemes; what the request
   presents to each api-key scheme is written into the requirement itself. An alternative is the list of
   its schemes in the order the route consults them; the empty alternative is the anonymous one.
   The basic authenticator writes its marker into the request whenever it is consulted and does not accept;
   nothing ever removes the marker: it is still there when a later alternative admits the request, and when
   the answer is finally given. ---- *)
Inductive key_attempt :=
| KeyAbsent               (* no token: the authenticator does not apply *)
| KeyBad (code : nat)     (* a token the authentication function refuses with an error of this code *)
| KeyGood.                (* a token the authentication function accepts *)
Inductive sec_scheme := SBasic | SKey (a : key_attempt).
Record sec_cfg := mksec {
  sec_realm : bytes;                      (* configured realm of the basic scheme *)
  sec_attempt : basic_attempt;            (* what the request presents to the basic scheme *)
  sec_errcode : nat;                      (* code of the error the basic authentication function returns *)
  sec_alts : list (list sec_scheme)       (* the alternatives, in the order declared; no alternative = no security *)
}.
(* the answer of one authenticator: (applies, principal, error) *)
Inductive sec_res := SNotApplies | SErr (code : nat) | SOk.
Definition scheme_res (s : sec_cfg) (x : sec_scheme) : sec_res :=
  match x with
  | SBasic => match sec_attempt s with
              | GoodCreds => SOk
              | BadCreds => SErr (sec_errcode s)
              | NoCreds | MalformedCreds | ForeignScheme => SNotApplies
              end
  | SKey KeyAbsent => SNotApplies
  | SKey (KeyBad c) => SErr c
  | SKey KeyGood => SOk
  end.
(* the marker after an authenticator ran: the basic one overwrites it when it does not accept *)
Definition marker_after_scheme (s : sec_cfg) (x : sec_scheme) (m : bytes) : bytes :=
  match x with
  | SBasic => match basic_marker (sec_realm s) (sec_attempt s) with [] => m | b => b end
  | SKey _ => m
  end.
(* RouteAuthenticator.Authenticate: the schemes in order, stopping at the first that does not apply or errs *)
Fixpoint run_alt (s : sec_cfg) (alt : list sec_scheme) (m : bytes) : sec_res * bytes :=
  match alt with
  | [] => (SOk, m)
  | x :: r =>
    let m' := marker_after_scheme s x m in
    match scheme_res s x with
    | SOk => run_alt s r m'
    | res => (res, m')
    end
  end.
(* RouteAuthenticators.Authenticate followed by the decision of Context.Authorize:
   (admitted, error to answer with when not admitted, marker left on the request) *)
Fixpoint run_alts (s : sec_cfg) (alts : list (list sec_scheme)) (last_err : option nat) (anon : bool) (m : bytes)
  : bool * nat * bytes :=
  match alts with
  | [] => match last_err with
          | Some c => (false, c, m)
          | None => if anon then (true, 0, m) else (false, 401, m)      (* Unauthenticated: invalid credentials *)
          end
  | [] :: r => run_alts s r last_err true m
  | alt :: r =>
    match run_alt s alt m with
    | (SOk, m') => (true, 0, m')
    | (SErr c, m') => run_alts s r (Some c) anon m'
    | (SNotApplies, m') => run_alts s r last_err anon m'
    end
  end.
(* the route handler behind newSecureAPI, any security requirement *)
Definition serve_sec (d : bytes) (registered : list bytes) (rt : route) (specs : list spec) (head : bool)
           (s : sec_cfg) (result : data) : outcome :=
  match sec_alts s with
  | [] => serve_validated d registered rt specs head [] result
  | alts =>
    match run_alts s alts None false [] with
    | (true, _, m) => serve_validated d registered rt specs head m result
    | (false, c, m) => serve_respond d registered rt specs head None m (DError c)
    end
  end.
(* the requirement of the one-scheme cases above *)
Definition sec_of_auth (a : auth_cfg) : sec_cfg :=
  match a with
  | NoAuth => mksec [] NoCreds 0 []
  | Basic realm attempt code => mksec realm attempt code [[SBasic]]
  end.

(* ---- several requests answered one after the other by ONE Context (one API, one router): nothing is
   carried from one answer to the next; the history of answers is the list of the single answers ---- *)
Record hreq := mkhreq {
  hq_route : route;             (* the operation matched by the request: produces, declared codes *)
  hq_specs : list spec;         (* Accept *)
  hq_head : bool;
  hq_sec : sec_cfg;             (* the operation's security requirement and what the request presents *)
  hq_result : data              (* what the handler returns *)
}.
Definition serve_req (d : bytes) (registered : list bytes) (q : hreq) : outcome :=
  serve_sec d registered (hq_route q) (hq_specs q) (hq_head q) (hq_sec q) (hq_result q).
Definition serve_history (d : bytes) (registered : list bytes) (qs : list hreq) : list outcome :=
  map (serve_req d registered) qs.

(* ---- which error responder. The API's error responder is a field of the API value (untyped.API.ServeError;
   errors.ServeError until something else is assigned) that may be assigned at any time: before the Context / the
   handler chain is built from the API, after it, and between two requests. ServeErrorFor reads the field when the
   error is served, so the responder invoked is the one in force at that moment: the last one assigned.
   Responders are numbered; 0 = the library's own errors.ServeError (what NewAPI installs). ---- *)
Record responder_cfg := mkrcfg {
  rc_before : list nat;      (* assigned before the Context / handler was built, in order *)
  rc_after : list nat        (* assigned after that and before the request is served, in order *)
}.
Definition DEFAULT_RESPONDER : nat := 0.
Definition responder_in_force (c : responder_cfg) : nat := last (rc_before c ++ rc_after c) DEFAULT_RESPONDER.
