(* Peek.v — model of request.go: HasBody, newPeekingReader, peekingReader (HasContent/Read/Close)
   over an exact model of the parts of bufio.Reader they use (Buffered, Peek(1), Read, fill with
   the 100-empty-reads limit, the 4096-byte buffer, the large-read bypass).
   Definitions only.

   Every probing HasBody wraps the current r.Body in a NEW peekingReader with its own
   bufio.Reader, so after n probes r.Body is a stack of n layers over the original stream. A
   layer is what survives of (peekingReader, bufio.Reader) between calls: the buffered bytes
   buf[r:w], the pending error b.err, and whether Close set p.underlying to nil.  (The offsets
   r, w themselves never matter here: fill is only reached from Peek(1) with an empty buffer, and
   Read's own refill resets r = w = 0, so a refill always has the whole buffer free.) *)
From V Require Export StreamScripts.

Definition bufsize : nat := 4096.            (* bufio.defaultBufSize *)
Definition max_empty_reads : nat := 100.     (* bufio.maxConsecutiveEmptyReads *)

Record layer := mkL { lbuf : bytes; lerr : option err; lclosed : bool }.
Definition fresh_layer : layer := mkL [] None false.

(* (bytes delivered, error returned) of one Read call *)
Definition rres := (bytes * option err)%type.

(* peekingReader.Read on the top layer of a stack with a k-byte destination; the bottom of the
   stack is the scripted stream r (a typed-nil *peekingReader bottom behaves as Dead EOF: its
   Read returns 0, io.EOF). Top of the stack = head of the list. *)
Fixpoint stack_read (k : nat) (ls : list layer) (r : rstate) : rres * list layer * rstate :=
  match ls with
  | [] => let '(o, r') := sread k r in (o, [], r')
  | l :: lo =>
    if lclosed l then (([], Some EUnexpectedEOF), ls, r)            (* p.underlying == nil *)
    else if Nat.eqb k 0 then                                         (* bufio.Read, len(p) == 0 *)
      match lbuf l with
      | _ :: _ => (([], None), ls, r)
      | [] => (([], lerr l), fresh_layer :: lo, r)                   (* readErr() *)
      end
    else
      match lbuf l with
      | [] =>
        match lerr l with
        | Some e => (([], Some e), fresh_layer :: lo, r)             (* pending error, consumed *)
        | None =>
          if bufsize <=? k then                                      (* large read, empty buffer *)
            let '(o, lo', r') := stack_read k lo r in
            (o, fresh_layer :: lo', r')
          else                                                       (* one read into the buffer *)
            let '((c, oe), lo', r') := stack_read bufsize lo r in
            match c with
            | [] => (([], oe), fresh_layer :: lo', r')
            | _ :: _ => ((firstn k c, None), mkL (skipn k c) oe false :: lo', r')
            end
        end
      | _ :: _ => ((firstn k (lbuf l), None), mkL (skipn k (lbuf l)) (lerr l) false :: lo, r)
      end
  end.

(* bufio.fill on an empty buffer: up to i reads of the whole buffer from the layers below *)
Fixpoint fill_loop (i : nat) (lo : list layer) (r : rstate) : rres * list layer * rstate :=
  match i with
  | O => (([], Some ENoProgress), lo, r)
  | S i' =>
    let '((c, oe), lo', r') := stack_read bufsize lo r in
    match oe with
    | Some e => ((c, Some e), lo', r')
    | None => match c with
              | [] => fill_loop i' lo' r'
              | _ :: _ => ((c, None), lo', r')
              end
    end
  end.

Inductive outcome (A : Type) := Ok (a : A) | Panic.
Arguments Ok {A} a.
Arguments Panic {A}.

(* peekingReader.HasContent on the top layer (non-nil receiver) *)
Definition has_content (ls : list layer) (r : rstate) : outcome bool * list layer * rstate :=
  match ls with
  | [] => (Panic, ls, r)                                   (* not reachable: called on a layer *)
  | l :: lo =>
    if lclosed l then (Panic, ls, r)                       (* p.underlying is a nil interface *)
    else match lbuf l with
    | _ :: _ => (Ok true, ls, r)                           (* Buffered() > 0 *)
    | [] =>                                                (* Peek(1) *)
      match lerr l with
      | Some _ => (Ok false, fresh_layer :: lo, r)         (* no fill; the pending error is consumed *)
      | None =>
        let '((c, oe), lo', r') := fill_loop max_empty_reads lo r in
        match c with
        | [] => (Ok false, fresh_layer :: lo', r')         (* avail < 1: error consumed by readErr *)
        | _ :: _ => (Ok true, mkL c oe false :: lo', r')
        end
      end
    end
  end.

(* peekingReader.Close down the stack: result, layers, number of Close calls that reached the
   bottom. base_close is what the bottom's Close returns. *)
Fixpoint stack_close (base_close : option err) (ls : list layer) : option err * list layer * nat :=
  match ls with
  | [] => (base_close, [], 1)
  | l :: lo =>
    if lclosed l then (Some EClosed, ls, 0)
    else let '(e, lo', n) := stack_close base_close lo in (e, mkL [] None true :: lo', n)
  end.

(* ---------- requests and histories ---------- *)
Record cfg := mkCfg {
  c_cl : Z;                 (* r.ContentLength *)
  c_hdr : bool;             (* the Content-Length header is non-empty *)
  c_nil : bool;             (* r.Body == nil *)
  c_cerr : option err       (* what the scripted stream's Close returns *)
}.

Record st := mkSt {
  s_body : bool;            (* r.Body != nil *)
  s_stream : bool;          (* the bottom is the scripted stream (else a typed-nil *peekingReader) *)
  s_ls : list layer;
  s_r : rstate;
  s_closes : nat            (* Close calls received by the scripted stream *)
}.

Definition init (c : cfg) (steps : list rstep) : st :=
  if c_nil c then mkSt false false [] (Dead EOF) 0 else mkSt true true [] (Live steps) 0.

Inductive op := OpHas | OpRead (k : nat) | OpClose.

Inductive out :=
| OHas (b : bool)
| ORead (c : bytes) (e : option err)
| OClose (e : option err)
| ONoBody            (* the caller would call a method on a nil r.Body: not done *)
| OPanic.

(* runtime.HasBody *)
Definition has_body (c : cfg) (s : st) : out * st :=
  if (0 <? c_cl c)%Z then (OHas true, s)
  else if c_hdr c then (OHas false, s)
  else if negb (s_body s) then
    (* newPeekingReader(nil) = nil; r.Body = typed nil; HasContent on a nil receiver = false *)
    (OHas false, mkSt true false [] (Dead EOF) (s_closes s))
  else
    let '(o, ls', r') := has_content (fresh_layer :: s_ls s) (s_r s) in
    (match o with Ok b => OHas b | Panic => OPanic end, mkSt true (s_stream s) ls' r' (s_closes s)).

Definition do_read (k : nat) (s : st) : out * st :=
  if negb (s_body s) then (ONoBody, s)
  else let '((c, oe), ls', r') := stack_read k (s_ls s) (s_r s) in
       (ORead c oe, mkSt true (s_stream s) ls' r' (s_closes s)).

(* the bottom's Close: the scripted stream returns c_cerr and counts; a typed-nil
   *peekingReader returns nil (after the fix of F-C17-1; it dereferenced nil before) *)
Definition do_close (c : cfg) (s : st) : out * st :=
  if negb (s_body s) then (ONoBody, s)
  else let '(e, ls', n) := stack_close (if s_stream s then c_cerr c else None) (s_ls s) in
       (OClose e, mkSt true (s_stream s) ls' (s_r s) (if s_stream s then s_closes s + n else s_closes s)).

Definition step (c : cfg) (o : op) (s : st) : out * st :=
  match o with
  | OpHas => has_body c s
  | OpRead k => do_read k s
  | OpClose => do_close c s
  end.

Fixpoint run (c : cfg) (ops : list op) (s : st) : list out * st :=
  match ops with
  | [] => ([], s)
  | o :: ops' => let '(x, s') := step c o s in
                 let '(xs, s'') := run c ops' s' in (x :: xs, s'')
  end.

(* ---------- two requests in flight, their calls interleaved ----------
   Each request has its own body stream and, after a probe, its own wrapper: nothing in request.go is shared
   between requests. A call is tagged with the request it is made on (false: the first, true: the second);
   a caller may hold on to r.Body of one request and use it after the other request has been probed. *)
Definition op2 := (bool * op)%type.

Fixpoint run2 (cA cB : cfg) (ops : list op2) (sA sB : st) : list out * (st * st) :=
  match ops with
  | [] => ([], (sA, sB))
  | (false, o) :: ops' =>
    let '(x, sA') := step cA o sA in
    let '(xs, ss) := run2 cA cB ops' sA' sB in (x :: xs, ss)
  | (true, o) :: ops' =>
    let '(x, sB') := step cB o sB in
    let '(xs, ss) := run2 cA cB ops' sA sB' in (x :: xs, ss)
  end.
