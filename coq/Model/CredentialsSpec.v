(* CredentialsSpec.v — the vocabulary of property C14 on observations of the real code. *)
From V Require Export Credentials.

(* a value that survives a header line: no control bytes, no blank at either end, below 256 *)
Definition header_safe (v : bytes) : bool :=
  forallb (fun c => (32 <=? c) && negb (c =? 127) && (c <? 256)) v &&
  match v with c :: _ => negb (is_blank c) | [] => true end &&
  match rev v with c :: _ => negb (is_blank c) | [] => true end.

(* bearer precedence on the three placements (empty = absent) *)
Definition bearer_expected (hdr_tok query_tok form_tok : bytes) (form_ct : bool) : option bytes :=
  match hdr_tok with
  | _ :: _ => Some hdr_tok
  | [] => match query_tok with
          | _ :: _ => Some query_tok
          | [] => if form_ct then nonempty form_tok else None
          end
  end.
