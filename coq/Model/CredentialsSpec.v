(* CredentialsSpec.v — the vocabulary of property C14 on observations of the real code. *)
From V Require Export Credentials.

(* a value that survives a header line: no control bytes, no blank at either end, below 256 *)
Definition header_safe (v : bytes) : bool :=
  forallb (fun c => (32 <=? c) && negb (c =? 127) && (c <? 256)) v &&
  match v with c :: _ => negb (is_blank c) | [] => true end &&
  match rev v with c :: _ => negb (is_blank c) | [] => true end.

(* bearer precedence on the three placements (empty = absent) *)
Definition bearer_expected (hdr_tok query_tok form_tok : bytes) (form_ct : bool) : option bytes :=
  match hdr_tok with
  | _ :: _ => Some hdr_tok
  | [] => match query_tok with
          | _ :: _ => Some query_tok
          | [] => if form_ct then nonempty form_tok else None
          end
  end.

(* ---------- the default-credential rule, stated on what reaches the wire ---------- *)
Definition is_nil (b : bytes) : bool := match b with [] => true | _ :: _ => false end.

(* the transport-wide default credential may be used only when the operation has no writer of its own
   and the parameters have not set an Authorization header *)
Definition default_applicable (op : option writer) (q0 : request) : bool :=
  match op with Some _ => false | None => is_nil (raw_header s_authorization q0) end.

(* the request the property asks for: the operation's own credential, and the default one only when applicable *)
Definition expected_request (op default : option writer) (q0 : request) : request :=
  let q1 := match op with Some w => write_cred w q0 | None => q0 end in
  match default with
  | Some d => if default_applicable op q0 then write_cred d q1 else q1
  | None => q1
  end.

(* what is observed of a request after the wire: every header that is not set by the transport itself
   (lower-cased name, values) and every query parameter (name, values). An empty header value counts as absent. *)
Definition obs_map := list (bytes * list bytes).
Definition nonempty_vals (vs : list bytes) : list bytes := filter (fun v => negb (is_nil v)) vs.
Definition header_vals (k : bytes) (q : request) : list bytes :=
  match get_header k q with [] => [] | v => [v] end.
Definition headers_match (obs : obs_map) (q : request) : bool :=
  forallb (fun kv => list_eqb bytes_eqb (nonempty_vals (snd kv)) (header_vals (fst kv) q)) obs &&
  forallb (fun kv => list_eqb bytes_eqb (nonempty_vals (lookup_vals (fst kv) obs)) (header_vals (fst kv) q)) (r_headers q).
Definition query_match (obs : obs_map) (q : request) : bool :=
  forallb (fun kv => list_eqb bytes_eqb (snd kv) (lookup_vals (fst kv) (r_query q))) obs &&
  forallb (fun kv => list_eqb bytes_eqb (lookup_vals (fst kv) obs) (lookup_vals (fst kv) (r_query q))) (r_query q).
Definition wire_match (obs_headers obs_query : obs_map) (q : request) : bool :=
  headers_match obs_headers q && query_match obs_query q.

(* the request before the credentials are written: what the operation's parameters have set *)
Definition preset_request (hs qs : list (bytes * bytes)) (q : request) : request :=
  fold_left (fun acc kv => set_query (fst kv) [snd kv] acc) qs
            (fold_left (fun acc kv => set_header (fst kv) (snd kv) acc) hs q).

(* ---------- a credential is taken from its declared location only ---------- *)
(* the request reduced to the place(s) the authenticator is declared to read: everything else the request carries - other
   headers (cookies among them), other query parameters, the form body for every kind but bearer - is erased *)
Definition keep_key {V : Type} (k : bytes) (l : list (bytes * V)) : list (bytes * V) :=
  filter (fun kv => bytes_eqb k (fst kv)) l.
Definition declared_part (k : cred_kind) (name : bytes) (q : request) : request :=
  match k with
  | KBasic => mkReq (keep_key s_authorization (r_headers q)) [] false []
  | KKeyHeader => mkReq (keep_key (lower name) (r_headers q)) [] false []
  | KKeyQuery => mkReq [] (keep_key name (r_query q)) false []
  | KBearer => mkReq (keep_key s_authorization (r_headers q)) (keep_key s_access_token (r_query q)) (r_form_ct q)
                     (keep_key s_access_token (r_form q))
  end.
Definition cred_eqb (a b : bytes * bytes) : bool := bytes_eqb (fst a) (fst b) && bytes_eqb (snd a) (snd b).
Definition has_cred {A} (o : option A) : bool := match o with Some _ => true | None => false end.
(* on an observation of the real authenticator (applies, what the callback received): the scheme applies exactly when the
   declared location carries a credential, and the callback receives that credential - whatever the same name or the same
   token is doing in the other places of the request *)
Definition from_declared_location (k : cred_kind) (name : bytes) (q : request) (applies : bool) (got : option (bytes * bytes)) : bool :=
  Bool.eqb applies (has_cred got) && opt_eqb cred_eqb got (read_cred k name (declared_part k name q)).
