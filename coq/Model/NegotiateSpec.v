(* NegotiateSpec.v — the property's own vocabulary for C07, as short executable definitions.
   No reference to the fold in Negotiate.v. *)
From V Require Export Negotiate.

(* what a range contributes for an offer: its quality and wildcard level, when it is
   acceptable (q <> 0) and matches *)
Definition score (sp : spec) (raw_offer : bytes) : option (qv * nat) :=
  if q_is0 (sq sp) then None
  else match range_match (sval sp) (normalize_offer raw_offer) with
       | Some w => Some (sq sp, w)
       | None => None
       end.

(* a strictly outranks b: higher quality, or equal quality and more specific *)
Definition sc_better (a b : qv * nat) : bool :=
  q_lt (fst b) (fst a) || (q_eq (fst a) (fst b) && (snd a <? snd b)).

(* all (offer index, offer, score) triples, offer-major *)
Fixpoint scored_from (i : nat) (specs : list spec) (offers : list bytes) : list (nat * bytes * (qv * nat)) :=
  match offers with
  | [] => []
  | o :: r =>
    flat_map (fun sp => match score sp o with Some sc => [(i, o, sc)] | None => [] end) specs
    ++ scored_from (S i) specs r
  end.
Definition scored (specs : list spec) (offers : list bytes) := scored_from 0 specs offers.

(* r is the answer the property demands *)
Definition lexmax_b (specs : list spec) (offers : list bytes) (default r : bytes) : bool :=
  match specs, offers with
  | [], o :: _ => bytes_eqb r o                     (* no Accept header: first offer *)
  | _, _ =>
    let all := scored specs offers in
    match all with
    | [] => bytes_eqb r default                      (* nothing acceptable: the default *)
    | _ => existsb (fun '(i, o, sc) =>
             bytes_eqb r o &&
             forallb (fun '(j, _, sc') =>
                        negb (sc_better sc' sc) &&                 (* nothing outranks it *)
                        (if j <? i then sc_better sc sc' else true)) (* earlier offers are strictly worse *)
                     all) all
    end
  end.

(* ---- exact decimal value of a q literal, independent of any digit cap ---- *)
Fixpoint dec_num (ds : bytes) (acc : Z) : Z :=
  match ds with
  | [] => acc
  | b :: r => dec_num r (acc * 10 + Z.of_nat b - 48)%Z
  end.
Definition digits_of (s : bytes) : bytes := fst (span is_digit s).

(* the number an optional fraction adds to the integer digit q *)
Definition q_lit_frac (q : Z) (s' : bytes) : option (Z * Z) :=
  match s' with
  | c :: s'' => if Nat.eqb c 46
                then let ds := digits_of s'' in
                     Some ((q * 10 ^ Z.of_nat (length ds) + dec_num ds 0)%Z, (10 ^ Z.of_nat (length ds))%Z)
                else Some (q, 1%Z)
  | [] => Some (q, 1%Z)
  end.

(* the number a q literal denotes, as numerator/denominator; None when expectQuality rejects it *)
Definition q_literal (s : bytes) : option (Z * Z) :=
  match s with
  | [] => None
  | c :: r => if Nat.eqb c 48 then q_lit_frac 0%Z r
              else if Nat.eqb c 49 then q_lit_frac 1%Z r
              else if Nat.eqb c 46 then q_lit_frac 0%Z s
              else None
  end.
