(* SpecRouter.v — model of the spec-driven router (middleware/router.go) on top of the denco model.
   Definitions only. Follows DefaultRouter / AddRoute / pathConverter / defaultRouter.Lookup /
   OtherMethods / decodeCompositParams / NewRouter branch by branch. The denco layer is
   DencoTrie.router_lookup (one table per upper-cased method). *)
From V Require Import Bytes DencoSpec DencoTrie PathCleanLib PathUnescapeLib.

Definition LBRACE : byte := 123.
Definition RBRACE : byte := 125.
Definition NL : byte := 10.

(* strings.Index: position of the first occurrence *)
Fixpoint index_of (pat s : bytes) {struct s} : option nat :=
  if has_prefix pat s then Some 0
  else match s with
       | [] => None
       | _ :: r => match index_of pat r with Some i => Some (S i) | None => None end
       end.

(* strings.TrimPrefix *)
Definition trim_prefix (pre s : bytes) : bytes := if has_prefix pre s then skipn (length pre) s else s.

(* ---------- pathConverter: a brace, a lazy non-empty name, a brace, then the rest of the
   segment; the whole match is replaced by a colon and the name ---------- *)
(* after the opening brace and the first (mandatory, non-newline) byte of the name: the text up to
   the first closing brace, provided no newline comes before it; and the text after that brace *)
Fixpoint scan_close (r : bytes) : option (bytes * bytes) :=
  match r with
  | [] => None
  | c :: r' =>
    if Nat.eqb c RBRACE then Some ([], r')
    else if Nat.eqb c NL then None
    else match scan_close r' with Some (n, a) => Some (c :: n, a) | None => None end
  end.

(* r is the text after an opening brace: the name (lazy, at least one byte) and the text after the
   closing brace *)
Definition match_placeholder (r : bytes) : option (bytes * bytes) :=
  match r with
  | [] => None
  | c0 :: r' =>
    if Nat.eqb c0 NL then None
    else match scan_close r' with Some (n, a) => Some (c0 :: n, a) | None => None end
  end.

(* ReplaceAllString: leftmost matches, left to right; the rest of the segment after the closing
   brace belongs to the match and is dropped *)
Fixpoint convert_fuel (f : nat) (s : bytes) : bytes :=
  match f with
  | 0 => []
  | S f =>
    match s with
    | [] => []
    | c :: r =>
      if Nat.eqb c LBRACE then
        match match_placeholder r with
        | Some (name, after) => COLON :: name ++ convert_fuel f (snd (span_seg after))
        | None => c :: convert_fuel f r
        end
      else c :: convert_fuel f r
    end
  end.
Definition convert_template (s : bytes) : bytes := convert_fuel (S (length s)) s.

(* ---------- decodeCompositParams (after the fixes of F-C01-3 and F-C01-5) ---------- *)
Inductive dres := DOk (names values : list bytes) | DPanic | DFuel.

Definition cut_value (toskip value : bytes) : bytes * bytes :=
  match index_of toskip value with
  | Some vright => (firstn vright value, skipn (vright + length toskip) value)
  | None => ([], [])
  end.

(* pleft and pright: the first opening brace and the first closing brace from there on; a pattern
   without that closing brace is literal text *)
Definition braces_of (pattern : bytes) : option (nat * nat) :=
  match index_of [LBRACE] pattern with
  | None => None
  | Some pleft =>
    match index_of [RBRACE] (skipn pleft pattern) with
    | None => None
    | Some closing => Some (pleft, pleft + closing)
    end
  end.

(* the literal branch: the value without the pattern when it ends with it, else the empty text *)
Definition literal_value (value pattern : bytes) : bytes :=
  if has_suffix pattern value then firstn (length value - length pattern) value else [].

Fixpoint decode_composite (f : nat) (name value pattern : bytes) (names values : list bytes) : dres :=
  match f with
  | 0 => DFuel
  | S f =>
    match braces_of pattern with
    | None => DOk (names ++ [name]) (values ++ [literal_value value pattern])
    | Some (pleft, pright) =>
      if pright <? S pleft then DPanic                 (* pattern[pleft+1:pright] is a checked slice *)
      else
        decode_composite f (firstn (pright - S pleft) (skipn (S pleft) pattern))
                         (snd (cut_value (firstn pleft pattern) value))
                         (skipn (S pright) pattern)
                         (names ++ [name]) (values ++ [fst (cut_value (firstn pleft pattern) value)])
    end
  end.

(* ---------- route table ---------- *)
Record route := mkRoute { r_method : bytes; r_tpl : bytes; r_id : nat }.

(* what a denco record carries: routeEntry.PathPattern, the operation, the handler *)
Definition rvalue := (bytes * (nat * nat))%type.

(* AddRoute: bp *)
Definition base_prefix (base : bytes) : bytes :=
  let bp := clean base in if has_suffix [SL] bp then removelast bp else bp.

(* api.HandlerFor(method, path): the handlers are registered per upper-cased method and template *)
Definition handler_for (routes : list route) (m path : bytes) : option route :=
  find (fun r => bytes_eqb (upper (r_method r)) (upper m) && bytes_eqb (r_tpl r) path) routes.

(* AddRoute: the template under which the handler is looked up; the root template joined to a base
   path is the base path itself (fix of F-C01-4) *)
Definition template_of (base full : bytes) : bytes :=
  match trim_prefix (base_prefix base) full with
  | [] => [SL]
  | t => t
  end.

Definition record_of (base : bytes) (routes : list route) (r : route) : option (bytes * rvalue) :=
  let full := path_join base (r_tpl r) in
  match handler_for routes (r_method r) (template_of base full) with
  | Some h => Some (convert_template full, (full, (r_id r, r_id h)))
  | None => None
  end.

(* d.records[mn] *)
Fixpoint table (base : bytes) (all routes : list route) (mth : bytes) : list (bytes * rvalue) :=
  match routes with
  | [] => []
  | r :: rest =>
    if bytes_eqb (upper (r_method r)) mth
    then match record_of base all r with
         | Some rec => rec :: table base all rest mth
         | None => table base all rest mth
         end
    else table base all rest mth
  end.

Fixpoint dedup (l : list bytes) : list bytes :=
  match l with
  | [] => []
  | x :: r => if existsb (bytes_eqb x) r then dedup r else x :: dedup r
  end.

(* keys of d.routers *)
Definition methods (base : bytes) (routes : list route) : list bytes :=
  dedup (map (fun r => upper (r_method r))
             (filter (fun r => match record_of base routes r with Some _ => true | None => false end) routes)).

(* ---------- defaultRouter.Lookup ---------- *)
Definition xpos_of (pat name : bytes) : nat :=
  match index_of (LBRACE :: name ++ [RBRACE]) pat with
  | Some i => i + length name + 2
  | None => length name + 1
  end.

Definition composite_at (pat : bytes) (xpos : nat) : bool :=
  match nth_error pat xpos with
  | Some c => negb (Nat.eqb c SLASH)
  | None => false
  end.

Inductive pres := POk (ps : list (bytes * bytes)) | PPanic | PFuel.

Fixpoint bind_params (pat : bytes) (rp : list (bytes * bytes)) (acc : list (bytes * bytes)) : pres :=
  match rp with
  | [] => POk acc
  | (name, raw) :: rest =>
    let v := unescape_or_raw raw in
    let xpos := xpos_of pat name in
    if composite_at pat xpos then
      let ep := fst (span_seg (skipn xpos pat)) in
      match decode_composite (S (length ep)) name v ep [] [] with
      | DOk ns vs => bind_params pat rest (acc ++ combine ns vs)
      | DPanic => PPanic
      | DFuel => PFuel
      end
    else bind_params pat rest (acc ++ [(name, v)])
  end.

Inductive lkres :=
| LFound (pat : bytes) (op h : nat) (ps : list (bytes * bytes))
| LNone
| LPanic
| LFuel.

Definition lookup (base : bytes) (routes : list route) (method path : bytes) : lkres :=
  match router_lookup (table base routes routes (upper method)) (clean path) with
  | Found (pat, (op, h)) rp =>
    match bind_params pat rp [] with
    | POk ps => LFound pat op h ps
    | PPanic => LPanic
    | PFuel => LFuel
    end
  | NotFound => LNone
  | Panic => LPanic
  | OutOfFuel => LFuel
  end.

Definition found_b {V} (r : lres V) : bool := match r with Found _ _ => true | _ => false end.

(* OtherMethods: the other method tables in which the cleaned path is found *)
Definition other_methods (base : bytes) (routes : list route) (method path : bytes) : list bytes :=
  filter (fun k => negb (bytes_eqb k (upper method))
                   && found_b (router_lookup (table base routes routes k) (clean path)))
         (methods base routes).

(* ---------- NewRouter + NewOperationExecutor ---------- *)
Inductive outcome :=
| Run (h : nat) (ps : list (bytes * bytes))     (* the handler registered for operation h is invoked *)
| R405 (allow : list bytes)
| R404
| RPanic
| RFuel.

Definition serve (base : bytes) (routes : list route) (method path : bytes) : outcome :=
  match lookup base routes method path with
  | LFound _ _ h ps => Run h ps
  | LPanic => RPanic
  | LFuel => RFuel
  | LNone =>
    match other_methods base routes method path with
    | [] => R404
    | others => R405 others
    end
  end.
