(* Security.v — C02: model of the security pipeline of go-openapi/runtime/middleware.
   Definitions only. Follows, branch by branch,
     RouteAuthenticator.Authenticate   (router.go)   -> auth_alt
     RouteAuthenticators.Authenticate  (router.go)   -> auth_alts
     Context.Authorize                 (context.go)  -> authorize
     newSecureAPI + the bind/handle closure (security.go, context.go) -> secure_handler
   as they are in the verification worktree AFTER the two repairs F-C02-1 (an alternative naming a scheme
   without a registered authenticator never applies) and F-C02-2 (an accepted scheme without a principal
   leaves the whole alternative without a principal, wherever it stands in the evaluation order).

   Scheme names, scopes, principals and error messages are small naturals (identifiers); the
   per-request behaviour of the registered authenticators is an oracle
     out : scheme name -> required scopes -> outcome
   and the order of the schemes inside an alternative (a Go map iteration order in the analyzer) is the
   order of the list, so every statement about the model is a statement for every order. *)
From V Require Export Bytes.

Definition principal := nat.

(* an error value: one that carries its own status (errors.Error) or a plain Go error *)
Inductive err := EStatus (code msg : nat) | EPlain (msg : nat).

(* what a scheme's authenticator answers for the request: (false,_,_) | (true,p,nil) | (true,_,err) *)
Inductive outcome := NA | Acc (p : option principal) | Rej (e : err).

(* one entry of a requirement alternative: scheme name, required scopes, is an authenticator registered *)
Record sreq := mk_sreq { sname : nat; sscopes : list nat; sreg : bool }.

(* an alternative: the empty requirement (anonymous) or the schemes, in evaluation order *)
Inductive alt := Anon | Reqs (l : list sreq).

Inductive event :=
| AuthCalled (s : nat) (scopes : list nat)      (* the authenticator of scheme s was invoked *)
| AuthorizerCalled (p : option principal)
| Bind                                          (* parameter binding / validation ran (consumer may run) *)
| Handle (p : option principal) (scopes : list nat)   (* the operation handler ran and read these *)
| Respond (code msg : nat)                      (* the response that was written *)
| Panicked.                                     (* nil dereference of MatchedRoute.Authenticator *)

Definition oracle := nat -> list nat -> outcome.

(* ---- RouteAuthenticator.Authenticate ---- *)

(* (applies, principal, error, route.Authenticator was set to this alternative) *)
Record ares := mk_ares { a_applies : bool; a_usr : option principal; a_err : option err; a_set : bool }.

(* the loop over ra.Schemes; last = lastResult, missing = some accepted scheme had no principal *)
Fixpoint run_schemes (out : oracle) (l : list sreq) (last : option principal) (missing : bool)
  : list event * ares :=
  match l with
  | [] => ([], mk_ares true (if missing then None else last) None true)
  | s :: r =>
    match out (sname s) (sscopes s) with
    | NA => ([AuthCalled (sname s) (sscopes s)], mk_ares false None None false)
    | Rej e => ([AuthCalled (sname s) (sscopes s)], mk_ares true None (Some e) true)
    | Acc p =>
      let '(t, res) := run_schemes out r p (missing || match p with None => true | Some _ => false end) in
      (AuthCalled (sname s) (sscopes s) :: t, res)
    end
  end.

Definition auth_alt (out : oracle) (a : alt) : list event * ares :=
  match a with
  | Anon => ([], mk_ares true None None true)
  | Reqs l =>
    if forallb sreg l then run_schemes out l None false
    else ([], mk_ares false None None false)       (* F-C02-1 repair: checked before any call *)
  end.

(* ---- RouteAuthenticators.Authenticate ---- *)

Definition is_anon (a : alt) : bool := match a with Anon => true | Reqs _ => false end.

(* (applies, principal, error, MatchedRoute.Authenticator afterwards when it matters) *)
Record ores := mk_ores { o_applies : bool; o_usr : option principal; o_err : option err; o_route : option alt }.

Definition is_some {A} (o : option A) : bool := match o with Some _ => true | None => false end.

(* lastError, the anonymous alternative seen last (allowsAnon = is_some anon), route = MatchedRoute.Authenticator so far *)
Fixpoint auth_alts_from (out : oracle) (alts : list alt) (lastErr : option err) (anon : option alt)
         (route : option alt) : list event * ores :=
  match alts with
  | [] =>
    match anon, lastErr with
    | Some a, None => ([], mk_ores true None None (Some a))
    | _, _ => ([], mk_ores (is_some lastErr) None lastErr route)
    end
  | a :: r =>
    if is_anon a then auth_alts_from out r lastErr (Some a) route
    else
      let '(t, res) := auth_alt out a in
      let route' := if a_set res then Some a else route in
      if negb (a_applies res) || is_some (a_err res) || negb (is_some (a_usr res)) then
        let '(t', res') := auth_alts_from out r (match a_err res with Some e => Some e | None => lastErr end) anon route' in
        (t ++ t', res')
      else (t, mk_ores true (a_usr res) None route')
  end.

Definition auth_alts (out : oracle) (alts : list alt) : list event * ores :=
  auth_alts_from out alts None None None.

(* ---- Context.Authorize ---- *)

Definition allows_anon (alts : list alt) : bool := existsb is_anon alts.

Fixpoint union_into (seen : list nat) (l : list nat) : list nat :=
  match l with
  | [] => []
  | x :: r => if existsb (Nat.eqb x) seen then union_into seen r else x :: union_into (x :: seen) r
  end.
(* stringSliceUnion over the scope lists in scheme order: first occurrences, in order *)
Definition all_scopes (a : alt) : list nat :=
  match a with Anon => [] | Reqs l => union_into [] (flat_map sscopes l) end.

(* the registered authorizer, when there is one: its answer for a principal *)
Definition authorizer := option (option principal -> option err).

Definition e401 : err := EStatus 401 0.      (* errors.Unauthenticated; message id 0 is reserved for it *)

Inductive authz := Granted (usr : option principal) (scopes : list nat) | Refused (e : err) | AuthPanic.

Definition authorize (out : oracle) (alts : list alt) (az : authorizer) : list event * authz :=
  let '(t, res) := auth_alts out alts in
  if negb (o_applies res) || is_some (o_err res) || (negb (allows_anon alts) && negb (is_some (o_usr res))) then
    (t, Refused (match o_err res with Some e => e | None => e401 end))
  else
    let grant := match o_route res with
                 | Some a => Granted (o_usr res) (all_scopes a)
                 | None => AuthPanic
                 end in
    match az with
    | None => (t, grant)
    | Some f =>
      match f (o_usr res) with
      | None => (t ++ [AuthorizerCalled (o_usr res)], grant)
      | Some (EStatus c m) => (t ++ [AuthorizerCalled (o_usr res)], Refused (EStatus c m))
      | Some (EPlain m) => (t ++ [AuthorizerCalled (o_usr res)], Refused (EStatus 403 m))
      end
    end.

(* ---- newSecureAPI around bind + handle ---- *)

(* errors.ServeError: status of an error value *)
Definition code_of (e : err) : nat :=
  match e with EStatus c _ => if 600 <=? c then 422 else c | EPlain _ => 500 end.
Definition msg_of (e : err) : nat := match e with EStatus _ m => m | EPlain m => m end.

(* what runs once the request is let through; bind_ok = the request's parameters are valid *)
Definition body (bind_ok : bool) (usr : option principal) (scopes : list nat) : list event :=
  if bind_ok then [Bind; Handle usr scopes; Respond 200 0] else [Bind; Respond 422 0].

Definition secure_handler (out : oracle) (alts : list alt) (az : authorizer) (bind_ok : bool) : list event :=
  match alts with
  | [] => body bind_ok None []                    (* no requirement: the handler is not wrapped *)
  | _ =>
    match authorize out alts az with
    | (t, Refused e) => t ++ [Respond (code_of e) (msg_of e)]
    | (t, Granted usr sc) => t ++ body bind_ok usr sc
    | (t, AuthPanic) => t ++ [Panicked]
    end
  end.

(* ---- validateRequest (validation.go) checks the response format - the Accept header against what the operation
   produces - after the content type and BEFORE it binds the parameters: a request that was let through and accepts
   none of the offers is answered 406, and neither binding nor the handler runs. A refused request never gets
   there: its refusal is what it is without the Accept header. fmt_ok = some offer is acceptable to the request. ---- *)
Fixpoint cut_at_bind (tr : list event) : list event :=
  match tr with
  | [] => []
  | ev :: r => match ev with Bind => [Respond 406 0] | _ => ev :: cut_at_bind r end
  end.

Definition secure_handler_fmt (out : oracle) (alts : list alt) (az : authorizer) (bind_ok fmt_ok : bool) : list event :=
  if fmt_ok then secure_handler out alts az bind_ok else cut_at_bind (secure_handler out alts az bind_ok).
