(* PeekSpec.v — C17 in its own words: what a history of HasBody / Read k / Close calls on a
   request must look like, judged only from the request's configuration, the byte sequence and
   terminal condition the underlying stream stands for, and the outputs observed. It does not
   mention buffers or layers. Executable (it is the property predicate of the correspondence
   run) and the subject of the theorems. Definitions only. *)
From V Require Export Peek.

(* number of zero-length reads (empty chunk, no terminal) a script starts with *)
Fixpoint lead (l : list rstep) : nat :=
  match l with
  | ([], None) :: r => S (lead r)
  | _ => 0
  end.

(* the stream never makes n consecutive zero-length reads (before its terminal) *)
Fixpoint stall_ok (n : nat) (l : list rstep) : bool :=
  (lead l <? n) &&
  match l with
  | [] => true
  | (_, Some _) :: _ => true
  | (_, None) :: r => stall_ok n r
  end.

Definition rstall_ok (n : nat) (s : rstate) : bool :=
  match s with Live l => stall_ok n l | Dead _ => true end.

(* the body the caller holds *)
Record hs := mkHs {
  h_rest : bytes;        (* bytes of the original stream not yet returned by a Read *)
  h_wrapped : bool;      (* a probing HasBody has replaced r.Body *)
  h_closed : bool;       (* r.Body.Close() has been called on the replaced body *)
  h_raw : nat            (* Close calls the caller made on the original stream itself *)
}.

(* HasBody has to look at the stream: no positive length, no Content-Length header *)
Definition probing (c : cfg) : bool := negb (0 <? c_cl c)%Z && negb (c_hdr c).

Definition is_nil {A} (l : list A) : bool := match l with [] => true | _ => false end.
Definition is_some {A} (o : option A) : bool := match o with Some _ => true | None => false end.

(* the answer the property demands: a positive declared length, or no length declared and at
   least one byte can still be read *)
Definition expected_answer (c : cfg) (h : hs) : bool :=
  if (0 <? c_cl c)%Z then true
  else if c_hdr c then false
  else if h_closed h then false
  else negb (is_nil (h_rest h)).

Definition no_body (c : cfg) (h : hs) : bool := c_nil c && negb (h_wrapped h).

(* hist_ok chk_ans c term closes h ops outs: the outputs are what the property allows for
   these calls; closes = Close calls that had reached the original stream at the end.
   chk_ans = false skips the judgement of HasBody answers (streams that stall). *)
Fixpoint hist_ok (chk_ans : bool) (c : cfg) (term : err) (closes : nat) (h : hs)
         (ops : list op) (outs : list out) : bool :=
  match ops, outs with
  | [], [] => Nat.eqb closes (h_raw h + (if h_closed h && negb (c_nil c) then 1 else 0))
  | OpHas :: ops', OHas b :: outs' =>
    (negb chk_ans || Bool.eqb b (expected_answer c h)) &&
    hist_ok chk_ans c term closes
            (mkHs (h_rest h) (h_wrapped h || probing c) (h_closed h) (h_raw h)) ops' outs'
  | OpRead k :: ops', x :: outs' =>
    if no_body c h then
      match x with ONoBody => hist_ok chk_ans c term closes h ops' outs' | _ => false end
    else
      match x with
      | ORead d oe =>
        if h_closed h then
          (* after Close: no data, and an error unless nothing was asked for *)
          is_nil d && (Nat.eqb k 0 || is_some oe) && hist_ok chk_ans c term closes h ops' outs'
        else
          (* the next bytes of the original stream, in order; a terminal condition only once
             they are exhausted, and then the original one *)
          has_prefix d (h_rest h) && (length d <=? k) &&
          match oe with
          | Some e => err_eqb e term && Nat.eqb (length d) (length (h_rest h))
          | None => true
          end &&
          hist_ok chk_ans c term closes
                  (mkHs (skipn (length d) (h_rest h)) (h_wrapped h) false (h_raw h)) ops' outs'
      | _ => false
      end
  | OpClose :: ops', x :: outs' =>
    if no_body c h then
      match x with ONoBody => hist_ok chk_ans c term closes h ops' outs' | _ => false end
    else
      match x with
      | OClose oe =>
        if c_nil c then
          (* nothing underneath to close; must not panic *)
          hist_ok chk_ans c term closes (mkHs (h_rest h) true true (h_raw h)) ops' outs'
        else if negb (h_wrapped h) then
          (* the caller closes the original stream itself *)
          opt_eqb err_eqb oe (c_cerr c) &&
          hist_ok chk_ans c term closes (mkHs (h_rest h) false false (S (h_raw h))) ops' outs'
        else if h_closed h then
          (* closing again reports an error and does not reach the stream *)
          opt_eqb err_eqb oe (Some EClosed) && hist_ok chk_ans c term closes h ops' outs'
        else
          (* the first Close returns what the stream's Close returns *)
          opt_eqb err_eqb oe (c_cerr c) &&
          hist_ok chk_ans c term closes (mkHs (h_rest h) true true (h_raw h)) ops' outs'
      | _ => false
      end
  | _, _ => false
  end.

Definition init_hs (c : cfg) (steps : list rstep) : hs :=
  mkHs (if c_nil c then [] else steps_bytes steps) false false 0.
Definition init_term (c : cfg) (steps : list rstep) : err :=
  if c_nil c then EOF else steps_term steps.

(* the whole judgement of one history *)
Definition history_ok (c : cfg) (steps : list rstep) (ops : list op) (outs : list out) (closes : nat) : bool :=
  hist_ok (stall_ok max_empty_reads steps) c (init_term c steps) closes (init_hs c steps) ops outs.

(* ---------- the clauses of the property, one reading each ---------- *)

(* bytes returned by the reads made before the first Close of the replaced body, concatenated,
   and the error of the last of them *)
Fixpoint reads_before_close (wrapped : bool) (c : cfg) (ops : list op) (outs : list out) : list (bytes * option err) :=
  match ops, outs with
  | OpHas :: ops', _ :: outs' => reads_before_close (wrapped || probing c) c ops' outs'
  | OpRead _ :: ops', ORead d oe :: outs' => (d, oe) :: reads_before_close wrapped c ops' outs'
  | OpRead _ :: ops', _ :: outs' => reads_before_close wrapped c ops' outs'
  | OpClose :: ops', _ :: outs' => if wrapped then [] else reads_before_close wrapped c ops' outs'
  | _, _ => []
  end.

(* reads deliver a prefix of bs in order; an error appears only when bs is exhausted and is t *)
Fixpoint delivers (bs : bytes) (t : err) (l : list (bytes * option err)) : bool :=
  match l with
  | [] => true
  | (d, oe) :: l' =>
    has_prefix d bs &&
    match oe with Some e => err_eqb e t && Nat.eqb (length d) (length bs) | None => true end &&
    delivers (skipn (length d) bs) t l'
  end.

Fixpoint no_panic (outs : list out) : bool :=
  match outs with
  | [] => true
  | OPanic :: _ => false
  | _ :: r => no_panic r
  end.

(* outputs of the HasBody calls *)
Fixpoint answers (ops : list op) (outs : list out) : list out :=
  match ops, outs with
  | OpHas :: ops', x :: outs' => x :: answers ops' outs'
  | _ :: ops', _ :: outs' => answers ops' outs'
  | _, _ => []
  end.

(* Close calls that must have reached the original stream after these calls, from the calls
   alone: every Close the caller makes on the original stream itself, plus exactly one for the
   replaced body once it has been closed (w: replaced, cl: closed, raw: closes on the original) *)
Fixpoint closes_expected (c : cfg) (w cl : bool) (raw : nat) (ops : list op) : nat :=
  match ops with
  | [] => raw + (if cl && negb (c_nil c) then 1 else 0)
  | OpHas :: r => closes_expected c (w || probing c) cl raw r
  | OpRead _ :: r => closes_expected c w cl raw r
  | OpClose :: r =>
    if c_nil c && negb w then closes_expected c w cl raw r
    else if c_nil c then closes_expected c true true raw r
    else if negb w then closes_expected c false false (S raw) r
    else closes_expected c true true raw r
  end.

(* the reads made after the replaced body was closed: (bytes asked for, bytes, error) *)
Fixpoint reads_after_close (c : cfg) (w cl : bool) (ops : list op) (outs : list out) : list (nat * bytes * option err) :=
  match ops, outs with
  | OpHas :: ops', _ :: outs' => reads_after_close c (w || probing c) cl ops' outs'
  | OpRead k :: ops', ORead d oe :: outs' =>
    (if cl then [(k, d, oe)] else []) ++ reads_after_close c w cl ops' outs'
  | OpRead _ :: ops', _ :: outs' => reads_after_close c w cl ops' outs'
  | OpClose :: ops', _ :: outs' =>
    if c_nil c && negb w then reads_after_close c w cl ops' outs'
    else if negb (c_nil c) && negb w then reads_after_close c w cl ops' outs'
    else reads_after_close c true true ops' outs'
  | _, _ => []
  end.

Definition fails (x : nat * bytes * option err) : bool :=
  let '(k, d, oe) := x in is_nil d && (Nat.eqb k 0 || is_some oe).

Definition is_close (o : op) : bool := match o with OpClose => true | _ => false end.

(* zero-length reads the script still has before its terminal *)
Fixpoint empties (l : list rstep) : nat :=
  match l with
  | [] => 0
  | (_, Some _) :: _ => 0
  | ([], None) :: r => S (empties r)
  | (_ :: _, None) :: r => empties r
  end.

(* the caller reads on with a k-byte destination until a terminal condition is returned (at
   most fuel times): all the bytes obtained, and that condition *)
Fixpoint drain (fuel k : nat) (s : st) : bytes * option err :=
  match fuel with
  | O => ([], None)
  | S f =>
    match do_read k s with
    | (ORead d (Some e), _) => (d, Some e)
    | (ORead d None, s') => let '(ds, oe) := drain f k s' in (d ++ ds, oe)
    | _ => ([], None)
    end
  end.

(* bytes returned by the reads of a history *)
Fixpoint read_bytes (l : list (bytes * option err)) : bytes :=
  match l with [] => [] | (d, _) :: r => d ++ read_bytes r end.

(* ---------- two requests: each one observes what it observes alone ---------- *)
(* the calls made on one of the two requests, and their outputs *)
Fixpoint calls_of (b : bool) (ops : list op2) : list op :=
  match ops with
  | [] => []
  | (b', o) :: r => if Bool.eqb b' b then o :: calls_of b r else calls_of b r
  end.

Fixpoint outs_of (b : bool) (ops : list op2) (outs : list out) : list out :=
  match ops, outs with
  | (b', _) :: r, x :: xs => if Bool.eqb b' b then x :: outs_of b r xs else outs_of b r xs
  | _, _ => []
  end.

(* the judgement of an interleaved history: the calls made on each request, with their outputs and the Close
   calls its own stream received, form a history the property allows for that request by itself - whatever was
   done to the other request in between (in particular after this one's body was closed) *)
Definition pair_ok (cA : cfg) (stepsA : list rstep) (cB : cfg) (stepsB : list rstep)
           (ops : list op2) (outs : list out) (closesA closesB : nat) : bool :=
  Nat.eqb (length outs) (length ops) &&
  history_ok cA stepsA (calls_of false ops) (outs_of false ops outs) closesA &&
  history_ok cB stepsB (calls_of true ops) (outs_of true ops outs) closesB.

(* ---------- reads on the closed wrapper itself: the strict reading ---------- *)
(* reads after close fail rather than returning stale data, for a Read with any buffer size, 0 included: as long as the
   body the caller holds is the very wrapper Close was called on (no probing HasBody has put a new wrapper around it
   since), every Read returns no data AND a failure (an error that is not io.EOF) - also one that asks for nothing, and also when the
   body had been read to its end before it was closed. (Once a later probe has wrapped the
   closed body again, a zero-length Read on the new wrapper may return 0, nil: the judgement of hist_ok, fails.)
   w: the body has been replaced; top: the body held is a closed wrapper. Judged for requests that have a body. *)
(* a failure is an error other than io.EOF: (0, io.EOF) is how a stream reports that it has been read to its end
   successfully - io.ReadAll and every read loop take it for success - so a closed body that answers it looks like a
   complete, empty body instead of refusing the read, also when the stream had already reported its end before Close *)
Definition is_failure (oe : option err) : bool :=
  match oe with Some e => negb (err_eqb e EOF) | None => false end.

Definition read_refused (x : out) : bool :=
  match x with ORead d oe => is_nil d && is_failure oe | _ => false end.

Fixpoint closed_reads_fail (c : cfg) (w top : bool) (ops : list op) (outs : list out) : bool :=
  match ops, outs with
  | OpHas :: ops', _ :: outs' => closed_reads_fail c (w || probing c) (top && negb (probing c)) ops' outs'
  | OpRead _ :: ops', x :: outs' => (negb top || read_refused x) && closed_reads_fail c w top ops' outs'
  | OpClose :: ops', _ :: outs' => closed_reads_fail c w (top || (w && negb (c_nil c))) ops' outs'
  | _, _ => true
  end.

(* the judgement of the correspondence run: hist_ok and the strict reading together *)
Definition history_strict_ok (c : cfg) (steps : list rstep) (ops : list op) (outs : list out) (closes : nat) : bool :=
  history_ok c steps ops outs closes && closed_reads_fail c false false ops outs.

Definition pair_strict_ok (cA : cfg) (stepsA : list rstep) (cB : cfg) (stepsB : list rstep)
           (ops : list op2) (outs : list out) (closesA closesB : nat) : bool :=
  pair_ok cA stepsA cB stepsB ops outs closesA closesB &&
  closed_reads_fail cA false false (calls_of false ops) (outs_of false ops outs) &&
  closed_reads_fail cB false false (calls_of true ops) (outs_of true ops outs).
