(* RespondSpec.v — the vocabulary of property C08, as short executable predicates over what is
   observed of a response: status, Content-Type, WWW-Authenticate, which registered producer's Produce
   was called with which value, the body bytes, and the errors shown to the API's error responder.
   No reference to the control flow of Respond.v (only to its data types and small helpers). *)
From V Require Export NegotiateSpec Respond.

(* what the harness records of one response. A producer registered under key k, asked to produce a
   value with tag t, writes the bytes k ++ colon ++ t and logs (k, t). *)
Record obs := mkobs {
  ob_panic : nat;                     (* 0 none, 1 nil dereference, 2 cannot find a producer, 3 other *)
  ob_ctype : bytes;
  ob_status : nat;                    (* first WriteHeader, 0 when none *)
  ob_www : list bytes;                (* values of WWW-Authenticate *)
  ob_calls : list (bytes * bytes);    (* (producer key, value tag) per Produce call, in order *)
  ob_body : bytes;
  ob_errs : list nat                  (* code of each error shown to the error responder *)
}.

Definition mem_nat (x : nat) (l : list nat) : bool := existsb (Nat.eqb x) l.

(* s is the declared success status: a declared 2xx code, the smallest of them *)
Definition is_declared_success (codes : list nat) (s : nat) : bool :=
  mem_nat s codes && is_2xx s && forallb (fun c => negb (is_2xx c) || (s <=? c)) codes.
Definition has_declared_success (codes : list nat) : bool := existsb is_2xx codes.

(* ct is the media type negotiation must pick among the offers (C07), nothing acceptable = empty *)
Definition negotiated (specs : list spec) (offers : list bytes) (ct : bytes) : bool :=
  lexmax_b specs offers [] ct.
(* ... or JSON when nothing was negotiated *)
Definition negotiated_or_json (specs : list spec) (offers : list bytes) (ct : bytes) : bool :=
  match ct with
  | [] => false
  | _ => negotiated specs offers ct || (negotiated specs offers [] && bytes_eqb ct JSON_MIME)
  end.

Definition COLON : byte := 58.
Definition body_of (key tag : bytes) : bytes := key ++ COLON :: tag.
Definition call_eqb (a b : bytes * bytes) : bool := bytes_eqb (fst a) (fst b) && bytes_eqb (snd a) (snd b).
(* exactly one Produce call, by the producer registered under key, with the value tagged tag, and the body is what it wrote *)
Definition written_by (o : obs) (key tag : bytes) : bool :=
  list_eqb call_eqb (ob_calls o) [(key, tag)] && bytes_eqb (ob_body o) (body_of key tag).
Definition nothing_written (o : obs) : bool :=
  match ob_calls o, ob_body o with [], [] => true | _, _ => false end.

(* the challenge names the realm *)
Definition www_names (marker : bytes) (o : obs) : bool :=
  match marker with
  | [] => match ob_www o with [] => true | _ => false end
  | _ => list_eqb bytes_eqb (ob_www o) [BASIC_REALM ++ go_quote marker]
  end.

Definition nat_list_eqb (a b : list nat) : bool := list_eqb Nat.eqb a b.

(* The property for one answer given through Respond.
   ctype_ok / json_ok : the Content-Type is the negotiated type (resp. that, or JSON when nothing was negotiated);
   codes : Some l = an operation declaring the status codes l, None = no operation known (answered 200);
   with_route : a matched route was supplied (a Responder needs one to find its producer).
   The producer clause speaks about the producer registered for the media type; when none is registered
   under the parameter-free media type the property is silent (the correspondence still pins the behaviour). *)
Definition respond_prop (registered : list bytes) (ctype_ok json_ok : bytes -> bool)
           (codes : option (list nat)) (with_route : bool) (head : bool) (marker : bytes)
           (dt : data) (tag : bytes) (o : obs) : bool :=
  let key := normalize_offer (ob_ctype o) in
  let have := mem_bytes key registered in
  match dt with
  | DError code =>
    Nat.eqb (ob_panic o) 0 && json_ok (ob_ctype o) && nat_list_eqb (ob_errs o) [code] &&
    nothing_written o && www_names marker o
  | DResponder code =>
    if with_route && have then
      Nat.eqb (ob_panic o) 0 && ctype_ok (ob_ctype o) && Nat.eqb (ob_status o) (errorresp_status code) &&
      written_by o key tag && nat_list_eqb (ob_errs o) []
    else true
  | DValue =>
    let declared := match codes with Some l => has_declared_success l | None => true end in
    let status_ok := match codes with Some l => is_declared_success l (ob_status o) | None => Nat.eqb (ob_status o) 200 end in
    let bodyless := head || match codes with Some l => is_declared_success l 204 | None => false end in
    if negb declared then
      (* only a default response is declared: there is no success status; the error responder is shown a 500 *)
      Nat.eqb (ob_panic o) 0 && nat_list_eqb (ob_errs o) [500] && nothing_written o
    else if bodyless then
      Nat.eqb (ob_panic o) 0 && ctype_ok (ob_ctype o) && status_ok && nothing_written o && nat_list_eqb (ob_errs o) []
    else if have then
      Nat.eqb (ob_panic o) 0 && ctype_ok (ob_ctype o) && status_ok && written_by o key tag && nat_list_eqb (ob_errs o) []
    else true
  end.

(* the model's answer as an observation (used to state theorems in the same vocabulary) *)
Definition obs_of (m : outcome) (tag : bytes) : obs :=
  match m with
  | Panicked PNilRoute ct => mkobs 1 ct 0 [] [] [] []
  | Panicked PNoProducer ct => mkobs 2 ct 0 [] [] [] []
  | Responded r =>
    mkobs 0 (o_ctype r) (o_status r)
          (match o_www r with Some w => [w] | None => [] end)
          (match o_producer r with Some p => [(p, tag)] | None => [] end)
          (match o_producer r with Some p => body_of p tag | None => [] end)
          (match o_error r with Some c => [c] | None => [] end)
  end.

(* model and implementation agree on everything observed (the status of an answer left to the error
   responder is whatever that responder writes: not compared) *)
Definition obs_agree (m : outcome) (tag : bytes) (o : obs) : bool :=
  let e := obs_of m tag in
  Nat.eqb (ob_panic e) (ob_panic o) && bytes_eqb (ob_ctype e) (ob_ctype o) &&
  match m with
  | Panicked _ _ => true
  | Responded r =>
    (match o_error r with Some _ => true | None => Nat.eqb (ob_status e) (ob_status o) end) &&
    list_eqb bytes_eqb (ob_www e) (ob_www o) &&
    list_eqb call_eqb (ob_calls e) (ob_calls o) &&
    bytes_eqb (ob_body e) (ob_body o) &&
    nat_list_eqb (ob_errs e) (ob_errs o)
  end.

(* ---- the pipeline: which answer the property expects from which stage ---- *)
(* some offer is acceptable: there is no Accept header, or some offer matches a range of non-zero quality *)
Definition acceptable (specs : list spec) (offers : list bytes) : bool :=
  match specs, offers with
  | [], _ => true
  | _, [] => true       (* nothing is offered: the operation does not say what it produces, nothing to refuse *)
  | _, _ => match scored specs offers with [] => false | _ => true end
  end.

Definition auth_passes (a : auth_cfg) : bool :=
  match a with NoAuth => true | Basic _ GoodCreds _ => true | _ => false end.

(* ---- failed basic-auth attempts ---- *)
(* every attempt but accepted credentials is a failed one: no Authorization header, refused credentials,
   an Authorization header that yields no credentials, an Authorization header of another scheme *)
Definition attempt_fails (a : basic_attempt) : bool :=
  match a with GoodCreds => false | _ => true end.
(* the error shown to the error responder for it: the authentication function's own error when it was
   consulted, 401 otherwise *)
Definition refusal_code (a : basic_attempt) (code : nat) : nat :=
  match a with BadCreds => code | _ => 401 end.
(* the realm the challenge of an answer given after the attempt must name (empty: no challenge) *)
Definition challenge_realm (realm : bytes) (a : basic_attempt) : bytes :=
  if attempt_fails a then effective_realm realm else [].

(* ---- the property, per entry point ---- *)

(* a request through the handler of an operation (route produces rp in the route's order, declared codes):
   a refused basic-auth attempt is answered by the error responder with a challenge and the handler does not run;
   when no offer is acceptable the error responder is shown a 406 and the handler does not run;
   otherwise the handler runs and its result is rendered as respond_prop says. *)
Definition serve_prop (d : bytes) (registered : list bytes) (rp : list bytes) (codes : list nat)
           (specs : list spec) (head : bool) (auth : auth_cfg) (dt : data) (tag : bytes)
           (ran : bool) (o : obs) : bool :=
  let offers := respond_offers d rp in
  let rprop := respond_prop registered (negotiated specs offers) (negotiated_or_json specs offers) (Some codes) true head in
  let passed :=
    if acceptable specs rp then ran && rprop [] dt tag o
    else negb ran && rprop [] (DError 406) tag o in
  match auth with
  | NoAuth => passed
  | Basic realm a code =>
    if attempt_fails a
    then negb ran && rprop (effective_realm realm) (DError (refusal_code a code)) tag o
    else passed
  end.

Definition direct_prop (d : bytes) (registered : list bytes) (produces : list bytes) (rt : option route)
           (cached : option bytes) (specs : list spec) (head : bool) (marker : bytes)
           (dt : data) (tag : bytes) (o : obs) : bool :=
  let offers := respond_offers d produces in
  let ct_ok := match cached with Some v => bytes_eqb v | None => negotiated specs offers end in
  let json_ok := match cached with Some v => bytes_eqb v | None => negotiated_or_json specs offers end in
  let codes := match rt with
               | Some r => if rt_has_op r then Some (rt_codes r) else None
               | None => None
               end in
  (* the producers consulted: those of the route when there is an operation, else those of the offers *)
  let reg := match rt with
             | Some r => if rt_has_op r || match dt with DResponder _ => true | _ => false end
                         then filter (fun k => mem_bytes k (map normalize_offer (rt_produces r))) registered
                         else filter (fun k => mem_bytes k (map normalize_offer offers)) registered
             | None => filter (fun k => mem_bytes k (map normalize_offer offers)) registered
             end in
  respond_prop reg ct_ok json_ok codes (match rt with Some _ => true | None => false end) head marker dt tag o.

(* Respond called directly after a basic authenticator (configured realm, attempt) examined the request:
   an error answer given then carries the challenge naming the effective realm iff the attempt failed *)
Definition marker_after (auth : option (bytes * basic_attempt)) : bytes :=
  match auth with Some (realm, a) => challenge_realm realm a | None => [] end.
Definition direct_auth_prop (d : bytes) (registered : list bytes) (produces : list bytes) (rt : option route)
           (cached : option bytes) (specs : list spec) (head : bool) (auth : option (bytes * basic_attempt))
           (dt : data) (tag : bytes) (o : obs) : bool :=
  direct_prop d registered produces rt cached specs head (marker_after auth) dt tag o.

(* ---- security requirements with several alternatives (each a list of schemes that must all accept) ---- *)
Definition scheme_accepts (s : sec_cfg) (x : sec_scheme) : bool :=
  match scheme_res s x with SOk => true | _ => false end.
(* an alternative admits the request when it names at least one scheme and every scheme accepts *)
Definition alt_admits (s : sec_cfg) (alt : list sec_scheme) : bool :=
  match alt with [] => false | _ => forallb (scheme_accepts s) alt end.
Definition is_anonymous (alt : list sec_scheme) : bool := match alt with [] => true | _ => false end.
(* the error of an alternative: that of its first scheme that does not accept, if that scheme refuses with an error
   (a scheme that does not apply ends the alternative without an error) *)
Fixpoint alt_error (s : sec_cfg) (alt : list sec_scheme) : option nat :=
  match alt with
  | [] => None
  | x :: r => match scheme_res s x with
              | SOk => alt_error s r
              | SErr c => Some c
              | SNotApplies => None
              end
  end.
(* the basic scheme is consulted in an alternative when every scheme before it accepts *)
Fixpoint basic_consulted_in (s : sec_cfg) (alt : list sec_scheme) : bool :=
  match alt with
  | [] => false
  | SBasic :: _ => true
  | x :: r => scheme_accepts s x && basic_consulted_in s r
  end.
(* the alternatives that are examined: all of them up to and including the first that admits *)
Fixpoint examined (s : sec_cfg) (alts : list (list sec_scheme)) : list (list sec_scheme) :=
  match alts with
  | [] => []
  | a :: r => if alt_admits s a then [a] else a :: examined s r
  end.
Fixpoint last_some {A} (l : list (option A)) : option A :=
  match l with
  | [] => None
  | x :: r => match last_some r with Some y => Some y | None => x end
  end.
(* the request is admitted: no requirement at all, or some alternative admits it, or the anonymous alternative
   is there and no alternative met an error *)
Definition sec_admitted (s : sec_cfg) : bool :=
  match sec_alts s with
  | [] => true
  | alts => existsb (alt_admits s) alts ||
            (existsb is_anonymous alts && forallb (fun a => match alt_error s a with None => true | Some _ => false end) alts)
  end.
(* the error a refused request is answered with: the last error met, 401 when there was none *)
Definition sec_refusal_code (s : sec_cfg) : nat :=
  match last_some (map (alt_error s) (sec_alts s)) with Some c => c | None => 401 end.
(* a failed basic-auth attempt was made: the basic scheme was consulted in an examined alternative and did not accept;
   every error answer given afterwards names the effective realm in its challenge (empty: no challenge) *)
Definition sec_challenge_realm (s : sec_cfg) : bytes :=
  if existsb (basic_consulted_in s) (examined s (sec_alts s)) && attempt_fails (sec_attempt s)
  then effective_realm (sec_realm s) else [].

(* a request through the handler of an operation with any security requirement: a refused request is answered by the
   error responder (the handler does not run); an admitted one goes on as in serve_prop; every error answer
   carries the challenge when a basic-auth attempt failed on the way *)
Definition sec_prop (d : bytes) (registered : list bytes) (rp : list bytes) (codes : list nat)
           (specs : list spec) (head : bool) (s : sec_cfg) (dt : data) (tag : bytes)
           (ran : bool) (o : obs) : bool :=
  let offers := respond_offers d rp in
  let rprop := respond_prop registered (negotiated specs offers) (negotiated_or_json specs offers) (Some codes) true head
                            (sec_challenge_realm s) in
  if sec_admitted s then
    if acceptable specs rp then ran && rprop dt tag o
    else negb ran && rprop (DError 406) tag o
  else negb ran && rprop (DError (sec_refusal_code s)) tag o.

(* ---- histories: every answer of a sequence of requests on one Context is judged as a single request is,
   and equals what the same request is answered by a fresh Context ---- *)
Definition obs_eqb (a b : obs) : bool :=
  Nat.eqb (ob_panic a) (ob_panic b) && bytes_eqb (ob_ctype a) (ob_ctype b) && Nat.eqb (ob_status a) (ob_status b) &&
  list_eqb bytes_eqb (ob_www a) (ob_www b) && list_eqb call_eqb (ob_calls a) (ob_calls b) &&
  bytes_eqb (ob_body a) (ob_body b) && nat_list_eqb (ob_errs a) (ob_errs b).
Definition req_prop (d : bytes) (registered : list bytes) (q : hreq) (tag : bytes) (ran : bool) (o : obs) : bool :=
  sec_prop d registered (rt_produces (hq_route q)) (rt_codes (hq_route q)) (hq_specs q) (hq_head q) (hq_sec q)
           (hq_result q) tag ran o.
(* whether the handler runs *)
Definition req_runs (q : hreq) : bool :=
  sec_admitted (hq_sec q) && acceptable (hq_specs q) (rt_produces (hq_route q)).

(* ---- the API's error responder is invoked: every error answer of the request went to the responder the API has
   when the request is served (invoked = the responders called while the request was answered, in order) ---- *)
Definition responder_ok (c : responder_cfg) (invoked : list nat) : bool :=
  forallb (Nat.eqb (responder_in_force c)) invoked.
