(* DencoSpec.v — the vocabulary of property C05 (trie router core, middleware/denco).
   Definitions only. A route key is tokenised into a shape (literal bytes, single-segment
   parameter, wildcard; names erased) plus the list of placeholder names; a shape matches a path
   (smatch), instantiation is plain substitution (subst); pref is the preference between two
   shapes that both match one path (literal before parameter before wildcard at the first
   difference). Everything here is independent of how the router is implemented. *)
From V Require Import Bytes.

Definition SLASH : byte := 47.
Definition SHARP : byte := 35.   (* TerminationCharacter *)
Definition COLON : byte := 58.   (* ParamCharacter *)
Definition STAR : byte := 42.    (* WildcardCharacter *)
Definition EQUALS : byte := 61.  (* PathParamCharacter *)

Inductive stok := SLit (c : byte) | SPar | SWild.
Definition shape := list stok.

Definition stok_eqb (a b : stok) : bool :=
  match a, b with
  | SLit c, SLit d => Nat.eqb c d
  | SPar, SPar => true
  | SWild, SWild => true
  | _, _ => false
  end.

Fixpoint shape_eqb (a b : shape) : bool :=
  match a, b with
  | [], [] => true
  | x :: a', y :: b' => stok_eqb x y && shape_eqb a' b'
  | _, _ => false
  end.

(* the text up to the next '/' and the rest (starting with that '/', or empty) *)
Fixpoint span_seg (p : bytes) : bytes * bytes :=
  match p with
  | [] => ([], [])
  | c :: r => if Nat.eqb c SLASH then ([], p) else let '(a, b) := span_seg r in (c :: a, b)
  end.

Arguments span_seg : simpl never.

(* texts captured by a shape on a path. A placeholder is attempted only while at least one
   path byte remains (its text may still be empty when that byte is '/'); a single-segment
   parameter takes the maximal '/'-free text, a wildcard the whole rest. *)
Fixpoint smatch (s : shape) (p : bytes) : option (list bytes) :=
  match s with
  | [] => match p with [] => Some [] | _ => None end
  | SLit c :: s' => match p with
                    | c' :: p' => if Nat.eqb c c' then smatch s' p' else None
                    | [] => None end
  | SPar :: s' => match p with
                  | [] => None
                  | _ => match smatch s' (snd (span_seg p)) with
                         | Some vs => Some (fst (span_seg p) :: vs) | None => None end
                  end
  | SWild :: _ => match p with [] => None | _ => Some [p] end
  end.

(* instantiation: the path obtained by writing texts in place of the placeholders *)
Fixpoint subst (s : shape) (vs : list bytes) : option bytes :=
  match s with
  | [] => match vs with [] => Some [] | _ => None end
  | SLit c :: s' => match subst s' vs with Some r => Some (c :: r) | None => None end
  | SPar :: s' => match vs with
                  | v :: vs' => match subst s' vs' with Some r => Some (v ++ r) | None => None end
                  | [] => None end
  | SWild :: s' => match vs with
                   | v :: vs' => match subst s' vs' with Some r => Some (v ++ r) | None => None end
                   | [] => None end
  end.

Definition no_slash (v : bytes) : bool := negb (mem_byte SLASH v).

(* the texts standing for single-segment parameters contain no '/' *)
Fixpoint par_texts_ok (s : shape) (vs : list bytes) : bool :=
  match s, vs with
  | SLit _ :: s', _ => par_texts_ok s' vs
  | SPar :: s', v :: vs' => no_slash v && par_texts_ok s' vs'
  | SWild :: s', _ :: vs' => par_texts_ok s' vs'
  | _, _ => true
  end.

Definition nonempty (v : bytes) : bool := match v with [] => false | _ => true end.

Fixpoint placeholders (s : shape) : nat :=
  match s with
  | [] => 0
  | SLit _ :: s' => placeholders s'
  | _ :: s' => S (placeholders s')
  end.

(* preference among shapes: at the first position where they differ the left one has the
   literal and the right one a placeholder, or the left one the parameter and the right one
   the wildcard. No order between two different literal bytes (they never match one path). *)
Inductive pref : shape -> shape -> Prop :=
| pref_lit_par c a b : pref (SLit c :: a) (SPar :: b)
| pref_lit_wild c a b : pref (SLit c :: a) (SWild :: b)
| pref_par_wild a b : pref (SPar :: a) (SWild :: b)
| pref_cons x a b : pref a b -> pref (x :: a) (x :: b).

Fixpoint pref_b (a b : shape) : bool :=
  match a, b with
  | x :: a', y :: b' =>
    if stok_eqb x y then pref_b a' b'
    else match x, y with
         | SLit _, SPar => true
         | SLit _, SWild => true
         | SPar, SWild => true
         | _, _ => false
         end
  | _, _ => false
  end.

(* shapes the key grammar produces: a wildcard is the last token, a parameter is followed by
   '/' or by nothing *)
Fixpoint wf_shape (s : shape) : Prop :=
  match s with
  | [] => True
  | SWild :: r => r = []
  | SPar :: r => match r with [] => True | SLit c :: _ => c = SLASH | _ => False end /\ wf_shape r
  | SLit _ :: r => wf_shape r
  end.

Fixpoint wf_shape_b (s : shape) : bool :=
  match s with
  | [] => true
  | SWild :: r => match r with [] => true | _ => false end
  | SPar :: r => match r with [] => true | SLit c :: _ => Nat.eqb c SLASH | _ => false end && wf_shape_b r
  | SLit _ :: r => wf_shape_b r
  end.

(* ---------- keys -> shape + names (what Build does to a record key) ---------- *)
(* In a parameterised key every ':' opens a single-segment parameter whose name runs to the next
   '/' (or the end), every '*' a wildcard whose name is the rest of the key. *)
Fixpoint tok_fuel (f : nat) (k : bytes) : shape * list bytes :=
  match f with
  | 0 => ([], [])
  | S f =>
    match k with
    | [] => ([], [])
    | c :: r =>
      if Nat.eqb c COLON then
        let '(s, ns) := tok_fuel f (snd (span_seg r)) in (SPar :: s, fst (span_seg r) :: ns)
      else if Nat.eqb c STAR then ([SWild], [r])
      else let '(s, ns) := tok_fuel f r in (SLit c :: s, ns)
    end
  end.
Definition tok (k : bytes) : shape * list bytes := tok_fuel (S (length k)) k.

Fixpoint has_sub2 (a b : byte) (k : bytes) : bool :=
  match k with
  | x :: r => match r with
              | y :: _ => (Nat.eqb x a && Nat.eqb y b) || has_sub2 a b r
              | [] => false
              end
  | [] => false
  end.

(* makeRecords: a key is parameterised iff it contains "/:" or "/*" or "=:"; otherwise it is a
   static key, compared byte for byte *)
Definition is_param_key (k : bytes) : bool :=
  has_sub2 SLASH COLON k || has_sub2 SLASH STAR k || has_sub2 EQUALS COLON k.

Definition key_shape (k : bytes) : shape * list bytes :=
  if is_param_key k then tok k else (map SLit k, []).

(* ---------- lookup results ---------- *)
Inductive lres (V : Type) :=
| Found (v : V) (ps : list (bytes * bytes))
| NotFound
| Panic
| OutOfFuel.
Arguments Found {V}. Arguments NotFound {V}. Arguments Panic {V}. Arguments OutOfFuel {V}.

(* params[i].Name = nd.paramNames[i]: an index panic when there are fewer names than texts *)
Fixpoint zip_names (ns vs : list bytes) : option (list (bytes * bytes)) :=
  match vs with
  | [] => Some []
  | v :: vs' => match ns with
                | n :: ns' => match zip_names ns' vs' with Some r => Some ((n, v) :: r) | None => None end
                | [] => None
                end
  end.

Fixpoint nodup_b (l : list bytes) : bool :=
  match l with
  | [] => true
  | x :: r => negb (existsb (bytes_eqb x) r) && nodup_b r
  end.

Fixpoint nodup_shapes_b (l : list shape) : bool :=
  match l with
  | [] => true
  | x :: r => negb (existsb (shape_eqb x) r) && nodup_shapes_b r
  end.

(* a key Build can route: a parameterised key holds neither the termination byte nor the byte 0,
   and its placeholder names are distinct (Build rejects duplicates). Static keys are arbitrary. *)
Definition key_ok (k : bytes) : bool :=
  if is_param_key k
  then negb (mem_byte SHARP k) && negb (mem_byte 0 k) && forallb (fun c => c <? 256) k && nodup_b (snd (tok k))
  else true.

Section Pats.
Context {V : Type}.

(* a route table entry, tokenised: shape, (value, names) *)
Definition entry_of (kv : bytes * V) : shape * (V * list bytes) :=
  (fst (key_shape (fst kv)), (snd kv, snd (key_shape (fst kv)))).
Definition entries_of (pats : list (bytes * V)) : list (shape * (V * list bytes)) := map entry_of pats.

(* the pattern sets the theorems speak about: routable keys with pairwise distinct shapes *)
Definition wf_patset (pats : list (bytes * V)) : bool :=
  forallb (fun kv => key_ok (fst kv)) pats && nodup_shapes_b (map fst (entries_of pats)).

Definition matches_b (s : shape) (p : bytes) : bool := match smatch s p with Some _ => true | None => false end.

(* (s, v, names, texts) is a best match of p in pats: p matches s with those texts and s is
   preferred to every other matching shape of the table *)
Definition is_best (ents : list (shape * (V * list bytes))) (p : bytes)
           (s : shape) (v : V) (ns : list bytes) (vs : list bytes) : Prop :=
  In (s, (v, ns)) ents /\ smatch s p = Some vs /\
  forall e', In e' ents -> smatch (fst e') p <> None -> e' = (s, (v, ns)) \/ pref s (fst e').

(* executable form of the property on one observed answer (used by the correspondence check):
   a reported match must be a pattern of the table whose instantiation with the reported texts is
   the path, named as in the key, parameter texts '/'-free, and preferred to every other matching
   pattern; a reported miss means that no pattern matches *)
Definition answer_ok (veqb : V -> V -> bool) (pats : list (bytes * V)) (p : bytes)
           (ans : option (V * list (bytes * bytes))) : bool :=
  let ents := entries_of pats in
  match ans with
  | None => forallb (fun e => negb (matches_b (fst e) p)) ents
  | Some (v, ps) =>
    existsb (fun e =>
      veqb (fst (snd e)) v &&
      list_eqb bytes_eqb (snd (snd e)) (map fst ps) &&
      Nat.eqb (length ps) (placeholders (fst e)) &&
      opt_eqb bytes_eqb (subst (fst e) (map snd ps)) (Some p) &&
      par_texts_ok (fst e) (map snd ps) &&
      matches_b (fst e) p &&
      forallb (fun e' => negb (matches_b (fst e') p) || shape_eqb (fst e) (fst e') || pref_b (fst e) (fst e')) ents)
    ents
  end.

End Pats.
