(* SpecRouterSpec.v — the vocabulary of property C01, independent of how the router works.
   A path template is a list of segments: a literal, a placeholder standing for a whole segment, or
   a composite segment (placeholders separated by literal text inside one segment). A request path
   is the list of segments of its cleaned, still percent-encoded form. A template is instantiated
   by a path when they have the same number of segments, literals are equal, and every placeholder
   stands for a non-empty text; a literal is preferred to a placeholder at the first segment where
   two instantiated templates differ. Definitions only. *)
From V Require Import Bytes DencoSpec PathCleanLib PathUnescapeLib SpecRouter.

Inductive tseg :=
| TLit (l : bytes)
| TPar (name : bytes)
| TComp (names : list bytes) (lits : list bytes).   (* {n1} l1 {n2} l2 ... {nk} lk, lk may be empty *)

(* bytes a literal may hold: none of the router's reserved bytes, no brace, no slash *)
Definition lit_byte_ok (c : byte) : bool :=
  (c <? 256) && negb (Nat.eqb c 0) && negb (Nat.eqb c COLON) && negb (Nat.eqb c STAR)
  && negb (Nat.eqb c SHARP) && negb (Nat.eqb c LBRACE) && negb (Nat.eqb c RBRACE) && negb (Nat.eqb c SLASH).
Definition lit_ok (l : bytes) : bool :=
  negb (is_empty l) && forallb lit_byte_ok l && negb (is_dot l) && negb (is_dotdot l).
Definition name_byte_ok (c : byte) : bool :=
  (c <? 256) && negb (Nat.eqb c 0) && negb (Nat.eqb c LBRACE) && negb (Nat.eqb c RBRACE)
  && negb (Nat.eqb c SLASH) && negb (Nat.eqb c NL) && negb (Nat.eqb c SHARP).
Definition name_ok (n : bytes) : bool := negb (is_empty n) && forallb name_byte_ok n.

Definition not_rbrace (c : byte) : bool := negb (Nat.eqb c RBRACE).
Definition not_lbrace (c : byte) : bool := negb (Nat.eqb c LBRACE).

(* s is the text after an opening brace *)
Fixpoint parse_comp (f : nat) (s : bytes) : option (list bytes * list bytes) :=
  match f with
  | 0 => None
  | S f =>
    match snd (span not_rbrace s) with
    | [] => None
    | _ :: after =>
      let name := fst (span not_rbrace s) in
      let lit := fst (span not_lbrace after) in
      if name_ok name && forallb lit_byte_ok lit then
        match snd (span not_lbrace after) with
        | [] => Some ([name], [lit])
        | _ :: s2 =>
          if is_empty lit then None
          else match parse_comp f s2 with
               | Some (ns, ls) => Some (name :: ns, lit :: ls)
               | None => None
               end
        end
      else None
    end
  end.

Definition parse_seg (s : bytes) : option tseg :=
  match s with
  | [] => None
  | c :: r =>
    if Nat.eqb c LBRACE then
      match parse_comp (S (length s)) r with
      | Some (ns, ls) =>
        match ns, ls with
        | [n], [[]] => Some (TPar n)
        | _, _ => Some (TComp ns ls)
        end
      | None => None
      end
    else if lit_ok s then Some (TLit s) else None
  end.

Fixpoint parse_segs (l : list bytes) : option (list tseg) :=
  match l with
  | [] => Some []
  | s :: r => match parse_seg s, parse_segs r with
              | Some t, Some ts => Some (t :: ts)
              | _, _ => None
              end
  end.

(* the segments of a rooted path: none for the root itself *)
Definition rooted_segs (p : bytes) : option (list bytes) :=
  match p with
  | [] => None
  | c :: r => if Nat.eqb c SL then Some (if is_empty r then [] else split_slash r) else None
  end.

Definition parse_template (full : bytes) : option (list tseg) :=
  match rooted_segs full with
  | Some segs => parse_segs segs
  | None => None
  end.

Definition seg_names (t : tseg) : list bytes :=
  match t with TLit _ => [] | TPar n => [n] | TComp ns _ => ns end.
Definition tpl_names (ts : list tseg) : list bytes := flat_map seg_names ts.

Definition is_simple_seg (t : tseg) : bool := match t with TComp _ _ => false | _ => true end.
Definition simple_tpl (ts : list tseg) : bool := forallb is_simple_seg ts.

(* the texts a composite segment binds: each separator is looked for from the left, the last
   literal must end the segment *)
Fixpoint comp_match (ls : list bytes) (s : bytes) : option (list bytes) :=
  match ls with
  | [] => None
  | l :: ls' =>
    match ls' with
    | [] => if has_suffix l s then Some [firstn (length s - length l) s] else None
    | _ => match index_of l s with
           | Some i => match comp_match ls' (skipn (i + length l) s) with
                       | Some vs => Some (firstn i s :: vs)
                       | None => None
                       end
           | None => None
           end
    end
  end.

Definition all_nonempty (vs : list bytes) : bool := forallb (fun v => negb (is_empty v)) vs.

(* instantiation: the texts standing for the placeholders, in template order *)
Fixpoint seg_match (ts : list tseg) (ps : list bytes) : option (list bytes) :=
  match ts, ps with
  | [], [] => Some []
  | TLit l :: ts', s :: ps' => if bytes_eqb l s then seg_match ts' ps' else None
  | TPar _ :: ts', s :: ps' =>
    if is_empty s then None
    else match seg_match ts' ps' with Some vs => Some (s :: vs) | None => None end
  | TComp _ ls :: ts', s :: ps' =>
    match comp_match ls s with
    | Some vs0 => if all_nonempty vs0
                  then match seg_match ts' ps' with Some vs => Some (vs0 ++ vs) | None => None end
                  else None
    | None => None
    end
  | _, _ => None
  end.

(* preference: at the first segment where they differ the left template has the literal *)
Fixpoint seg_pref_b (a b : list tseg) : bool :=
  match a, b with
  | TLit l :: a', TLit l' :: b' => bytes_eqb l l' && seg_pref_b a' b'
  | TLit _ :: _, _ :: _ => true
  | _ :: _, TLit _ :: _ => false
  | _ :: a', _ :: b' => seg_pref_b a' b'
  | _, _ => false
  end.

(* ---------- the expected answer to one request ---------- *)
(* the domain in which the property text is unambiguous: every template is a rooted normal path
   whose segments parse, and so is its join with the base path; placeholder names of one template
   are distinct *)
Definition route_in_domain (base : bytes) (r : route) : bool :=
  match parse_template (r_tpl r), parse_template (path_join base (r_tpl r)) with
  | Some _, Some ts => nodup_b (tpl_names ts)
  | _, _ => false
  end.
Definition spec_domain (base : bytes) (routes : list route) : bool := forallb (route_in_domain base) routes.

(* the segments of the cleaned request path *)
Definition request_segs (path : bytes) : option (list bytes) := rooted_segs (clean path).

(* the routes of one method whose template is instantiated, with template and texts *)
Definition candidates (base : bytes) (routes : list route) (mth : bytes) (path : bytes)
  : list (route * (list tseg * list bytes)) :=
  match request_segs path with
  | None => []
  | Some ps =>
    flat_map (fun r =>
      if bytes_eqb (upper (r_method r)) mth then
        match parse_template (path_join base (r_tpl r)) with
        | Some ts => match seg_match ts ps with Some vs => [(r, (ts, vs))] | None => [] end
        | None => []
        end
      else []) routes
  end.

Definition pair_eqb (a b : bytes * bytes) : bool := bytes_eqb (fst a) (fst b) && bytes_eqb (snd a) (snd b).
Definition subset_b {A} (eqb : A -> A -> bool) (a b : list A) : bool := forallb (fun x => existsb (eqb x) b) a.
Definition set_eqb {A} (eqb : A -> A -> bool) (a b : list A) : bool := subset_b eqb a b && subset_b eqb b a.

Definition expected_params (c : route * (list tseg * list bytes)) : list (bytes * bytes) :=
  combine (tpl_names (fst (snd c))) (map unescape_or_raw (snd (snd c))).

(* c is the preferred candidate *)
Definition is_preferred (cs : list (route * (list tseg * list bytes))) (c : route * (list tseg * list bytes)) : bool :=
  forallb (fun c' => Nat.eqb (r_id (fst c)) (r_id (fst c')) || seg_pref_b (fst (snd c)) (fst (snd c'))) cs.

(* methods (upper-cased) under which some template is instantiated *)
Definition fitting_methods (base : bytes) (routes : list route) (path : bytes) : list bytes :=
  filter (fun m => match candidates base routes m path with [] => false | _ => true end)
         (dedup (map (fun r => upper (r_method r)) routes)).

(* what was observed for one request: the handler of operation h ran with these path parameters,
   or no handler ran and this status and Allow set were answered, or the server panicked *)
Inductive pobs :=
| PRan (h : nat) (ps : list (bytes * bytes))
| PStatus (code : nat) (allow : list bytes)
| PPanicked
| PNotServed.   (* the request was handed to the router only, not to a served handler *)

Definition spec_ok (base : bytes) (routes : list route) (method path : bytes) (o : pobs) : bool :=
  let cs := candidates base routes (upper method) path in
  match o with
  | PRan h ps =>
    existsb (fun c => Nat.eqb (r_id (fst c)) h
                      && Nat.eqb (length ps) (length (expected_params c))
                      && set_eqb pair_eqb ps (expected_params c)
                      && is_preferred cs c) cs
  | PStatus code allow =>
    match cs with [] => true | _ => false end &&
    match fitting_methods base routes path with
    | [] => Nat.eqb code 404
    | ms => Nat.eqb code 405 && set_eqb bytes_eqb allow ms
    end
  | PPanicked => false
  | PNotServed => true
  end.

(* ---------- the route sets the dispatch theorems speak about ---------- *)
(* every closing brace of the pattern ends its segment: no literal text after a placeholder inside
   a segment, hence no composite segment *)
Fixpoint rbrace_ends_seg (p : bytes) : bool :=
  match p with
  | [] => true
  | c :: r =>
    (if Nat.eqb c RBRACE then match r with [] => true | d :: _ => Nat.eqb d SLASH end else true)
    && rbrace_ends_seg r
  end.

(* every placeholder name the router extracts from the converted key is written in braces in the
   pattern *)
Definition names_occur (pat : bytes) : bool :=
  forallb (fun n => match index_of (LBRACE :: n ++ [RBRACE]) pat with Some _ => true | None => false end)
          (snd (key_shape (convert_template pat))).

Definition plain_pattern (pat : bytes) : bool := rbrace_ends_seg pat && names_occur pat.

(* AddRoute finds the handler of the operation itself (the joined path minus the base path is the
   template again) *)
Definition self_registered (base : bytes) (routes : list route) (r : route) : bool :=
  match record_of base routes r with
  | Some (_, (_, (op, h))) => Nat.eqb op h
  | None => false
  end.

(* plain route sets: whole-segment placeholders only, every operation registered under its own
   template, and per method pairwise distinct shapes of routable keys *)
Definition plain_routes (base : bytes) (routes : list route) : bool :=
  forallb (fun r => plain_pattern (path_join base (r_tpl r))
                    && self_registered base routes r
                    && wf_patset (table base routes routes (upper (r_method r)))) routes.

(* the denco key of a route and what the cleaned request path binds against it *)
Definition route_key (base : bytes) (r : route) : bytes := convert_template (path_join base (r_tpl r)).
Definition route_shape (base : bytes) (r : route) : shape := fst (key_shape (route_key base r)).
Definition route_names (base : bytes) (r : route) : list bytes := snd (key_shape (route_key base r)).
Definition fits (base : bytes) (r : route) (path : bytes) : option (list bytes) :=
  smatch (route_shape base r) (clean path).
Definition under (m : bytes) (r : route) : Prop := upper (r_method r) = upper m.

(* the route sets the totality theorem speaks about: every method table holds routable keys of
   pairwise distinct shapes (composite templates included) *)
Definition wf_tables (base : bytes) (routes : list route) : bool :=
  forallb (fun r => wf_patset (table base routes routes (upper (r_method r)))) routes.
