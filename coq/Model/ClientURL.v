(* ClientURL.v — model of how the client builds the request URL.
   client/request.go buildHTTP (tail): url.Parse of base path and pattern, merge of the static queries,
   path.Join, ReplaceAll of every {name} by url.PathEscape(value) in map order, reinstated trailing slash,
   http.NewRequest (url.Parse again), RawQuery from the merged values;
   client/runtime.go pickScheme / selectScheme / createHttpRequest (scheme, host).
   Definitions only. Go map iteration = the order of the parameter LIST. *)
From V Require Export Bytes UrlEscape.

(* ---------- strings helpers ---------- *)
(* strings.Cut on a single byte *)
Fixpoint cut (d : nat) (s : bytes) : bytes * option bytes :=
  match s with
  | [] => ([], None)
  | c :: r => if c =? d then ([], Some r) else let '(a, b) := cut d r in (c :: a, b)
  end.

Definition count_byte (d : nat) (s : bytes) : nat := length (filter (Nat.eqb d) s).

(* strings.Split on a single byte: never empty *)
Fixpoint split_on (d : nat) (s : bytes) : list bytes :=
  match s with
  | [] => [[]]
  | c :: r => if c =? d then [] :: split_on d r
              else match split_on d r with
                   | h :: t => (c :: h) :: t
                   | [] => [[c]]
                   end
  end.

Fixpoint join_with (d : nat) (l : list bytes) : bytes :=
  match l with
  | [] => []
  | x :: r => match r with [] => x | _ => x ++ d :: join_with d r end
  end.

(* ---------- url.Parse, for references without scheme and authority ---------- *)
Inductive parsed :=
| PErr                                    (* url.Parse returns an error *)
| PExotic                                 (* scheme, authority or the lone star: outside this model *)
| POk (path raw rawquery : bytes).        (* URL.Path, the text setPath received, URL.RawQuery *)

Definition is_ctl (c : nat) : bool := (c <? 32) || (c =? 127).
Definition is_alpha (c : nat) : bool := ((97 <=? c) && (c <=? 122)) || ((65 <=? c) && (c <=? 90)).
Definition is_scheme_tail (c : nat) : bool := ((48 <=? c) && (c <=? 57)) || (c =? 43) || (c =? 45) || (c =? 46).

Inductive scheme_res := SchNone | SchErr | SchSome.
(* url.getScheme *)
Fixpoint get_scheme (first : bool) (s : bytes) : scheme_res :=
  match s with
  | [] => SchNone
  | c :: r => if is_alpha c then get_scheme false r
              else if is_scheme_tail c then (if first then SchNone else get_scheme false r)
              else if c =? 58 then (if first then SchErr else SchSome)
              else SchNone
  end.

(* the ForceQuery / Cut on ? step of url.parse *)
Definition split_query (rest : bytes) : bytes * bytes :=
  if has_suffix [63] rest && (count_byte 63 rest =? 1) then (removelast rest, [])
  else let '(a, b) := cut 63 rest in (a, match b with Some q => q | None => [] end).

Definition url_parse (s : bytes) : parsed :=
  let '(u, frag) := cut 35 s in
  if existsb is_ctl u then PErr
  else if bytes_eqb u [42] then PExotic
  else match get_scheme true u with
       | SchErr => PErr
       | SchSome => PExotic
       | SchNone =>
         let '(rest, q) := split_query u in
         if negb (has_prefix [47] rest) && mem_byte 58 (fst (cut 47 rest)) then PErr
         else if has_prefix [47; 47] rest && negb (has_prefix [47; 47; 47] rest) then PExotic
         else match path_unescape rest with
              | None => PErr
              | Some p =>
                match frag with
                | Some f => match path_unescape f with None => PErr | Some _ => POk p rest q end
                | None => POk p rest q
                end
              end
       end.

(* URL.EscapedPath: the raw text when it is a valid encoding (it decodes to Path by construction),
   else the default encoding of the decoded path *)
Definition escaped_path (path raw : bytes) : bytes :=
  if valid_encoded raw then raw else escape MPath path.

(* ---------- path.Clean / path.Join ---------- *)
(* stack is kept reversed (head = last element) *)
Fixpoint clean_segs (rooted : bool) (segs : list bytes) (stack : list bytes) : list bytes :=
  match segs with
  | [] => stack
  | s :: r =>
    if bytes_eqb s [] || bytes_eqb s [46] then clean_segs rooted r stack
    else if bytes_eqb s [46; 46] then
      match stack with
      | top :: st' => if bytes_eqb top [46; 46] then clean_segs rooted r (s :: stack)
                      else clean_segs rooted r st'
      | [] => if rooted then clean_segs rooted r [] else clean_segs rooted r [s]
      end
    else clean_segs rooted r (s :: stack)
  end.

Definition path_clean (s : bytes) : bytes :=
  match s with
  | [] => [46]
  | _ =>
    let rooted := has_prefix [47] s in
    let body := join_with 47 (rev (clean_segs rooted (split_on 47 s) [])) in
    if rooted then 47 :: body
    else match body with [] => [46] | _ => body end
  end.

(* path.Join of two elements *)
Definition path_join (a b : bytes) : bytes :=
  match a, b with
  | [], [] => []
  | [], _ => path_clean b
  | _, [] => path_clean a
  | _, _ => path_clean (a ++ 47 :: b)
  end.

(* ---------- strings.ReplaceAll (old non-empty) ---------- *)
Fixpoint replace_go (t e : bytes) (skip : nat) (s : bytes) : bytes :=
  match s with
  | [] => []
  | c :: r =>
    match skip with
    | S n => replace_go t e n r
    | O => if has_prefix t s then e ++ replace_go t e (length t - 1) r
           else c :: replace_go t e 0 r
    end
  end.
Definition replace_all (s t e : bytes) : bytes := replace_go t e 0 s.

(* ---------- substitution of the path parameters ---------- *)
Definition token (k : bytes) : bytes := 123 :: k ++ [125].

Definition subst1 (acc : bytes) (kv : bytes * bytes) : bytes :=
  replace_all acc (token (fst kv)) (path_escape (snd kv)).

(* for k, v := range r.pathParams { urlPath = ReplaceAll(urlPath, {k}, PathEscape(v)) } *)
Definition subst (ps : list (bytes * bytes)) (p : bytes) : bytes := fold_left subst1 ps p.

(* ---------- query values ---------- *)
Definition qmap := list (bytes * list bytes).

Fixpoint q_get (k : bytes) (m : qmap) : option (list bytes) :=
  match m with
  | [] => None
  | (k', vs) :: r => if bytes_eqb k k' then Some vs else q_get k r
  end.
Definition q_has (k : bytes) (m : qmap) : bool := match q_get k m with Some _ => true | None => false end.

(* Values.Add *)
Fixpoint q_add (k v : bytes) (m : qmap) : qmap :=
  match m with
  | [] => [(k, [v])]
  | (k', vs) :: r => if bytes_eqb k k' then (k', vs ++ [v]) :: r else (k', vs) :: q_add k v r
  end.
(* Values.Del *)
Definition q_del (k : bytes) (m : qmap) : qmap := filter (fun kv => negb (bytes_eqb k (fst kv))) m.
(* m[k] = vs *)
Definition q_set (k : bytes) (vs : list bytes) (m : qmap) : qmap := q_del k m ++ [(k, vs)].

(* url.ParseQuery, errors ignored (URL.Query) *)
Definition parse_query_piece (m : qmap) (piece : bytes) : qmap :=
  if mem_byte 59 piece then m
  else match piece with
       | [] => m
       | _ => let '(k, v) := cut 61 piece in
              match query_unescape k, query_unescape (match v with Some v' => v' | None => [] end) with
              | Some k', Some v' => q_add k' v' m
              | _, _ => m
              end
       end.
Definition parse_query (raw : bytes) : qmap := fold_left parse_query_piece (split_on 38 raw) [].

(* pattern over base path: delete, then add *)
Definition merge_static1 (m : qmap) (kv : bytes * list bytes) : qmap :=
  fold_left (fun m' v => q_add (fst kv) v m') (snd kv) (q_del (fst kv) m).
Definition merge_static (base_q pat_q : qmap) : qmap := fold_left merge_static1 pat_q base_q.

(* the caller's values win; r.SetQueryParam for every static name the caller did not set *)
Definition client_query1 (caller : qmap) (m : qmap) (kv : bytes * list bytes) : qmap :=
  if q_has (fst kv) caller then m else q_set (fst kv) (snd kv) m.
Definition client_query (caller static : qmap) : qmap := fold_left (client_query1 caller) static caller.

(* the maps the parameter writer leaves: SetQueryParam / SetPathParam in the order written *)
Definition set_all {A} (l : list (bytes * A)) : list (bytes * A) :=
  fold_left (fun m kv => filter (fun kv' => negb (bytes_eqb (fst kv) (fst kv'))) m ++ [kv]) l [].

(* ---------- scheme ---------- *)
Definition sch_http : bytes := [104; 116; 116; 112].
Definition sch_https : bytes := [104; 116; 116; 112; 115].

Definition select_scheme (l : list bytes) : bytes :=
  match l with
  | [] => []
  | s0 :: _ =>
    if negb (bytes_eqb s0 sch_https) && (1 <? length l)
    then (if existsb (bytes_eqb sch_https) l then sch_https else s0)
    else s0
  end.

Definition pick_scheme (rs os : list bytes) : bytes :=
  match select_scheme rs with
  | [] => match select_scheme os with
          | [] => sch_http
          | w => w
          end
  | v => v
  end.

(* ---------- the whole ---------- *)
Definition reinstate_slash (pat_path : bytes) : bool :=
  negb (bytes_eqb pat_path []) && negb (bytes_eqb pat_path [47]) && has_suffix [47] pat_path.

(* escapeInvalidPathBytes: every byte that is not valid in an encoded path is percent-encoded again
   (the percent sign is left alone) *)
Definition escape_invalid1 (c : nat) : bytes := if valid_encoded_byte c then [c] else pct c.
Definition escape_invalid (s : bytes) : bytes := flat_map escape_invalid1 s.

Definition build_path (base_path pat_path : bytes) (ps : list (bytes * bytes)) : bytes :=
  let u := subst ps (path_join base_path pat_path) in
  escape_invalid (if reinstate_slash pat_path then u ++ [47] else u).

Inductive outcome :=
| OutErr
| OutExotic
| OutOk (epath : bytes) (q : qmap) (scheme host : bytes).

(* ps: path parameters in the order the map is iterated; caller: the query values set by the caller *)
Definition create_request (base pattern : bytes) (ps : list (bytes * bytes)) (caller : qmap)
           (rs os : list bytes) (host : bytes) : outcome :=
  match url_parse base with
  | PErr => OutErr
  | PExotic => OutExotic
  | POk bp _ bq =>
    match url_parse pattern with
    | PErr => OutErr
    | PExotic => OutExotic
    | POk pp _ pq =>
      match url_parse (build_path bp pp ps) with
      | PErr => OutErr
      | PExotic => OutExotic
      | POk p raw _ =>
        OutOk (escaped_path p raw)
              (client_query caller (merge_static (parse_query bq) (parse_query pq)))
              (pick_scheme rs os) host
      end
    end
  end.

(* ---------- client.New ---------- *)
(* client.New keeps the text of the base path it is given (path part AND query string, byte for byte)
   and only puts a slash in front of a text that does not begin with one *)
Definition new_base_path (b : bytes) : bytes := if has_prefix [47] b then b else 47 :: b.

(* the base path of the Runtime a request is built on: the argument of client.New (via_new), or a text
   assigned to the exported field Runtime.BasePath afterwards *)
Definition runtime_base (via_new : bool) (b : bytes) : bytes := if via_new then new_base_path b else b.

(* the request of a client created with client.New(host, base, rs) *)
Definition client_request (via_new : bool) (base pattern : bytes) (ps : list (bytes * bytes)) (caller : qmap)
           (rs os : list bytes) (host : bytes) : outcome :=
  create_request (runtime_base via_new base) pattern ps caller rs os host.

(* ---------- several operations on one Runtime ---------- *)
(* CreateHttpRequest reads the Runtime (host, base path, transport schemes) and the operation and keeps
   nothing from one call to the next: a history of operations built on one Runtime is the list of the
   single requests. One operation: pattern, path parameters (map order), caller query, scheme list. *)
Definition hop : Type := (bytes * list (bytes * bytes) * qmap * list bytes)%type.
Definition create_step (base : bytes) (rs : list bytes) (host : bytes) (s : hop) : outcome :=
  let '(pattern, ps, caller, os) := s in create_request base pattern ps caller rs os host.
Definition create_history (base : bytes) (rs : list bytes) (host : bytes) (steps : list hop) : list outcome :=
  map (create_step base rs host) steps.
