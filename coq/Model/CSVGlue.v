(* CSVGlue.v — model of the CSV codec glue of go-openapi/runtime (csv.go, csv_options.go).

   encoding/csv itself is NOT modelled: it is an oracle pair
     parse  : ropts -> bytes -> presult        the real csv.Reader configured with these options, read to its first error
     render : wopts -> list record -> bytes    the real csv.Writer configured with these options
   supplied per case by the harness (Check_C16) and universally quantified (Section variables) in the theorems.

   What is modelled, branch by branch: which options reach which reader / writer (applyToReader, applyToWriter),
   the 8 destination kinds of CSVConsumer and the 8 source kinds of CSVProducer, pipeCSV and bufferedCSV
   (skipped lines, EOF inside the skipped prefix, errors), the in-memory record container csvRecordsWriter,
   the reflect operations Grow / SetCap / SetLen / Copy on the destination table as checked operations on
   (len, cap), and a small store for the record buffer that csv.Reader reuses under ReuseRecord.
   The model mirrors the code AFTER the repairs F-C16-1..5. Each repaired branch is selected by a boolean constant
   (table_resets_len, records_writer_copies, marshaler_gets_reader_opts, nil_is_refused, row_type_checked, all true);
   the value false is the code as it was found (kept so that the old behaviour stays documented and testable,
   see t_store_before_fix_panics and alias_before_fix in the proofs).
   Definitions only; proofs are in Proofs/CSVGlueProofs.v. *)
From Coq Require Import List ZArith Bool Arith.
From V Require Import Bytes.
Import ListNotations.

Definition field := bytes.
Definition record := list field.

(* ---------- options (csv_options.go) ---------- *)

(* the option fields of csv.Reader that the glue copies; 0 = not set for comma, comment, fields-per-record *)
Record ropts := mkR { r_comma : nat; r_comment : nat; r_fpr : Z; r_lazy : bool; r_trim : bool; r_reuse : bool }.
(* the option fields of csv.Writer that the glue copies *)
Record wopts := mkW { w_comma : nat; w_crlf : bool }.
(* csvOpts; closeStream is not modelled (it does not touch the records) *)
Record opts := mkO { o_r : ropts; o_w : wopts; o_skip : Z }.

(* csv.NewReader / csv.NewWriter *)
Definition default_ropts : ropts := mkR 44 0 0%Z false false false.
Definition default_wopts : wopts := mkW 44 false.

(* csvOpts.applyToReader: comma, comment, fields-per-record only when non-zero; the three flags always *)
Definition apply_to_reader (o : ropts) (r : ropts) : ropts :=
  mkR (if Nat.eqb (r_comma o) 0 then r_comma r else r_comma o)
      (if Nat.eqb (r_comment o) 0 then r_comment r else r_comment o)
      (if Z.eqb (r_fpr o) 0 then r_fpr r else r_fpr o)
      (r_lazy o) (r_trim o) (r_reuse o).

(* csvOpts.applyToWriter *)
Definition apply_to_writer (o : wopts) (w : wopts) : wopts :=
  mkW (if Nat.eqb (w_comma o) 0 then w_comma w else w_comma o) (w_crlf o).

(* ---------- the parser oracle's answer ---------- *)

(* what successive csv.Reader.Read calls yield: these records, then io.EOF (None) or an error (its text) *)
Record presult := mkP { p_recs : list record; p_end : option bytes }.

(* ---------- store: the record buffer csv.Reader reuses under ReuseRecord ---------- *)

(* buffers, newest first; each is a backing array of field slots, its length is its capacity.
   The head is the reader's current buffer (lastRecord). Older buffers are never written again. *)
Definition store := list (list field).

(* a []string value as the glue sees it: a slice nobody else writes to -- its whole backing array, spare capacity
   included, is reachable through this slice only --, or a view of n slots of buffer id
   (ids count from the bottom of the store, so they are stable when a buffer is pushed) *)
Inductive handle := HVal (r : record) | HBuf (id n : nat).

Definition look (id : nat) (st : store) : list field := nth (length st - 1 - id) st [].

Definition deref (st : store) (h : handle) : record :=
  match h with
  | HVal r => r
  | HBuf id n => firstn n (look id st)
  end.

Definition overwrite (rec buf : list field) : list field := rec ++ skipn (length rec) buf.

(* ---------- readers (the CSVReader interface) ---------- *)

Inductive rdr :=
| RCsv (pending : list record) (fin : option bytes) (reuse : bool)   (* a csv.Reader over some text *)
| RTable (rows : list record).                                        (* csvRecordsWriter used as a reader *)

Inductive read_res := RdRec (h : handle) | RdEOF | RdErr (e : bytes).

(* one Read. Under ReuseRecord (reader.go, readRecord): dst = lastRecord[:0]; a fresh array is made only when
   cap(dst) < number of fields; otherwise the fields are stored over the old ones. *)
Definition rd_read (r : rdr) (st : store) : read_res * rdr * store :=
  match r with
  | RCsv [] None _ => (RdEOF, r, st)
  | RCsv [] (Some e) _ => (RdErr e, r, st)
  | RCsv (rec :: rest) fin false => (RdRec (HVal rec), RCsv rest fin false, st)
  | RCsv (rec :: rest) fin true =>
    match st with
    | buf :: tl =>
      if length rec <=? length buf
      then (RdRec (HBuf (length tl) (length rec)), RCsv rest fin true, overwrite rec buf :: tl)
      else (RdRec (HBuf (length st) (length rec)), RCsv rest fin true, rec :: st)
    | [] => (RdRec (HBuf 0 (length rec)), RCsv rest fin true, [rec])
    end
  | RTable [] => (RdEOF, r, st)
  | RTable (rec :: rest) => (RdRec (HVal rec), RTable rest, st)
  end.

Definition remaining (r : rdr) : nat :=
  match r with
  | RCsv pending _ _ => length pending
  | RTable rows => length rows
  end.

(* csv.Reader.ReadAll: always fresh records, whatever ReuseRecord says *)
Definition rd_read_all (r : rdr) : list record * option bytes :=
  match r with
  | RCsv pending fin _ => (pending, fin)
  | RTable rows => (rows, None)
  end.

(* ---------- writers (the CSVWriter interface) ---------- *)

(* csvRecordsWriter.Write after the fix of F-C16-2 stores a copy of the record; before it stored the slice itself *)
Definition records_writer_copies : bool := true.

Inductive wtr :=
| WCsv (written : list record)      (* csv.Writer, or a caller's CSVWriter: the field texts are consumed during Write *)
| WTable (rows : list handle).      (* csvRecordsWriter: keeps what it is handed *)

Definition w_write_with (copies : bool) (w : wtr) (h : handle) (st : store) : wtr :=
  match w with
  | WCsv written => WCsv (written ++ [deref st h])
  | WTable rows => WTable (rows ++ [if copies then HVal (deref st h) else h])
  end.
Definition w_write := w_write_with records_writer_copies.

(* what the writer holds when looked at in store st *)
Definition w_records (w : wtr) (st : store) : list record :=
  match w with
  | WCsv written => written
  | WTable rows => map (deref st) rows
  end.

(* ---------- pipeCSV / bufferedCSV ---------- *)

Inductive skip_res := SkEOF | SkErr (e : bytes) | SkCont (r : rdr) (st : store).

(* for ; opts.skippedLines > 0; opts.skippedLines-- { Read; EOF => return nil; error => return it } *)
Fixpoint skip_loop (k : nat) (r : rdr) (st : store) : skip_res :=
  match k with
  | O => SkCont r st
  | S k' =>
    match rd_read r st with
    | (RdRec _, r', st') => skip_loop k' r' st'
    | (RdEOF, _, _) => SkEOF
    | (RdErr e, _, _) => SkErr e
    end
  end.

(* number of iterations of the skip loop that can matter: skippedLines when positive, but never more than the
   reads the reader can answer with a record plus one (kept small so that huge counts cost nothing) *)
Definition skip_count (k : Z) (r : rdr) : nat :=
  if (k <=? 0)%Z then 0
  else if (Z.of_nat (S (remaining r)) <=? k)%Z then S (remaining r) else Z.to_nat k.

Inductive pipe_res := PErr (e : bytes) | PDone (w : wtr) (st : store) | PFuel.

Fixpoint pipe_loop_with (copies : bool) (fuel : nat) (r : rdr) (w : wtr) (st : store) : pipe_res :=
  match fuel with
  | O => PFuel
  | S f =>
    match rd_read r st with
    | (RdEOF, _, _) => PDone w st
    | (RdErr e, _, _) => PErr e
    | (RdRec h, r', st') => pipe_loop_with copies f r' (w_write_with copies w h st') st'
    end
  end.

Definition pipe_csv_with (copies : bool) (w : wtr) (r : rdr) (st : store) (k : Z) : pipe_res :=
  match skip_loop (skip_count k r) r st with
  | SkEOF => PDone w st            (* return nil: nothing written, nothing flushed *)
  | SkErr e => PErr e
  | SkCont r' st' => pipe_loop_with copies (S (remaining r')) r' w st'
  end.
Definition pipe_csv := pipe_csv_with records_writer_copies.

Inductive buf_res := BErr (e : bytes) | BEarly | BDone (recs : list record).

Definition buffered_csv (r : rdr) (st : store) (k : Z) : buf_res :=
  match skip_loop (skip_count k r) r st with
  | SkEOF => BEarly                 (* return nil before anything is written *)
  | SkErr e => BErr e
  | SkCont r' _ =>
    match rd_read_all r' with
    | (_, Some e) => BErr e
    | (recs, None) => BDone recs
    end
  end.

(* ---------- the destination table: reflect operations as checked operations on (len, cap) ---------- *)

Record tbl := mkT { t_len : nat; t_cap : nat }.

(* Value.Grow(n), n >= 0: afterwards cap >= len + n. How much more is the runtime's business; the model keeps the
   least such capacity (the following SetCap makes the surplus unobservable). *)
Definition t_grow (n : nat) (t : tbl) : option tbl :=
  Some (if t_len t + n <=? t_cap t then t else mkT (t_len t) (t_len t + n)).
(* Value.SetCap(n): panics unless len <= n <= cap *)
Definition t_setcap (n : nat) (t : tbl) : option tbl :=
  if (n <? t_len t) || (t_cap t <? n) then None else Some (mkT (t_len t) n).
(* Value.SetLen(n): panics unless n <= cap *)
Definition t_setlen (n : nat) (t : tbl) : option tbl :=
  if t_cap t <? n then None else Some (mkT n (t_cap t)).

Definition obind {A B} (x : option A) (f : A -> option B) : option B :=
  match x with Some a => f a | None => None end.

(* the sequence csv.go performs on the destination once the records are there (after the fix of F-C16-1 the
   length is reset first); None = reflect panics *)
Definition table_resets_len : bool := true.
Definition t_store_with (reset : bool) (n : nat) (t : tbl) : option tbl :=
  obind (if reset then t_setlen 0 t else Some t) (fun t0 =>
  obind (t_grow n t0) (fun t1 =>
  obind (t_setcap n t1) (fun t2 =>
  t_setlen n t2))).
Definition t_store := t_store_with table_resets_len.

(* reflect.Copy copies min(len dst, len src) rows; rows of the destination beyond that keep what they held
   (modelled as empty rows; unreachable because len = n after SetLen) *)
Definition t_copy (t : tbl) (recs : list record) : list record :=
  firstn (t_len t) recs ++ repeat [] (t_len t - length recs).

(* ---------- CSVConsumer ---------- *)

Inductive dkind := DCsvWriter | DCSVWriter | DWriter | DReaderFrom | DBinaryUnmarshaler | DRecords | DBytes | DString.

(* a destination: its kind, whether it is a typed nil pointer, for the record table whether its row type is
   []string itself (d_compat; false for e.g. [][]MyString or []Row, which pass the Kind tests of the switch but which
   reflect.Copy refuses), and its (len, cap) before the call *)
Record dest := mkD { d_kind : dkind; d_nil : bool; d_compat : bool; d_len : nat; d_cap : nat }.

Inductive err := EParser (msg : bytes) | ENil | EUnsupported.

Inductive outcome :=
| OPanic
| OFuel                                              (* model ran out of fuel: excluded by C16_total *)
| OErr (e : err)
| OBytes (b : bytes)                                 (* what a byte sink received *)
| ORecs (rows : list record) (len cap : nat) (aliased : bool).
  (* what a record sink holds. aliased: the storage of some delivered record, taken up to its full CAPACITY and not only
     up to its length, overlaps the storage of another delivered record (of this call or of a later call), so that a
     caller who writes to or appends to one record changes what another one reads. For a caller's CSVWriter the slices
     it was handed are judged, and only when the caller did not ask for ReuseRecord (see handed_alias). *)

(* nil typed pointers are refused up front (after the fix of F-C16-4; before, the switch arms dereferenced them) *)
Definition nil_is_refused : bool := true.
(* the kinds that are pointers the codec itself dereferences; a nil pointer behind one of the caller's interfaces is
   the caller's implementation's business *)
Definition d_owned (k : dkind) : bool :=
  match k with DCsvWriter | DRecords | DBytes | DString => true | _ => false end.
(* a table whose rows are not []string falls through to the not-supported error (after the fix of F-C16-5; before,
   reflect.Copy panicked on it) *)
Definition row_type_checked : bool := true.

Fixpoint shares_buffer (rows : list handle) : bool :=
  match rows with
  | [] => false
  | h :: r =>
    match h with
    | HBuf id _ => existsb (fun h' => match h' with HBuf id' _ => Nat.eqb id id' | HVal _ => false end) r
    | HVal _ => false
    end || shares_buffer r
  end.

Definition wtr_rows (w : wtr) : list handle := match w with WTable rows => rows | WCsv _ => [] end.

(* does this reader hand out views of its own reuse buffer (ReuseRecord)? *)
Definition reader_reuses (r : rdr) : bool := match r with RCsv _ _ reuse => reuse | RTable _ => false end.

(* What pipeCSV hands to a caller's CSVWriter. A writer that RETAINS the slices it is handed is a container that does
   not copy: WTable under pipe_csv_with false. Whether two of the retained slices share storage is judged only when the
   caller did not ask for ReuseRecord (with it the sharing is the caller's own request, documented by encoding/csv);
   without it every Read returns a slice nobody else writes to, and the glue must hand over exactly that. *)
Definition handed_alias (r : rdr) (k : Z) : bool :=
  if reader_reuses r then false else
  match pipe_csv_with false (WTable []) r [] k with
  | PDone w _ => shares_buffer (wtr_rows w)
  | _ => false
  end.

Inductive skind := SCsvReader | SCSVReader | SReader | SWriterTo | SBinaryMarshaler | SRecords | SBytes | SString.

(* a source: kind, typed nil pointer or not, and its content in the form that kind carries:
   the text (text kinds), what the caller's own CSVReader yields (SCSVReader), the rows (SRecords) *)
Record source := mkS { s_kind : skind; s_nil : bool; s_compat : bool; s_text : bytes; s_own : presult; s_rows : list record }.


Definition s_owned (k : skind) : bool :=
  match k with SCsvReader | SRecords | SBytes | SString => true | _ => false end.

Section Glue.
  Variable parse : ropts -> bytes -> presult.
  Variable render : wopts -> list record -> bytes.

  (* csv.NewReader(reader) + applyToReader *)
  Definition reader_over (ro : ropts) (text : bytes) : rdr :=
    let pr := parse ro text in RCsv (p_recs pr) (p_end pr) (r_reuse ro).

  Definition via_pipe_bytes (wo : wopts) (r : rdr) (k : Z) : outcome :=
    match pipe_csv (WCsv []) r [] k with
    | PErr e => OErr (EParser e)
    | PFuel => OFuel
    | PDone w st =>
      match w_records w st with
      | [] => OBytes []                 (* no Write happened: Flush has nothing to emit *)
      | recs => OBytes (render wo recs)
      end
    end.

  Definition via_buffer_bytes (wo : wopts) (r : rdr) (k : Z) : outcome :=
    match buffered_csv r [] k with
    | BErr e => OErr (EParser e)
    | BEarly => OBytes []
    | BDone [] => OBytes []
    | BDone recs => OBytes (render wo recs)
    end.

  Definition consume (o : opts) (d : dest) (text : bytes) : outcome :=
    if d_nil d && d_owned (d_kind d) then (if nil_is_refused then OErr ENil else OPanic) else
    let r := reader_over (apply_to_reader (o_r o) default_ropts) text in
    let wo := apply_to_writer (o_w o) default_wopts in
    match d_kind d with
    | DCsvWriter => via_pipe_bytes wo r (o_skip o)
    | DCSVWriter =>                                   (* no writer options available *)
      match pipe_csv (WCsv []) r [] (o_skip o) with
      | PErr e => OErr (EParser e)
      | PFuel => OFuel
      | PDone w st => ORecs (w_records w st) 0 0 (handed_alias r (o_skip o))
      end
    | DWriter => via_pipe_bytes wo r (o_skip o)
    | DReaderFrom | DBinaryUnmarshaler | DBytes | DString => via_buffer_bytes wo r (o_skip o)
    | DRecords =>                                     (* writer options are ignored *)
      if negb (d_compat d) && row_type_checked then OErr EUnsupported else
      match pipe_csv (WTable []) r [] (o_skip o) with
      | PErr e => OErr (EParser e)
      | PFuel => OFuel
      | PDone w st =>
        let recs := w_records w st in
        match t_store (length recs) (mkT (d_len d) (d_cap d)) with
        | None => OPanic
        | Some t =>
          if negb (d_compat d) then OPanic else        (* reflect.Copy: element types differ *)
          ORecs (t_copy t recs) (t_len t) (t_cap t) (shares_buffer (wtr_rows w))
        end
      end
    end.

  (* ---------- CSVProducer ---------- *)

  (* after the fix of F-C16-3 the reader over a BinaryMarshaler's bytes gets the reader options like every other *)
  Definition marshaler_gets_reader_opts : bool := true.

  Definition produce (o : opts) (s : source) : outcome :=
    if s_nil s && s_owned (s_kind s) then (if nil_is_refused then OErr ENil else OPanic) else
    let ro := apply_to_reader (o_r o) default_ropts in
    let wo := apply_to_writer (o_w o) default_wopts in
    match s_kind s with
    | SCsvReader => via_pipe_bytes wo (reader_over ro (s_text s)) (o_skip o)
    | SCSVReader =>                                   (* no reader options available: the reader is what it is *)
      via_pipe_bytes wo (RCsv (p_recs (s_own s)) (p_end (s_own s)) (r_reuse (o_r o))) (o_skip o)
    | SReader | SWriterTo => via_pipe_bytes wo (reader_over ro (s_text s)) (o_skip o)
    | SBinaryMarshaler =>
      via_buffer_bytes wo (reader_over (if marshaler_gets_reader_opts then ro else default_ropts) (s_text s)) (o_skip o)
    | SRecords =>
      if negb (s_compat s) then (if row_type_checked then OErr EUnsupported else OPanic) else
      via_pipe_bytes wo (RTable (s_rows s)) (o_skip o)
    | SBytes | SString => via_buffer_bytes wo (reader_over ro (s_text s)) (o_skip o)
    end.
End Glue.
