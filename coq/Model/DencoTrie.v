(* DencoTrie.v — the abstract trie that denco's double array represents, and the model of
   Router.Lookup / Router.Build at that level. Definitions only.
   tlookup is the depth-first search that Go's greedy literal walk with LIFO backtracking
   implements: literal child first, then the single-parameter child on the remainder after the
   segment, then the wildcard. Children are kept in insertion order (no sorting needed). *)
From V Require Import Bytes DencoSpec.

Section Trie.
Context {V : Type}.

Inductive trie :=
| Node (leaf : option V) (lits : list (byte * trie)) (par : option trie) (wild : option V).

Definition res := option (V * list bytes).

Fixpoint tlookup (t : trie) (p : bytes) {struct t} : res :=
  match t with
  | Node leaf lits par wild =>
    match p with
    | [] => match leaf with Some v => Some (v, []) | None => None end
    | c :: p' =>
      match (fix go (l : list (byte * trie)) : res :=
               match l with
               | [] => None
               | (c', t') :: r => if Nat.eqb c c' then tlookup t' p' else go r
               end) lits with
      | Some r => Some r
      | None =>
        match match par with
              | Some tp => match tlookup tp (snd (span_seg p)) with
                           | Some (x, vs) => Some (x, fst (span_seg p) :: vs)
                           | None => None end
              | None => None end with
        | Some r => Some r
        | None => match wild with Some v => Some (v, [p]) | None => None end
        end
      end
    end
  end.

(* entries in DFS order *)
Fixpoint entries (t : trie) : list (shape * V) :=
  match t with
  | Node leaf lits par wild =>
    (match leaf with Some v => [([], v)] | None => [] end)
    ++ (fix go (l : list (byte * trie)) : list (shape * V) :=
          match l with
          | [] => []
          | (c, t') :: r => map (fun e => (SLit c :: fst e, snd e)) (entries t') ++ go r
          end) lits
    ++ (match par with Some tp => map (fun e => (SPar :: fst e, snd e)) (entries tp) | None => [] end)
    ++ (match wild with Some v => [([SWild], v)] | None => [] end)
  end.

Fixpoint first_match (es : list (shape * V)) (p : bytes) : res :=
  match es with
  | [] => None
  | (s, v) :: r => match smatch s p with Some vs => Some (v, vs) | None => first_match r p end
  end.

(* standalone twins of the nested fixpoints (all reasoning goes through these) *)
Fixpoint lits_lookup (l : list (byte * trie)) (c : byte) (p' : bytes) : res :=
  match l with
  | [] => None
  | (c', t') :: r => if Nat.eqb c c' then tlookup t' p' else lits_lookup r c p'
  end.

Fixpoint lits_entries (l : list (byte * trie)) : list (shape * V) :=
  match l with
  | [] => []
  | (c, t') :: r => map (fun e => (SLit c :: fst e, snd e)) (entries t') ++ lits_entries r
  end.

Definition leaf_entries (leaf : option V) : list (shape * V) :=
  match leaf with Some v => [([], v)] | None => [] end.
Definition par_entries (par : option trie) : list (shape * V) :=
  match par with Some tp => map (fun e => (SPar :: fst e, snd e)) (entries tp) | None => [] end.
Definition wild_entries (wild : option V) : list (shape * V) :=
  match wild with Some v => [([SWild], v)] | None => [] end.

Definition or_else (a b : res) : res := match a with Some r => Some r | None => b end.

Definition par_lookup (par : option trie) (p : bytes) : res :=
  match par with
  | Some tp => match tlookup tp (snd (span_seg p)) with
               | Some (x, vs) => Some (x, fst (span_seg p) :: vs)
               | None => None end
  | None => None end.

Definition wild_lookup (wild : option V) (p : bytes) : res :=
  match wild with Some v => Some (v, [p]) | None => None end.

Definition opt_all (P : trie -> Prop) (o : option trie) : Prop :=
  match o with Some t => P t | None => True end.

(* well-formed: the literal children of every node have distinct bytes *)
Fixpoint wf (t : trie) : Prop :=
  match t with
  | Node leaf lits par wild =>
    NoDup (map fst lits)
    /\ (fix go (l : list (byte * trie)) : Prop :=
          match l with [] => True | ct :: r => wf (snd ct) /\ go r end) lits
    /\ match par with Some tp => wf tp | None => True end
  end.

(* ---------- insertion, build ---------- *)
Definition empty : trie := Node None [] None None.

Fixpoint insert (s : shape) (v : V) (t : trie) {struct s} : trie :=
  match t with
  | Node leaf lits par wild =>
    match s with
    | [] => Node (Some v) lits par wild
    | SLit c :: s' =>
      Node leaf
        ((fix ins (l : list (byte * trie)) : list (byte * trie) :=
            match l with
            | [] => [(c, insert s' v empty)]
            | (c', t') :: r =>
              if Nat.eqb c c' then (c', insert s' v t') :: r
              else (c', t') :: ins r
            end) lits) par wild
    | SPar :: s' =>
      Node leaf lits (Some (insert s' v (match par with Some tp => tp | None => empty end))) wild
    | SWild :: _ => Node leaf lits par (Some v)
    end
  end.

Fixpoint ins_lit (c : byte) (s' : shape) (v : V) (l : list (byte * trie)) : list (byte * trie) :=
  match l with
  | [] => [(c, insert s' v empty)]
  | (c', t') :: r =>
    if Nat.eqb c c' then (c', insert s' v t') :: r
    else (c', t') :: ins_lit c s' v r
  end.

Definition build (pats : list (shape * V)) : trie :=
  fold_left (fun t e => insert (fst e) (snd e) t) pats empty.

(* parameter nesting depth: how deep lookup recurses on this trie (the fuel the array model needs) *)
Fixpoint pdepth (t : trie) : nat :=
  match t with
  | Node _ lits par _ =>
    Nat.max ((fix go (l : list (byte * trie)) : nat :=
                match l with [] => 0 | ct :: r => Nat.max (pdepth (snd ct)) (go r) end) lits)
            (match par with Some tp => S (pdepth tp) | None => 0 end)
  end.

End Trie.

Arguments trie : clear implicits.
Arguments res : clear implicits.

(* ---------- the model of Router at trie level ---------- *)
Section Router.
Context {V : Type}.

(* Router.static: a Go map filled in record order (a later record overwrites an earlier one) *)
Fixpoint static_lookup (pats : list (bytes * V)) (path : bytes) (acc : option V) : option V :=
  match pats with
  | [] => acc
  | (k, v) :: r =>
    static_lookup r path (if negb (is_param_key k) && bytes_eqb k path then Some v else acc)
  end.

Definition param_pats (pats : list (bytes * V)) : list (bytes * V) :=
  filter (fun kv => is_param_key (fst kv)) pats.

Definition model_trie (pats : list (bytes * V)) : trie (V * list bytes) :=
  build (entries_of (param_pats pats)).

(* Router.Lookup: static map first, then the trie; names are attached afterwards *)
Definition router_lookup (pats : list (bytes * V)) (path : bytes) : lres V :=
  match static_lookup pats path None with
  | Some v => Found v []
  | None =>
    match tlookup (model_trie pats) path with
    | Some ((v, ns), vals) =>
      match zip_names ns vals with Some ps => Found v ps | None => Panic end
    | None => NotFound
    end
  end.

End Router.
