(* APIValidateSpec.v — the vocabulary of property C19 as short executable predicates: the registered and the
   required sets coincide; an error names the first failing category with exactly the missing and the
   superfluous names, sorted; a simple description; what must not happen when serving a validated API. *)
From V Require Export APIValidate.

Definition subset_b (a b : list bytes) : bool := forallb (fun x => mem_bytes x b) a.
Definition set_eqb (a b : list bytes) : bool := subset_b a b && subset_b b a.

(* the five categories: (registered, required) *)
Definition categories (a : api) (d : desc) : list (list bytes * list bytes) :=
  [ (a_consumers a, required_consumes d); (a_producers a, required_produces d); (a_ops a, required_ops d);
    (a_auths a, required_schemes d); (g_defs d, required_schemes d) ].

(* registrations and description coincide, and every declared security definition is used *)
Definition coincide (a : api) (d : desc) : bool :=
  forallb (fun c => set_eqb (fst c) (snd c)) (categories a d).

Fixpoint sorted_b (strict : bool) (l : list bytes) : bool :=
  match l with
  | [] => true
  | x :: r => match r with
              | [] => true
              | y :: _ => bytes_leb x y && (negb strict || negb (bytes_eqb x y)) && sorted_b strict r
              end
  end.

(* f reports category k of (registered, required): every registered-but-not-required name and every
   required-but-not-registered name, each list sorted *)
Definition reports (f : failure) (c : list bytes * list bytes) : bool :=
  let '(regs, exps) := c in
  set_eqb (f_unspecified f) (filter (fun v => negb (mem_bytes v exps)) regs) &&
  set_eqb (f_unregistered f) (filter (fun v => negb (mem_bytes v regs)) exps) &&
  sorted_b false (f_unspecified f) && sorted_b true (f_unregistered f).

(* the outcome of Validate is what the property demands *)
Definition validate_prop (a : api) (d : desc) (r : option failure) : bool :=
  match r with
  | None => coincide a d
  | Some f =>
    let cs := categories a d in
    forallb (fun c => set_eqb (fst c) (snd c)) (firstn (f_section f) cs) &&       (* earlier categories coincide *)
    match nth_error cs (f_section f) with
    | Some c => negb (set_eqb (fst c) (snd c)) && reports f c
    | None => false
    end
  end.

(* media types that are lower-case, parameter-free and wildcard-free *)
Definition STAR : byte := 42.
Definition simple_mt (mt : bytes) : bool :=
  bytes_eqb (lower mt) mt && negb (mem_byte SEMI mt) && negb (mem_byte STAR mt) &&
  match mt with [] => false | _ => true end.
Definition desc_media_types (d : desc) : list bytes :=
  g_consumes d ++ g_produces d ++ flat_map op_consumes (g_ops d) ++ flat_map op_produces (g_ops d).
Definition simple_desc (d : desc) : bool := forallb simple_mt (desc_media_types d).

(* outcome of exercising one operation of a validated API:
   0 the handler ran, 1 answered 500 no consumer registered, 2 panic cannot find a producer, 3 anything else *)
Definition served_ok (k : nat) : bool := Nat.eqb k 0.

(* ---- the route table ----
   a well-formed base path is absent or rooted; a well-formed template is a rooted path in normal form: the root, or
   non-empty slash-separated segments none of which is a single or a double dot (no trailing or doubled slash) *)
Definition wf_base (b : bytes) : bool := match b with [] => true | c :: _ => Nat.eqb c SL end.
Definition wf_template (t : bytes) : bool := rooted_normal t.
(* outcome 4 of exercising an operation: answered 404 or 405, the router holds no route for the declared operation *)
Definition all_routed (n : nat) (routed : list (nat * bool)) : bool :=
  list_eqb Nat.eqb (map fst routed) (seq 0 n) && forallb snd routed.

(* ---- histories: state must not be carried from one call to the next ---- *)
Definition failure_eqb (a b : failure) : bool :=
  Nat.eqb (f_section a) (f_section b) && list_eqb bytes_eqb (f_unspecified a) (f_unspecified b) &&
  list_eqb bytes_eqb (f_unregistered a) (f_unregistered b).

(* later batches of registrations on one API value, each followed by Validate(): the answer on that value, and the
   answer of a fresh value given every registration made so far. Both must be the same, and must be what the
   property demands of the registrations as they then stand. *)
Fixpoint history_ok (a : api) (d : desc) (more : list (list reg * option failure * option failure)) : bool :=
  match more with
  | [] => true
  | (s, shared, fresh) :: r =>
    let a' := fold_left apply_reg s a in
    opt_eqb failure_eqb shared fresh && validate_prop a' d shared && history_ok a' d r
  end.

(* ---- well-formed requests ----
   credentials cover one alternative requirement (or none is stated, or anonymous access is allowed);
   a body, if any, has a media type the route admits, in any letter case, with or without parameters;
   the Accept header is absent, or acceptable against what the route produces *)
Definition creds_cover (alts : list (list bytes)) (creds : list bytes) : bool :=
  is_nil alts || existsb (fun alt => forallb (fun s => mem_bytes s creds) alt) alts.
Definition accept_ok (produces : list bytes) (lines : list bytes) : bool :=
  match parse_accept lines with
  | None => false
  | Some [] => true
  | Some specs => is_nil produces || negb (is_nil (negotiate_content_type specs produces []))
  end.
Definition wf_request (a : api) (d : desc) (o : opdesc) (rq : request) : bool :=
  creds_cover (effective_security d o) (rq_creds rq) &&
  (is_nil (rq_ct rq) || mem_bytes (media_type_of (rq_ct rq)) (map normalize_offer (route_consumes_of a d o))) &&
  accept_ok (rt_produces (route_of a d o)) (rq_accept rq).

(* the answer a well-formed request deserves: the handler ran, the response is in a format the route produces, written
   by the producer of that format. The answer to HEAD: the handler ran, the announced format is one the route produces
   (if it produces anything), and NO body was written *)
Definition response_ok (a : api) (d : desc) (o : opdesc) (rs : result) : bool :=
  if is_head o
  then Nat.eqb (rs_outcome rs) 0 && is_nil (rs_producer rs) &&
       (is_nil (rt_produces (route_of a d o)) || mem_bytes (rs_ctype rs) (rt_produces (route_of a d o)))
  else Nat.eqb (rs_outcome rs) 0 && mem_bytes (rs_ctype rs) (rt_produces (route_of a d o)) &&
       bytes_eqb (rs_producer rs) (normalize_offer (rs_ctype rs)).

Definition result_eqb (x y : result) : bool :=
  Nat.eqb (rs_outcome x) (rs_outcome y) && bytes_eqb (rs_ctype x) (rs_ctype y) && bytes_eqb (rs_producer x) (rs_producer y).

(* one entry of a request history: the request, its result on the shared handler, its result on a fresh handler *)
Definition entry_ok (a : api) (d : desc) (e : request * result * result) : bool :=
  let '(rq, shared, fresh) := e in
  result_eqb shared fresh &&
  match nth_error (g_ops d) (rq_op rq) with
  | None => false
  | Some o => negb (wf_request a d o rq) || response_ok a d o shared
  end.
(* every declared operation received at least one well-formed request *)
Definition covers_ops (a : api) (d : desc) (served : list (request * result * result)) : bool :=
  forallb (fun i => existsb (fun e => let rq := fst (fst e) in
                                      Nat.eqb (rq_op rq) i &&
                                      match nth_error (g_ops d) i with Some o => wf_request a d o rq | None => false end) served)
          (seq 0 (length (g_ops d))).
