(* APIValidateSpec.v — the vocabulary of property C19 as short executable predicates: the registered and the
   required sets coincide; an error names the first failing category with exactly the missing and the
   superfluous names, sorted; a simple description; what must not happen when serving a validated API. *)
From V Require Export APIValidate.

Definition subset_b (a b : list bytes) : bool := forallb (fun x => mem_bytes x b) a.
Definition set_eqb (a b : list bytes) : bool := subset_b a b && subset_b b a.

(* the five categories: (registered, required) *)
Definition categories (a : api) (d : desc) : list (list bytes * list bytes) :=
  [ (a_consumers a, required_consumes d); (a_producers a, required_produces d); (a_ops a, required_ops d);
    (a_auths a, required_schemes d); (g_defs d, required_schemes d) ].

(* registrations and description coincide, and every declared security definition is used *)
Definition coincide (a : api) (d : desc) : bool :=
  forallb (fun c => set_eqb (fst c) (snd c)) (categories a d).

Fixpoint sorted_b (strict : bool) (l : list bytes) : bool :=
  match l with
  | [] => true
  | x :: r => match r with
              | [] => true
              | y :: _ => bytes_leb x y && (negb strict || negb (bytes_eqb x y)) && sorted_b strict r
              end
  end.

(* f reports category k of (registered, required): every registered-but-not-required name and every
   required-but-not-registered name, each list sorted *)
Definition reports (f : failure) (c : list bytes * list bytes) : bool :=
  let '(regs, exps) := c in
  set_eqb (f_unspecified f) (filter (fun v => negb (mem_bytes v exps)) regs) &&
  set_eqb (f_unregistered f) (filter (fun v => negb (mem_bytes v regs)) exps) &&
  sorted_b false (f_unspecified f) && sorted_b true (f_unregistered f).

(* the outcome of Validate is what the property demands *)
Definition validate_prop (a : api) (d : desc) (r : option failure) : bool :=
  match r with
  | None => coincide a d
  | Some f =>
    let cs := categories a d in
    forallb (fun c => set_eqb (fst c) (snd c)) (firstn (f_section f) cs) &&       (* earlier categories coincide *)
    match nth_error cs (f_section f) with
    | Some c => negb (set_eqb (fst c) (snd c)) && reports f c
    | None => false
    end
  end.

(* media types that are lower-case, parameter-free and wildcard-free *)
Definition STAR : byte := 42.
Definition simple_mt (mt : bytes) : bool :=
  bytes_eqb (lower mt) mt && negb (mem_byte SEMI mt) && negb (mem_byte STAR mt) &&
  match mt with [] => false | _ => true end.
Definition desc_media_types (d : desc) : list bytes :=
  g_consumes d ++ g_produces d ++ flat_map op_consumes (g_ops d) ++ flat_map op_produces (g_ops d).
Definition simple_desc (d : desc) : bool := forallb simple_mt (desc_media_types d).

(* outcome of exercising one operation of a validated API:
   0 the handler ran, 1 answered 500 no consumer registered, 2 panic cannot find a producer, 3 anything else *)
Definition served_ok (k : nat) : bool := Nat.eqb k 0.

(* ---- the route table ----
   a well-formed base path is absent or rooted; a well-formed template is a rooted path in normal form: the root, or
   non-empty slash-separated segments none of which is a single or a double dot (no trailing or doubled slash) *)
Definition wf_base (b : bytes) : bool := match b with [] => true | c :: _ => Nat.eqb c SL end.
Definition wf_template (t : bytes) : bool := rooted_normal t.
(* outcome 4 of exercising an operation: answered 404 or 405, the router holds no route for the declared operation *)
Definition all_routed (n : nat) (routed : list (nat * bool)) : bool :=
  list_eqb Nat.eqb (map fst routed) (seq 0 n) && forallb snd routed.
