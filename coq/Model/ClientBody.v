(* ClientBody.v — model of the body part of client/request.go buildHTTP (lines 116-289, 352-357, 94-96)
   and of runtime.NamedReader (client_request.go). Definitions only.

   What is modelled branch by branch: the choice of the body source (nil / r.buf / io.Pipe / the reader
   payload), form fields win over the payload, url.Values.Encode, the multipart document as the LIST OF
   PARTS the writer goroutine emits (byte-level multipart syntax is mime/multipart's, not modelled), the
   Content-Disposition text with escapeQuotes, filepath.Base, the part Content-Type (declared, else
   DetectContentType of what one Read into a 512-byte buffer... see file_sniff_arg), mangleContentType,
   the producer call, and the getBody override as a memo machine.

   Oracles (results of library calls, supplied per case / Section variables in the theorems):
   the producer's encoding of the payload, http.DetectContentType, the multipart boundary.

   Lines 229-231 of request.go (set Content-Type when the method can have a body and none is set) are a
   no-op and not modelled: whenever body is non-nil the header has been set from mediaType before. *)
From Coq Require Import String Ascii.
From V Require Export Bytes.

Definition s2b (s : string) : bytes := map nat_of_ascii (list_ascii_of_string s).

Definition mt_multipart : bytes := Eval compute in s2b "multipart/form-data".
Definition mt_urlencoded : bytes := Eval compute in s2b "application/x-www-form-urlencoded".
Definition txt_boundary : bytes := Eval compute in s2b "; boundary=".
Definition txt_fd_name : bytes := Eval compute in s2b "form-data; name=""".
Definition txt_filename : bytes := Eval compute in s2b """; filename=""".
Definition txt_dot : bytes := [46].
Definition txt_slash : bytes := [47].

(* ---------- escapeQuotes (request.go:94-96; mime/multipart uses the same replacer for WriteField) ---------- *)
Definition esc1 (c : byte) : bytes :=
  if Nat.eqb c 92 then [92; 92] else if Nat.eqb c 34 then [92; 34] else [c].
Definition escape_quotes (s : bytes) : bytes := flat_map esc1 s.

(* ---------- filepath.Base (unix) ---------- *)
Definition is_slash (c : byte) : bool := Nat.eqb c 47.
Definition not_slash (c : byte) : bool := negb (is_slash c).
Definition strip_trailing_slashes (s : bytes) : bytes := rev (drop_while is_slash (rev s)).
Definition last_elem (s : bytes) : bytes := rev (fst (span not_slash (rev s))).
Definition path_base (s : bytes) : bytes :=
  match s with
  | [] => txt_dot
  | _ => match strip_trailing_slashes s with
         | [] => txt_slash
         | t => last_elem t
         end
  end.

(* ---------- url.QueryEscape and url.Values.Encode ---------- *)
Definition cb_alnum (c : byte) : bool :=
  ((97 <=? c) && (c <=? 122)) || ((65 <=? c) && (c <=? 90)) || ((48 <=? c) && (c <=? 57)).
Definition cb_unreserved (c : byte) : bool :=
  cb_alnum c || Nat.eqb c 45 || Nat.eqb c 95 || Nat.eqb c 46 || Nat.eqb c 126.
Definition cb_hexdig (n : nat) : byte := if n <? 10 then 48 + n else 55 + n.
Definition cb_qesc1 (c : byte) : bytes :=
  if cb_unreserved c then [c]
  else if Nat.eqb c 32 then [43]
  else [37; cb_hexdig (c / 16); cb_hexdig (c mod 16)].
Definition cb_query_escape (s : bytes) : bytes := flat_map cb_qesc1 s.

(* byte-lexicographic order, as sort.Strings *)
Fixpoint bytes_leb (a b : bytes) : bool :=
  match a, b with
  | [], _ => true
  | _ :: _, [] => false
  | x :: a', y :: b' => if x <? y then true else if y <? x then false else bytes_leb a' b'
  end.

Definition field := (bytes * list bytes)%type.

Fixpoint insert_field (f : field) (l : list field) : list field :=
  match l with
  | [] => [f]
  | g :: r => if bytes_leb (fst f) (fst g) then f :: l else g :: insert_field f r
  end.
Definition sort_fields (l : list field) : list field := fold_right insert_field [] l.

Definition pair_text (k v : bytes) : bytes := cb_query_escape k ++ [61] ++ cb_query_escape v.
Definition field_pairs (f : field) : list bytes := map (pair_text (fst f)) (snd f).
Fixpoint join_amp (l : list bytes) : bytes :=
  match l with
  | [] => []
  | [x] => x
  | x :: r => x ++ [38] ++ join_amp r
  end.
Definition form_encode (form : list field) : bytes :=
  join_amp (flat_map field_pairs (sort_fields form)).

(* ---------- upload files ---------- *)
(* f_chunks: what successive Reads deliver (a Read never returns more than one chunk);
   f_declared: the result of ContentType() when the value has that method *)
Record file_in := mkfile { f_name : bytes; f_chunks : list bytes; f_declared : option bytes }.
Definition f_content (f : file_in) : bytes := concat (f_chunks f).

(* ---------- runtime.NamedReader (client_request.go) and the name of an upload source ----------
   What the caller hands to SetFileParam: a value of a type with its own Name method (FOwn: an os.File, whose
   name is the path it was opened with, or any caller type), or the result of runtime.NamedReader (name, inner)
   where inner is any reader: a plain one without a name (FPlain), one that has a name of its own, or the
   result of an earlier NamedReader call. NamedReader ALWAYS wraps: the name asked for is the name of the result,
   whatever inner is. f_name of a file is source_name of its source. *)
Inductive fsource := FPlain | FOwn (name : bytes) | FNamed (name : bytes) (inner : fsource).
Definition named_reader (name : bytes) (inner : fsource) : fsource := FNamed name inner.
Definition source_name (s : fsource) : bytes :=
  match s with FPlain => [] | FOwn n => n | FNamed n _ => n end.
Definition source_has_name (s : fsource) : bool := match s with FPlain => false | _ => true end.
(* a wrong NamedReader: an inner that already has a name is returned as it is *)
Definition named_reader_keeping (name : bytes) (inner : fsource) : fsource :=
  if source_has_name inner then inner else FNamed name inner.

(* ---------- a reader payload and its read position ----------
   The caller may have consumed a prefix of the reader (a magic number, a header line) or have positioned it
   with Seek before handing it to SetBodyParam. The body is what is left to read from that position: buildHTTP
   never repositions a payload. whole: everything the reader held; pos: how much was consumed. *)
Definition reader_at (whole : bytes) (pos : nat) : bytes := skipn pos whole.

Definition sniff_window : nat := 512.

(* the bytes handed to http.DetectContentType.
   After the repair of F-C11-1 and F-C11-3 the 512-byte buffer is filled with io.ReadFull and cut to the
   number of bytes read: the first min(512, len) bytes of the content, whatever the chunking. *)
Definition file_sniff_arg (f : file_in) : bytes := firstn sniff_window (f_content f).

(* ---------- the multipart document ---------- *)
Record part := mkpart { p_disp : bytes; p_ctype : option bytes; p_data : bytes }.

Definition disp_field (fn : bytes) : bytes := txt_fd_name ++ escape_quotes fn ++ [34].
Definition disp_file (fn name : bytes) : bytes :=
  txt_fd_name ++ escape_quotes fn ++ txt_filename ++ escape_quotes (path_base name) ++ [34].

Definition field_part (fn v : bytes) : part := mkpart (disp_field fn) None v.
Definition form_parts (f : field) : list part := map (field_part (fst f)) (snd f).

Section WithSniff.
Variable sniff : bytes -> bytes.            (* http.DetectContentType *)

Definition file_type (f : file_in) : bytes :=
  match f_declared f with
  | Some t => t
  | None => sniff (file_sniff_arg f)
  end.
Definition file_part (fn : bytes) (f : file_in) : part :=
  mkpart (disp_file fn (f_name f)) (Some (file_type f)) (f_content f).

Definition filefield := (bytes * list file_in)%type.
Definition file_parts (ff : filefield) : list part := map (file_part (fst ff)) (snd ff).

(* the goroutine: all form fields (in the map's order), then all files (in the map's order) *)
Definition multipart_parts (form : list field) (files : list filefield) : list part :=
  flat_map form_parts form ++ flat_map file_parts files.
End WithSniff.

(* ---------- mangleContentType ---------- *)
Definition mangle_content_type (media boundary : bytes) : bytes :=
  if bytes_eqb (lower media) mt_urlencoded then media ++ txt_boundary ++ boundary
  else mt_multipart ++ txt_boundary ++ boundary.

(* ---------- body selection ---------- *)
(* PBuffer: an io.Reader payload whose dynamic type is *bytes.Buffer, a buffer of the caller. It is the one
   dynamic type of a reader payload that buildHTTP itself tells apart (the type test of the getBody
   override, request.go:274). Every other reader type: bytes.Reader, strings.Reader, os.File, a type with
   WriteTo, and so on, is a PReader or, when it also has Close, a PReadCloser: the harness varies the dynamic
   type, the model says it makes no difference. *)
Inductive payload := PNil | PValue | PReader (content : bytes) | PReadCloser (content : bytes)
                   | PBuffer (content : bytes).

(* the producer registered for the media type, applied to the payload value:
   None = no producer registered, Some None = Produce returned an error, Some (Some b) = it wrote b *)
Definition producer_oracle := option (option bytes).

Record body_in := mkbin {
  bi_media : bytes;                       (* the media type chosen for the request *)
  bi_preset_ct : option bytes;            (* Content-Type the parameter writer put into the header itself *)
  bi_payload : payload;
  bi_form : list field;                   (* r.formFields in the order the map was iterated *)
  bi_files : list filefield;              (* r.fileFields in the order the map was iterated *)
  bi_producer : producer_oracle;
  bi_boundary : bytes                     (* multipart.Writer.Boundary() *)
}.

Inductive doc := DNone | DBytes (b : bytes) | DMultipart (parts : list part).
(* which Go value the body variable holds: nil, r.buf, a stream (pipe reader / reader payload), or a
   *bytes.Buffer that is not r.buf (the caller's own buffer given as reader payload) *)
Inductive bsrc := SNil | SBuf | SStream | SOtherBuf.
Inductive berr := ENoProducer | EProduce.
Inductive outcome :=
| OPanic
| OErr (e : berr)
| OOk (ct : option bytes) (src : bsrc) (d : doc).

Definition is_nil {A} (l : list A) : bool := match l with [] => true | _ => false end.

Definition is_multipart (i : body_in) : bool :=
  negb (is_nil (bi_files i)) || bytes_eqb mt_multipart (bi_media i).

Definition has_form (i : body_in) : bool := negb (is_nil (bi_form i)) || negb (is_nil (bi_files i)).

Section Build.
Variable sniff : bytes -> bytes.

Definition build_body (i : body_in) : outcome :=
  if has_form i then
    (* form fields and files win over any payload *)
    if negb (is_multipart i) then
      OOk (Some (bi_media i)) SBuf (DBytes (form_encode (bi_form i)))
    else
      OOk (Some (mangle_content_type (bi_media i) (bi_boundary i))) SStream
          (DMultipart (multipart_parts sniff (bi_form i) (bi_files i)))
  else
    match bi_payload i with
    | PNil => OOk (bi_preset_ct i) SNil DNone
    | PReadCloser c => OOk (Some (bi_media i)) SStream (DBytes c)
    | PReader c => OOk (Some (bi_media i)) SStream (DBytes c)
    | PBuffer c => OOk (Some (bi_media i)) SOtherBuf (DBytes c)
    | PValue =>
      match bi_producer i with
      | None => OErr ENoProducer          (* after the repair of F-C11-2; before: nil dereference *)
      | Some None => OErr EProduce
      | Some (Some b) => OOk (Some (bi_media i)) SBuf (DBytes b)
      end
    end.
End Build.

(* Runtime.createHttpRequest refuses, before anything is built, a media type without producer unless it
   is one of the two form media types *)
Definition producer_gate (media : bytes) (registered : bool) : bool :=
  registered || bytes_eqb media mt_multipart || bytes_eqb media mt_urlencoded.

(* ---------- the getBody override (request.go:233-289) as a machine ----------
   g_buf is r.buf, g_stream what is still unread of the streaming body, g_body what the variable body
   points to, g_override whether r.getBody was replaced. *)
Record gbst := mkgb { g_copied : bool; g_buf : bytes; g_stream : bytes; g_body : bsrc; g_override : bool;
                      g_closed : nat }.

(* request.go:274, the test that decides whether r.getBody is replaced by the copy-on-demand closure:
     buf, ok := [body asserted to be a bytes.Buffer pointer]; body != nil && (!ok || buf != r.buf)
   i.e. for every body except nil and the request's own buffer. *)
Definition src_nonnil (s : bsrc) : bool := match s with SNil => false | _ => true end.
Definition src_is_buffer (s : bsrc) : bool := match s with SBuf | SOtherBuf => true | _ => false end.
Definition src_is_rbuf (s : bsrc) : bool := match s with SBuf => true | _ => false end.
Definition override_installed (s : bsrc) : bool :=
  src_nonnil s && (negb (src_is_buffer s) || negb (src_is_rbuf s)).

(* the machine is parametric in the installation test, so that the test itself can be shown necessary *)
Definition gb_init_with (inst : bsrc -> bool) (src : bsrc) (content : bytes) : gbst :=
  match src with
  | SNil => mkgb false [] [] SNil (inst SNil) 0
  | SBuf => mkgb false content [] SBuf (inst SBuf) 0
  | SStream => mkgb false [] content SStream (inst SStream) 0
  | SOtherBuf => mkgb false [] content SOtherBuf (inst SOtherBuf) 0
  end.
Definition gb_init : bsrc -> bytes -> gbst := gb_init_with override_installed.

Definition get_body (st : gbst) : bytes * gbst :=
  if negb (g_override st) then (g_buf st, st)
  else if g_copied st then (g_buf st, st)
  else
    let buf' := g_buf st ++ g_stream st in      (* io.Copy(r.buf, body), then body = r.buf *)
    (buf', mkgb true buf' [] SBuf true (S (g_closed st))).

Fixpoint get_body_n (k : nat) (st : gbst) : list bytes * gbst :=
  match k with
  | O => ([], st)
  | S k' => let '(b, st1) := get_body st in
            let '(bs, st2) := get_body_n k' st1 in (b :: bs, st2)
  end.

(* what the transport will read from the body variable *)
Definition sent_bytes (st : gbst) : bytes :=
  match g_body st with
  | SNil => []
  | SBuf => g_buf st
  | SStream => g_stream st
  | SOtherBuf => g_stream st
  end.

(* an auth writer asking k times: the answers it got and the bytes then sent *)
Definition auth_run_with (inst : bsrc -> bool) (k : nat) (src : bsrc) (content : bytes) : list bytes * bytes :=
  let '(answers, st) := get_body_n k (gb_init_with inst src content) in (answers, sent_bytes st).
Definition auth_run : nat -> bsrc -> bytes -> list bytes * bytes := auth_run_with override_installed.

(* a wrong installation test: no closure for any *bytes.Buffer, the caller's included *)
Definition inst_not_any_buffer (s : bsrc) : bool := src_nonnil s && negb (src_is_buffer s).
