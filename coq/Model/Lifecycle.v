(* Lifecycle.v — protocol model for C12 (client calls terminate, release, surface faults). Definitions only.

   (i)   client/keepalive.go drainingReadCloser as a machine over a scripted underlying body;
   (ii)  one call as a transition system: the multipart writer goroutine of client/request.go as a program
         of pipe writes and source reads that advances only when the pipe's reader takes a write or closes
         (io.Pipe is a rendezvous), the builder (buildHTTP) and Submit as a sequential program over a
         scenario that places the faults; resources: the upload files (closed by the goroutine's deferred
         function, all at once), the two pipe ends, the response body;
   (iii) the effective deadline of Submit.

   Runtime facts (time, goroutine scheduling, sockets) are not modelled: see notes/C12.md. *)
From V Require Export Bytes.

(* ====================== (i) drainingReadCloser ====================== *)

(* The underlying body: segments of s+1 bytes each (a Read never crosses a segment), then a final
   condition that every later Read reports. FEofWithData: the last data arrives together with io.EOF. *)
Inductive final := FEof | FEofWithData | FErr.
Record under := mku { u_segs : list nat; u_fin : final; u_finished : bool (* ghost: a Read has reported the end *);
                      u_closes : nat }.

Inductive rres := RNil | REof | RErr.

(* one Read with a buffer of the given size: bytes returned, error, new state *)
Definition uread (u : under) (size : nat) : nat * rres * under :=
  match u_segs u with
  | [] =>
    match u_fin u with
    | FErr => (0, RErr, mku [] FErr true (u_closes u))
    | f => (0, REof, mku [] f true (u_closes u))
    end
  | s :: rest =>
    match size with
    | O => (0, RNil, u)                                   (* an empty buffer: nothing read, no error *)
    | S k =>
      if k <? s then (S k, RNil, mku ((s - S k) :: rest) (u_fin u) false (u_closes u))
      else
        match rest, u_fin u with
        | [], FEofWithData => (S s, REof, mku [] FEofWithData true (u_closes u))
        | _, _ => (S s, RNil, mku rest (u_fin u) false (u_closes u))
        end
    end
  end.

Record drc := mkd { d_u : under; d_seen : bool }.

(* drainingReadCloser.Read — after the repair of F-C12-3 a Read into an empty buffer does not count as
   having seen the end *)
Definition seen_after (size n : nat) (r : rres) : bool :=
  match r with
  | REof => true
  | _ => Nat.eqb n 0 && negb (Nat.eqb size 0)
  end.

Definition d_read (d : drc) (size : nat) : nat * rres * drc :=
  let '(n, r, u') := uread (d_u d) size in
  (n, r, mkd u' (d_seen d || seen_after size n r)).

(* io.Copy(io.Discard, rdr) with a buffer of S b bytes: Reads until one reports an error or EOF.
   fuel bounds the number of Reads; None = out of fuel (excluded by a theorem). *)
Fixpoint drain (fuel : nat) (b : nat) (u : under) : option under :=
  match fuel with
  | O => None
  | S f =>
    let '(_, r, u') := uread u (S b) in
    match r with
    | RNil => drain f b u'
    | _ => Some u'
    end
  end.

Fixpoint seg_bytes (l : list nat) : nat := match l with [] => 0 | s :: r => S s + seg_bytes r end.
Definition drain_fuel (u : under) : nat := seg_bytes (u_segs u) + 2.

Definition uclose (u : under) : under := mku (u_segs u) (u_fin u) (u_finished u) (S (u_closes u)).

(* drainingReadCloser.Close *)
Definition d_close (b : nat) (d : drc) : option drc :=
  if d_seen d then Some (mkd (uclose (d_u d)) true)
  else match drain (drain_fuel (d_u d)) b (d_u d) with
       | Some u' => Some (mkd (uclose u') false)
       | None => None
       end.

Fixpoint d_reads (d : drc) (sizes : list nat) : drc :=
  match sizes with
  | [] => d
  | k :: r => let '(_, _, d') := d_read d k in d_reads d' r
  end.

Definition d_init (segs : list nat) (f : final) : drc := mkd (mku segs f false 0) false.

(* ---- bodies of any size: the machine in units of S m bytes ----
   A body whose segments hold whole multiples of a unit (S m bytes), read into buffers that are multiples of the
   unit, behaves as the same body counted in units: every Read returns S m times as much, with the same
   error. A segment of S s units holds S s * S m = S (scale_seg m s) bytes. Correspondence cases with bodies of
   hundreds of KiB or MiB left unread at Close are given in units (the observed byte counts are compared with
   the unit count times the unit); that this is the same machine is proved (C12_drain_any_unit). *)
Definition scale_seg (m s : nat) : nat := s * S m + m.
Definition scale_under (m : nat) (u : under) : under :=
  mku (map (scale_seg m) (u_segs u)) (u_fin u) (u_finished u) (u_closes u).
Definition scale_drc (m : nat) (d : drc) : drc := mkd (scale_under m (d_u d)) (d_seen d).

(* a wrong Close: the drain gives up after cap Reads (a bounded io.CopyN instead of io.Copy) and closes what is left *)
Fixpoint drain_upto (cap : nat) (b : nat) (u : under) : under :=
  match cap with
  | O => u
  | S f =>
    let '(_, r, u') := uread u (S b) in
    match r with
    | RNil => drain_upto f b u'
    | _ => u'
    end
  end.
Definition d_close_capped (cap b : nat) (d : drc) : drc :=
  if d_seen d then mkd (uclose (d_u d)) true
  else mkd (uclose (drain_upto cap b (d_u d))) false.

(* ====================== (ii) one call ====================== *)

Inductive onfail := Abort | SkipCopy | Ignore.
Inductive wop :=
| OWrite (h : onfail)             (* a write into the pipe: waits for the reader; fails when the reader is closed *)
| OSrc (ok : bool) (h : onfail)   (* a Read from an upload source; not ok: it fails, logClose, then h *)
| ODefer                          (* the deferred function closing every file is registered *)
| OEndCopy.                       (* end of one io.Copy (where SkipCopy resumes) *)

Record wst := mkw {
  w_ops : list wop;               (* what the goroutine still has to do; at rest it waits at an OWrite *)
  w_done : bool;                  (* the goroutine has returned *)
  w_defer : bool;                 (* the file-closing deferred function is registered *)
  w_pipe_err : bool;              (* the write end was closed with an error (logClose) *)
  w_file_closes : nat;            (* how often the deferred function closing every file has run *)
  w_delivered : nat               (* writes the reader has taken *)
}.

Definition finished (defer_ pipe_err : bool) (closes delivered : nat) : wst :=
  mkw [] true defer_ pipe_err (closes + (if defer_ then 1 else 0)) delivered.

(* the goroutine runs until it has to wait for the reader, or returns *)
Fixpoint run_writer (reader_open : bool) (ops : list wop) (skipping defer_ pipe_err : bool) (closes delivered : nat) : wst :=
  match ops with
  | [] => finished defer_ pipe_err closes delivered
  | op :: r =>
    if skipping then
      match op with
      | OEndCopy => run_writer reader_open r false defer_ pipe_err closes delivered
      | _ => run_writer reader_open r true defer_ pipe_err closes delivered
      end
    else
      match op with
      | ODefer => run_writer reader_open r false true pipe_err closes delivered
      | OEndCopy => run_writer reader_open r false defer_ pipe_err closes delivered
      | OSrc ok h =>
        if ok then run_writer reader_open r false defer_ pipe_err closes delivered
        else match h with
             | Abort => finished defer_ true closes delivered
             | SkipCopy => run_writer reader_open r true defer_ true closes delivered
             | Ignore => run_writer reader_open r false defer_ true closes delivered
             end
      | OWrite h =>
        if pipe_err || negb reader_open then
          match h with
          | Abort => finished defer_ true closes delivered
          | SkipCopy => run_writer reader_open r true defer_ true closes delivered
          | Ignore => run_writer reader_open r false defer_ pipe_err closes delivered
          end
        else mkw ops false defer_ pipe_err closes delivered      (* waits for the reader *)
      end
  end.

Definition resume (reader_open : bool) (st : wst) : wst :=
  if w_done st then st
  else run_writer reader_open (w_ops st) false (w_defer st) (w_pipe_err st) (w_file_closes st) (w_delivered st).

Definition start (prog : list wop) : wst := run_writer true prog false false false 0 0.

Inductive pres := PData | PEof | PErr.

(* the reader takes one write (the pipe's read end is open) *)
Definition pull (st : wst) : pres * wst :=
  if w_done st then ((if w_pipe_err st then PErr else PEof), st)
  else match w_ops st with
       | OWrite _ :: r =>
         (PData, run_writer true r false (w_defer st) (w_pipe_err st) (w_file_closes st) (S (w_delivered st)))
       | _ => (PEof, st)        (* not reachable: at rest the goroutine waits at a write *)
       end.

(* the reader reads to the end (io.Copy from the pipe): fuel = number of operations left + 1 *)
Fixpoint pull_all (fuel : nat) (st : wst) : pres * wst :=
  match fuel with
  | O => (PData, st)
  | S f => let '(r, st') := pull st in
           match r with PData => pull_all f st' | _ => (r, st') end
  end.
Definition read_to_end (st : wst) : pres * wst := pull_all (S (length (w_ops st))) st.

(* the reader takes at most k writes *)
Fixpoint pull_n (k : nat) (st : wst) : pres * wst :=
  match k with
  | O => (PData, st)
  | S k' => let '(r, st') := pull st in
            match r with PData => pull_n k' st' | _ => (r, st') end
  end.

(* the read end is closed (Close or CloseWithError): a waiting write fails, the goroutine goes on *)
Definition close_reader (st : wst) : wst := resume false st.

(* ---- the goroutine's program, from the request's form fields and files ---- *)
Record fileprog := mkfp { fp_declared : bool; fp_sniff_ok : bool; fp_chunks : list bool (* each source Read: ok? *) }.

Definition copy_ops (chunks : list bool) : list wop :=
  flat_map (fun ok => [OSrc ok SkipCopy; OWrite SkipCopy]) chunks.
Definition file_ops (f : fileprog) : list wop :=
  (if fp_declared f then [] else [OSrc (fp_sniff_ok f) Abort]) ++ [OWrite Abort] ++ copy_ops (fp_chunks f) ++ [OEndCopy].

(* some Read of the file's source fails (success flags) *)
Definition fp_fails (f : fileprog) : bool :=
  (negb (fp_declared f) && negb (fp_sniff_ok f)) || existsb negb (fp_chunks f).

(* ---- what a source Read reports: the error VALUE matters ----
   An upload source is an io.Reader of the caller: a Read returns nil, or io.EOF (the end of the file, early or
   not: nothing announces a length), or io.ErrUnexpectedEOF (a truncated stream: what io.ReadFull-based and
   length-prefixed sources, gzip readers and response bodies report), or any other error value (a custom error,
   io.ErrClosedPipe, context.Canceled, an error that WRAPS io.EOF: only the bare sentinel marks the end).
   The sources considered are sticky: what the first Read that does not return nil reports, every later Read
   reports again. The goroutine has two phases:
   - filling the 512-byte sniffing window (readHead, since the repair of F-C12-6): io.EOF alone is the end of the
     source (a file shorter than the window) and the copy follows (it reads the source again and meets io.EOF); every
     other value, io.ErrUnexpectedEOF included, is the source's failure: logClose, return.
     Before the repair the window was filled with io.ReadFull, in whose vocabulary io.ErrUnexpectedEOF means: fewer
     bytes than asked for. It was taken for the end as well and the copy followed: a sticky io.ErrUnexpectedEOF failed
     the copy, one reported only once was lost (ends_sniff, fixes.fx_sniff_eof_only);
   - io.Copy: io.EOF alone is the end; every other value, io.ErrUnexpectedEOF included, is a failure.
   sf_with_data: the first Read of the copy that does not return nil hands out some bytes together with its error
   (io.Copy writes them first). sf_once: the source is NOT sticky: it reports its value once and io.EOF from then on
   (what a source built on io.ReadFull does when its own input ends early). That made a difference in one place only,
   before the repair of F-C12-6: an io.ErrUnexpectedEOF reported once inside the sniffing window was taken for a short
   file and the copy then met io.EOF (sniff_swallowed). lower compiles a source into the success flags of fileprog. *)
Inductive rdres := RdOk | RdEnd | RdTrunc | RdErr.
Record srcfile := mksf { sf_declared : bool; sf_sniff : rdres; sf_chunks : list rdres; sf_with_data : bool; sf_once : bool }.

(* the copy: Reads until one reports something else than nil; ends_copy says which values are the end *)
Definition is_eof (r : rdres) : bool := match r with RdEnd => true | _ => false end.
Fixpoint lower_chunks_with (ends_copy : rdres -> bool) (wd : bool) (l : list rdres) : list bool :=
  match l with
  | [] => []
  | r :: rest =>
    match r with
    | RdOk => true :: lower_chunks_with ends_copy wd rest
    | _ => if ends_copy r then (if wd then [true] else [])
           else (if wd then [true; false] else [false])
    end
  end.
(* ends_sniff: the values taken for the end of the source while the sniffing window is filled *)
Definition lower_with (ends_sniff ends_copy : rdres -> bool) (f : srcfile) : fileprog :=
  if sf_declared f then mkfp true true (lower_chunks_with ends_copy (sf_with_data f) (sf_chunks f))
  else match sf_sniff f with
       | RdOk => mkfp false true (lower_chunks_with ends_copy (sf_with_data f) (sf_chunks f))
       | r => if ends_sniff r
              then mkfp false true (if sf_once f then []                      (* the copy meets io.EOF *)
                                    else lower_chunks_with ends_copy false [r]) (* sticky: the copy meets it again *)
              else mkfp false false []                                          (* logClose, return *)
       end.
Definition is_eof_or_trunc (r : rdres) : bool := match r with RdEnd | RdTrunc => true | _ => false end.

(* the property's own notion, independent of lower: the source fails when the first Read that does not return nil
   reports something else than the end of the file *)
Definition src_reads (f : srcfile) : list rdres := (if sf_declared f then [] else [sf_sniff f]) ++ sf_chunks f.
Fixpoint first_stop (l : list rdres) : rdres :=
  match l with
  | [] => RdOk
  | RdOk :: r => first_stop r
  | x :: _ => x
  end.
Definition is_failure (r : rdres) : bool := match r with RdTrunc | RdErr => true | _ => false end.
Definition src_fails (f : srcfile) : bool := is_failure (first_stop (src_reads f)).
(* the one failure the goroutine could not tell from a short file before the repair of F-C12-6: io.ErrUnexpectedEOF,
   reported once, inside the sniffing window *)
Definition sniff_swallowed (f : srcfile) : bool :=
  negb (sf_declared f) && sf_once f && match sf_sniff f with RdTrunc => true | _ => false end.

(* the five repairs, and one ordering the code relies on, switchable so that each can be shown necessary *)
Record fixes := mkfx {
  fx_defer_first : bool;          (* F-C12-2: the file-closing defer is registered before the form-field loop *)
  fx_close_on_late_error : bool;  (* F-C12-1: every error return after the goroutine started closes the pipe reader *)
  fx_close_on_param_error : bool; (* F-C12-4: a failing parameter writer does not leave handed-over files open *)
  fx_resp_close_first : bool;     (* Submit registers the deferred Close of the response body as soon as the response
                                     is there, before the Debug dump of the response (which can fail and return) *)
  fx_resp_close_held : bool;      (* F-C12-5: the deferred function closes the body the response holds when Submit
                                     returns (the copy the Debug dump has put in its place, when it went through),
                                     not the body it held when the defer statement was executed *)
  fx_sniff_eof_only : bool        (* F-C12-6: while the sniffing window is filled only io.EOF is the end of the source;
                                     io.ErrUnexpectedEOF is the source's failure (before: io.ReadFull, both the end) *)
}.
Definition all_fixed : fixes := mkfx true true true true true true.

(* a source compiled into the success flags of the goroutine's program, under the repairs in force *)
Definition ends_sniff (fx : fixes) : rdres -> bool := if fx_sniff_eof_only fx then is_eof else is_eof_or_trunc.
Definition lower_fx (fx : fixes) : srcfile -> fileprog := lower_with (ends_sniff fx) is_eof.
Definition lower : srcfile -> fileprog := lower_with is_eof is_eof.        (* = lower_fx all_fixed *)
(* the code before the repair of F-C12-6 *)
Definition sniff_unrepaired : fixes := mkfx true true true true true false.
(* a wrong reading: the old test of the sniffing io.ReadFull applied to the whole of a file part, the copy included (a
   truncated stream taken for its end) *)
Definition lower_trunc_benign : srcfile -> fileprog := lower_with is_eof_or_trunc is_eof_or_trunc.

Definition compile (fx : fixes) (nvalues : nat) (files : list fileprog) : list wop :=
  (if fx_defer_first fx then [ODefer] else []) ++
  repeat (OWrite Abort) nvalues ++
  (if fx_defer_first fx then [] else [ODefer]) ++
  flat_map file_ops files ++
  [OWrite Ignore].                (* mp.Close(): the closing boundary; its error is ignored; then pw.Close() *)

(* ---- the scenario: where the faults are ---- *)
Inductive auth_b := ANone | AOk (asks_body : bool) | AFail (asks_body : bool).
(* the response: its Content-Type (one with a consumer / one nobody consumes / application/octet-stream, which
   has a consumer but whose body a Debug dump leaves out), whether the response reader itself refuses, and
   whether the body fails while it is read (connection reset, truncated before the announced length, stalled
   until the deadline): within the part the response reader reads, or beyond it *)
Inductive ctype_b := CtConsumed | CtUnknown | CtBinary.
Inductive rfault := RFNone | RFEarly | RFLate.
Record resp_b := mkrb { rb_ctype : ctype_b; rb_reader_fails : bool; rb_fault : rfault }.
Definition printable (c : ctype_b) : bool := match c with CtBinary => false | _ => true end.
Definition faulty (f : rfault) : bool := match f with RFNone => false | _ => true end.
Definition RespRead : resp_b := mkrb CtConsumed false RFNone.
Definition RespNoConsumer : resp_b := mkrb CtUnknown false RFNone.
Definition RespReaderFails : resp_b := mkrb CtConsumed true RFNone.
Inductive transport_b :=
| TFail (reads : nat)                               (* reads that many writes of the body, then fails *)
| TRespond (reads : option nat) (r : resp_b).       (* reads that many (None: to the end), then a response arrives *)

Record scenario := mksc {
  sc_param_err : bool;            (* the parameter writer fails (after handing over the files) *)
  sc_auth : auth_b;
  sc_late_err : bool;             (* url.Parse / NewRequest / SetQueryParam fails *)
  sc_transport : transport_b;
  sc_debug : bool                 (* Runtime.Debug: Submit dumps the outgoing request and the response *)
}.

Inductive result := ROk | RFail.

Record cst := mkc {
  c_started : bool;               (* the goroutine was started *)
  c_w : wst;
  c_reader_open : bool;           (* the pipe's read end *)
  c_builder_closes : nat;         (* files closed by the builder itself *)
  c_saw_upload_error : bool;      (* a reader of the pipe was given the upload error *)
  c_resp_opened : nat;
  c_resp_closes : nat;
  c_result : result
}.

Definition idle : wst := mkw [] false false false 0 0.

Definition fail_late (fx : fixes) (started : bool) (w : wst) (ro saw : bool) : cst :=
  if fx_close_on_late_error fx
  then mkc started (if ro then close_reader w else w) false 0 saw 0 0 RFail
  else mkc started w ro 0 saw 0 0 RFail.

(* the transport, given the pipe as request body: it reads, then always closes the body *)
Definition transport_reads (reads : option nat) (w : wst) : pres * wst :=
  match reads with
  | None => read_to_end w
  | Some k => pull_n k w
  end.

(* Submit once a response was obtained (runtime.go: the deferred Close of the response body, the Debug dump,
   consumer lookup, the response reader). c_resp_closes counts the Close calls on the body the transport handed out.
   With Debug on and a printable Content-Type httputil.DumpResponse reads the whole body:
   - the body fails: the dump fails leaving the body in place, Submit returns that error; only a Close deferred
     BEFORE the dump runs, and it closes the transport's body (whichever body it is bound to: it is still the one
     the response holds);
   - else the dump closes the body it has copied and leaves a copy in its place. A function deferred before the
     dump that closes the body the response holds when Submit returns (the repair of F-C12-5) closes that copy:
     the transport's body was closed once, by the dump. A Close bound to the original body when the defer statement
     was executed (the code before the repair) closes the transport's body a second time. A Close deferred after
     the dump closes the copy, whichever way it is written. *)
Definition resp_closes_of (fx : fixes) (debug : bool) (r : resp_b) : nat :=
  let dumped := debug && printable (rb_ctype r) in
  if dumped && faulty (rb_fault r) then (if fx_resp_close_first fx then 1 else 0)
  else if dumped && fx_resp_close_first fx && negb (fx_resp_close_held fx) then 2 else 1.
Definition resp_result (debug : bool) (r : resp_b) : result :=
  let dumped := debug && printable (rb_ctype r) in
  if dumped && faulty (rb_fault r) then RFail
  else match rb_ctype r with
       | CtUnknown => RFail                                 (* no consumer for the type *)
       | _ => if (negb dumped && match rb_fault r with RFEarly => true | _ => false end) || rb_reader_fails r
              then RFail else ROk                           (* the reader meets the fault, or refuses *)
       end.
Definition respond (fx : fixes) (debug : bool) (started : bool) (w : wst) (saw : bool) (r : resp_b) : cst :=
  mkc started w false 0 saw 1 (resp_closes_of fx debug r) (resp_result debug r).

(* Submit after the request was built: w is the goroutine, ro says whether the body is still the pipe.
   Debug: httputil.DumpRequestOut reads the request body to its end into memory and closes it; when the body
   fails it returns the error and Submit returns it at once (nobody closes the pipe's read end then, but the
   goroutine has returned: the write end was closed with the error). *)
Definition submit (fx : fixes) (sc : scenario) (w : wst) (ro : bool) : cst :=
  let dump := sc_debug sc && ro in
  let '(r0, wd) := if dump then read_to_end w else (PData, w) in
  match r0 with
  | PErr => mkc true wd ro 0 true 0 0 RFail
  | _ =>
    let wd' := if dump then close_reader wd else wd in
    if negb ro || dump then
      (* the body is a buffer now; the pipe is finished *)
      match sc_transport sc with
      | TFail _ => mkc true wd' false 0 false 0 0 RFail
      | TRespond _ r => respond fx (sc_debug sc) true wd' false r
      end
    else
      match sc_transport sc with
      | TFail k => let '(r2, w2) := pull_n k wd' in
                   mkc true (close_reader w2) false 0 (match r2 with PErr => true | _ => false end) 0 0 RFail
      | TRespond reads r =>
        let '(r2, w2) := transport_reads reads wd' in
        match r2 with
        | PErr => mkc true (close_reader w2) false 0 true 0 0 RFail   (* the body failed: RoundTrip fails *)
        | _ => respond fx (sc_debug sc) true (close_reader w2) false r
        end
      end
  end.

Definition call (fx : fixes) (prog : list wop) (sc : scenario) : cst :=
  if sc_param_err sc then
    mkc false idle false (if fx_close_on_param_error fx then 1 else 0) false 0 0 RFail
  else
    let w0 := start prog in
    (* the auth writer: GetBody copies the pipe to its end into the buffer and closes the reader *)
    let asks := match sc_auth sc with AOk a | AFail a => a | ANone => false end in
    let '(r1, w1) := if asks then read_to_end w0 else (PData, w0) in
    let copy_err := match r1 with PErr => true | _ => false end in
    let w1' := if asks && negb copy_err then close_reader w1 else w1 in
    let ro1 := negb (asks && negb copy_err) in
    if copy_err then fail_late fx true w1' ro1 true
    else match sc_auth sc with
    | AFail _ => fail_late fx true w1' ro1 false
    | _ =>
      if sc_late_err sc then fail_late fx true w1' ro1 false
      else submit fx sc w1' ro1
    end.

(* what leak-freedom demands of a state in which the call has returned: the goroutine has returned and the
   files were closed exactly once (by its deferred function, or by the builder when it was never started); a
   response body that was obtained has been closed. (The pipe's read end holds nothing once the goroutine
   has returned; it is closed on every path but one: see reader_closed.) *)
Definition upload_released (c : cst) : bool :=
  if c_started c
  then w_done (c_w c) && Nat.eqb (w_file_closes (c_w c) + c_builder_closes c) 1
  else Nat.eqb (c_builder_closes c) 1.
Definition resp_closed (c : cst) : bool :=
  if Nat.eqb (c_resp_opened c) 0 then Nat.eqb (c_resp_closes c) 0 else 1 <=? c_resp_closes c.
Definition resp_closed_once (c : cst) : bool := Nat.eqb (c_resp_closes c) (c_resp_opened c).
Definition released (c : cst) : bool := upload_released c && resp_closed c.
(* the stronger reading asked of the code by the correspondence run: exactly one Close per response body *)
Definition released_once (c : cst) : bool := upload_released c && resp_closed_once c.
(* the one path on which the code before the repair of F-C12-5 closed a response body twice *)
Definition dump_closes_twice (sc : scenario) : bool :=
  sc_debug sc && match sc_transport sc with
                 | TRespond _ r => printable (rb_ctype r) && negb (faulty (rb_fault r))
                 | TFail _ => false
                 end.

(* ====================== (ii') what Submit leaves behind for the next call ====================== *)
(* When Submit returns after a response was obtained, two deferred calls run, in the reverse order of their
   registration: the response body's Close (with connection reuse enabled the draining Close of (i)) and cancel() of
   the per-call context. A drain on a cancelled exchange fails at once and leaves the remainder on the wire.
   net/http keeps a connection for the next request exactly when the response body was read to its end before it was
   closed. So the order [EClose; ECancel] matters, and only for what the NEXT call on the same Runtime finds. *)
Inductive epi := EClose | ECancel.
Record xst := mkx { x_cancelled : bool; x_ended : bool (* the end of the body was seen *); x_closes : nat }.
Definition epi_step (keepalive : bool) (s : xst) (e : epi) : xst :=
  match e with
  | ECancel => mkx true (x_ended s) (x_closes s)
  | EClose => if keepalive && negb (x_ended s) && negb (x_cancelled s)
              then mkx (x_cancelled s) true (S (x_closes s))      (* drained to its end (C12_drain), then closed *)
              else mkx (x_cancelled s) (x_ended s) (S (x_closes s))
  end.
Definition run_epilogue (keepalive : bool) (order : list epi) (reader_saw_end : bool) : xst :=
  fold_left (epi_step keepalive) order (mkx false reader_saw_end 0).
(* runtime.go: cancel is deferred first, the Close of the body later, so the Close runs first *)
Definition submit_epilogue : list epi := [EClose; ECancel].
Definition wrong_epilogue : list epi := [ECancel; EClose].
Definition after_exchange (keepalive reader_saw_end : bool) : xst := run_epilogue keepalive submit_epilogue reader_saw_end.

(* sequential calls on one Runtime: have_idle = the pool holds a connection; kept = per call, whether its
   connection goes back to the pool; the number of connections dialled *)
Fixpoint conns_used (have_idle : bool) (kept : list bool) : nat :=
  match kept with
  | [] => 0
  | k :: r => (if have_idle then 0 else 1) + conns_used k r
  end.
Definition conns_of_history (order : list epi) (keepalive : bool) (readers_saw_end : list bool) : nat :=
  conns_used false (map (fun e => x_ended (run_epilogue keepalive order e)) readers_saw_end).

(* ====================== (iii) the effective deadline ====================== *)
(* parent: the deadline of the caller's context, if any; timeout 0 = none (times in any unit, as Z).
   Every other value counts, a negative one too: context.WithTimeout(parent, d) with d <= 0 yields a context
   that has already expired - the request fails at once instead of waiting without bound. *)
Definition effective_deadline (parent : option Z) (now timeout : Z) : option Z :=
  if (timeout =? 0)%Z then parent
  else match parent with
       | None => Some (now + timeout)%Z
       | Some p => Some (Z.min p (now + timeout))
       end.

(* a wrong reading: every timeout <= 0 taken for no timeout *)
Definition effective_deadline_nonpositive_as_none (parent : option Z) (now timeout : Z) : option Z :=
  if (timeout <=? 0)%Z then parent
  else match parent with
       | None => Some (now + timeout)%Z
       | Some p => Some (Z.min p (now + timeout))
       end.

(* The http.Client in use (the runtime's own, one given to NewWithClient, ClientOperation.Client) may have a
   Timeout of its own: client > 0 arms a further deadline now + client for the whole exchange (net/http: a Timeout
   of zero or less means none). It comes ON TOP of the request timeout and the caller's deadline: it can end the
   call earlier, never later. *)
Definition effective_deadline_with_client (parent : option Z) (now timeout client : Z) : option Z :=
  let d := effective_deadline parent now timeout in
  if (client <=? 0)%Z then d
  else match d with
       | None => Some (now + client)%Z
       | Some x => Some (Z.min x (now + client))
       end.

(* a wrong reading: a client with its own Timeout is left to that timer alone, the request timeout is not applied *)
Definition effective_deadline_client_instead (parent : option Z) (now timeout client : Z) : option Z :=
  if (client <=? 0)%Z then effective_deadline parent now timeout
  else match parent with
       | None => Some (now + client)%Z
       | Some p => Some (Z.min p (now + client))
       end.

(* the latest moment a call may return: the effective deadline, but not before the call began *)
Definition must_return_by (parent : option Z) (now timeout : Z) : option Z :=
  match effective_deadline parent now timeout with
  | Some d => Some (Z.max now d)
  | None => None
  end.
