(* Lifecycle.v — protocol model for C12 (client calls terminate, release, surface faults). Definitions only.

   (i)   client/keepalive.go drainingReadCloser as a machine over a scripted underlying body;
   (ii)  one call as a transition system: the multipart writer goroutine of client/request.go as a program
         of pipe writes and source reads that advances only when the pipe's reader takes a write or closes
         (io.Pipe is a rendezvous), the builder (buildHTTP) and Submit as a sequential program over a
         scenario that places the faults; resources: the upload files (closed by the goroutine's deferred
         function, all at once), the two pipe ends, the response body;
   (iii) the effective deadline of Submit.

   Runtime facts (time, goroutine scheduling, sockets) are not modelled: see notes/C12.md. *)
From V Require Export Bytes.

(* ====================== (i) drainingReadCloser ====================== *)

(* The underlying body: segments of s+1 bytes each (a Read never crosses a segment), then a final
   condition that every later Read reports. FEofWithData: the last data arrives together with io.EOF. *)
Inductive final := FEof | FEofWithData | FErr.
Record under := mku { u_segs : list nat; u_fin : final; u_finished : bool (* ghost: a Read has reported the end *);
                      u_closes : nat }.

Inductive rres := RNil | REof | RErr.

(* one Read with a buffer of the given size: bytes returned, error, new state *)
Definition uread (u : under) (size : nat) : nat * rres * under :=
  match u_segs u with
  | [] =>
    match u_fin u with
    | FErr => (0, RErr, mku [] FErr true (u_closes u))
    | f => (0, REof, mku [] f true (u_closes u))
    end
  | s :: rest =>
    match size with
    | O => (0, RNil, u)                                   (* an empty buffer: nothing read, no error *)
    | S k =>
      if k <? s then (S k, RNil, mku ((s - S k) :: rest) (u_fin u) false (u_closes u))
      else
        match rest, u_fin u with
        | [], FEofWithData => (S s, REof, mku [] FEofWithData true (u_closes u))
        | _, _ => (S s, RNil, mku rest (u_fin u) false (u_closes u))
        end
    end
  end.

Record drc := mkd { d_u : under; d_seen : bool }.

(* drainingReadCloser.Read — after the repair of F-C12-3 a Read into an empty buffer does not count as
   having seen the end *)
Definition seen_after (size n : nat) (r : rres) : bool :=
  match r with
  | REof => true
  | _ => Nat.eqb n 0 && negb (Nat.eqb size 0)
  end.

Definition d_read (d : drc) (size : nat) : nat * rres * drc :=
  let '(n, r, u') := uread (d_u d) size in
  (n, r, mkd u' (d_seen d || seen_after size n r)).

(* io.Copy(io.Discard, rdr) with a buffer of S b bytes: Reads until one reports an error or EOF.
   fuel bounds the number of Reads; None = out of fuel (excluded by a theorem). *)
Fixpoint drain (fuel : nat) (b : nat) (u : under) : option under :=
  match fuel with
  | O => None
  | S f =>
    let '(_, r, u') := uread u (S b) in
    match r with
    | RNil => drain f b u'
    | _ => Some u'
    end
  end.

Fixpoint seg_bytes (l : list nat) : nat := match l with [] => 0 | s :: r => S s + seg_bytes r end.
Definition drain_fuel (u : under) : nat := seg_bytes (u_segs u) + 2.

Definition uclose (u : under) : under := mku (u_segs u) (u_fin u) (u_finished u) (S (u_closes u)).

(* drainingReadCloser.Close *)
Definition d_close (b : nat) (d : drc) : option drc :=
  if d_seen d then Some (mkd (uclose (d_u d)) true)
  else match drain (drain_fuel (d_u d)) b (d_u d) with
       | Some u' => Some (mkd (uclose u') false)
       | None => None
       end.

Fixpoint d_reads (d : drc) (sizes : list nat) : drc :=
  match sizes with
  | [] => d
  | k :: r => let '(_, _, d') := d_read d k in d_reads d' r
  end.

Definition d_init (segs : list nat) (f : final) : drc := mkd (mku segs f false 0) false.

(* ====================== (ii) one call ====================== *)

Inductive onfail := Abort | SkipCopy | Ignore.
Inductive wop :=
| OWrite (h : onfail)             (* a write into the pipe: waits for the reader; fails when the reader is closed *)
| OSrc (ok : bool) (h : onfail)   (* a Read from an upload source; not ok: it fails, logClose, then h *)
| ODefer                          (* the deferred function closing every file is registered *)
| OEndCopy.                       (* end of one io.Copy (where SkipCopy resumes) *)

Record wst := mkw {
  w_ops : list wop;               (* what the goroutine still has to do; at rest it waits at an OWrite *)
  w_done : bool;                  (* the goroutine has returned *)
  w_defer : bool;                 (* the file-closing deferred function is registered *)
  w_pipe_err : bool;              (* the write end was closed with an error (logClose) *)
  w_file_closes : nat;            (* how often the deferred function closing every file has run *)
  w_delivered : nat               (* writes the reader has taken *)
}.

Definition finished (defer_ pipe_err : bool) (closes delivered : nat) : wst :=
  mkw [] true defer_ pipe_err (closes + (if defer_ then 1 else 0)) delivered.

(* the goroutine runs until it has to wait for the reader, or returns *)
Fixpoint run_writer (reader_open : bool) (ops : list wop) (skipping defer_ pipe_err : bool) (closes delivered : nat) : wst :=
  match ops with
  | [] => finished defer_ pipe_err closes delivered
  | op :: r =>
    if skipping then
      match op with
      | OEndCopy => run_writer reader_open r false defer_ pipe_err closes delivered
      | _ => run_writer reader_open r true defer_ pipe_err closes delivered
      end
    else
      match op with
      | ODefer => run_writer reader_open r false true pipe_err closes delivered
      | OEndCopy => run_writer reader_open r false defer_ pipe_err closes delivered
      | OSrc ok h =>
        if ok then run_writer reader_open r false defer_ pipe_err closes delivered
        else match h with
             | Abort => finished defer_ true closes delivered
             | SkipCopy => run_writer reader_open r true defer_ true closes delivered
             | Ignore => run_writer reader_open r false defer_ true closes delivered
             end
      | OWrite h =>
        if pipe_err || negb reader_open then
          match h with
          | Abort => finished defer_ true closes delivered
          | SkipCopy => run_writer reader_open r true defer_ true closes delivered
          | Ignore => run_writer reader_open r false defer_ pipe_err closes delivered
          end
        else mkw ops false defer_ pipe_err closes delivered      (* waits for the reader *)
      end
  end.

Definition resume (reader_open : bool) (st : wst) : wst :=
  if w_done st then st
  else run_writer reader_open (w_ops st) false (w_defer st) (w_pipe_err st) (w_file_closes st) (w_delivered st).

Definition start (prog : list wop) : wst := run_writer true prog false false false 0 0.

Inductive pres := PData | PEof | PErr.

(* the reader takes one write (the pipe's read end is open) *)
Definition pull (st : wst) : pres * wst :=
  if w_done st then ((if w_pipe_err st then PErr else PEof), st)
  else match w_ops st with
       | OWrite _ :: r =>
         (PData, run_writer true r false (w_defer st) (w_pipe_err st) (w_file_closes st) (S (w_delivered st)))
       | _ => (PEof, st)        (* not reachable: at rest the goroutine waits at a write *)
       end.

(* the reader reads to the end (io.Copy from the pipe): fuel = number of operations left + 1 *)
Fixpoint pull_all (fuel : nat) (st : wst) : pres * wst :=
  match fuel with
  | O => (PData, st)
  | S f => let '(r, st') := pull st in
           match r with PData => pull_all f st' | _ => (r, st') end
  end.
Definition read_to_end (st : wst) : pres * wst := pull_all (S (length (w_ops st))) st.

(* the reader takes at most k writes *)
Fixpoint pull_n (k : nat) (st : wst) : pres * wst :=
  match k with
  | O => (PData, st)
  | S k' => let '(r, st') := pull st in
            match r with PData => pull_n k' st' | _ => (r, st') end
  end.

(* the read end is closed (Close or CloseWithError): a waiting write fails, the goroutine goes on *)
Definition close_reader (st : wst) : wst := resume false st.

(* ---- the goroutine's program, from the request's form fields and files ---- *)
Record fileprog := mkfp { fp_declared : bool; fp_sniff_ok : bool; fp_chunks : list bool (* each source Read: ok? *) }.

Definition copy_ops (chunks : list bool) : list wop :=
  flat_map (fun ok => [OSrc ok SkipCopy; OWrite SkipCopy]) chunks.
Definition file_ops (f : fileprog) : list wop :=
  (if fp_declared f then [] else [OSrc (fp_sniff_ok f) Abort]) ++ [OWrite Abort] ++ copy_ops (fp_chunks f) ++ [OEndCopy].

(* the three repairs, switchable so that each can be shown necessary *)
Record fixes := mkfx {
  fx_defer_first : bool;          (* F-C12-2: the file-closing defer is registered before the form-field loop *)
  fx_close_on_late_error : bool;  (* F-C12-1: every error return after the goroutine started closes the pipe reader *)
  fx_close_on_param_error : bool  (* F-C12-4: a failing parameter writer does not leave handed-over files open *)
}.
Definition all_fixed : fixes := mkfx true true true.

Definition compile (fx : fixes) (nvalues : nat) (files : list fileprog) : list wop :=
  (if fx_defer_first fx then [ODefer] else []) ++
  repeat (OWrite Abort) nvalues ++
  (if fx_defer_first fx then [] else [ODefer]) ++
  flat_map file_ops files ++
  [OWrite Ignore].                (* mp.Close(): the closing boundary; its error is ignored; then pw.Close() *)

(* ---- the scenario: where the faults are ---- *)
Inductive auth_b := ANone | AOk (asks_body : bool) | AFail (asks_body : bool).
Inductive resp_b := RespRead | RespNoConsumer | RespReaderFails.
Inductive transport_b :=
| TFail (reads : nat)                               (* reads that many writes of the body, then fails *)
| TRespond (reads : option nat) (r : resp_b).       (* reads that many (None: to the end), then a response arrives *)

Record scenario := mksc {
  sc_param_err : bool;            (* the parameter writer fails (after handing over the files) *)
  sc_auth : auth_b;
  sc_late_err : bool;             (* url.Parse / NewRequest / SetQueryParam fails *)
  sc_transport : transport_b
}.

Inductive result := ROk | RFail.

Record cst := mkc {
  c_started : bool;               (* the goroutine was started *)
  c_w : wst;
  c_reader_open : bool;           (* the pipe's read end *)
  c_builder_closes : nat;         (* files closed by the builder itself *)
  c_saw_upload_error : bool;      (* a reader of the pipe was given the upload error *)
  c_resp_opened : nat;
  c_resp_closes : nat;
  c_result : result
}.

Definition idle : wst := mkw [] false false false 0 0.

Definition fail_late (fx : fixes) (started : bool) (w : wst) (ro saw : bool) : cst :=
  if fx_close_on_late_error fx
  then mkc started (if ro then close_reader w else w) false 0 saw 0 0 RFail
  else mkc started w ro 0 saw 0 0 RFail.

(* the transport, given the pipe as request body: it reads, then always closes the body *)
Definition transport_reads (reads : option nat) (w : wst) : pres * wst :=
  match reads with
  | None => read_to_end w
  | Some k => pull_n k w
  end.

Definition respond (started : bool) (w : wst) (saw : bool) (r : resp_b) : cst :=
  (* defer res.Body.Close() covers every path after a response was obtained *)
  mkc started w false 0 saw 1 1 (match r with RespRead => ROk | _ => RFail end).

Definition call (fx : fixes) (prog : list wop) (sc : scenario) : cst :=
  if sc_param_err sc then
    mkc false idle false (if fx_close_on_param_error fx then 1 else 0) false 0 0 RFail
  else
    let w0 := start prog in
    (* the auth writer: GetBody copies the pipe to its end into the buffer and closes the reader *)
    let asks := match sc_auth sc with AOk a | AFail a => a | ANone => false end in
    let '(r1, w1) := if asks then read_to_end w0 else (PData, w0) in
    let copy_err := match r1 with PErr => true | _ => false end in
    let w1' := if asks && negb copy_err then close_reader w1 else w1 in
    let ro1 := negb (asks && negb copy_err) in
    if copy_err then fail_late fx true w1' ro1 true
    else match sc_auth sc with
    | AFail _ => fail_late fx true w1' ro1 false
    | _ =>
      if sc_late_err sc then fail_late fx true w1' ro1 false
      else if negb ro1 then
        (* the body is the buffer now; the pipe is finished *)
        match sc_transport sc with
        | TFail _ => mkc true w1' false 0 false 0 0 RFail
        | TRespond _ r => respond true w1' false r
        end
      else
        match sc_transport sc with
        | TFail k => let '(r2, w2) := pull_n k w1' in
                     mkc true (close_reader w2) false 0 (match r2 with PErr => true | _ => false end) 0 0 RFail
        | TRespond reads r =>
          let '(r2, w2) := transport_reads reads w1' in
          match r2 with
          | PErr => mkc true (close_reader w2) false 0 true 0 0 RFail   (* the body failed: RoundTrip fails *)
          | _ => respond true (close_reader w2) false r
          end
        end
    end.

(* what leak-freedom demands of a state in which the call has returned *)
Definition released (c : cst) : bool :=
  (if c_started c
   then w_done (c_w c) && negb (c_reader_open c) && Nat.eqb (w_file_closes (c_w c) + c_builder_closes c) 1
   else Nat.eqb (c_builder_closes c) 1) &&
  Nat.eqb (c_resp_closes c) (c_resp_opened c).

(* ====================== (iii) the effective deadline ====================== *)
(* parent: the deadline of the caller's context, if any; timeout 0 = none (times in any unit, as Z) *)
Definition effective_deadline (parent : option Z) (now timeout : Z) : option Z :=
  if (timeout =? 0)%Z then parent
  else match parent with
       | None => Some (now + timeout)%Z
       | Some p => Some (Z.min p (now + timeout))
       end.
