(* TLSConfig.v — model of client/runtime.go TLSClientAuth (C18). Definitions only.

   The option record mirrors TLSClientOptions field by field (the fields are independent in Go, so they are
   independent here: a certificate file AND a loaded certificate may both be set, etc.).
   Material is named by small identifiers:
     - a client certificate id names one certificate, whether it sits in a file or was loaded;
     - a key id names one private key, whether it sits in a file or was loaded;
     - a CA-file id names one path; CA ids name root certificates.
   What the standard library says about the material is an oracle (record env): whether
   tls.LoadX509KeyPair accepts two paths, whether x509.MarshalECPrivateKey accepts a key, whether
   tls.X509KeyPair accepts a (certificate, key) pair, what os.ReadFile + AppendCertsFromPEM find in a CA file,
   which CERTIFICATE blocks a certificate file holds (a file may hold a chain: the leaf followed by intermediates).
   A call has no memory: the result is a function of the options and of what the material is NOW (env); a
   sequence of calls is the map of the single call over the (material, options) pairs (tls_history).
   Opaque settings (verification callback, session cache) are tokens. *)
From V Require Export Bytes.

Inductive keykind := KRsa | KEc | KOther.          (* dynamic type of LoadedKey: *rsa.PrivateKey, *ecdsa.PrivateKey, anything else *)

Record opts := mkOpts {
  o_cert_file : option nat;                        (* Certificate: None = empty string *)
  o_loaded_cert : option nat;                      (* LoadedCertificate: None = nil *)
  o_key_file : option nat;                         (* Key *)
  o_loaded_key : option (keykind * nat);           (* LoadedKey: None = nil interface *)
  o_ca_file : option nat;                          (* CA *)
  o_loaded_ca : option nat;                        (* LoadedCA *)
  o_pool : option (list nat);                      (* LoadedCAPool: the CA ids it holds *)
  o_server_name : bytes;                           (* ServerName, [] = unset *)
  o_insecure : bool;                               (* InsecureSkipVerify *)
  o_callback : option nat;                         (* VerifyPeerCertificate (token) *)
  o_tickets_disabled : bool;                       (* SessionTicketsDisabled *)
  o_cache : option nat                             (* ClientSessionCache (token) *)
}.

Record env := mkEnv {
  load_pair_ok : nat -> nat -> bool;               (* tls.LoadX509KeyPair(certPath, keyPath) succeeds *)
  marshal_ec_ok : nat -> bool;                     (* x509.MarshalECPrivateKey(key) succeeds *)
  x509_pair_ok : nat -> nat -> bool;               (* tls.X509KeyPair(pem cert, pem key) succeeds *)
  file_chain : nat -> list nat;                    (* the certificates (ids of the DER blocks) of the CERTIFICATE blocks of a certificate
                                                      file, in file order: what tls.LoadX509KeyPair puts in Certificate.Certificate *)
  read_ca : nat -> option (list nat)               (* os.ReadFile(path): None = error; Some l = the certificates AppendCertsFromPEM adds *)
}.

Inductive roots := RSystem | RPool (l : list nat). (* RootCAs = nil (system pool at handshake time) | a pool with these CAs *)

Record config := mkCfg {
  c_min_version : nat;
  c_insecure : bool;
  c_server_name : bytes;
  c_roots : roots;
  c_certs : list (list nat * nat);                 (* Certificates: (the DER blocks presented, leaf first; private key id) *)
  c_callback : option nat;
  c_tickets_disabled : bool;
  c_cache : option nat
}.

Inductive errkind := ECert | EKey | ECA | EOther.  (* tls client cert: / tls client priv key: / tls client ca: ; EOther is never
                                                      produced by the model: it lets the harness print an unexpected error *)
Inductive result := Error (e : errkind) | Config (c : config).

Definition tls12 : nat := 771.                     (* tls.VersionTLS12 = 0x0303 *)

(* `load client cert if specified` *)
Definition client_certs (e : env) (o : opts) : errkind + list (list nat * nat) :=
  match o_cert_file o with
  | Some cf =>
    match o_key_file o with
    | Some kf => if load_pair_ok e cf kf then inr [(file_chain e cf, kf)] else inl ECert
    | None => inl ECert                            (* LoadX509KeyPair(cert, empty path): reading the empty path fails *)
    end
  | None =>
    match o_loaded_cert o with
    | Some lc =>
      match o_loaded_key o with
      | Some (KRsa, k) => if x509_pair_ok e lc k then inr [([lc], k)] else inl ECert
      | Some (KEc, k) =>
        if marshal_ec_ok e k then (if x509_pair_ok e lc k then inr [([lc], k)] else inl ECert) else inl EKey
      | Some (KOther, _) => inl EKey
      | None => inl EKey
      end
    | None => inr []
    end
  end.

Definition base_pool (p : option (list nat)) : list nat := match p with Some l => l | None => [] end.

(* the `switch` assembling RootCAs *)
Definition root_cas (e : env) (o : opts) : errkind + roots :=
  match o_loaded_ca o with
  | Some ca => inr (RPool (base_pool (o_pool o) ++ [ca]))
  | None =>
    match o_ca_file o with
    | Some f =>
      match read_ca e f with
      | None => inl ECA
      | Some cs => inr (RPool (base_pool (o_pool o) ++ cs))
      end
    | None =>
      match o_pool o with
      | Some p => inr (RPool p)
      | None => inr RSystem
      end
    end
  end.

Definition is_empty (s : bytes) : bool := match s with [] => true | _ => false end.

Definition tls_client_auth (e : env) (o : opts) : result :=
  match client_certs e o with
  | inl err => Error err
  | inr certs =>
    match root_cas e o with
    | inl err => Error err
    | inr r =>
      Config {| c_min_version := tls12;
                c_insecure := if is_empty (o_server_name o) then o_insecure o else false;
                c_server_name := o_server_name o;
                c_roots := r;
                c_certs := certs;
                c_callback := o_callback o;
                c_tickets_disabled := o_tickets_disabled o;
                c_cache := o_cache o |}
    end
  end.

(* Several calls in one process, the material possibly changed between them (same paths, other content): no state is
   carried from one call to the next, every call is the single call on the material of its moment. *)
Definition tls_history (h : list (env * opts)) : list result :=
  map (fun p => tls_client_auth (fst p) (snd p)) h.
