(* TLSSpec.v — the vocabulary of property C18, independent of the algorithm in TLSConfig.v.
   Prop-level statements for the theorems and boolean counterparts that the correspondence run evaluates on
   the configuration returned by the real TLSClientAuth. *)
From V Require Export TLSConfig.

(* The identity the caller asks to present: the certificate (the file form wins over the loaded form, as
   documented) together with the key given in the same form. The certificate is everything that was handed over:
   EVERY certificate block of the file, in file order (leaf, then the intermediates a server needs to build the
   path), or the one loaded certificate. None: no certificate supplied (a key alone requests nothing). *)
Definition supplied_identity (e : env) (o : opts) : option (list nat * option nat) :=
  match o_cert_file o with
  | Some cf => Some (file_chain e cf, o_key_file o)
  | None =>
    match o_loaded_cert o with
    | Some lc => Some ([lc], option_map snd (o_loaded_key o))
    | None => None
    end
  end.

(* The supplied material can serve as a client certificate: a key of the same form is present, of a supported
   type, and the standard library accepts the pair. *)
Definition usable (e : env) (o : opts) : bool :=
  match o_cert_file o with
  | Some cf => match o_key_file o with Some kf => load_pair_ok e cf kf | None => false end
  | None =>
    match o_loaded_cert o, o_loaded_key o with
    | Some lc, Some (KRsa, k) => x509_pair_ok e lc k
    | Some lc, Some (KEc, k) => marshal_ec_ok e k && x509_pair_ok e lc k
    | _, _ => false
    end
  end.

(* Roots. Documented precedence: loaded CA (CA file ignored) + pool; else CA file + pool; else pool; else system. *)
Definition no_roots_supplied (o : opts) : Prop :=
  o_loaded_ca o = None /\ o_ca_file o = None /\ o_pool o = None.

Definition in_pool (o : opts) (x : nat) : Prop := exists p, o_pool o = Some p /\ In x p.

Definition effective_root (e : env) (o : opts) (x : nat) : Prop :=
  match o_loaded_ca o with
  | Some ca => x = ca \/ in_pool o x
  | None =>
    match o_ca_file o with
    | Some f => (exists cs, read_ca e f = Some cs /\ In x cs) \/ in_pool o x
    | None => in_pool o x
    end
  end.

(* x was handed over by the caller in some option *)
Definition supplied_root (e : env) (o : opts) (x : nat) : Prop :=
  o_loaded_ca o = Some x \/ (exists f cs, o_ca_file o = Some f /\ read_ca e f = Some cs /\ In x cs) \/ in_pool o x.

(* the CA file is read only when no loaded CA is given *)
Definition ca_file_unreadable (e : env) (o : opts) : bool :=
  match o_loaded_ca o, o_ca_file o with
  | None, Some f => match read_ca e f with None => true | Some _ => false end
  | _, _ => false
  end.

(* ---- boolean counterparts, evaluated by the correspondence run on the implementation's observable ---- *)

Definition incl_b (a b : list nat) : bool := forallb (fun x => existsb (Nat.eqb x) b) a.
Definition set_eqb (a b : list nat) : bool := incl_b a b && incl_b b a.

Definition expected_roots (e : env) (o : opts) : option roots :=
  match o_loaded_ca o with
  | Some ca => Some (RPool (ca :: base_pool (o_pool o)))
  | None =>
    match o_ca_file o with
    | Some f => match read_ca e f with Some cs => Some (RPool (cs ++ base_pool (o_pool o))) | None => None end
    | None => match o_pool o with Some p => Some (RPool p) | None => Some RSystem end
    end
  end.

Definition roots_eqb (a b : roots) : bool :=
  match a, b with
  | RSystem, RSystem => true
  | RPool x, RPool y => set_eqb x y
  | _, _ => false
  end.

Definition opt_nat_eqb := opt_eqb Nat.eqb.
Definition pair_eqb (a b : list nat * nat) : bool := bytes_eqb (fst a) (fst b) && Nat.eqb (snd a) (snd b).

Definition min_ok (c : config) : bool := tls12 <=? c_min_version c.
Definition insecure_ok (o : opts) (c : config) : bool :=
  Bool.eqb (c_insecure c) (o_insecure o && is_empty (o_server_name o)).
Definition roots_ok (e : env) (o : opts) (c : config) : bool :=
  match expected_roots e o with Some r => roots_eqb (c_roots c) r | None => false end.
Definition passthrough_ok (o : opts) (c : config) : bool :=
  bytes_eqb (c_server_name c) (o_server_name o) && opt_nat_eqb (c_callback c) (o_callback o) &&
  Bool.eqb (c_tickets_disabled c) (o_tickets_disabled o) && opt_nat_eqb (c_cache c) (o_cache o).
Definition certs_ok (e : env) (o : opts) (c : config) : bool :=
  match supplied_identity e o with
  | None => match c_certs c with [] => true | _ => false end
  | Some (ce, Some k) => usable e o && list_eqb pair_eqb (c_certs c) [(ce, k)]
  | Some (_, None) => false
  end.

(* the whole property, on one outcome *)
Definition c18_holds (e : env) (o : opts) (r : result) : bool :=
  match r with
  | Config c => min_ok c && insecure_ok o c && roots_ok e o c && passthrough_ok o c && certs_ok e o c
  | Error _ => true
  end.

(* a sequence of calls: every call, judged on the material of its moment *)
Definition c18_history_holds (h : list (env * opts)) (rs : list result) : bool :=
  list_eqb (fun p r => c18_holds (fst p) (snd p) r) h rs.
