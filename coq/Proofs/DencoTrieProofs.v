(* DencoTrieProofs.v — proofs about the abstract trie (Model/DencoTrie.v):
   tlookup = first matching entry in DFS order; insertion keeps the invariant and updates the
   entry set; among entries matching one path earlier ones are preferred; hence build_best and
   build_order_independent. *)
From Coq Require Import Permutation.
From V Require Import Bytes DencoSpec DencoTrie.

Section TrieProofs.
Context {V : Type}.
Local Notation trie := (DencoTrie.trie V).
Local Notation res := (DencoTrie.res V).
Local Notation tlookup := (@DencoTrie.tlookup V).
Local Notation entries := (@DencoTrie.entries V).
Local Notation first_match := (@DencoTrie.first_match V).
Local Notation lits_lookup := (@DencoTrie.lits_lookup V).
Local Notation lits_entries := (@DencoTrie.lits_entries V).
Local Notation leaf_entries := (@DencoTrie.leaf_entries V).
Local Notation par_entries := (@DencoTrie.par_entries V).
Local Notation wild_entries := (@DencoTrie.wild_entries V).
Local Notation or_else := (@DencoTrie.or_else V).
Local Notation par_lookup := (@DencoTrie.par_lookup V).
Local Notation wf := (@DencoTrie.wf V).
Local Notation empty := (@DencoTrie.empty V).
Local Notation insert := (@DencoTrie.insert V).
Local Notation ins_lit := (@DencoTrie.ins_lit V).
Local Notation build := (@DencoTrie.build V).
Local Notation opt_all := (@DencoTrie.opt_all V).

Lemma tlookup_eq (leaf : option V) (lits : list (byte * trie)) (par : option trie) (wild : option V) p :
  tlookup (Node leaf lits par wild) p =
  match p with
  | [] => match leaf with Some v => Some (v, []) | None => None end
  | c :: p' => or_else (lits_lookup lits c p')
                 (or_else (par_lookup par p)
                    (match wild with Some v => Some (v, [p]) | None => None end))
  end.
Proof.
  destruct p as [|c p']; [reflexivity|]. cbn [tlookup]. unfold or_else, par_lookup.
  match goal with |- match ?X with _ => _ end = _ => replace X with (lits_lookup lits c p') end;
    [reflexivity|].
  induction lits as [|[c' t'] r IH]; cbn; [reflexivity|].
  destruct (Nat.eqb c c'); [reflexivity|exact IH].
Qed.

Lemma entries_eq (leaf : option V) (lits : list (byte * trie)) (par : option trie) (wild : option V) :
  entries (Node leaf lits par wild) =
  leaf_entries leaf ++ lits_entries lits ++ par_entries par ++ wild_entries wild.
Proof.
  reflexivity.
Qed.

Lemma first_match_app a b p :
  first_match (a ++ b) p = or_else (first_match a p) (first_match b p).
Proof. induction a as [|[s v] a IH]; simpl; auto. destruct (smatch s p); auto. Qed.


Fixpoint trie_ind' (P : trie -> Prop)
  (H : forall leaf lits par wild,
      Forall (fun ct => P (snd ct)) lits -> opt_all P par -> P (Node leaf lits par wild))
  (t : trie) {struct t} : P t :=
  match t with
  | Node leaf lits par wild =>
    H leaf lits par wild
      ((fix go (l : list (byte * trie)) : Forall (fun ct => P (snd ct)) l :=
          match l with
          | [] => Forall_nil _
          | ct :: r => Forall_cons ct (trie_ind' P H (snd ct)) (go r)
          end) lits)
      (match par as o return opt_all P o with
       | Some tp => trie_ind' P H tp
       | None => I end)
  end.

Lemma first_match_map_lit c es p :
  first_match (map (fun e : shape * V => (SLit c :: fst e, snd e)) es) p =
  match p with
  | c' :: p' => if Nat.eqb c c' then first_match es p' else None
  | [] => None end.
Proof.
  destruct p as [|c' p'].
  - induction es as [|[s v] es IH]; simpl; auto.
  - induction es as [|[s v] es IH]; simpl.
    + destruct (Nat.eqb c c'); auto.
    + destruct (Nat.eqb c c') eqn:E; auto.
      destruct (smatch s p'); auto.
Qed.

Lemma first_match_map_par es p :
  first_match (map (fun e : shape * V => (SPar :: fst e, snd e)) es) p =
  match p with
  | [] => None
  | _ => match first_match es (snd (span_seg p)) with
         | Some (x, vs) => Some (x, fst (span_seg p) :: vs) | None => None end
  end.
Proof.
  destruct p as [|c' p'].
  - induction es as [|[s v] es IH]; simpl; auto.
  - induction es as [|[s v] es IH]; [reflexivity|].
    cbn [map first_match fst snd]. cbn [smatch].
    destruct (smatch s (snd (span_seg (c' :: p')))); auto.
Qed.

Lemma lits_nil_path lits : first_match (lits_entries lits) [] = None.
Proof.
  induction lits as [|[c t'] r IH]; cbn [lits_entries]; [reflexivity|].
  rewrite first_match_app, first_match_map_lit. exact IH.
Qed.

Lemma lits_other c p' r :
  ~ In c (map fst r) -> first_match (lits_entries r) (c :: p') = None.
Proof.
  induction r as [|[c2 t2] r IH]; cbn [lits_entries]; intros Hn; [reflexivity|].
  rewrite first_match_app, first_match_map_lit.
  destruct (Nat.eqb c2 c) eqn:E.
  - apply Nat.eqb_eq in E; subst. exfalso. apply Hn. simpl; auto.
  - apply IH. intro Hin. apply Hn. simpl; auto.
Qed.

Lemma lits_ok lits c p' :
  Forall (fun ct => wf (snd ct) -> forall p, tlookup (snd ct) p = first_match (entries (snd ct)) p) lits ->
  NoDup (map fst lits) ->
  (fix go (l : list (byte * trie)) : Prop :=
     match l with [] => True | ct :: r => wf (snd ct) /\ go r end) lits ->
  first_match (lits_entries lits) (c :: p') = lits_lookup lits c p'.
Proof.
  induction lits as [|[c1 t1] r IH]; intros HF Hnd Hw; [reflexivity|].
  inversion HF as [|? ? H1 Hr]; subst. destruct Hw as [Hw1 Hwr].
  cbn [map fst] in Hnd. inversion Hnd as [|? ? Hnotin Hnd']; subst.
  cbn [lits_entries lits_lookup]. rewrite first_match_app, first_match_map_lit.
  rewrite (Nat.eqb_sym c1 c).
  destruct (Nat.eqb c c1) eqn:E.
  - cbn [snd] in H1. rewrite <- (H1 Hw1 p').
    destruct (tlookup t1 p'); [reflexivity|]. cbn [or_else].
    apply Nat.eqb_eq in E; subst c1. now apply lits_other.
  - cbn [or_else]. now apply IH.
Qed.

Theorem tlookup_first_match t : wf t -> forall p, tlookup t p = first_match (entries t) p.
Proof.
  induction t as [leaf lits par wild IHl IHp] using trie_ind'.
  intros Hwf p. destruct Hwf as (Hnd & Hwl & Hwp).
  rewrite tlookup_eq, entries_eq, !first_match_app.
  destruct p as [|c p'].
  - rewrite lits_nil_path. unfold par_entries, wild_entries, leaf_entries.
    destruct leaf; cbn; [reflexivity|].
    destruct par; [rewrite first_match_map_par|]; destruct wild; reflexivity.
  - replace (first_match (leaf_entries leaf) (c :: p')) with (@None (V * list bytes))
      by (destruct leaf; reflexivity).
    cbn [or_else]. rewrite (lits_ok lits c p' IHl Hnd Hwl).
    f_equal. f_equal.
    + unfold par_lookup, par_entries. destruct par as [tp|]; [|reflexivity].
      rewrite first_match_map_par. cbn in IHp, Hwp. now rewrite <- (IHp Hwp).
    + destruct wild; reflexivity.
Qed.


Lemma insert_eq s (v : V) (leaf : option V) (lits : list (byte * trie)) (par : option trie) (wild : option V) :
  insert s v (Node leaf lits par wild) =
  match s with
  | [] => Node (Some v) lits par wild
  | SLit c :: s' => Node leaf (ins_lit c s' v lits) par wild
  | SPar :: s' => Node leaf lits (Some (insert s' v (match par with Some tp => tp | None => empty end))) wild
  | SWild :: _ => Node leaf lits par (Some v)
  end.
Proof.
  destruct s as [|[c| |] s']; try reflexivity.
  cbn [insert]. f_equal.
  induction lits as [|[c' t'] r IH]; cbn [ins_lit]; [reflexivity|].
  destruct (Nat.eqb c c'); [reflexivity|].
  now rewrite IH.
Qed.

(* membership characterisation: entries after insert *)
Definition shapes_of (t : trie) := map fst (entries t).

Definition upd (s : shape) (v : V) (es : list (shape * V)) (e : shape * V) : Prop :=
  e = (s, v) \/ (In e es /\ fst e <> s).

(* single-wildcard shapes only: SWild must be last *)
Fixpoint wild_last (s : shape) : Prop :=
  match s with
  | [] => True
  | SWild :: r => r = []
  | _ :: r => wild_last r
  end.

Lemma in_map_cons (x : stok) es e :
  In e (map (fun e0 : shape * V => (x :: fst e0, snd e0)) es) <->
  exists e0, In e0 es /\ e = (x :: fst e0, snd e0).
Proof. rewrite in_map_iff. split; intros [e0 [H1 H2]]; exists e0; auto. Qed.

Lemma entries_empty : entries empty = [].
Proof. reflexivity. Qed.

Lemma lits_entries_in l e :
  In e (lits_entries l) <->
  exists c t' e0, In (c, t') l /\ In e0 (entries t') /\ e = (SLit c :: fst e0, snd e0).
Proof.
  induction l as [|[c t'] r IH]; cbn [lits_entries].
  - split; [intros []|intros (c & t' & e0 & [] & _)].
  - rewrite in_app_iff, in_map_cons, IH. split.
    + intros [(e0 & H1 & H2)|(c2 & t2 & e0 & H1 & H2 & H3)].
      * exists c, t', e0. simpl; auto.
      * exists c2, t2, e0. simpl; auto.
    + intros (c2 & t2 & e0 & [Heq|Hin] & H2 & H3).
      * inversion Heq; subst. left. exists e0; auto.
      * right. exists c2, t2, e0; auto.
Qed.

Lemma wf_eq (leaf : option V) (lits : list (byte * trie)) (par : option trie) (wild : option V) :
  wf (Node leaf lits par wild) <->
  NoDup (map fst lits) /\ Forall (fun ct => wf (snd ct)) lits /\ opt_all wf par.
Proof.
  cbn [wf]. split; intros (H1 & H2 & H3); (split; [exact H1|split; [|exact H3]]).
  - induction lits as [|ct r IH]; constructor; [apply H2|].
    apply IH; [now inversion H1|apply H2].
  - induction lits as [|ct r IH]; [exact I|]. inversion H2; subst. split; [assumption|].
    apply IH; [now inversion H1|assumption].
Qed.

Lemma wf_empty : wf empty.
Proof. apply wf_eq. repeat split; constructor. Qed.

Lemma ins_lit_keys c s' v l :
  forall x, In x (map fst (ins_lit c s' v l)) <-> x = c \/ In x (map fst l).
Proof.
  induction l as [|[c1 t1] r IH]; intros x; cbn [ins_lit].
  - simpl. intuition.
  - destruct (Nat.eqb c c1) eqn:E.
    + apply Nat.eqb_eq in E; subst. simpl. intuition.
    + simpl. rewrite IH. intuition.
Qed.

Theorem wf_insert s : forall v t, wf t -> wf (insert s v t).
Proof.
  induction s as [|x s' IH]; intros v [leaf lits par wild] Hw; rewrite insert_eq;
    apply wf_eq in Hw; destruct Hw as (Hnd & Hl & Hp).
  - apply wf_eq; auto.
  - destruct x as [c| |]; apply wf_eq; (split; [|split]); auto.
    + (* NoDup keys *)
      clear Hl Hp. induction lits as [|[c1 t1] r IHr]; cbn [ins_lit].
      * simpl. constructor; [intros []|constructor].
      * simpl in Hnd. inversion Hnd as [|? ? Hn Hnd']; subst.
        destruct (Nat.eqb c c1) eqn:E.
        -- simpl. constructor; assumption.
        -- simpl. constructor; [|apply IHr; assumption].
           rewrite ins_lit_keys. intros [->|Hin]; [|contradiction].
           apply Nat.eqb_neq in E. congruence.
    + (* children wf *)
      clear Hnd Hp. induction lits as [|[c1 t1] r IHr]; cbn [ins_lit].
      * constructor; [|constructor]. cbn [snd]. apply IH, wf_empty.
      * inversion Hl as [|? ? H1 Hr]; subst.
        destruct (Nat.eqb c c1).
        -- constructor; [cbn [snd] in *; apply IH; assumption|assumption].
        -- constructor; [assumption|apply IHr; assumption].
    + cbn [opt_all]. apply IH. destruct par; [exact Hp|apply wf_empty].
Qed.

Lemma in_leaf_entries leaf e : In e (leaf_entries leaf) -> fst e = [].
Proof. destruct leaf; simpl; [intros [<-|[]]; reflexivity|intros []]. Qed.
Lemma in_par_entries par e : In e (par_entries par) -> exists s0, fst e = SPar :: s0.
Proof.
  destruct par; simpl; [|intros []]. rewrite in_map_cons. intros (e0 & _ & ->). eexists; reflexivity.
Qed.
Lemma in_wild_entries wild e : In e (wild_entries wild) -> fst e = [SWild].
Proof. destruct wild; simpl; [intros [<-|[]]; reflexivity|intros []]. Qed.
Lemma in_lits_entries l e : In e (lits_entries l) -> exists c s0, fst e = SLit c :: s0.
Proof. rewrite lits_entries_in. intros (c & t' & e0 & _ & _ & ->). eexists _, _; reflexivity. Qed.

Definition upd_spec (s : shape) (v : V) (old : list (shape * V)) (new : list (shape * V)) : Prop :=
  forall e, In e new <-> (e = (s, v) \/ (In e old /\ fst e <> s)).

Lemma lits_insert c s' v lits :
  (forall t, wf t -> upd_spec s' v (entries t) (entries (insert s' v t))) ->
  NoDup (map fst lits) -> Forall (fun ct => wf (snd ct)) lits ->
  upd_spec (SLit c :: s') v (lits_entries lits) (lits_entries (ins_lit c s' v lits)).
Proof.
  intros IH. induction lits as [|[c1 t1] r IHr]; intros Hnd Hw e; cbn [ins_lit].
  - cbn [lits_entries]. rewrite app_nil_r, in_map_cons. split.
    + intros (e0 & H1 & ->). apply (IH empty wf_empty) in H1. rewrite entries_empty in H1.
      destruct H1 as [->|[[] _]]. left; reflexivity.
    + intros [->|[[] _]]. exists (s', v). split; [|reflexivity].
      apply (IH empty wf_empty). left; reflexivity.
  - simpl in Hnd. inversion Hnd as [|? ? Hn Hnd']; subst. inversion Hw as [|? ? Hw1 Hwr]; subst.
    cbn [snd] in Hw1.
    destruct (Nat.eqb c c1) eqn:E.
    + apply Nat.eqb_eq in E; subst c1. cbn [lits_entries]. rewrite !in_app_iff, !in_map_cons. split.
      * intros [(e0 & H1 & ->)|H].
        -- apply (IH t1 Hw1) in H1. destruct H1 as [->|[H1 Hne]]; [left; reflexivity|].
           right. split; [left; exists e0; auto|]. cbn [fst]. intros Heq. apply Hne. now inversion Heq.
        -- right. split; [right; exact H|].
           apply lits_entries_in in H. destruct H as (c2 & t2 & e0 & Hin & _ & ->). cbn [fst].
           intros Heq. inversion Heq; subst. apply Hn. apply in_map_iff. exists (c, t2); auto.
      * intros [->|[[(e0 & H1 & ->)|H] Hne]].
        -- left. exists (s', v). split; [apply (IH t1 Hw1); left; reflexivity|reflexivity].
        -- left. exists e0. split; [|reflexivity]. apply (IH t1 Hw1). right. split; [exact H1|].
           intros Heq. apply Hne. cbn [fst]. now rewrite Heq.
        -- right. exact H.
    + cbn [lits_entries]. rewrite !in_app_iff. rewrite (IHr Hnd' Hwr e). split.
      * intros [H|[->|[H Hne]]].
        -- right. split; [left; exact H|].
           apply in_map_cons in H. destruct H as (e0 & _ & ->). cbn [fst]. intros Heq.
           inversion Heq; subst. rewrite Nat.eqb_refl in E. discriminate.
        -- left; reflexivity.
        -- right. split; [right; exact H|exact Hne].
      * intros [->|[[H|H] Hne]].
        -- right. left. reflexivity.
        -- left. exact H.
        -- right. right. split; assumption.
Qed.

Theorem entries_insert s : wild_last s -> forall v t, wf t ->
  upd_spec s v (entries t) (entries (insert s v t)).
Proof.
  induction s as [|x s' IH]; intros Hws v [leaf lits par wild] Hw e; rewrite insert_eq;
    apply wf_eq in Hw; destruct Hw as (Hnd & Hl & Hp).
  - rewrite !entries_eq. cbn [leaf_entries]. rewrite !in_app_iff. split.
    + intros [[<-|[]]|H]; [left; reflexivity|].
      right. split; [auto|].
      destruct H as [H|[H|H]].
      * apply in_lits_entries in H. destruct H as (c & s0 & ->). discriminate.
      * apply in_par_entries in H. destruct H as (s0 & ->). discriminate.
      * apply in_wild_entries in H. rewrite H. discriminate.
    + intros [->|[H Hne]]; [left; left; reflexivity|].
      destruct H as [H|H]; [|right; exact H].
      apply in_leaf_entries in H. contradiction.
  - destruct x as [c| |].
    + (* literal *)
      rewrite !entries_eq, !in_app_iff.
      rewrite (lits_insert c s' v lits (fun t Ht => IH Hws v t Ht) Hnd Hl e). split.
      * intros [H|[[->|[H Hne]]|[H|H]]].
        -- right. split; [auto|]. apply in_leaf_entries in H. rewrite H. discriminate.
        -- left; reflexivity.
        -- right. split; auto.
        -- right. split; [auto|]. apply in_par_entries in H. destruct H as (s0 & ->). discriminate.
        -- right. split; [auto|]. apply in_wild_entries in H. rewrite H. discriminate.
      * intros [->|[[H|[H|[H|H]]] Hne]]; auto 6.
    + (* parameter *)
      rewrite !entries_eq, !in_app_iff. cbn [par_entries]. rewrite in_map_cons.
      assert (Hwp : wf (match par with Some tp => tp | None => empty end))
        by (destruct par; [exact Hp|apply wf_empty]).
      split.
      * intros [H|[H|[(e0 & H1 & ->)|H]]].
        -- right. split; [auto|]. apply in_leaf_entries in H. rewrite H. discriminate.
        -- right. split; [auto|]. apply in_lits_entries in H. destruct H as (c & s0 & ->). discriminate.
        -- apply (IH Hws v _ Hwp) in H1. destruct H1 as [->|[H1 Hne]]; [left; reflexivity|].
           right. split.
           ++ right. right. left. destruct par as [tp|]; [|rewrite entries_empty in H1; destruct H1].
              cbn [par_entries]. apply in_map_cons. exists e0; auto.
           ++ cbn [fst]. intros Heq. apply Hne. now inversion Heq.
        -- right. split; [auto|]. apply in_wild_entries in H. rewrite H. discriminate.
      * intros [->|[[H|[H|[H|H]]] Hne]]; auto.
        -- right. right. left. exists (s', v). split; [|reflexivity].
           apply (IH Hws v _ Hwp). left; reflexivity.
        -- right. right. left. destruct par as [tp|]; [|destruct H].
           cbn [par_entries] in H. apply in_map_cons in H. destruct H as (e0 & H1 & ->).
           exists e0. split; [|reflexivity]. apply (IH Hws v _ Hwp). right. split; [exact H1|].
           intros Heq. apply Hne. cbn [fst]. now rewrite Heq.
    + (* wildcard *)
      cbn [wild_last] in Hws. subst s'.
      rewrite !entries_eq, !in_app_iff. cbn [wild_entries]. split.
      * intros [H|[H|[H|[<-|[]]]]].
        -- right. split; [auto|]. apply in_leaf_entries in H. rewrite H. discriminate.
        -- right. split; [auto|]. apply in_lits_entries in H. destruct H as (c & s0 & ->). discriminate.
        -- right. split; [auto|]. apply in_par_entries in H. destruct H as (s0 & ->). discriminate.
        -- left; reflexivity.
      * intros [->|[[H|[H|[H|H]]] Hne]]; auto.
        -- right. right. right. left. reflexivity.
        -- apply in_wild_entries in H. contradiction.
Qed.

(* ---------- preference order among matching entries ---------- *)

Definition matches (p : bytes) (e : shape * V) : Prop := smatch (fst e) p <> None.
Definition R (p : bytes) (e1 e2 : shape * V) : Prop :=
  matches p e1 -> matches p e2 -> pref (fst e1) (fst e2).

Lemma fop_app (Q : shape * V -> shape * V -> Prop) a b :
  ForallOrdPairs Q a -> ForallOrdPairs Q b ->
  (forall x y, In x a -> In y b -> Q x y) -> ForallOrdPairs Q (a ++ b).
Proof.
  intros Ha Hb Hab. induction Ha as [|x a Hx Ha IH]; simpl; [exact Hb|].
  constructor.
  - apply Forall_app. split; [exact Hx|]. apply Forall_forall. intros y Hy. apply Hab; simpl; auto.
  - apply IH. intros x0 y Hx0 Hy. apply Hab; simpl; auto.
Qed.

Lemma smatch_lit_cons c s0 p :
  smatch (SLit c :: s0) p <> None -> exists p', p = c :: p' /\ smatch s0 p' <> None.
Proof.
  destruct p as [|c' p']; cbn [smatch]; [congruence|].
  destruct (Nat.eqb c c') eqn:E; [|congruence]. apply Nat.eqb_eq in E; subst.
  intros H. exists p'. auto.
Qed.

Lemma smatch_par_cons s0 p :
  smatch (SPar :: s0) p <> None -> p <> [] /\ smatch s0 (snd (span_seg p)) <> None.
Proof.
  destruct p as [|c' p']; cbn [smatch]; [congruence|].
  destruct (smatch s0 (snd (span_seg (c' :: p')))); [|congruence]. intros _. split; congruence.
Qed.

Lemma fop_map_lit c es p' :
  ForallOrdPairs (R p') es ->
  ForallOrdPairs (R (c :: p')) (map (fun e : shape * V => (SLit c :: fst e, snd e)) es).
Proof.
  induction 1 as [|x es Hx Hes IH]; simpl; constructor; [|exact IH].
  apply Forall_forall. intros y Hy. apply in_map_cons in Hy. destruct Hy as (y0 & Hy0 & ->).
  rewrite Forall_forall in Hx. specialize (Hx y0 Hy0).
  unfold R, matches in *. cbn [fst]. intros H1 H2.
  apply smatch_lit_cons in H1. destruct H1 as (q & Hq & H1). inversion Hq; subst.
  apply smatch_lit_cons in H2. destruct H2 as (q' & Hq' & H2). inversion Hq'; subst.
  apply pref_cons. auto.
Qed.

Lemma fop_map_par es p :
  ForallOrdPairs (R (snd (span_seg p))) es ->
  ForallOrdPairs (R p) (map (fun e : shape * V => (SPar :: fst e, snd e)) es).
Proof.
  induction 1 as [|x es Hx Hes IH]; simpl; constructor; [|exact IH].
  apply Forall_forall. intros y Hy. apply in_map_cons in Hy. destruct Hy as (y0 & Hy0 & ->).
  rewrite Forall_forall in Hx. specialize (Hx y0 Hy0).
  unfold R, matches in *. cbn [fst]. intros H1 H2.
  apply smatch_par_cons in H1. apply smatch_par_cons in H2.
  apply pref_cons. apply Hx; tauto.
Qed.

Lemma fop_other (Q : shape * V -> shape * V -> Prop) es :
  (forall x y, In x es -> In y es -> Q x y) -> ForallOrdPairs Q es.
Proof.
  induction es as [|x es IH]; intros H; constructor.
  - apply Forall_forall. intros y Hy. apply H; simpl; auto.
  - apply IH. intros a b Ha Hb. apply H; simpl; auto.
Qed.

Lemma lits_fop lits p :
  NoDup (map fst lits) ->
  Forall (fun ct => forall q, ForallOrdPairs (R q) (entries (snd ct))) lits ->
  ForallOrdPairs (R p) (lits_entries lits).
Proof.
  induction lits as [|[c1 t1] r IH]; intros Hnd HF; cbn [lits_entries]; [constructor|].
  simpl in Hnd. inversion Hnd as [|? ? Hn Hnd']; subst. inversion HF as [|? ? H1 Hr]; subst.
  cbn [snd] in H1. apply fop_app.
  - destruct p as [|c p'].
    + apply fop_other. intros x y Hx _. apply in_map_cons in Hx. destruct Hx as (x0 & _ & ->).
      intros Hm. apply smatch_lit_cons in Hm. destruct Hm as (q & Hq & _). discriminate.
    + destruct (Nat.eq_dec c1 c) as [->|Hne]; [apply fop_map_lit, H1|].
      apply fop_other. intros x y Hx _. apply in_map_cons in Hx. destruct Hx as (x0 & _ & ->).
      intros Hm. apply smatch_lit_cons in Hm. destruct Hm as (q & Hq & _). inversion Hq; congruence.
  - apply IH; assumption.
  - (* different children cannot both match *)
    intros x y Hx Hy. apply in_map_cons in Hx. destruct Hx as (x0 & _ & ->).
    apply lits_entries_in in Hy. destruct Hy as (c2 & t2 & y0 & Hin & _ & ->).
    intros Hm1 Hm2. unfold matches in *. cbn [fst] in *.
    apply smatch_lit_cons in Hm1. destruct Hm1 as (q1 & Hq1 & _).
    apply smatch_lit_cons in Hm2. destruct Hm2 as (q2 & Hq2 & _).
    subst p. inversion Hq2; subst. exfalso. apply Hn. apply in_map_iff. exists (c2, t2); auto.
Qed.

Theorem entries_fop t : wf t -> forall p, ForallOrdPairs (R p) (entries t).
Proof.
  induction t as [leaf lits par wild IHl IHp] using trie_ind'.
  intros Hw p. apply wf_eq in Hw. destruct Hw as (Hnd & Hl & Hp).
  rewrite entries_eq. apply fop_app; [| |].
  - destruct leaf; simpl; repeat constructor.
  - apply fop_app; [| |].
    + apply lits_fop; [exact Hnd|].
      rewrite Forall_forall in *. intros ct Hct q. apply IHl; auto.
    + apply fop_app; [| |].
      * destruct par as [tp|]; simpl; [|constructor]. apply fop_map_par. apply IHp. exact Hp.
      * destruct wild; simpl; repeat constructor.
      * intros x y Hx Hy. apply in_par_entries in Hx. destruct Hx as (s0 & Hs).
        apply in_wild_entries in Hy. intros _ _. rewrite Hs, Hy. constructor.
    + intros x y Hx Hy. apply in_lits_entries in Hx. destruct Hx as (c & s0 & Hs).
      intros _ _. rewrite Hs. apply in_app_or in Hy. destruct Hy as [Hy|Hy].
      * apply in_par_entries in Hy. destruct Hy as (s1 & ->). constructor.
      * apply in_wild_entries in Hy. rewrite Hy. constructor.
  - (* leaf entry (shape []) vs the rest: cannot both match *)
    intros x y Hx Hy. apply in_leaf_entries in Hx. intros Hm1 Hm2. unfold matches in *.
    rewrite Hx in Hm1. destruct p as [|c p']; [|simpl in Hm1; congruence].
    exfalso. apply in_app_or in Hy. destruct Hy as [Hy|Hy].
    + apply in_lits_entries in Hy. destruct Hy as (c & s0 & Hs). rewrite Hs in Hm2. simpl in Hm2. congruence.
    + apply in_app_or in Hy. destruct Hy as [Hy|Hy].
      * apply in_par_entries in Hy. destruct Hy as (s0 & Hs). rewrite Hs in Hm2. simpl in Hm2. congruence.
      * apply in_wild_entries in Hy. rewrite Hy in Hm2. simpl in Hm2. congruence.
Qed.

(* first match is the pref-least match *)
Lemma first_match_least es p v vs :
  ForallOrdPairs (R p) es -> first_match es p = Some (v, vs) ->
  exists s, In (s, v) es /\ smatch s p = Some vs /\
            forall e', In e' es -> matches p e' -> e' = (s, v) \/ pref s (fst e').
Proof.
  induction 1 as [|[s0 v0] es Hx Hes IH]; cbn [first_match]; [discriminate|].
  destruct (smatch s0 p) as [vs0|] eqn:E.
  - intros Heq. inversion Heq; subst. exists s0. split; [simpl; auto|]. split; [exact E|].
    intros e' [<-|Hin] Hm; [left; reflexivity|]. right.
    rewrite Forall_forall in Hx. apply (Hx e' Hin); [unfold matches; cbn [fst]; congruence|exact Hm].
  - intros Hf. destruct (IH Hf) as (s & Hin & Hs & Hleast). exists s. split; [simpl; auto|].
    split; [exact Hs|]. intros e' [<-|Hin'] Hm; [unfold matches in Hm; cbn [fst] in Hm; congruence|].
    apply Hleast; assumption.
Qed.

Lemma first_match_none es p :
  first_match es p = None -> forall e, In e es -> ~ matches p e.
Proof.
  induction es as [|[s0 v0] es IH]; cbn [first_match]; [intros _ e []|].
  destruct (smatch s0 p) eqn:E; [discriminate|]. intros Hf e [<-|Hin]; [unfold matches; cbn [fst]; congruence|].
  now apply IH.
Qed.

Theorem tlookup_best t p : wf t ->
  match tlookup t p with
  | Some (v, vs) => exists s, In (s, v) (entries t) /\ smatch s p = Some vs /\
                      forall e', In e' (entries t) -> matches p e' -> e' = (s, v) \/ pref s (fst e')
  | None => forall e, In e (entries t) -> ~ matches p e
  end.
Proof.
  intros Hw. rewrite (tlookup_first_match t Hw p).
  destruct (first_match (entries t) p) as [[v vs]|] eqn:E.
  - apply first_match_least; [apply entries_fop; exact Hw|exact E].
  - now apply first_match_none.
Qed.

(* ---------- build = fold insert ---------- *)

Lemma fold_insert_wf pats : forall t, wf t ->
  wf (fold_left (fun t e => insert (fst e) (snd e) t) pats t).
Proof. induction pats as [|e r IH]; intros t Hw; simpl; [exact Hw|]. apply IH, wf_insert, Hw. Qed.

Lemma build_wf pats : wf (build pats).
Proof. apply fold_insert_wf, wf_empty. Qed.

Lemma fold_insert_entries pats : forall t, wf t ->
  Forall (fun e => wild_last (fst e)) pats -> NoDup (map fst pats) ->
  (forall e, In e (entries t) -> ~ In (fst e) (map fst pats)) ->
  forall e, In e (entries (fold_left (fun t e => insert (fst e) (snd e) t) pats t)) <->
            In e pats \/ In e (entries t).
Proof.
  induction pats as [|[s v] r IH]; intros t Hw Hws Hnd Hfresh e; simpl; [tauto|].
  inversion Hws as [|? ? Hs Hwr]; subst. simpl in Hnd. inversion Hnd as [|? ? Hn Hnd']; subst.
  cbn [fst snd] in *.
  rewrite IH; [| apply wf_insert, Hw | exact Hwr | exact Hnd' |].
  - rewrite (entries_insert s Hs v t Hw e). split.
    + intros [H|[->|[H _]]]; auto.
    + intros [[<-|H]|H]; auto. right. right. split; [exact H|].
      intros Heq. apply (Hfresh e H). simpl. auto.
  - intros e0 He0. apply (entries_insert s Hs v t Hw) in He0. destruct He0 as [->|[He0 Hne]].
    + exact Hn.
    + intros Hin. apply (Hfresh e0 He0). simpl. auto.
Qed.

Theorem build_entries pats :
  Forall (fun e => wild_last (fst e)) pats -> NoDup (map fst pats) ->
  forall e, In e (entries (build pats)) <-> In e pats.
Proof.
  intros Hws Hnd e. unfold build.
  rewrite (fold_insert_entries pats empty wf_empty Hws Hnd).
  - rewrite entries_empty. simpl. tauto.
  - rewrite entries_empty. intros e0 [].
Qed.

Theorem build_best pats p :
  Forall (fun e => wild_last (fst e)) pats -> NoDup (map fst pats) ->
  match tlookup (build pats) p with
  | Some (v, vs) => exists s, In (s, v) pats /\ smatch s p = Some vs /\
                      forall e', In e' pats -> matches p e' -> e' = (s, v) \/ pref s (fst e')
  | None => forall e, In e pats -> ~ matches p e
  end.
Proof.
  intros Hws Hnd. pose proof (tlookup_best (build pats) p (build_wf pats)) as H.
  destruct (tlookup (build pats) p) as [[v vs]|].
  - destruct H as (s & Hin & Hs & Hleast). exists s.
    split; [apply (build_entries pats Hws Hnd); exact Hin|].
    split; [exact Hs|]. intros e' He' Hm.
    apply Hleast; [apply (build_entries pats Hws Hnd); exact He'|exact Hm].
  - intros e He. apply H. apply (build_entries pats Hws Hnd). exact He.
Qed.

Lemma pref_irrefl s : ~ pref s s.
Proof. induction s as [|x s IH]; intros H; inversion H; subst; auto. Qed.

Lemma pref_asym a b : pref a b -> ~ pref b a.
Proof. induction 1; intros H'; inversion H'; subst; auto. Qed.

Theorem build_order_independent pats pats' p :
  Forall (fun e => wild_last (fst e)) pats -> NoDup (map fst pats) ->
  Permutation pats pats' ->
  tlookup (build pats) p = tlookup (build pats') p.
Proof.
  intros Hws Hnd Hperm.
  assert (Hws' : Forall (fun e => wild_last (fst e)) pats').
  { rewrite Forall_forall in *. intros e He. apply Hws. eapply Permutation_in; [symmetry; exact Hperm|exact He]. }
  assert (Hnd' : NoDup (map fst pats')).
  { eapply Permutation_NoDup; [apply Permutation_map; exact Hperm|exact Hnd]. }
  pose proof (build_best pats p Hws Hnd) as H1. pose proof (build_best pats' p Hws' Hnd') as H2.
  assert (Hin : forall e, In e pats <-> In e pats').
  { intros e; split; apply Permutation_in; [exact Hperm|symmetry; exact Hperm]. }
  assert (Huniq : forall s v v', In (s, v) pats -> In (s, v') pats -> v = v').
  { clear -Hnd. induction pats as [|[s0 v0] r IH]; intros s v v' H H'; [destruct H|].
    simpl in Hnd. inversion Hnd as [|? ? Hn Hnd']; subst.
    destruct H as [H|H], H' as [H'|H'].
    - congruence.
    - inversion H; subst. exfalso. apply Hn. apply in_map_iff. exists (s, v'); auto.
    - inversion H'; subst. exfalso. apply Hn. apply in_map_iff. exists (s, v); auto.
    - eapply IH; eauto. }
  destruct (tlookup (build pats) p) as [[v vs]|], (tlookup (build pats') p) as [[v' vs']|]; auto.
  - destruct H1 as (s & Hi & Hs & Hl). destruct H2 as (s' & Hi' & Hs' & Hl').
    assert (Hm : matches p (s, v)) by (unfold matches; cbn [fst]; congruence).
    assert (Hm' : matches p (s', v')) by (unfold matches; cbn [fst]; congruence).
    destruct (Hl (s', v') (proj2 (Hin _) Hi') Hm') as [Heq|Hp].
    + inversion Heq; subst. congruence.
    + destruct (Hl' (s, v) (proj1 (Hin _) Hi) Hm) as [Heq|Hp'].
      * inversion Heq; subst. congruence.
      * exfalso. cbn [fst] in *. exact (pref_asym _ _ Hp Hp').
  - destruct H1 as (s & Hi & Hs & _). exfalso. apply (H2 (s, v) (proj1 (Hin _) Hi)).
    unfold matches; cbn [fst]; congruence.
  - destruct H2 as (s & Hi & Hs & _). exfalso. apply (H1 (s, v') (proj2 (Hin _) Hi)).
    unfold matches; cbn [fst]; congruence.
Qed.
End TrieProofs.