(* PeekProofs.v — proofs for C17 (Peek.v against PeekSpec.v). *)
From V Require Import PeekSpec.

Ltac fin := first [reflexivity | lia | (intros ? HH; inversion HH; subst; split; reflexivity) | (intros ? HH; discriminate HH)].
Ltac split4 := (split; [|split; [|split]]); fin.

Lemma sread_spec k s c oe s' :
  sread k s = ((c, oe), s') ->
  script_bytes s = c ++ script_bytes s' /\ script_term s' = script_term s /\ length c <= k /\
  (forall e, oe = Some e -> e = script_term s /\ script_bytes s' = []).
Proof.
  destruct s as [l|t]; simpl.
  - destruct l as [|[ch ot] r]; simpl.
    + intros H; inversion H; subst; simpl. split4.
    + destruct (length ch <=? k) eqn:Hk.
      * apply Nat.leb_le in Hk. intros H; inversion H; subst. destruct oe as [t|]; simpl.
        -- rewrite app_nil_r. split4.
        -- split4.
      * apply Nat.leb_gt in Hk. intros H; inversion H; subst; simpl.
        assert (Hl : length (firstn k ch) <= k) by (rewrite firstn_length; lia).
        destruct ot as [t|]; simpl.
        -- rewrite firstn_skipn. split4.
        -- rewrite app_assoc, firstn_skipn. split4.
  - intros H; inversion H; subst; simpl. split4.
Qed.

(* ---------- the script: stalls ---------- *)
Definition lead_r (s : rstate) : nat := match s with Live l => lead l | Dead _ => 0 end.

Lemma stall_ok_lead n l : stall_ok n l = true -> lead l < n.
Proof. destruct l as [|[c ot] r]; simpl; intros H; apply andb_true_iff in H as [H _]; now apply Nat.ltb_lt in H. Qed.

Lemma rstall_ok_lead n s : rstall_ok n s = true -> 0 < n -> lead_r s < n.
Proof. destruct s; simpl; [intros H _; now apply stall_ok_lead | intros _ H; exact H]. Qed.

Lemma sread_stall n k s o s' : 0 < n -> sread k s = (o, s') -> rstall_ok n s = true -> rstall_ok n s' = true.
Proof.
  intros Hn. destruct s as [l|t]; simpl.
  - destruct l as [|[ch ot] r]; simpl.
    + intros H; inversion H; reflexivity.
    + destruct (length ch <=? k) eqn:Hk; intros H; inversion H; subst; clear H.
      * destruct ot; simpl; [reflexivity|]. intros H. apply andb_true_iff in H as [_ H]. exact H.
      * simpl. intros H. apply andb_true_iff in H as [_ H].
        apply Nat.leb_gt in Hk.
        assert (Hs : skipn k ch <> []).
        { intros E. apply (f_equal (@length _)) in E. rewrite skipn_length in E. simpl in E. lia. }
        destruct (skipn k ch) as [|x y] eqn:Es; [contradiction|].
        simpl. apply andb_true_iff; split; [apply Nat.ltb_lt; exact Hn | exact H].
  - intros H; inversion H; reflexivity.
Qed.

(* a non-empty destination and nothing delivered without error: a zero-length step was consumed *)
Lemma sread_empty k s s' : 0 < k -> sread k s = (([], None), s') -> lead_r s = S (lead_r s').
Proof.
  intros Hk. destruct s as [l|t]; simpl; [|discriminate].
  destruct l as [|[ch ot] r]; simpl; [discriminate|].
  destruct (length ch <=? k) eqn:Hl; intros H; inversion H; subst; clear H.
  - destruct r; reflexivity.
  - apply Nat.leb_gt in Hl. destruct ch as [|x ch]; simpl in Hl; [lia|].
    destruct k; [lia|]. simpl in H1. discriminate.
Qed.

(* ---------- the stack: what is still owed, and the invariant of open layers ---------- *)
Fixpoint rem (ls : list layer) (r : rstate) : bytes :=
  match ls with
  | [] => script_bytes r
  | l :: lo => lbuf l ++ rem lo r
  end.

Fixpoint inv (ls : list layer) (r : rstate) : Prop :=
  match ls with
  | [] => True
  | l :: lo => lclosed l = false /\
               (forall e, lerr l = Some e -> e = script_term r /\ rem lo r = []) /\
               inv lo r
  end.

Lemma bufsize_nz : Nat.eqb bufsize 0 = false.
Proof. reflexivity. Qed.
Lemma bufsize_pos : 0 < bufsize.
Proof. unfold bufsize. lia. Qed.
Lemma max_empty_reads_pos : 0 < max_empty_reads.
Proof. unfold max_empty_reads. lia. Qed.
Opaque bufsize max_empty_reads.

Lemma firstn_nonempty {A} k (x : A) l : 0 < k -> firstn k (x :: l) <> [].
Proof. destruct k; [lia|]. simpl. discriminate. Qed.

Lemma stack_read_spec ls : forall k r c oe ls' r',
  inv ls r -> stack_read k ls r = ((c, oe), ls', r') ->
  inv ls' r' /\ rem ls r = c ++ rem ls' r' /\ script_term r' = script_term r /\ length c <= k /\
  (forall e, oe = Some e -> e = script_term r /\ rem ls' r' = []) /\
  length ls' = length ls /\
  (forall n, 0 < n -> rstall_ok n r = true -> rstall_ok n r' = true).
Proof.
  induction ls as [|l lo IH]; intros k r c oe ls' r' Hinv H.
  - simpl in H. destruct (sread k r) as [[c0 oe0] r0] eqn:E. inversion H; subst; clear H.
    destruct (sread_spec _ _ _ _ _ E) as (Hb & Ht & Hl & He). simpl.
    repeat (split; try assumption); try reflexivity.
    intros n Hn Hs. eapply sread_stall; eauto.
  - destruct Hinv as (Hop & Herr & Hlo). simpl in H. rewrite Hop in H.
    destruct (Nat.eqb k 0) eqn:Hk0.
    + (* zero-length read *)
      destruct (lbuf l) as [|b bs] eqn:Eb.
      * inversion H; subst; clear H. simpl. rewrite Eb.
        split; [split; [reflexivity|split; [discriminate|exact Hlo]]|].
        split; [reflexivity|]. split; [reflexivity|]. split; [lia|].
        split; [intros e He; destruct (Herr e He) as [H1 H2]; now rewrite H2|].
        split; [reflexivity|]. intros; assumption.
      * inversion H; subst; clear H. simpl. rewrite Eb.
        split; [split; [exact Hop|split; [exact Herr|exact Hlo]]|].
        split; [reflexivity|]. split; [reflexivity|]. split; [lia|].
        split; [discriminate|]. split; [reflexivity|]. intros; assumption.
    + apply Nat.eqb_neq in Hk0.
      destruct (lbuf l) as [|b bs] eqn:Eb.
      * destruct (lerr l) as [e0|] eqn:Ee.
        -- inversion H; subst; clear H. simpl. rewrite Eb.
           split; [split; [reflexivity|split; [discriminate|exact Hlo]]|].
           split; [reflexivity|]. split; [reflexivity|]. split; [lia|].
           split; [intros e He; inversion He; subst; destruct (Herr e eq_refl) as [H1 H2]; now rewrite H2|].
           split; [reflexivity|]. intros; assumption.
        -- destruct (bufsize <=? k) eqn:Hbig.
           ++ destruct (stack_read k lo r) as [[[c0 oe0] lo0] r0] eqn:E. inversion H; subst; clear H.
              destruct (IH _ _ _ _ _ _ Hlo E) as (I1 & I2 & I3 & I4 & I5 & I6 & I7).
              simpl. rewrite Eb. simpl.
              split; [split; [reflexivity|split; [discriminate|exact I1]]|].
              repeat (split; try assumption). now rewrite I6.
           ++ destruct (stack_read bufsize lo r) as [[[c0 oe0] lo0] r0] eqn:E.
              destruct (IH _ _ _ _ _ _ Hlo E) as (I1 & I2 & I3 & I4 & I5 & I6 & I7).
              destruct c0 as [|x c0].
              ** inversion H; subst; clear H. simpl. rewrite Eb. simpl.
                 split; [split; [reflexivity|split; [discriminate|exact I1]]|].
                 split; [exact I2|]. split; [exact I3|]. split; [lia|]. split; [exact I5|].
                 split; [now rewrite I6|exact I7].
              ** inversion H; subst; clear H. simpl. rewrite Eb. simpl.
                 split; [split; [reflexivity|split; [|exact I1]]|].
                 { intros e He. destruct (I5 e He) as [H1 H2]. now rewrite I3. }
                 split; [rewrite I2; rewrite app_assoc; now rewrite firstn_skipn|].
                 split; [exact I3|]. split; [rewrite firstn_length; lia|].
                 split; [discriminate|]. split; [now rewrite I6|exact I7].
      * inversion H; subst; clear H. simpl. rewrite Eb.
        split; [split; [reflexivity|split; [exact Herr|exact Hlo]]|].
        split; [rewrite app_assoc; now rewrite firstn_skipn|].
        split; [reflexivity|]. split; [rewrite firstn_length; lia|].
        split; [discriminate|]. split; [reflexivity|]. intros; assumption.
Qed.

(* a buffer-sized (or larger) read that delivers nothing without error consumed a zero-length step *)
Lemma stack_read_empty ls : forall k r ls' r',
  inv ls r -> bufsize <= k -> stack_read k ls r = (([], None), ls', r') -> lead_r r = S (lead_r r').
Proof.
  induction ls as [|l lo IH]; intros k r ls' r' Hinv Hk H.
  - simpl in H. destruct (sread k r) as [[c0 oe0] r0] eqn:E. inversion H; subst; clear H.
    eapply sread_empty; [|exact E]. pose proof bufsize_pos. lia.
  - destruct Hinv as (Hop & Herr & Hlo). simpl in H. rewrite Hop in H.
    assert (Hk0 : Nat.eqb k 0 = false) by (apply Nat.eqb_neq; pose proof bufsize_pos; lia).
    rewrite Hk0 in H.
    destruct (lbuf l) as [|b bs] eqn:Eb.
    + destruct (lerr l) as [e0|] eqn:Ee; [discriminate|].
      assert (Hbig : (bufsize <=? k) = true) by (now apply Nat.leb_le).
      rewrite Hbig in H.
      destruct (stack_read k lo r) as [[[c0 oe0] lo0] r0] eqn:E. inversion H; subst; clear H.
      eapply IH; eauto.
    + inversion H. exfalso. eapply (firstn_nonempty k b bs); [pose proof bufsize_pos; lia | eassumption].
Qed.

Lemma fill_loop_spec i : forall lo r c oe lo' r',
  inv lo r -> fill_loop i lo r = ((c, oe), lo', r') ->
  inv lo' r' /\ rem lo r = c ++ rem lo' r' /\ script_term r' = script_term r /\
  (c <> [] -> forall e, oe = Some e -> e = script_term r /\ rem lo' r' = []) /\
  length lo' = length lo /\
  (forall n, 0 < n -> rstall_ok n r = true -> rstall_ok n r' = true) /\
  (lead_r r < i -> c = [] -> rem lo r = []).
Proof.
  induction i as [|i IH]; intros lo r c oe lo' r' Hinv H.
  - simpl in H. inversion H; subst; clear H.
    split; [exact Hinv|]. split; [reflexivity|]. split; [reflexivity|].
    split; [intros Hc; now contradiction Hc|]. split; [reflexivity|]. split; [intros; assumption|]. lia.
  - simpl in H. destruct (stack_read bufsize lo r) as [[[c0 oe0] lo0] r0] eqn:E.
    destruct (stack_read_spec _ _ _ _ _ _ _ Hinv E) as (I1 & I2 & I3 & I4 & I5 & I6 & I7).
    destruct oe0 as [e0|].
    + inversion H; subst; clear H.
      split; [exact I1|]. split; [exact I2|]. split; [exact I3|]. split; [intros _; exact I5|].
      split; [exact I6|]. split; [exact I7|].
      intros _ Hc. subst c. destruct (I5 e0 eq_refl) as [_ H2]. now rewrite I2, H2.
    + destruct c0 as [|x c0].
      * destruct (IH _ _ _ _ _ _ I1 H) as (J1 & J2 & J3 & J4 & J5 & J6 & J7).
        split; [exact J1|]. split; [now rewrite I2|]. split; [now rewrite J3|].
        split; [intros Hc e He; destruct (J4 Hc e He) as [H1 H2]; split; [now rewrite H1|exact H2]|].
        split; [now rewrite J5|]. split; [intros n Hn Hs; apply J6; auto|].
        intros Hl Hc. rewrite I2. simpl. apply J7; [|exact Hc].
        pose proof (stack_read_empty _ _ _ _ _ Hinv (Nat.le_refl _) E). lia.
      * inversion H; subst; clear H.
        split; [exact I1|]. split; [exact I2|]. split; [exact I3|]. split; [intros _; exact I5|].
        split; [exact I6|]. split; [exact I7|]. intros _ Hc; discriminate.
Qed.

(* HasContent on a stack of open layers: it answers, keeps what is owed, and (unless the stream
   stalls) says exactly whether a byte is still owed *)
Lemma has_content_spec l lo r o ls' r' :
  inv (l :: lo) r -> has_content (l :: lo) r = (o, ls', r') ->
  exists b, o = Ok b /\ inv ls' r' /\ rem ls' r' = rem (l :: lo) r /\ script_term r' = script_term r /\
            length ls' = S (length lo) /\
            (forall n, 0 < n -> rstall_ok n r = true -> rstall_ok n r' = true) /\
            (rstall_ok max_empty_reads r = true -> b = negb (is_nil (rem (l :: lo) r))).
Proof.
  intros (Hop & Herr & Hlo) H. unfold has_content in H. rewrite Hop in H.
  destruct (lbuf l) as [|x bs] eqn:Eb.
  - destruct (lerr l) as [e0|] eqn:Ee.
    + inversion H; subst; clear H. exists false. destruct (Herr e0 eq_refl) as [H1 H2].
      split; [reflexivity|]. split; [split; [reflexivity|split; [discriminate|exact Hlo]]|].
      simpl. rewrite Eb. simpl. repeat split; auto. now rewrite H2.
    + destruct (fill_loop max_empty_reads lo r) as [[[c oe] lo0] r0] eqn:E.
      destruct (fill_loop_spec _ _ _ _ _ _ _ Hlo E) as (J1 & J2 & J3 & J4 & J5 & J6 & J7).
      destruct c as [|y c].
      * inversion H; subst; clear H. exists false.
        split; [reflexivity|]. split; [split; [reflexivity|split; [discriminate|exact J1]]|].
        simpl. rewrite Eb. simpl. split; [now rewrite J2|]. split; [exact J3|]. split; [now rewrite J5|].
        split; [exact J6|]. intros Hs. rewrite J7; [reflexivity| |reflexivity].
        apply rstall_ok_lead; [exact Hs|apply max_empty_reads_pos].
      * inversion H; subst; clear H. exists true.
        split; [reflexivity|]. split; [split; [reflexivity|split; [|exact J1]]|].
        { simpl. intros e He. destruct (J4 ltac:(discriminate) e He) as [H1 H2]. now rewrite J3. }
        simpl. rewrite Eb. simpl. split; [now rewrite J2|]. split; [exact J3|]. split; [now rewrite J5|].
        split; [exact J6|]. intros _. rewrite J2. reflexivity.
  - inversion H; subst; clear H. exists true.
    split; [reflexivity|]. split; [split; [exact Hop|split; [exact Herr|exact Hlo]]|].
    simpl. rewrite Eb. repeat split; auto.
Qed.

(* Close on a stack of open layers reaches the stream exactly once and closes every layer *)
Lemma stack_close_open b ls : forall r e ls' n,
  inv ls r -> stack_close b ls = (e, ls', n) ->
  e = b /\ n = 1 /\ length ls' = length ls /\ forallb lclosed ls' = true.
Proof.
  induction ls as [|l lo IH]; intros r e ls' n Hinv H; simpl in H.
  - inversion H; subst. repeat split.
  - destruct Hinv as (Hop & _ & Hlo). rewrite Hop in H.
    destruct (stack_close b lo) as [[e0 lo0] n0] eqn:E. inversion H; subst; clear H.
    destruct (IH _ _ _ _ Hlo eq_refl) as (H1 & H2 & H3 & H4). simpl. rewrite H3, H4. repeat split; auto.
Qed.

(* ---------- after Close: dead stacks ---------- *)
Fixpoint dead (ls : list layer) (r : rstate) : Prop :=
  match ls with
  | [] => exists t, r = Dead t
  | l :: lo => if lclosed l then True else lbuf l = [] /\ dead lo r
  end.

Lemma stack_read_dead ls : forall k r c oe ls' r',
  dead ls r -> stack_read k ls r = ((c, oe), ls', r') ->
  c = [] /\ (k <> 0 -> oe <> None) /\ dead ls' r' /\ map lclosed ls' = map lclosed ls /\ r' = r.
Proof.
  induction ls as [|l lo IH]; intros k r c oe ls' r' Hd H.
  - destruct Hd as [t ->]. simpl in H. inversion H; subst. simpl.
    split; [reflexivity|]. split; [discriminate|]. split; [now exists t|]. split; reflexivity.
  - simpl in Hd. simpl in H. destruct (lclosed l) eqn:Hc.
    + inversion H; subst; clear H. simpl. rewrite Hc.
      split; [reflexivity|]. split; [discriminate|]. split; [exact I|]. split; reflexivity.
    + destruct Hd as [Eb Hlo]. rewrite Eb in H.
      destruct (Nat.eqb k 0) eqn:Hk0.
      * inversion H; subst; clear H. simpl. rewrite Hc.
        split; [reflexivity|]. split; [apply Nat.eqb_eq in Hk0; intros; contradiction|].
        split; [split; [reflexivity|exact Hlo]|]. split; reflexivity.
      * destruct (lerr l) as [e0|] eqn:Ee.
        -- inversion H; subst; clear H. simpl. rewrite Hc.
           split; [reflexivity|]. split; [discriminate|]. split; [split; [reflexivity|exact Hlo]|]. split; reflexivity.
        -- destruct (bufsize <=? k) eqn:Hbig.
           ++ destruct (stack_read k lo r) as [[[c0 oe0] lo0] r0] eqn:E. inversion H; subst; clear H.
              destruct (IH _ _ _ _ _ _ Hlo E) as (I1 & I2 & I3 & I4 & I5).
              simpl. rewrite Hc, I4. subst. split; [reflexivity|]. split; [exact I2|].
              split; [split; [reflexivity|exact I3]|]. split; reflexivity.
           ++ destruct (stack_read bufsize lo r) as [[[c0 oe0] lo0] r0] eqn:E.
              destruct (IH _ _ _ _ _ _ Hlo E) as (I1 & I2 & I3 & I4 & I5). subst c0.
              inversion H; subst; clear H. simpl. rewrite Hc, I4.
              split; [reflexivity|].
              split; [intros _; apply I2; pose proof bufsize_pos; lia|].
              split; [split; [reflexivity|exact I3]|]. split; reflexivity.
Qed.

Lemma has_content_dead lo r o ls' r' :
  dead lo r -> has_content (fresh_layer :: lo) r = (o, ls', r') ->
  o = Ok false /\ dead ls' r' /\ r' = r /\ exists l0 lo0, ls' = l0 :: lo0 /\ map lclosed lo0 = map lclosed lo.
Proof.
  intros Hd H. unfold has_content in H. simpl in H.
  pose proof max_empty_reads_pos as Hp. destruct max_empty_reads as [|i] eqn:Ei; [lia|].
  simpl in H. destruct (stack_read bufsize lo r) as [[[c0 oe0] lo0] r0] eqn:E.
  destruct (stack_read_dead _ _ _ _ _ _ _ Hd E) as (I1 & I2 & I3 & I4 & I5). subst c0.
  destruct oe0 as [e0|]; [|exfalso; apply I2; [pose proof bufsize_pos; lia|reflexivity]].
  inversion H; subst; clear H.
  split; [reflexivity|]. split; [simpl; split; [reflexivity|exact I3]|]. split; [reflexivity|].
  exists fresh_layer, lo0. split; [reflexivity|exact I4].
Qed.

Lemma stack_close_dead b ls : forall r e ls' n,
  existsb lclosed ls = true -> stack_close b ls = (e, ls', n) ->
  e = Some EClosed /\ n = 0 /\ existsb lclosed ls' = true /\ (dead ls r -> dead ls' r).
Proof.
  induction ls as [|l lo IH]; intros r e ls' n Hex H; simpl in *; [discriminate|].
  destruct (lclosed l) eqn:Hc.
  - inversion H; subst; clear H. simpl. rewrite Hc. repeat split; auto.
  - simpl in Hex. destruct (stack_close b lo) as [[e0 lo0] n0] eqn:E. inversion H; subst; clear H.
    destruct (IH r _ _ _ Hex eq_refl) as (H1 & H2 & H3 & H4). simpl. repeat split; auto.
Qed.

Lemma stack_close_any_dead b ls : forall r e ls' n,
  (exists t, r = Dead t) -> stack_close b ls = (e, ls', n) -> dead ls' r.
Proof.
  induction ls as [|l lo IH]; intros r e ls' n Hr H; simpl in H.
  - inversion H; subst. exact Hr.
  - destruct (lclosed l) eqn:Hc.
    + inversion H; subst; clear H. simpl. now rewrite Hc.
    + destruct (stack_close b lo) as [[e0 lo0] n0] eqn:E. inversion H; subst; clear H. simpl. exact I.
Qed.

(* reads never revive a dead script *)
Lemma stack_read_deadr ls : forall k t y ls' r', stack_read k ls (Dead t) = (y, ls', r') -> r' = Dead t.
Proof.
  induction ls as [|l lo IH]; intros k t y ls' r' H; simpl in H.
  - inversion H; reflexivity.
  - destruct (lclosed l); [inversion H; reflexivity|].
    destruct (Nat.eqb k 0).
    + destruct (lbuf l); inversion H; reflexivity.
    + destruct (lbuf l); [|inversion H; reflexivity].
      destruct (lerr l); [inversion H; reflexivity|].
      destruct (bufsize <=? k).
      * destruct (stack_read k lo (Dead t)) as [[[c0 oe0] lo0] r1] eqn:E. inversion H; subst. eapply IH; eauto.
      * destruct (stack_read bufsize lo (Dead t)) as [[[c0 oe0] lo0] r1] eqn:E.
        destruct c0; inversion H; subst; eapply IH; eauto.
Qed.

Lemma fill_loop_deadr i : forall lo t x lo' r', fill_loop i lo (Dead t) = (x, lo', r') -> r' = Dead t.
Proof.
  induction i as [|i IH]; intros lo t x lo' r' H; simpl in H.
  - inversion H; reflexivity.
  - destruct (stack_read bufsize lo (Dead t)) as [[[c0 oe0] lo0] r0] eqn:E.
    apply stack_read_deadr in E. subst r0.
    destruct oe0; [inversion H; reflexivity|].
    destruct c0; [eapply IH; eauto|inversion H; reflexivity].
Qed.

Lemma has_content_deadr ls t o ls' r' : has_content ls (Dead t) = (o, ls', r') -> r' = Dead t.
Proof.
  unfold has_content. destruct ls as [|l lo]; [intros H; inversion H; reflexivity|].
  destruct (lclosed l); [intros H; inversion H; reflexivity|].
  destruct (lbuf l); [|intros H; inversion H; reflexivity].
  destruct (lerr l); [intros H; inversion H; reflexivity|].
  destruct (fill_loop max_empty_reads lo (Dead t)) as [[[c0 oe0] lo0] r0] eqn:E.
  apply fill_loop_deadr in E. subst r0. destruct c0; intros H; inversion H; reflexivity.
Qed.

(* ---------- histories: the model's state against the caller's view ---------- *)
Definition R (c : cfg) (term : err) (chk : bool) (s : st) (h : hs) : Prop :=
  s_body s = negb (no_body c h) /\
  s_stream s = negb (c_nil c) /\
  (h_wrapped h = false -> s_ls s = []) /\
  (h_wrapped h = true -> c_nil c = false -> s_ls s <> []) /\
  (c_nil c = true -> s_r s = Dead EOF) /\
  s_closes s = h_raw h + (if h_closed h && negb (c_nil c) then 1 else 0) /\
  (chk = true -> rstall_ok max_empty_reads (s_r s) = true) /\
  (h_closed h = true -> h_wrapped h = true) /\
  (if h_closed h
   then dead (s_ls s) (s_r s) /\ (c_nil c = false -> existsb lclosed (s_ls s) = true)
   else inv (s_ls s) (s_r s) /\ rem (s_ls s) (s_r s) = h_rest h /\ script_term (s_r s) = term).

Lemma length_zero_nil {A} (l : list A) : length l = 0 -> l = [].
Proof. destruct l; [reflexivity|discriminate]. Qed.

Lemma has_prefix_app_r (a b : bytes) : has_prefix a (a ++ b) = true.
Proof. apply has_prefix_app. Qed.

Lemma skipn_app_exact {A} (a b : list A) : skipn (length a) (a ++ b) = b.
Proof. induction a; simpl; auto. Qed.

Lemma err_eqb_refl e : err_eqb e e = true.
Proof. destruct e; simpl; auto using Nat.eqb_refl. Qed.

Lemma opt_err_eqb_refl (o : option err) : opt_eqb err_eqb o o = true.
Proof. destruct o; simpl; auto using err_eqb_refl. Qed.

Lemma step_has c term chk s h x s' :
  R c term chk s h -> has_body c s = (x, s') ->
  let h' := mkHs (h_rest h) (h_wrapped h || probing c) (h_closed h) (h_raw h) in
  R c term chk s' h' /\
    forall closes ops outs, hist_ok chk c term closes h' ops outs = true ->
                            hist_ok chk c term closes h (OpHas :: ops) (x :: outs) = true.
Proof.
  destruct h as [rest w cl raw]. intros HR H. unfold has_body in H.
  cbn [h_rest h_wrapped h_closed h_raw].
  destruct (0 <? c_cl c)%Z eqn:Hcl.
  - inversion H; subst; clear H.
    assert (Hp : probing c = false) by (unfold probing; now rewrite Hcl).
    rewrite Hp, orb_false_r. split; [exact HR|].
    intros closes ops outs Hh. simpl. unfold expected_answer. rewrite Hcl, Hp, orb_false_r. simpl.
    rewrite orb_true_r. exact Hh.
  - destruct (c_hdr c) eqn:Hh.
    + inversion H; subst; clear H.
      assert (Hp : probing c = false) by (unfold probing; rewrite Hh; apply andb_false_r).
      rewrite Hp, orb_false_r. split; [exact HR|].
      intros closes ops outs Hk. simpl. unfold expected_answer. rewrite Hcl, Hh, Hp, orb_false_r. simpl.
      rewrite orb_true_r. exact Hk.
    + assert (Hp : probing c = true) by (unfold probing; now rewrite Hcl, Hh).
      rewrite Hp, orb_true_r.
      destruct HR as (R1 & R2 & R3 & R4 & R5 & R6 & R7 & R8 & R9). cbn [h_rest h_wrapped h_closed h_raw] in *.
      destruct (s_body s) eqn:Hb; cbn [negb] in H.
      * (* a body is there: push a layer and look *)
        destruct (has_content (fresh_layer :: s_ls s) (s_r s)) as [[o ls'] r'] eqn:E.
        inversion H; subst; clear H.
        destruct cl.
        -- destruct R9 as [Hd Hex].
           destruct (has_content_dead _ _ _ _ _ Hd E) as (-> & Hd' & -> & l0 & lo0 & -> & Hm).
           split.
           { unfold R; simpl. unfold no_body; simpl. rewrite andb_false_r. simpl.
             repeat (split; try assumption); try discriminate.
             - intros Hn. simpl.
               assert (existsb lclosed lo0 = existsb lclosed (s_ls s)) as ->.
               { clear -Hm. revert lo0 Hm. induction (s_ls s) as [|a q IH]; intros [|b p] Hm; simpl in *; try discriminate; auto.
                 inversion Hm. rewrite H0. f_equal. now apply IH. }
               rewrite (Hex Hn). apply orb_true_r. }
           intros closes ops outs Hk. simpl. unfold expected_answer. rewrite Hcl, Hh. simpl.
           rewrite ?Hp, ?orb_true_r. simpl. exact Hk.
        -- destruct R9 as (Hi & Hrem & Ht).
           assert (Hi' : inv (fresh_layer :: s_ls s) (s_r s)) by (simpl; repeat split; auto; discriminate).
           destruct (has_content_spec _ _ _ _ _ _ Hi' E) as (b & -> & J1 & J2 & J3 & J4 & J5 & J6).
           split.
           { unfold R; simpl. unfold no_body; simpl. rewrite andb_false_r. simpl.
             repeat (split; try assumption); try discriminate.
             - intros _ _ Hn. rewrite Hn in J4. discriminate.
             - intros Hn. specialize (R5 Hn). rewrite R5 in E. now apply has_content_deadr in E.
             - intros Hc. apply J5; [apply max_empty_reads_pos|auto].
             - rewrite J2. simpl. exact Hrem.
             - now rewrite J3. }
           intros closes ops outs Hk. simpl. unfold expected_answer. rewrite Hcl, Hh. simpl.
           rewrite Hp, orb_true_r.
           apply andb_true_iff; split; [|exact Hk].
           destruct chk; [|reflexivity]. simpl. rewrite (J6 (R7 eq_refl)). simpl. rewrite Hrem.
           apply eqb_reflx.
      * (* r.Body == nil: a typed-nil wrapper is stored *)
        inversion H; subst; clear H.
        assert (Hnb : c_nil c = true /\ w = false).
        { unfold no_body in R1. simpl in R1. destruct (c_nil c), w; simpl in R1; try discriminate; auto. }
        destruct Hnb as [Hn ->]. destruct cl; [specialize (R8 eq_refl); discriminate|].
        destruct R9 as (Hi & Hrem & Ht). rewrite (R5 Hn) in *. rewrite (R3 eq_refl) in *. simpl in *.
        split.
        { unfold R; simpl. unfold no_body; simpl. rewrite Hn. simpl.
          repeat (split; try assumption); try discriminate; auto. all: try (intros _ Hc; rewrite Hn in Hc; discriminate). }
        intros closes ops outs Hk. simpl. unfold expected_answer. rewrite Hcl, Hh. simpl. subst rest. simpl.
        rewrite ?Hp, ?orb_true_r. simpl. exact Hk.
Qed.

Definition read_hs (h : hs) (x : out) : hs :=
  match x with
  | ORead d _ => if h_closed h then h
                 else mkHs (skipn (length d) (h_rest h)) (h_wrapped h) false (h_raw h)
  | _ => h
  end.

Lemma step_read c term chk s h k x s' :
  R c term chk s h -> do_read k s = (x, s') ->
  let h' := read_hs h x in
  R c term chk s' h' /\
    forall closes ops outs, hist_ok chk c term closes h' ops outs = true ->
                            hist_ok chk c term closes h (OpRead k :: ops) (x :: outs) = true.
Proof.
  destruct h as [rest w cl raw]. intros HR H. unfold do_read in H.
  destruct HR as (R1 & R2 & R3 & R4 & R5 & R6 & R7 & R8 & R9). cbn [h_rest h_wrapped h_closed h_raw] in *.
  destruct (s_body s) eqn:Hb; cbn [negb] in H.
  - assert (Hnb : no_body c (mkHs rest w cl raw) = false) by (destruct (no_body c _); [discriminate|reflexivity]).
    destruct (stack_read k (s_ls s) (s_r s)) as [[[d oe] ls'] r'] eqn:E. inversion H; subst; clear H.
    destruct cl.
    + destruct R9 as [Hd Hex].
      destruct (stack_read_dead _ _ _ _ _ _ _ Hd E) as (-> & I2 & I3 & I4 & ->).
      unfold read_hs; cbn [h_closed]. split.
      { unfold R; cbn [s_body s_stream s_ls s_r s_closes h_rest h_wrapped h_closed h_raw].
        rewrite Hnb. repeat (split; try assumption).
        - intros Hw. specialize (R3 Hw). rewrite R3 in I4. destruct ls'; [reflexivity|discriminate].
        - intros Hw Hn Hl. subst ls'. specialize (R4 Hw Hn). destruct (s_ls s); [now apply R4|discriminate].
        - intros Hn. specialize (Hex Hn). clear -I4 Hex. revert ls' I4.
          induction (s_ls s) as [|a q IH]; intros [|b p] Hm; simpl in *; try discriminate.
          inversion Hm. rewrite H0. destruct (lclosed a); [reflexivity|]. simpl in *. now apply IH. }
      intros closes ops outs Hk. cbn [hist_ok]. rewrite Hnb. cbn [h_closed is_nil andb].
      rewrite Hk, andb_true_r. destruct (Nat.eqb k 0) eqn:Hk0; [reflexivity|]. simpl.
      apply Nat.eqb_neq in Hk0. specialize (I2 Hk0). destruct oe; [reflexivity|contradiction].
    + destruct R9 as (Hi & Hrem & Ht).
      destruct (stack_read_spec _ _ _ _ _ _ _ Hi E) as (I1 & I2 & I3 & I4 & I5 & I6 & I7).
      unfold read_hs; cbn [h_closed h_rest h_wrapped h_raw].
      assert (Hsk : skipn (length d) rest = rem ls' r') by (rewrite <- Hrem, I2; apply skipn_app_exact).
      rewrite Hsk. split.
      { unfold R; cbn [s_body s_stream s_ls s_r s_closes h_rest h_wrapped h_closed h_raw].
        unfold no_body in *. cbn [h_wrapped] in *. rewrite Hnb.
        repeat (split; try assumption).
        - intros Hw. specialize (R3 Hw). rewrite R3 in I6. now apply length_zero_nil.
        - intros Hw Hn Hl. subst ls'. specialize (R4 Hw Hn). destruct (s_ls s); [now apply R4|discriminate].
        - intros Hn. specialize (R5 Hn). rewrite R5 in E. now apply stack_read_deadr in E.
        - intros Hc. apply I7; [apply max_empty_reads_pos|auto].
        - now rewrite I3. }
      intros closes ops outs Hk. cbn [hist_ok]. rewrite Hnb. cbn [h_closed h_rest h_wrapped h_raw].
      rewrite <- Hrem, I2, has_prefix_app, skipn_app_exact, Hk, andb_true_r. simpl.
      apply andb_true_iff; split; [now apply Nat.leb_le|].
      destruct oe as [e|]; [|reflexivity].
      destruct (I5 e eq_refl) as [H1 H2]. rewrite H2, app_nil_r, Nat.eqb_refl, andb_true_r.
      subst e. rewrite <- Ht. apply err_eqb_refl.
  - inversion H; subst; clear H.
    assert (Hnb : no_body c (mkHs rest w cl raw) = true) by (destruct (no_body c _); [reflexivity|discriminate]).
    unfold read_hs. split.
    { unfold R; cbn [h_rest h_wrapped h_closed h_raw]. rewrite Hnb. repeat (split; try assumption). }
    intros closes ops outs Hk. cbn [hist_ok]. rewrite Hnb. exact Hk.
Qed.

Lemma forallb_existsb_closed ls : ls <> [] -> forallb lclosed ls = true -> existsb lclosed ls = true.
Proof. destruct ls as [|l lo]; [contradiction|]. simpl. intros _ H. apply andb_true_iff in H as [-> _]. reflexivity. Qed.

Lemma forallb_closed_dead ls r : ls <> [] -> forallb lclosed ls = true -> dead ls r.
Proof. destruct ls as [|l lo]; [contradiction|]. simpl. intros _ H. apply andb_true_iff in H as [-> _]. exact I. Qed.

Lemma step_close c term chk s h x s' :
  R c term chk s h -> do_close c s = (x, s') ->
  exists h', R c term chk s' h' /\
    forall closes ops outs, hist_ok chk c term closes h' ops outs = true ->
                            hist_ok chk c term closes h (OpClose :: ops) (x :: outs) = true.
Proof.
  destruct h as [rest w cl raw]. intros HR H. unfold do_close in H.
  destruct HR as (R1 & R2 & R3 & R4 & R5 & R6 & R7 & R8 & R9). cbn [h_rest h_wrapped h_closed h_raw] in *.
  destruct (s_body s) eqn:Hb; cbn [negb] in H.
  - assert (Hnb : no_body c (mkHs rest w cl raw) = false) by (destruct (no_body c _); [discriminate|reflexivity]).
    destruct (stack_close (if s_stream s then c_cerr c else None) (s_ls s)) as [[e ls'] n] eqn:E.
    inversion H; subst; clear H.
    destruct (c_nil c) eqn:Hn.
    + (* typed-nil bottom: nothing to close, nothing counted *)
      assert (Hw : w = true). { unfold no_body in Hnb. rewrite Hn in Hnb. destruct w; [reflexivity|discriminate]. }
      subst w. simpl in R2. rewrite R2 in *.
      exists (mkHs rest true true raw). split.
      { unfold R; cbn [s_body s_stream s_ls s_r s_closes h_rest h_wrapped h_closed h_raw].
        unfold no_body. rewrite Hn. cbn [h_wrapped negb andb].
        repeat (split; try assumption); try discriminate; auto.
        - destruct cl; simpl in R6; simpl; exact R6.
        - eapply stack_close_any_dead; [|exact E]. exists EOF. now apply R5. }
      intros closes ops outs Hk. cbn [hist_ok]. rewrite Hnb, Hn. exact Hk.
    + simpl in R2. rewrite R2 in *.
      destruct w.
      * destruct cl.
        -- (* closing again *)
           destruct R9 as [Hd Hex].
           destruct (stack_close_dead _ _ (s_r s) _ _ _ (Hex eq_refl) E) as (-> & -> & H3 & H4).
           exists (mkHs rest true true raw). split.
           { unfold R; cbn [s_body s_stream s_ls s_r s_closes h_rest h_wrapped h_closed h_raw].
             unfold no_body; rewrite Hn; cbn [andb negb]. repeat (split; try assumption); try discriminate; auto.
             - intros _ _ Hl. subst ls'. discriminate.
             - rewrite R6. simpl. lia. }
           intros closes ops outs Hk. cbn [hist_ok]. rewrite Hnb, Hn. cbn [h_wrapped h_closed negb]. simpl. exact Hk.
        -- (* the first Close of the replaced body *)
           destruct R9 as (Hi & Hrem & Ht).
           destruct (stack_close_open _ _ _ _ _ _ Hi E) as (-> & -> & H3 & H4).
           assert (Hne : ls' <> []).
           { intros ->. specialize (R4 eq_refl eq_refl). destruct (s_ls s); [now apply R4|discriminate]. }
           exists (mkHs rest true true raw). split.
           { unfold R; cbn [s_body s_stream s_ls s_r s_closes h_rest h_wrapped h_closed h_raw].
             unfold no_body; rewrite Hn; cbn [andb negb]. repeat (split; try assumption); try discriminate; auto.
             - rewrite R6. simpl. lia.
             - now apply forallb_closed_dead.
             - intros _. now apply forallb_existsb_closed. }
           intros closes ops outs Hk. cbn [hist_ok]. rewrite Hnb, Hn. cbn [h_wrapped h_closed negb].
           rewrite opt_err_eqb_refl. exact Hk.
      * (* the caller closes the original stream itself *)
        destruct cl; [specialize (R8 eq_refl); discriminate|].
        rewrite (R3 eq_refl) in *. simpl in E. inversion E; subst; clear E.
        exists (mkHs rest false false (S raw)). split.
        { unfold R; cbn [s_body s_stream s_ls s_r s_closes h_rest h_wrapped h_closed h_raw].
          unfold no_body in *. rewrite Hn in *. cbn [andb negb].
          repeat (split; try assumption); try discriminate; auto.
          rewrite R6. simpl. lia. }
        intros closes ops outs Hk. cbn [hist_ok]. rewrite Hnb, Hn. cbn [h_wrapped negb].
        rewrite opt_err_eqb_refl. exact Hk.
  - inversion H; subst; clear H.
    assert (Hnb : no_body c (mkHs rest w cl raw) = true) by (destruct (no_body c _); [reflexivity|discriminate]).
    exists (mkHs rest w cl raw). split.
    { unfold R; cbn [h_rest h_wrapped h_closed h_raw]. rewrite Hnb. repeat (split; try assumption). }
    intros closes ops outs Hk. cbn [hist_ok]. rewrite Hnb. exact Hk.
Qed.

(* ---------- every history ---------- *)
Lemma step_ok c term chk o s h x s' :
  R c term chk s h -> step c o s = (x, s') ->
  exists h', R c term chk s' h' /\
    forall closes ops outs, hist_ok chk c term closes h' ops outs = true ->
                            hist_ok chk c term closes h (o :: ops) (x :: outs) = true.
Proof.
  intros HR H. destruct o as [|k|]; simpl in H.
  - eexists. exact (step_has _ _ _ _ _ _ _ HR H).
  - eexists. exact (step_read _ _ _ _ _ _ _ _ HR H).
  - exact (step_close _ _ _ _ _ _ _ HR H).
Qed.

Lemma run_ok c term chk ops : forall s h, R c term chk s h ->
  hist_ok chk c term (s_closes (snd (run c ops s))) h ops (fst (run c ops s)) = true /\
  exists h', R c term chk (snd (run c ops s)) h'.
Proof.
  induction ops as [|o ops IH]; intros s h HR.
  - simpl. split; [|now exists h]. destruct HR as (_ & _ & _ & _ & _ & R6 & _). rewrite R6. apply Nat.eqb_refl.
  - simpl. destruct (step c o s) as [x s1] eqn:E.
    destruct (step_ok _ _ _ _ _ _ _ _ HR E) as (h1 & HR1 & Hs).
    destruct (IH s1 h1 HR1) as [IH1 IH2].
    destruct (run c ops s1) as [xs s2] eqn:E2. simpl in *. split; [now apply Hs|exact IH2].
Qed.

Lemma init_R c steps :
  R c (init_term c steps) (stall_ok max_empty_reads steps) (init c steps) (init_hs c steps).
Proof.
  unfold R, init, init_hs, init_term, no_body. destruct (c_nil c); simpl.
  - repeat split; auto; try discriminate.
  - repeat split; auto; try discriminate.
Qed.

(* the master statement: every history of HasBody / Read k / Close calls on every request over
   every scripted stream is one the property allows *)
Theorem history_ok_run c steps ops :
  history_ok c steps ops (fst (run c ops (init c steps))) (s_closes (snd (run c ops (init c steps)))) = true.
Proof. unfold history_ok. apply run_ok. apply init_R. Qed.

(* ---------- the clauses, read off the master statement ---------- *)
Lemma hist_ok_delivers chk c term closes ops : forall h outs,
  hist_ok chk c term closes h ops outs = true -> h_closed h = false ->
  delivers (h_rest h) term (reads_before_close (h_wrapped h) c ops outs) = true.
Proof.
  induction ops as [|o ops IH]; intros [rest w cl raw] outs H Hc; simpl in Hc; subst cl.
  - destruct outs; reflexivity.
  - destruct outs as [|x outs]; [destruct o; discriminate|].
    destruct o as [|k|]; cbn [hist_ok] in H.
    + destruct x; try discriminate. apply andb_true_iff in H as [_ H].
      cbn [reads_before_close h_wrapped h_rest]. exact (IH _ _ H eq_refl).
    + destruct (no_body c _) eqn:Hnb.
      * destruct x; try discriminate. cbn [reads_before_close h_wrapped h_rest]. exact (IH _ _ H eq_refl).
      * destruct x; try discriminate. cbn [h_closed h_rest h_wrapped h_raw] in H.
        apply andb_true_iff in H as [H H4]. apply andb_true_iff in H as [H H3]. apply andb_true_iff in H as [H1 H2].
        cbn [reads_before_close h_wrapped h_rest delivers]. rewrite H1, H3. simpl. exact (IH _ _ H4 eq_refl).
    + destruct (no_body c _) eqn:Hnb.
      * destruct x; try discriminate. unfold no_body in Hnb. cbn [h_wrapped] in Hnb.
        apply andb_true_iff in Hnb as [_ Hw]. destruct w; [discriminate|].
        cbn [reads_before_close h_wrapped h_rest]. exact (IH _ _ H eq_refl).
      * destruct x; try discriminate. cbn [h_closed h_rest h_wrapped h_raw] in H.
        cbn [reads_before_close h_wrapped h_rest].
        destruct w; [reflexivity|]. cbn [negb] in H.
        destruct (c_nil c) eqn:Hn; [unfold no_body in Hnb; rewrite Hn in Hnb; discriminate|].
        apply andb_true_iff in H as [_ H]. exact (IH _ _ H eq_refl).
Qed.

Lemma hist_ok_no_panic chk c term closes ops : forall h outs,
  hist_ok chk c term closes h ops outs = true -> no_panic outs = true.
Proof.
  induction ops as [|o ops IH]; intros h outs H.
  - destruct outs; [reflexivity|discriminate].
  - destruct outs as [|x outs]; [destruct o; discriminate|].
    destruct o as [|k|]; cbn [hist_ok] in H.
    + destruct x; try discriminate. apply andb_true_iff in H as [_ H]. simpl. eauto.
    + destruct (no_body c h).
      * destruct x; try discriminate. simpl. eauto.
      * destruct x; try discriminate. simpl. destruct (h_closed h).
        -- apply andb_true_iff in H as [_ H]. eauto.
        -- apply andb_true_iff in H as [_ H]. eauto.
    + destruct (no_body c h).
      * destruct x; try discriminate. simpl. eauto.
      * destruct x; try discriminate. simpl. destruct (c_nil c); [eauto|].
        destruct (negb (h_wrapped h)); [apply andb_true_iff in H as [_ H]; eauto|].
        destruct (h_closed h); apply andb_true_iff in H as [_ H]; eauto.
Qed.

Lemma hist_ok_closes chk c term closes ops : forall h outs,
  hist_ok chk c term closes h ops outs = true -> (h_closed h = true -> h_wrapped h = true) ->
  closes = closes_expected c (h_wrapped h) (h_closed h) (h_raw h) ops.
Proof.
  induction ops as [|o ops IH]; intros [rest w cl raw] outs H Hcw; cbn [h_wrapped h_closed h_raw] in *.
  - destruct outs; [|discriminate]. simpl in H. apply Nat.eqb_eq in H. exact H.
  - destruct outs as [|x outs]; [destruct o; discriminate|].
    destruct o as [|k|]; cbn [hist_ok closes_expected] in *.
    + destruct x; try discriminate. apply andb_true_iff in H as [_ H].
      apply (IH _ _ H). cbn [h_wrapped h_closed]. intros Hc. rewrite (Hcw Hc). reflexivity.
    + destruct (no_body c _) eqn:Hnb.
      * destruct x; try discriminate. exact (IH _ _ H Hcw).
      * destruct x; try discriminate. cbn [h_closed h_rest h_wrapped h_raw] in H. destruct cl.
        -- apply andb_true_iff in H as [_ H]. exact (IH _ _ H Hcw).
        -- apply andb_true_iff in H as [_ H]. apply (IH _ _ H). cbn [h_closed]. discriminate.
    + unfold no_body in H. cbn [h_closed h_rest h_wrapped h_raw] in H.
      destruct (c_nil c && negb w) eqn:Hnb.
      * destruct x; try discriminate. exact (IH _ _ H Hcw).
      * destruct x; try discriminate. destruct (c_nil c) eqn:Hn.
        -- apply (IH _ _ H). reflexivity.
        -- destruct w; cbn [negb] in *.
           ++ destruct cl; apply andb_true_iff in H as [_ H]; apply (IH _ _ H); reflexivity.
           ++ apply andb_true_iff in H as [_ H]. apply (IH _ _ H). cbn [h_closed]. discriminate.
Qed.

Lemma hist_ok_after_close chk c term closes ops : forall h outs,
  hist_ok chk c term closes h ops outs = true -> (h_closed h = true -> h_wrapped h = true) ->
  forallb fails (reads_after_close c (h_wrapped h) (h_closed h) ops outs) = true.
Proof.
  induction ops as [|o ops IH]; intros [rest w cl raw] outs H Hcw; cbn [h_wrapped h_closed h_raw] in *.
  - destruct outs; reflexivity.
  - destruct outs as [|x outs]; [destruct o; reflexivity|].
    destruct o as [|k|]; cbn [hist_ok reads_after_close] in *.
    + destruct x; try discriminate. apply andb_true_iff in H as [_ H].
      apply (IH _ _ H). cbn [h_wrapped h_closed]. intros Hc. rewrite (Hcw Hc). reflexivity.
    + destruct (no_body c _) eqn:Hnb.
      * destruct x; try discriminate. exact (IH _ _ H Hcw).
      * destruct x; try discriminate. cbn [h_closed h_rest h_wrapped h_raw] in H. destruct cl.
        -- apply andb_true_iff in H as [H1 H]. rewrite forallb_app. cbn [forallb fails]. rewrite H1. simpl.
           exact (IH _ _ H Hcw).
        -- apply andb_true_iff in H as [_ H]. simpl. apply (IH _ _ H). cbn [h_closed]. discriminate.
    + unfold no_body in H. cbn [h_closed h_rest h_wrapped h_raw] in H.
      destruct (c_nil c && negb w) eqn:Hnb.
      * destruct x; try discriminate. exact (IH _ _ H Hcw).
      * destruct x; try discriminate. destruct (c_nil c) eqn:Hn.
        -- cbn [negb andb]. apply (IH _ _ H). reflexivity.
        -- destruct w; cbn [negb andb] in *.
           ++ destruct cl; apply andb_true_iff in H as [_ H]; apply (IH _ _ H); reflexivity.
           ++ apply andb_true_iff in H as [_ H]. specialize (IH _ _ H). cbn [h_wrapped h_closed] in IH.
              destruct cl; [specialize (Hcw eq_refl); discriminate|]. apply IH. discriminate.
Qed.

Section Clauses.
  Variables (c : cfg) (steps : list rstep) (ops : list op).
  Let outs := fst (run c ops (init c steps)).
  Let closes := s_closes (snd (run c ops (init c steps))).

  Lemma stream_preserved :
    delivers (if c_nil c then [] else steps_bytes steps) (init_term c steps)
             (reads_before_close false c ops outs) = true.
  Proof. exact (hist_ok_delivers _ _ _ _ _ _ _ (history_ok_run c steps ops) eq_refl). Qed.

  Lemma total : no_panic outs = true.
  Proof. exact (hist_ok_no_panic _ _ _ _ _ _ _ (history_ok_run c steps ops)). Qed.

  Lemma close_once : closes = closes_expected c false false 0 ops.
  Proof. apply (hist_ok_closes _ _ _ _ _ _ _ (history_ok_run c steps ops)). discriminate. Qed.

  Lemma read_after_close_fails : forallb fails (reads_after_close c false false ops outs) = true.
  Proof. apply (hist_ok_after_close _ _ _ _ _ _ _ (history_ok_run c steps ops)). discriminate. Qed.
End Clauses.

(* ---------- the answer of HasBody ---------- *)
Lemma has_answer c term s h x s' :
  R c term true s h -> has_body c s = (x, s') ->
  x = OHas (expected_answer c h) /\
  R c term true s' (mkHs (h_rest h) (h_wrapped h || probing c) (h_closed h) (h_raw h)).
Proof.
  intros HR H. destruct (step_has _ _ _ _ _ _ _ HR H) as [HR' Hs]. split; [|exact HR'].
  specialize (Hs (h_raw h + (if h_closed h && negb (c_nil c) then 1 else 0)) [] []).
  cbn [hist_ok h_raw h_closed] in Hs. rewrite Nat.eqb_refl in Hs. specialize (Hs eq_refl).
  destruct x; try discriminate. simpl in Hs. rewrite andb_true_r in Hs.
  apply eqb_prop in Hs. now subst.
Qed.

Lemma answer_fresh c steps :
  stall_ok max_empty_reads steps = true ->
  fst (has_body c (init c steps)) =
  OHas (if (0 <? c_cl c)%Z then true else if c_hdr c then false
        else negb (is_nil (if c_nil c then [] else steps_bytes steps))).
Proof.
  intros Hs. pose proof (init_R c steps) as HR. rewrite Hs in HR.
  destruct (has_body c (init c steps)) as [x s'] eqn:E.
  destruct (has_answer _ _ _ _ _ _ HR E) as [-> _]. reflexivity.
Qed.

Lemma idempotent c steps ops :
  stall_ok max_empty_reads steps = true ->
  let s := snd (run c ops (init c steps)) in
  fst (has_body c (snd (has_body c s))) = fst (has_body c s).
Proof.
  intros Hs s. pose proof (init_R c steps) as HR. rewrite Hs in HR.
  destruct (run_ok c _ _ ops _ _ HR) as [_ [h Hh]]. fold s in Hh.
  destruct (has_body c s) as [x s1] eqn:E1. simpl.
  destruct (has_answer _ _ _ _ _ _ Hh E1) as [-> HR1].
  destruct (has_body c s1) as [y s2] eqn:E2. simpl.
  destruct (has_answer _ _ _ _ _ _ HR1 E2) as [-> _]. reflexivity.
Qed.

Lemma closes_expected_wrapped c ops : forall cl raw, c_nil c = false ->
  closes_expected c true cl raw ops = raw + (if cl || existsb is_close ops then 1 else 0).
Proof.
  induction ops as [|o ops IH]; intros cl raw Hn; simpl.
  - rewrite Hn, orb_false_r. simpl. now rewrite andb_true_r.
  - destruct o; simpl.
    + now apply IH.
    + now apply IH.
    + rewrite Hn. simpl. rewrite IH by exact Hn. simpl. now rewrite orb_true_r.
Qed.

Lemma close_once_probed c steps ops :
  probing c = true -> c_nil c = false ->
  s_closes (snd (run c (OpHas :: ops) (init c steps))) = if existsb is_close ops then 1 else 0.
Proof.
  intros Hp Hn. rewrite close_once. cbn [closes_expected]. rewrite Hp. cbn [orb].
  now rewrite closes_expected_wrapped.
Qed.

(* ---------- progress: the wrappers add no empty reads of their own ---------- *)
Lemma stack_read_progress ls k r ls' r' :
  inv ls r -> 0 < k -> stack_read k ls r = (([], None), ls', r') -> lead_r r = S (lead_r r').
Proof.
  destruct ls as [|l lo]; intros Hinv Hk H.
  - simpl in H. destruct (sread k r) as [[c0 oe0] r0] eqn:E. inversion H; subst. eapply sread_empty; eauto.
  - destruct Hinv as (Hop & Herr & Hlo). simpl in H. rewrite Hop in H.
    assert (Hk0 : Nat.eqb k 0 = false) by (apply Nat.eqb_neq; lia). rewrite Hk0 in H.
    destruct (lbuf l) as [|b bs] eqn:Eb.
    + destruct (lerr l) as [e0|]; [discriminate|].
      destruct (bufsize <=? k) eqn:Hbig.
      * destruct (stack_read k lo r) as [[[c0 oe0] lo0] r0] eqn:E. inversion H; subst.
        apply Nat.leb_le in Hbig. eapply stack_read_empty; eauto.
      * destruct (stack_read bufsize lo r) as [[[c0 oe0] lo0] r0] eqn:E.
        destruct c0 as [|y c0].
        -- inversion H; subst. eapply stack_read_empty; eauto.
        -- inversion H. exfalso. eapply (firstn_nonempty k y c0); eauto.
    + inversion H. exfalso. eapply (firstn_nonempty k b bs); eauto.
Qed.

Lemma read_progress c steps ops k s' :
  let s := snd (run c ops (init c steps)) in
  0 < k -> do_read k s = (ORead [] None, s') -> lead_r (s_r s) = S (lead_r (s_r s')).
Proof.
  intros s Hk H. destruct (run_ok c _ _ ops _ _ (init_R c steps)) as [_ [h HR]]. fold s in HR.
  destruct HR as (_ & _ & _ & _ & _ & _ & _ & _ & R9).
  unfold do_read in H. destruct (s_body s); cbn [negb] in H; [|discriminate].
  destruct (stack_read k (s_ls s) (s_r s)) as [[[d oe] ls'] r'] eqn:E. inversion H; subst; clear H.
  cbn [s_r]. destruct (h_closed h).
  - destruct R9 as [Hd _]. destruct (stack_read_dead _ _ _ _ _ _ _ Hd E) as (_ & I2 & _).
    exfalso. apply I2; [lia|reflexivity].
  - destruct R9 as (Hi & _). eapply stack_read_progress; eauto.
Qed.

(* ---------- the hypotheses are satisfiable, the statements are not vacuous ---------- *)
Example ex_steps : list rstep := [([104; 105], None); ([], None); ([33], Some (EScript 7)); ([1], None)].
Example ex_stall : stall_ok max_empty_reads ex_steps = true.
Proof. vm_compute. reflexivity. Qed.
Example ex_probing : probing (mkCfg (-1) false false None) = true /\ c_nil (mkCfg (-1) false false None) = false.
Proof. split; reflexivity. Qed.
(* probe, read 1, probe again, read 5 four times, close, read 1, close: the three bytes arrive in
   order (one read is empty because the stream made a zero-length read), then the scripted error;
   one Close reaches the stream; afterwards reads fail *)
Example ex_history :
  run (mkCfg (-1) false false None)
      [OpHas; OpRead 1; OpHas; OpRead 5; OpRead 5; OpRead 5; OpRead 5; OpClose; OpRead 1; OpClose]
      (init (mkCfg (-1) false false None) ex_steps)
  = ([OHas true; ORead [104] None; OHas true; ORead [105] None; ORead [] None; ORead [33] None;
      ORead [] (Some (EScript 7)); OClose None; ORead [] (Some EUnexpectedEOF); OClose (Some EClosed)],
     mkSt true true [mkL [] None true; mkL [] None true] (Dead (EScript 7)) 1).
Proof. vm_compute. reflexivity. Qed.

(* ---------- reading on yields everything: the drain theorem ---------- *)
Definition empties_r (s : rstate) : nat := match s with Live l => empties l | Dead _ => 0 end.

Lemma sread_measure k s c oe s' :
  sread k s = ((c, oe), s') ->
  empties_r s' <= empties_r s /\ (0 < k -> c = [] -> oe = None -> empties_r s = S (empties_r s')).
Proof.
  destruct s as [l|t]; simpl.
  - destruct l as [|[ch ot] r]; simpl.
    + intros H; inversion H; subst; simpl. split; [lia|discriminate].
    + destruct (length ch <=? k) eqn:Hk; intros H; inversion H; subst; clear H.
      * destruct c, oe as [t|]; simpl; split; try lia; try discriminate; reflexivity.
      * apply Nat.leb_gt in Hk. destruct ch as [|x ch]; [simpl in Hk; lia|].
        assert (Hs : skipn k (x :: ch) <> []).
        { intros E. apply (f_equal (@length _)) in E. rewrite skipn_length in E. cbn [length] in E, Hk. lia. }
        split.
        -- cbn [empties_r empties]. destruct (skipn k (x :: ch)) as [|y q] eqn:Es; [contradiction|]. destruct ot; simpl; lia.
        -- intros Hk0 Hc. destruct k; [lia|]. simpl in Hc. discriminate.
  - intros H; inversion H; subst; simpl. split; [lia|discriminate].
Qed.

Lemma stack_read_measure ls : forall k r c oe ls' r',
  inv ls r -> stack_read k ls r = ((c, oe), ls', r') ->
  empties_r r' <= empties_r r /\ (0 < k -> c = [] -> oe = None -> empties_r r = S (empties_r r')).
Proof.
  induction ls as [|l lo IH]; intros k r c oe ls' r' Hinv H.
  - simpl in H. destruct (sread k r) as [[c0 oe0] r0] eqn:E. inversion H; subst; clear H.
    eapply sread_measure; eauto.
  - destruct Hinv as (Hop & Herr & Hlo). simpl in H. rewrite Hop in H.
    destruct (Nat.eqb k 0) eqn:Hk0.
    + apply Nat.eqb_eq in Hk0. destruct (lbuf l); inversion H; subst; split; lia.
    + apply Nat.eqb_neq in Hk0.
      destruct (lbuf l) as [|b bs] eqn:Eb.
      * destruct (lerr l) as [e0|] eqn:Ee; [inversion H; subst; split; [lia|discriminate]|].
        destruct (bufsize <=? k) eqn:Hbig.
        -- destruct (stack_read k lo r) as [[[c0 oe0] lo0] r0] eqn:E. inversion H; subst; clear H.
           eapply IH; eauto.
        -- destruct (stack_read bufsize lo r) as [[[c0 oe0] lo0] r0] eqn:E.
           destruct (IH _ _ _ _ _ _ Hlo E) as [I1 I2].
           destruct c0 as [|y c0]; inversion H; subst; clear H.
           ++ split; [exact I1|]. intros _ _ Ho. apply I2; auto. apply bufsize_pos.
           ++ split; [exact I1|]. intros Hk Hc. exfalso. eapply (firstn_nonempty k y c0); eauto.
      * inversion H; subst; clear H. split; [lia|].
        intros Hk Hc. exfalso. eapply (firstn_nonempty k b bs); eauto.
Qed.

Lemma R_body c term chk s h : R c term chk s h -> c_nil c = false -> s_body s = true.
Proof. intros (R1 & _) Hn. rewrite R1. unfold no_body. now rewrite Hn. Qed.

Lemma drain_ok c term chk k : 0 < k -> c_nil c = false -> forall fuel s h,
  R c term chk s h -> h_closed h = false ->
  length (h_rest h) + empties_r (s_r s) < fuel ->
  drain fuel k s = (h_rest h, Some term).
Proof.
  intros Hk Hn. induction fuel as [|f IH]; intros s h HR Hc Hf; [lia|].
  cbn [drain]. destruct (do_read k s) as [x s'] eqn:E.
  pose proof (step_read _ _ _ _ _ _ _ _ HR E) as [HR' _].
  pose proof (R_body _ _ _ _ _ HR Hn) as Hb.
  destruct HR as (_ & _ & _ & _ & _ & _ & _ & _ & R9). rewrite Hc in R9. destruct R9 as (Hi & Hrem & Ht).
  unfold do_read in E. rewrite Hb in E. cbn [negb] in E.
  destruct (stack_read k (s_ls s) (s_r s)) as [[[d oe] ls'] r'] eqn:Es. inversion E; subst x s'; clear E.
  destruct (stack_read_spec _ _ _ _ _ _ _ Hi Es) as (I1 & I2 & I3 & I4 & I5 & I6 & I7).
  destruct (stack_read_measure _ _ _ _ _ _ _ Hi Es) as [M1 M2].
  unfold read_hs in HR'. rewrite Hc in HR'.
  assert (Hsk : skipn (length d) (h_rest h) = rem ls' r') by (rewrite <- Hrem, I2; apply skipn_app_exact).
  rewrite Hsk in HR'.
  destruct oe as [e|].
  - destruct (I5 e eq_refl) as [-> H2]. rewrite <- Hrem, I2, H2, app_nil_r, <- Ht. reflexivity.
  - rewrite (IH _ _ HR' eq_refl).
    + cbn [h_rest]. now rewrite <- Hrem, I2.
    + cbn [h_rest s_r]. rewrite <- Hrem, I2, app_length in Hf.
      destruct d as [|y d]; simpl in Hf |- *; [|lia].
      rewrite (M2 Hk eq_refl eq_refl) in Hf. lia.
Qed.

(* what a history without Close leaves owed *)
Lemma run_open c term chk : c_nil c = false -> forall ops s h,
  R c term chk s h -> h_closed h = false -> existsb is_close ops = false ->
  exists h', R c term chk (snd (run c ops s)) h' /\ h_closed h' = false /\
             h_rest h = read_bytes (reads_before_close (h_wrapped h) c ops (fst (run c ops s))) ++ h_rest h'.
Proof.
  intros Hn. induction ops as [|o ops IH]; intros s h HR Hc Hx.
  - exists h. simpl. auto.
  - simpl in Hx. apply orb_false_iff in Hx as [Ho Hx].
    simpl. destruct (step c o s) as [x s1] eqn:E.
    destruct o as [|k|]; [| |discriminate]; simpl in E.
    + destruct (step_has _ _ _ _ _ _ _ HR E) as [HR1 Hs].
      destruct (IH _ _ HR1 Hc Hx) as (h' & H1 & H2 & H3).
      destruct (run c ops s1) as [xs s2] eqn:E2. simpl in *. exists h'. auto.
    + destruct (step_read _ _ _ _ _ _ _ _ HR E) as [HR1 Hs].
      pose proof (R_body _ _ _ _ _ HR Hn) as Hb.
      assert (Hx' : exists d oe, x = ORead d oe).
      { unfold do_read in E. rewrite Hb in E. simpl in E.
        destruct (stack_read k (s_ls s) (s_r s)) as [[[d oe] ls'] r']. inversion E. eauto. }
      destruct Hx' as (d & oe & ->).
      specialize (Hs (h_raw (read_hs h (ORead d oe)) + (if h_closed (read_hs h (ORead d oe)) && negb (c_nil c) then 1 else 0)) [] []).
      cbn [hist_ok] in Hs. rewrite Nat.eqb_refl in Hs. specialize (Hs eq_refl).
      unfold no_body in Hs. rewrite Hn, Hc in Hs. cbn [andb] in Hs.
      apply andb_true_iff in Hs as [Hs _]. apply andb_true_iff in Hs as [Hs _]. apply andb_true_iff in Hs as [Hp _].
      apply has_prefix_spec in Hp as [q Hq].
      unfold read_hs in HR1. rewrite Hc in HR1.
      assert (Hc1 : h_closed (mkHs (skipn (length d) (h_rest h)) (h_wrapped h) false (h_raw h)) = false) by reflexivity.
      destruct (IH _ _ HR1 Hc1 Hx) as (h' & H1 & H2 & H3).
      destruct (run c ops s1) as [xs s2] eqn:E2. simpl in *. exists h'.
      split; [exact H1|]. split; [exact H2|].
      rewrite <- app_assoc, <- H3, Hq, skipn_app_exact. reflexivity.
Qed.

(* the number of zero-length reads left never grows *)
Lemma run_empties c : forall ops s0 h0 term chk, R c term chk s0 h0 ->
  empties_r (s_r (snd (run c ops s0))) <= empties_r (s_r s0).
Proof.
  induction ops as [|o ops IH]; intros s0 h0 term chk HR0; simpl; [lia|].
      destruct (step c o s0) as [x s1] eqn:E.
      destruct (step_ok _ _ _ _ _ _ _ _ HR0 E) as (h1 & HR1 & _).
      specialize (IH _ _ _ _ HR1). destruct (run c ops s1) as [xs s2]. simpl in *.
      assert (empties_r (s_r s1) <= empties_r (s_r s0)); [|lia].
      clear IH HR1. destruct HR0 as (_ & _ & _ & _ & _ & _ & _ & _ & R9).
      destruct o as [|k0|]; simpl in E.
      - unfold has_body in E. destruct (0 <? c_cl c)%Z; [inversion E; subst; lia|].
        destruct (c_hdr c); [inversion E; subst; lia|].
        destruct (s_body s0); cbn [negb] in E; [|inversion E; subst; simpl; lia].
        destruct (has_content (fresh_layer :: s_ls s0) (s_r s0)) as [[o ls'] r'] eqn:Eh. inversion E; subst; clear E. simpl.
        destruct (h_closed h0).
        + destruct R9 as [Hd _]. destruct (has_content_dead _ _ _ _ _ Hd Eh) as (_ & _ & -> & _). lia.
        + destruct R9 as (Hi & _). unfold has_content in Eh. simpl in Eh.
          destruct (fill_loop max_empty_reads (s_ls s0) (s_r s0)) as [[[c0 oe0] lo0] r0] eqn:Ef.
          assert (F : forall i lo r x lo' r1, inv lo r -> fill_loop i lo r = (x, lo', r1) -> empties_r r1 <= empties_r r).
          { clear. induction i as [|i IHi]; intros lo r x lo' r1 Hi H; simpl in H; [inversion H; subst; lia|].
            destruct (stack_read bufsize lo r) as [[[c1 oe1] lo1] r2] eqn:Es.
            destruct (stack_read_spec _ _ _ _ _ _ _ Hi Es) as (I1 & _).
            destruct (stack_read_measure _ _ _ _ _ _ _ Hi Es) as [M1 _].
            destruct oe1; [inversion H; subst; exact M1|].
            destruct c1; [specialize (IHi _ _ _ _ _ I1 H); lia|inversion H; subst; exact M1]. }
          pose proof (F _ _ _ _ _ _ Hi Ef). destruct c0; inversion Eh; subst; assumption.
      - unfold do_read in E. destruct (s_body s0); cbn [negb] in E; [|inversion E; subst; lia].
        destruct (stack_read k0 (s_ls s0) (s_r s0)) as [[[d oe] ls'] r'] eqn:Es. inversion E; subst; clear E. simpl.
        destruct (h_closed h0).
        + destruct R9 as [Hd _]. destruct (stack_read_dead _ _ _ _ _ _ _ Hd Es) as (_ & _ & _ & _ & ->). lia.
        + destruct R9 as (Hi & _). destruct (stack_read_measure _ _ _ _ _ _ _ Hi Es) as [M1 _]. exact M1.
      - unfold do_close in E. destruct (s_body s0); cbn [negb] in E; [|inversion E; subst; lia].
        destruct (stack_close _ _) as [[e ls'] n]. inversion E; subst. simpl. lia.
Qed.

Theorem drain_all c steps ops k fuel :
  c_nil c = false -> existsb is_close ops = false -> 0 < k ->
  length (steps_bytes steps) + empties steps < fuel ->
  let outs := fst (run c ops (init c steps)) in
  let s := snd (run c ops (init c steps)) in
  read_bytes (reads_before_close false c ops outs) ++ fst (drain fuel k s) = steps_bytes steps /\
  snd (drain fuel k s) = Some (steps_term steps).
Proof.
  intros Hn Hx Hk Hf outs s.
  destruct (run_open c _ _ Hn ops _ _ (init_R c steps) eq_refl Hx) as (h' & HR & Hc & Hrest).
  fold s in HR. fold outs in Hrest.
  unfold init_hs, init_term in *. rewrite Hn in *. cbn [h_rest h_wrapped] in Hrest.
  assert (Hm : length (h_rest h') + empties_r (s_r s) < fuel).
  { assert (length (h_rest h') <= length (steps_bytes steps)) by (rewrite Hrest, app_length; lia).
    assert (empties_r (s_r s) <= empties steps); [|lia].
    subst s.
    pose proof (run_empties c) as G.
    specialize (G ops _ _ _ _ (init_R c steps)). unfold init in G |- *. rewrite Hn in G |- *. simpl in G. exact G. }
  rewrite (drain_ok c _ _ k Hk Hn fuel s h' HR Hc Hm). simpl. split; [now rewrite <- Hrest|reflexivity].
Qed.

(* C17_drain_exact on the example: probe, read 1, probe, then drain with 2-byte reads *)
Example ex_drain :
  let c := mkCfg (-1) false false None in
  let s := snd (run c [OpHas; OpRead 1; OpHas] (init c ex_steps)) in
  length (steps_bytes ex_steps) + empties ex_steps < 5 /\ drain 5 2 s = ([105; 33], Some (EScript 7)).
Proof. vm_compute. split; [lia|reflexivity]. Qed.

(* ---------- two requests, interleaved calls ---------- *)
Lemma run2_alone cA cB ops : forall sA sB,
  outs_of false ops (fst (run2 cA cB ops sA sB)) = fst (run cA (calls_of false ops) sA) /\
  fst (snd (run2 cA cB ops sA sB)) = snd (run cA (calls_of false ops) sA) /\
  outs_of true ops (fst (run2 cA cB ops sA sB)) = fst (run cB (calls_of true ops) sB) /\
  snd (snd (run2 cA cB ops sA sB)) = snd (run cB (calls_of true ops) sB).
Proof.
  induction ops as [|[b o] ops IH]; intros sA sB.
  - cbn. repeat split.
  - destruct b.
    + cbn [run2 calls_of outs_of fst snd Bool.eqb].
      destruct (step cB o sB) as [x sB'] eqn:Es.
      specialize (IH sA sB'). destruct (run2 cA cB ops sA sB') as [xs [a b]] eqn:Er.
      cbn [fst snd outs_of Bool.eqb] in *. destruct IH as (I1 & I2 & I3 & I4).
      cbn [run]. rewrite Es. destruct (run cB (calls_of true ops) sB') as [ys s''] eqn:Eb.
      cbn [fst snd] in *. repeat split; try assumption. now rewrite I3.
    + cbn [run2 calls_of outs_of fst snd Bool.eqb].
      destruct (step cA o sA) as [x sA'] eqn:Es.
      specialize (IH sA' sB). destruct (run2 cA cB ops sA' sB) as [xs [a b]] eqn:Er.
      cbn [fst snd outs_of Bool.eqb] in *. destruct IH as (I1 & I2 & I3 & I4).
      cbn [run]. rewrite Es. destruct (run cA (calls_of false ops) sA') as [ys s''] eqn:Eb.
      cbn [fst snd] in *. repeat split; try assumption. now rewrite I1.
Qed.

Lemma run2_length cA cB ops : forall sA sB, length (fst (run2 cA cB ops sA sB)) = length ops.
Proof.
  induction ops as [|[b o] ops IH]; intros sA sB; [reflexivity|].
  destruct b; cbn [run2].
  - destruct (step cB o sB) as [x sB']. specialize (IH sA sB').
    destruct (run2 cA cB ops sA sB') as [xs ss]. cbn [fst length] in *. now rewrite IH.
  - destruct (step cA o sA) as [x sA']. specialize (IH sA' sB).
    destruct (run2 cA cB ops sA' sB) as [xs ss]. cbn [fst length] in *. now rewrite IH.
Qed.

(* every interleaved history over two requests is one the property allows for each of them *)
Theorem pair_ok_run2 cA stepsA cB stepsB ops :
  let r := run2 cA cB ops (init cA stepsA) (init cB stepsB) in
  pair_ok cA stepsA cB stepsB ops (fst r) (s_closes (fst (snd r))) (s_closes (snd (snd r))) = true.
Proof.
  cbv zeta. unfold pair_ok.
  destruct (run2_alone cA cB ops (init cA stepsA) (init cB stepsB)) as (I1 & I2 & I3 & I4).
  rewrite run2_length, Nat.eqb_refl, I1, I2, I3, I4, !history_ok_run. reflexivity.
Qed.

(* ---------- reads on the closed wrapper itself ---------- *)
Lemma stack_read_length ls : forall k r y ls' r', stack_read k ls r = (y, ls', r') -> length ls' = length ls.
Proof.
  induction ls as [|l lo IH]; intros k r y ls' r' H.
  - cbn [stack_read] in H. destruct (sread k r) as [o r0]. inversion H; reflexivity.
  - cbn [stack_read] in H.
    destruct (lclosed l); [inversion H; reflexivity|].
    destruct (Nat.eqb k 0).
    { destruct (lbuf l); inversion H; reflexivity. }
    destruct (lbuf l).
    + destruct (lerr l); [inversion H; reflexivity|].
      destruct (bufsize <=? k).
      * destruct (stack_read k lo r) as [[o lo'] r0] eqn:E. inversion H; subst. cbn [length]. now rewrite (IH _ _ _ _ _ E).
      * destruct (stack_read bufsize lo r) as [[[c0 oe] lo'] r0] eqn:E.
        destruct c0; inversion H; subst; cbn [length]; now rewrite (IH _ _ _ _ _ E).
    + inversion H; reflexivity.
Qed.

Lemma fill_loop_length i : forall lo r y lo' r', fill_loop i lo r = (y, lo', r') -> length lo' = length lo.
Proof.
  induction i as [|i IH]; intros lo r y lo' r' H; cbn [fill_loop] in H.
  - inversion H; reflexivity.
  - destruct (stack_read bufsize lo r) as [[[c0 oe] lo1] r1] eqn:E.
    pose proof (stack_read_length _ _ _ _ _ _ E) as HL.
    destruct oe; [inversion H; subst; exact HL|].
    destruct c0; [|inversion H; subst; exact HL].
    rewrite <- HL. exact (IH _ _ _ _ _ H).
Qed.

Lemma has_content_nonempty l lo r o ls' r' : has_content (l :: lo) r = (o, ls', r') -> ls' <> [].
Proof.
  cbn [has_content]. intros H.
  destruct (lclosed l); [inversion H; discriminate|].
  destruct (lbuf l); [|inversion H; discriminate].
  destruct (lerr l); [inversion H; discriminate|].
  destruct (fill_loop max_empty_reads lo r) as [[[c0 oe] lo1] r1].
  destruct c0; inversion H; discriminate.
Qed.

Lemma stack_close_top_closed b l lo e ls' n :
  stack_close b (l :: lo) = (e, ls', n) -> exists l' lo', ls' = l' :: lo' /\ lclosed l' = true.
Proof.
  cbn [stack_close]. destruct (lclosed l) eqn:E; intros H.
  - inversion H; subst. now exists l, lo.
  - destruct (stack_close b lo) as [[e0 lo0] n0]. inversion H; subst. now eexists _, _.
Qed.

(* the model's state against the walker's: a replaced body has at least one layer; a closed wrapper held by the caller
   is a closed top layer *)
Definition Rtop (c : cfg) (w top : bool) (s : st) : Prop :=
  s_body s = true /\ (w = true -> s_ls s <> []) /\
  (top = true -> exists l lo, s_ls s = l :: lo /\ lclosed l = true).

Lemma closed_reads_fail_nil c ops : forall w outs, c_nil c = true -> closed_reads_fail c w false ops outs = true.
Proof.
  induction ops as [|o ops IH]; intros w outs Hn; [reflexivity|].
  destruct o; destruct outs as [|x outs]; cbn [closed_reads_fail]; try reflexivity.
  - cbn [andb]. now apply IH.
  - cbn [negb orb andb]. now apply IH.
  - rewrite Hn. cbn [negb]. rewrite andb_false_r. cbn [orb]. now apply IH.
Qed.

Lemma step_Rtop_has c s w top x s1 : c_nil c = false -> Rtop c w top s -> has_body c s = (x, s1) ->
  Rtop c (w || probing c) (top && negb (probing c)) s1.
Proof.
  intros Hn (Hb & Hw & Ht) H. unfold has_body in H. unfold probing.
  destruct (0 <? c_cl c)%Z.
  { inversion H; subst. cbn [negb andb]. rewrite orb_false_r, andb_true_r. now repeat split. }
  destruct (c_hdr c).
  { inversion H; subst. cbn [negb andb]. rewrite orb_false_r, andb_true_r. now repeat split. }
  rewrite Hb in H. cbn [negb andb] in *.
  destruct (has_content (fresh_layer :: s_ls s) (s_r s)) as [[o ls'] r'] eqn:E. inversion H; subst.
  rewrite orb_true_r, andb_false_r. unfold Rtop. cbn [s_body s_ls]. repeat split.
  - intros _. exact (has_content_nonempty _ _ _ _ _ _ E).
  - discriminate.
Qed.

Lemma step_Rtop_read c s w top k x s1 : Rtop c w top s -> do_read k s = (x, s1) ->
  Rtop c w top s1 /\ (negb top || read_refused x) = true.
Proof.
  intros (Hb & Hw & Ht) H. unfold do_read in H. rewrite Hb in H. cbn [negb] in H.
  destruct (stack_read k (s_ls s) (s_r s)) as [[[d oe] ls'] r'] eqn:E. inversion H; subst.
  pose proof (stack_read_length _ _ _ _ _ _ E) as HL.
  destruct top.
  - destruct (Ht eq_refl) as (l & lo & Hls & Hc). rewrite Hls in E. cbn [stack_read] in E. rewrite Hc in E.
    inversion E; subst. split; [|reflexivity].
    unfold Rtop. cbn [s_body s_ls]. rewrite <- Hls. repeat split; auto.
  - split; [|reflexivity]. unfold Rtop. cbn [s_body s_ls]. repeat split; [|discriminate].
    intros Hw1 Hl. specialize (Hw Hw1). rewrite Hl in HL. cbn [length] in HL.
    destruct (s_ls s); [now apply Hw|discriminate].
Qed.

Lemma step_Rtop_close c s w top x s1 : c_nil c = false -> Rtop c w top s -> do_close c s = (x, s1) ->
  Rtop c w (top || (w && negb (c_nil c))) s1.
Proof.
  intros Hn (Hb & Hw & Ht) H. unfold do_close in H. rewrite Hb in H. cbn [negb] in H. rewrite Hn. cbn [negb].
  rewrite andb_true_r.
  destruct (stack_close (if s_stream s then c_cerr c else None) (s_ls s)) as [[e ls'] n] eqn:E. inversion H; subst.
  unfold Rtop. cbn [s_body s_ls].
  destruct (s_ls s) as [|l lo] eqn:Hls.
  - (* no wrapper: the caller closes the stream itself *)
    cbn [stack_close] in E. inversion E; subst. repeat split.
    + intros Hw1. now specialize (Hw Hw1).
    + intros Hor. destruct top; [destruct (Ht eq_refl) as (? & ? & Hd & _); discriminate|].
      cbn [orb] in Hor. now specialize (Hw Hor).
  - destruct (stack_close_top_closed _ _ _ _ _ _ E) as (l' & lo' & -> & Hc). repeat split.
    + intros _. discriminate.
    + intros _. now exists l', lo'.
Qed.

Lemma run_closed_reads_fail c : c_nil c = false -> forall ops s w top, Rtop c w top s ->
  closed_reads_fail c w top ops (fst (run c ops s)) = true.
Proof.
  intros Hn. induction ops as [|o ops IH]; intros s w top HR; [reflexivity|].
  cbn [run]. destruct (step c o s) as [x s1] eqn:Es. destruct (run c ops s1) as [xs s2] eqn:E. cbn [fst].
  assert (Hxs : xs = fst (run c ops s1)) by now rewrite E.
  destruct o; cbn [step] in Es; cbn [closed_reads_fail]; rewrite Hxs.
  - apply IH. exact (step_Rtop_has _ _ _ _ _ _ Hn HR Es).
  - destruct (step_Rtop_read _ _ _ _ _ _ _ HR Es) as [HR1 Hx]. rewrite Hx. cbn [andb]. now apply IH.
  - apply IH. exact (step_Rtop_close _ _ _ _ _ _ Hn HR Es).
Qed.

(* reads on the closed wrapper itself fail, whatever their size: every history of the model *)
Theorem closed_reads_fail_run c steps ops :
  closed_reads_fail c false false ops (fst (run c ops (init c steps))) = true.
Proof.
  destruct (c_nil c) eqn:Hn; [now apply closed_reads_fail_nil|].
  apply run_closed_reads_fail; [exact Hn|].
  unfold Rtop, init. rewrite Hn. cbn [s_body s_ls]. repeat split; discriminate.
Qed.

Theorem history_strict_ok_run c steps ops :
  history_strict_ok c steps ops (fst (run c ops (init c steps))) (s_closes (snd (run c ops (init c steps)))) = true.
Proof. unfold history_strict_ok. now rewrite history_ok_run, closed_reads_fail_run. Qed.

Theorem pair_strict_ok_run2 cA stepsA cB stepsB ops :
  let r := run2 cA cB ops (init cA stepsA) (init cB stepsB) in
  pair_strict_ok cA stepsA cB stepsB ops (fst r) (s_closes (fst (snd r))) (s_closes (snd (snd r))) = true.
Proof.
  cbv zeta. unfold pair_strict_ok. rewrite pair_ok_run2.
  destruct (run2_alone cA cB ops (init cA stepsA) (init cB stepsB)) as (I1 & _ & I3 & _).
  now rewrite I1, I3, !closed_reads_fail_run.
Qed.

(* a zero-length read right after Close fails; after a later probe has wrapped the closed body again it may return 0, nil *)
Example ex_zero_read_after_close :
  let c := mkCfg (-1) false false None in
  let steps := [([104; 105], Some EOF)] in
  fst (run c [OpHas; OpClose; OpRead 0; OpHas; OpRead 0] (init c steps)) =
  [OHas true; OClose None; ORead [] (Some EUnexpectedEOF); OHas false; ORead [] None].
Proof. vm_compute. reflexivity. Qed.
