(* AcceptParseProofs.v — the Accept parser terminates within its fuel on every input and only
   yields ranges with a well-formed non-negative quality. *)
From V Require Import NegotiateSpec NegotiateProofs.
From Coq Require Import Lia.

Lemma span_length f s : length (fst (span f s)) + length (snd (span f s)) = length s.
Proof. rewrite <- (span_app f s) at 3. now rewrite app_length. Qed.

Lemma skip_space_length s : length (skip_space s) <= length s.
Proof. apply drop_while_length. Qed.

Lemma seek_q_at_length s : forall b, length (seek_q_at b s) <= length s.
Proof.
  induction s as [|c r IH]; intros b; cbn [seek_q_at]; [simpl; lia|].
  destruct b.
  - destruct (is_space c); [specialize (IH true); simpl; lia|].
    destruct (has_prefix Q_EQ (c :: r)); [lia|].
    destruct (Nat.eqb c COMMA); [lia|].
    destruct (Nat.eqb c SEMI); [specialize (IH true) | specialize (IH false)]; simpl; lia.
  - destruct (Nat.eqb c SEMI); [specialize (IH true); simpl; lia|].
    destruct (Nat.eqb c COMMA); [lia|]. specialize (IH false); simpl; lia.
Qed.

Lemma seek_q_length s : length (seek_q s) <= length s.
Proof. apply seek_q_at_length. Qed.

Lemma to_comma_length s : length (to_comma s) <= length s.
Proof. induction s as [|c r IH]; simpl; [lia|]. destruct (Nat.eqb c COMMA); simpl; lia. Qed.

Lemma skip_ext_length s : length (skip_ext s) <= length s.
Proof.
  destruct s as [|c r]; simpl; [lia|]. destruct (Nat.eqb c SEMI); [|simpl; lia].
  apply (to_comma_length (c :: r)).
Qed.

Lemma q_digits_spec s : forall i n d, (0 < d)%Z -> (0 <= n)%Z ->
  let '(n', d', rest) := q_digits i n d s in
  (0 < d')%Z /\ (0 <= n')%Z /\ length rest <= length s.
Proof.
  induction s as [|b r IH]; intros i n d Hd Hn; simpl; [repeat split; auto|].
  destruct (is_digit b) eqn:Eb; [|simpl; repeat split; auto].
  unfold is_digit in Eb. apply andb_true_iff in Eb as [E1 E2]. apply Nat.leb_le in E1, E2.
  destruct (i <? max_quality_digits).
  - specialize (IH (S i) (n * 10 + Z.of_nat b - 48)%Z (d * 10)%Z).
    destruct (q_digits (S i) _ _ r) as [[n' d'] rest]. destruct IH as (A & B & C); [lia | lia |]. repeat split; auto.
  - specialize (IH (S i) n d Hd Hn). destruct (q_digits (S i) n d r) as [[n' d'] rest].
    destruct IH as (A & B & C). repeat split; auto.
Qed.

Lemma q_cont_spec q s' : (0 < qd (fst (q_cont q s')))%Z /\ length (snd (q_cont q s')) <= length s'.
Proof.
  unfold q_cont. destruct s' as [|c s'']; [simpl; split; lia|].
  destruct (Nat.eqb c 46); [|simpl; split; lia].
  pose proof (q_digits_spec s'' 0 0%Z 1%Z ltac:(lia) ltac:(lia)) as H.
  destruct (q_digits 0 0 1 s'') as [[n d] rest]. destruct H as (A & B & C). simpl. split; [assumption | lia].
Qed.

Lemma expect_quality_spec s :
  (0 < qd (fst (expect_quality s)))%Z /\ length (snd (expect_quality s)) <= length s.
Proof.
  destruct s as [|c r]; [simpl; split; lia|].
  unfold expect_quality.
  destruct (Nat.eqb c 48); [destruct (q_cont_spec 0%Z r); split; [assumption | simpl; lia]|].
  destruct (Nat.eqb c 49); [destruct (q_cont_spec 1%Z r); split; [assumption | simpl; lia]|].
  destruct (Nat.eqb c 46); [exact (q_cont_spec 0%Z (c :: r))|].
  simpl; split; lia.
Qed.

Lemma q_isneg_false q : q_isneg q = false -> (0 <= q_num q)%Z.
Proof. unfold q_isneg. intros H. apply Z.ltb_ge in H. exact H. Qed.

Lemma spec_ok_one v : spec_ok (mkspec v q_one).
Proof. unfold spec_ok, q_one, q_num; simpl. lia. Qed.

(* one line: enough fuel never runs out, and every appended range is well formed *)
Lemma parse_line_spec fuel : forall s acc, length s < fuel -> Forall spec_ok acc ->
  exists out, parse_line fuel s acc = Some out /\ Forall spec_ok out.
Proof.
  induction fuel as [|fuel IH]; intros s acc Hlen Hacc; [lia|].
  cbn [parse_line]. unfold expect_token_slash.
  pose proof (span_length is_token_slash s) as Hspan.
  destruct (span is_token_slash s) as [v s1] eqn:Esp. simpl in Hspan.
  destruct v as [|v0 vr]; [exists acc; split; [reflexivity | assumption]|].
  set (v := v0 :: vr) in *. assert (Hv : 1 <= length v) by (subst v; simpl; lia).
  assert (Hafter : forall q s3, spec_ok (mkspec v q) -> length s3 <= length s1 ->
     exists out,
       (let acc' := acc ++ [mkspec v q] in
        match skip_space s3 with
        | c :: s4 => if Nat.eqb c COMMA then parse_line fuel (skip_space s4) acc' else Some acc'
        | [] => Some acc'
        end) = Some out /\ Forall spec_ok out).
  { intros q s3 Hq Hl. cbv zeta.
    assert (Hacc' : Forall spec_ok (acc ++ [mkspec v q])) by (apply Forall_app; split; [assumption | now constructor]).
    pose proof (skip_space_length s3) as H3.
    destruct (skip_space s3) as [|c s4] eqn:E3; [eexists; split; [reflexivity | assumption]|].
    destruct (Nat.eqb c COMMA); [|eexists; split; [reflexivity | assumption]].
    apply IH; [|assumption]. pose proof (skip_space_length s4). simpl in H3. lia. }
  pose proof (skip_space_length s1) as H2.
  destruct (skip_space s1) as [|c s2'] eqn:E2.
  - apply Hafter; [apply spec_ok_one | simpl; lia].
  - destruct (Nat.eqb c SEMI).
    + pose proof (skip_space_length s2') as H2'. pose proof (seek_q_length (skip_space s2')) as H3.
      destruct (has_prefix Q_EQ (seek_q (skip_space s2'))).
      * pose proof (expect_quality_spec (skipn 2 (seek_q (skip_space s2')))) as [Hd Hl].
        destruct (expect_quality (skipn 2 (seek_q (skip_space s2')))) as [q s4]. cbn [fst snd] in Hd, Hl.
        destruct (q_isneg q) eqn:En; [exists acc; split; [reflexivity | assumption]|].
        apply Hafter.
        -- split; [exact Hd | now apply q_isneg_false].
        -- pose proof (skip_ext_length (skip_space s4)). pose proof (skip_space_length s4).
           pose proof (skipn_length 2 (seek_q (skip_space s2'))). cbn [length] in H2. lia.
      * apply Hafter; [apply spec_ok_one | simpl in H2; lia].
    + apply Hafter; [apply spec_ok_one | rewrite <- E2 in *; lia].
Qed.

Theorem parse_accept_total lines : exists specs, parse_accept lines = Some specs /\ Forall spec_ok specs.
Proof.
  unfold parse_accept. assert (H : Forall spec_ok []) by constructor. revert H. generalize (@nil spec).
  induction lines as [|l r IH]; intros acc Hacc; cbn [parse_lines]; [now exists acc|].
  destruct (parse_line_spec (S (length l)) l acc ltac:(lia) Hacc) as [out [E Hout]].
  rewrite E. now apply IH.
Qed.

(* composition: whatever the header lines, the negotiated answer is the one the property demands
   for the ranges the parser recognises *)
Theorem negotiate_parsed_lexmax lines offers d :
  exists specs, parse_accept lines = Some specs /\
    lexmax_b specs offers d (negotiate_content_type specs offers d) = true.
Proof.
  destruct (parse_accept_total lines) as [specs [E H]]. exists specs. split; [assumption|].
  now apply negotiate_lexmax.
Qed.
