(* SpecRouterSegDispatch.v — C01_dispatch_exact and C01_405_allow_exact restated in the vocabulary of
   the property: templates and request paths as lists of segments, "instantiated by the segments of
   the cleaned path" = SpecRouterSpec.seg_match, "a literal segment is preferred to a parameter" =
   seg_pref_b. ts_of gives every route's template under the base path as a list of simple segments. *)
From V Require Import Bytes DencoSpec DencoTrie DencoSpecProofs PathCleanLib PathUnescapeLib
  SpecRouter SpecRouterSpec SpecRouterProofs SpecRouterSegs SpecRouterSegProofs.

Definition simple_view (base : bytes) (routes : list route) (ts_of : route -> list tseg) : Prop :=
  forall r, In r routes -> path_join base (r_tpl r) = render (ts_of r) /\ simple_ok (ts_of r) = true.

(* r is the preferred route instantiated by the segments, under the request's method *)
Definition best_seg_route (routes : list route) (ts_of : route -> list tseg) (m : bytes) (segs : list bytes)
           (r : route) (vs : list bytes) : Prop :=
  In r routes /\ under m r /\ seg_match (ts_of r) segs = Some vs /\
  forall r', In r' routes -> under m r' -> seg_match (ts_of r') segs <> None ->
             tshape (ts_of r') = tshape (ts_of r) \/ seg_pref_b (ts_of r) (ts_of r') = true.

Section View.
Variables (base : bytes) (routes : list route) (ts_of : route -> list tseg).
Hypothesis Hview : simple_view base routes ts_of.

Lemma view_shape r : In r routes -> route_shape base r = tshape (ts_of r).
Proof.
  intros Hin. destruct (Hview r Hin) as [Hj Hok]. unfold route_shape, route_key. rewrite Hj.
  now rewrite (key_shape_render _ Hok).
Qed.

Lemma view_names r : In r routes -> route_names base r = tpl_names (ts_of r).
Proof.
  intros Hin. destruct (Hview r Hin) as [Hj Hok]. unfold route_names, route_key. rewrite Hj.
  now rewrite (key_shape_render _ Hok).
Qed.

Lemma view_fits r p segs : In r routes -> clean p = render_path segs -> forallb plain_seg segs = true ->
  fits base r p = seg_match (ts_of r) segs.
Proof.
  intros Hin Hp Hsegs. unfold fits. rewrite (view_shape r Hin), Hp.
  apply smatch_render; [apply (Hview r Hin)|exact Hsegs].
Qed.

Lemma best_route_seg m p segs r vs : clean p = render_path segs -> forallb plain_seg segs = true ->
  (best_route base routes m p r vs <-> best_seg_route routes ts_of m segs r vs).
Proof.
  intros Hp Hsegs. unfold best_route, best_seg_route. split.
  - intros (Hin & Hu & Hf & Hleast). rewrite (view_fits r p segs Hin Hp Hsegs) in Hf.
    split; [exact Hin|]. split; [exact Hu|]. split; [exact Hf|].
    intros r' Hin' Hu' Hm'. rewrite <- (view_fits r' p segs Hin' Hp Hsegs) in Hm'.
    destruct (Hleast r' Hin' Hu' Hm') as [He|Hpref].
    + left. now rewrite <- (view_shape r' Hin'), <- (view_shape r Hin).
    + right. rewrite (view_shape r Hin), (view_shape r' Hin') in Hpref.
      apply (pref_render (ts_of r) (ts_of r') segs); try apply Hview; try assumption; try congruence.
      now rewrite <- (view_fits r' p segs Hin' Hp Hsegs).
  - intros (Hin & Hu & Hf & Hleast). rewrite <- (view_fits r p segs Hin Hp Hsegs) in Hf.
    split; [exact Hin|]. split; [exact Hu|]. split; [exact Hf|].
    intros r' Hin' Hu' Hm'. rewrite (view_fits r' p segs Hin' Hp Hsegs) in Hm'.
    destruct (Hleast r' Hin' Hu' Hm') as [He|Hpref].
    + left. now rewrite (view_shape r' Hin'), (view_shape r Hin).
    + right. rewrite (view_shape r Hin), (view_shape r' Hin').
      apply (pref_render (ts_of r) (ts_of r') segs); try apply Hview; try assumption.
      rewrite <- (view_fits r p segs Hin Hp Hsegs). congruence.
Qed.

(* the handler that runs is the one of the route, registered under the upper-cased method, whose
   template is instantiated by the segments of the cleaned path and is preferred (literal segment
   before placeholder at the first difference) to every other instantiated template of that method;
   it receives the placeholder names paired with the percent-decoded segment texts *)
Theorem dispatch_segments m p segs h ps : plain_routes base routes = true ->
  clean p = render_path segs -> forallb plain_seg segs = true ->
  (serve base routes m p = Run h ps <->
   exists r vs, best_seg_route routes ts_of m segs r vs /\ r_id r = h /\
                ps = combine (tpl_names (ts_of r)) (map unescape_or_raw vs)).
Proof.
  intros Hplain Hp Hsegs. rewrite (dispatch_exact base routes m p h ps Hplain). split.
  - intros (r & vs & Hb & Hid & Hps). exists r, vs.
    pose proof Hb as (Hin & _). rewrite (view_names r Hin) in Hps.
    split; [now apply (best_route_seg m p segs r vs Hp Hsegs)|auto].
  - intros (r & vs & Hb & Hid & Hps). exists r, vs.
    pose proof Hb as (Hin & _). rewrite <- (view_names r Hin) in Hps.
    split; [now apply (best_route_seg m p segs r vs Hp Hsegs)|auto].
Qed.

(* when no template of the request's method is instantiated: 405 with exactly the methods under
   which some template is instantiated by the segments, or 404 *)
Theorem allow_segments m p segs : plain_routes base routes = true ->
  clean p = render_path segs -> forallb plain_seg segs = true ->
  (forall r, In r routes -> under m r -> seg_match (ts_of r) segs = None) ->
  exists A, NoDup A /\
    (forall k, In k A <-> exists r, In r routes /\ upper (r_method r) = k /\ seg_match (ts_of r) segs <> None) /\
    serve base routes m p = match A with [] => R404 | _ => R405 A end.
Proof.
  intros Hplain Hp Hsegs Hnone.
  destruct (allow_exact base routes m p Hplain) as (A & Hnd & HA & Hs).
  { intros r Hin Hu. rewrite (view_fits r p segs Hin Hp Hsegs). now apply Hnone. }
  exists A. split; [exact Hnd|]. split; [|exact Hs].
  intros k. rewrite HA. split; intros (r & Hin & Hk & Hf); exists r; (split; [exact Hin|split; [exact Hk|]]).
  - now rewrite <- (view_fits r p segs Hin Hp Hsegs).
  - now rewrite (view_fits r p segs Hin Hp Hsegs).
Qed.

End View.

(* non-vacuity: the example route set of SpecRouterProofs (base path /api/, literal and parameter
   siblings, two placeholders, the root template) has a simple view, and the cleaned request path
   /api/a/%2F%25 is the rendering of three plain segments *)
Definition example_ts_of (r : route) : list tseg :=
  match r_id r with
  | 0 => [TLit [97;112;105]; TLit [97]; TPar [105;100]]
  | 1 => [TLit [97;112;105]; TLit [97]; TPar [105;100]]
  | 2 => [TLit [97;112;105]; TLit [97]; TLit [98]]
  | 3 => [TLit [97;112;105]; TLit [97]; TPar [105;100]; TLit [99]; TPar [120]]
  | _ => [TLit [97;112;105]]
  end.

Theorem example_simple_view :
  simple_view example_base example_routes example_ts_of /\
  clean [47;97;112;105;47;47;97;47;46;47;37;50;70;37;50;53] = render_path [[97;112;105]; [97]; [37;50;70;37;50;53]] /\
  forallb plain_seg [[97;112;105]; [97]; [37;50;70;37;50;53]] = true /\
  seg_match (example_ts_of (mkRoute [103;101;116] [47;97;47;123;105;100;125] 0)) [[97;112;105]; [97]; [37;50;70;37;50;53]]
    = Some [[37;50;70;37;50;53]].
Proof.
  split; [|vm_compute; repeat split].
  intros r Hin. cbn in Hin.
  repeat (destruct Hin as [<-|Hin]; [vm_compute; split; reflexivity|]). destruct Hin.
Qed.
