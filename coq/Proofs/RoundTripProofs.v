(* RoundTripProofs.v — C04: the server recovers exactly the path values the client was given. *)
From V Require Import Bytes PathCleanLib PathCleanProofs SpecRouter SpecRouterSpec SpecRouterSegs SpecRouterSegProofs SpecRouterSegDispatch RoundTrip.
From V Require UrlEscape PathUnescapeLib DencoSpec.
From Coq Require Import Lia.

Module UE := UrlEscape.
Module PU := PathUnescapeLib.

(* the two models of url.PathUnescape (C01's and C10's) are the same function *)
Lemma is_hex_agree c : PU.is_hex c = UE.ishex c.
Proof. reflexivity. Qed.
Lemma unhex_agree c : PU.unhex c = UE.unhex c.
Proof. reflexivity. Qed.

Lemma unescape_agree s : PU.path_unescape s = UE.path_unescape s.
Proof.
  unfold UE.path_unescape.
  assert (H : forall n s, length s <= n -> PU.path_unescape s = UE.unescape false s).
  { induction n as [|n IH]; intros s' Hl.
    - destruct s'; [reflexivity | simpl in Hl; lia].
    - destruct s' as [|c r]; [reflexivity|]. cbn [PU.path_unescape UE.unescape].
      change (Nat.eqb c PU.PCT) with (c =? 37). destruct (c =? 37).
      + destruct r as [|h1 [|h2 r']]; try reflexivity.
        change PU.is_hex with UE.ishex. change PU.unhex with UE.unhex. destruct (UE.ishex h1 && UE.ishex h2); [|reflexivity].
        rewrite (IH r') by (simpl in Hl; lia). reflexivity.
      + rewrite (IH r) by (simpl in Hl; lia). cbn [andb]. reflexivity. }
  apply (H (length s)). lia.
Qed.

Lemma unescape_or_raw_escape v : UE.wf_bytes v -> PU.unescape_or_raw (UE.path_escape v) = v.
Proof.
  intros H. unfold PU.unescape_or_raw. rewrite unescape_agree, UE.path_unescape_escape by exact H. reflexivity.
Qed.

(* an escaped value is one plain segment: not empty, not a dot segment, no slash *)
Lemma escape_nonempty v : v <> [] -> UE.path_escape v <> [].
Proof.
  destruct v as [|c r]; [congruence|]. intros _. unfold UE.path_escape, UE.escape. cbn [flat_map].
  unfold UE.escape1, UE.pct. destruct (UE.should_escape UE.MSeg c); discriminate.
Qed.

Lemma escape_injective_on v w : UE.wf_bytes v -> UE.wf_bytes w -> UE.path_escape v = UE.path_escape w -> v = w.
Proof.
  intros Hv Hw E. assert (Some v = Some w) as X; [|now inversion X].
  rewrite <- (UE.path_unescape_escape v Hv), <- (UE.path_unescape_escape w Hw). now rewrite E.
Qed.

Lemma escape_plain_seg v : value_ok v = true -> plain_seg (UE.path_escape v) = true.
Proof.
  unfold value_ok. intros H. repeat (apply andb_true_iff in H; destruct H as [H ?]).
  apply negb_true_iff in H, H1, H2. apply UE.wf_bytesb_spec in H0.
  unfold plain_seg. repeat (apply andb_true_iff; split); apply negb_true_iff.
  - destruct (UE.path_escape v) eqn:E; [|reflexivity]. exfalso. apply (escape_nonempty v); [|exact E].
    destruct v; [discriminate | congruence].
  - (* not the dot segment: a dot is never escaped, so only the value dot escapes to it *)
    unfold is_dot in *. apply bytes_eqb_neq. intro E. apply bytes_eqb_neq in H2. apply H2.
    apply (escape_injective_on v [DOT] H0); [repeat constructor; unfold DOT; lia | now rewrite E].
  - unfold is_dotdot in *. apply bytes_eqb_neq. intro E. apply bytes_eqb_neq in H1. apply H1.
    apply (escape_injective_on v [DOT; DOT] H0); [repeat constructor; unfold DOT; lia | now rewrite E].
  - pose proof (UE.path_escape_safe v H0) as Hs. unfold mem_byte. 
    destruct (existsb (Nat.eqb SL) (UE.path_escape v)) eqn:Ex; [|reflexivity].
    apply existsb_exists in Ex as [x [Hin Hx]]. apply Nat.eqb_eq in Hx. subst x.
    rewrite forallb_forall in Hs. specialize (Hs _ Hin). unfold UE.seg_safe, SL in Hs. simpl in Hs. discriminate.
Qed.

Lemma lit_ok_plain l : lit_ok l = true -> plain_seg l = true.
Proof.
  unfold lit_ok, plain_seg. intros H. repeat (apply andb_true_iff in H; destruct H as [H ?]).
  rewrite H, H0, H1. cbn [andb]. apply negb_true_iff. unfold mem_byte.
  destruct (existsb (Nat.eqb SL) l) eqn:Ex; [|reflexivity].
  apply existsb_exists in Ex as [x [Hin Hx]]. apply Nat.eqb_eq in Hx. subst x.
  rewrite forallb_forall in H2. specialize (H2 _ Hin). unfold lit_byte_ok in H2.
  repeat (apply andb_true_iff in H2; destruct H2 as [H2 ?]).
  unfold SL in *. vm_compute in H9. discriminate.
Qed.

(* the client's segments are plain and instantiate the template with the escaped values *)
Lemma inst_spec ts : forall vals segs, simple_ok ts = true -> inst ts vals = Some segs ->
  forallb value_ok vals = true ->
  forallb plain_seg segs = true /\ seg_match ts segs = Some (map UE.path_escape vals) /\
  length vals = length (tpl_names ts).
Proof.
  induction ts as [|t ts IH]; intros vals segs Hok Hi Hv.
  - destruct vals; [|discriminate]. inversion Hi; subst. repeat split; reflexivity.
  - cbn [simple_ok forallb] in Hok. apply andb_true_iff in Hok as [Ht Hts]. fold (simple_ok ts) in Hts.
    destruct t as [l|n|ns ls]; cbn [inst] in Hi.
    + destruct (inst ts vals) as [r|] eqn:E; [|discriminate]. inversion Hi; subst.
      destruct (IH vals r Hts E Hv) as (A & B & C). cbn [seg_ok] in Ht.
      repeat split.
      * cbn [forallb]. now rewrite (lit_ok_plain l Ht), A.
      * cbn [seg_match]. now rewrite bytes_eqb_refl, B.
      * unfold tpl_names in *. cbn [flat_map seg_names]. exact C.
    + destruct vals as [|v vals']; [discriminate|]. destruct (inst ts vals') as [r|] eqn:E; [|discriminate].
      inversion Hi; subst. cbn [forallb] in Hv. apply andb_true_iff in Hv as [Hv1 Hv2].
      destruct (IH vals' r Hts E Hv2) as (A & B & C).
      pose proof (escape_plain_seg v Hv1) as Hp.
      repeat split.
      * cbn [forallb]. now rewrite Hp, A.
      * cbn [seg_match map]. unfold plain_seg in Hp. repeat (apply andb_true_iff in Hp; destruct Hp as [Hp ?]).
        apply negb_true_iff in Hp. rewrite Hp, B. reflexivity.
      * unfold tpl_names in *. cbn [flat_map seg_names app length]. simpl. now rewrite C.
    + discriminate.
Qed.

Lemma slashed_join s r : flat_map (fun x : bytes => DencoSpec.SLASH :: x) (s :: r) = SL :: join_slash (s :: r).
Proof.
  revert s. induction r as [|t r IH]; intros s.
  - cbn [flat_map join_slash]. now rewrite app_nil_r.
  - change (flat_map (fun x : bytes => DencoSpec.SLASH :: x) (s :: t :: r))
      with ((DencoSpec.SLASH :: s) ++ flat_map (fun x : bytes => DencoSpec.SLASH :: x) (t :: r)).
    rewrite IH. cbn [join_slash]. reflexivity.
Qed.

Lemma render_path_rooted segs : render_path segs = rooted_of segs.
Proof.
  unfold render_path, rooted_of. destruct segs as [|s r]; [reflexivity|].
  unfold slashed. apply slashed_join.
Qed.

Lemma clean_render_path segs : forallb plain_seg segs = true -> clean (render_path segs) = render_path segs.
Proof. intros H. rewrite render_path_rooted. now apply clean_normal_id. Qed.

(* ---------- the round trip of path values ---------- *)
Section RoundTrip.
Variables (base : bytes) (routes : list route) (ts_of : route -> list tseg).
Hypothesis Hview : simple_view base routes ts_of.
Hypothesis Hplain : plain_routes base routes = true.

Theorem path_roundtrip r m vals p :
  In r routes -> under m r ->
  forallb value_ok vals = true ->
  client_path (ts_of r) vals = Some p ->
  (* no other operation under the method is preferred for these very segments (a literal sibling equal to a value) *)
  (forall segs, inst (ts_of r) vals = Some segs ->
     forall r', In r' routes -> under m r' -> seg_match (ts_of r') segs <> None ->
       tshape (ts_of r') = tshape (ts_of r) \/ seg_pref_b (ts_of r) (ts_of r') = true) ->
  serve base routes m p = Run (r_id r) (combine (tpl_names (ts_of r)) vals).
Proof.
  intros Hin Hu Hv Hp Hbest. unfold client_path in Hp.
  destruct (inst (ts_of r) vals) as [segs|] eqn:Ei; [|discriminate]. inversion Hp; subst p. clear Hp.
  destruct (Hview r Hin) as [_ Hok].
  destruct (inst_spec (ts_of r) vals segs Hok Ei Hv) as (Hps & Hm & Hlen).
  apply (dispatch_segments base routes ts_of Hview m (render_path segs) segs (r_id r) _ Hplain
           (clean_render_path segs Hps) Hps).
  exists r, (map UE.path_escape vals). split; [|split; [reflexivity|]].
  - split; [exact Hin|]. split; [exact Hu|]. split; [exact Hm|]. exact (Hbest segs eq_refl).
  - f_equal. rewrite map_map. rewrite <- (map_id vals) at 1. apply map_ext_in. intros v Hv'.
    symmetry. apply unescape_or_raw_escape. rewrite forallb_forall in Hv. specialize (Hv v Hv').
    unfold value_ok in Hv. repeat (apply andb_true_iff in Hv; destruct Hv as [Hv ?]).
    now apply UE.wf_bytesb_spec.
Qed.
End RoundTrip.

(* ---------- query and form values: url.QueryEscape / QueryUnescape round trip ---------- *)
Definition esc_query_ok (c : nat) : bool :=
  if UE.should_escape UE.MQuery c
  then (c =? 32) ||
       (UE.ishex (UE.hexdig (c / 16)) && UE.ishex (UE.hexdig (c mod 16)) &&
        (UE.unhex (UE.hexdig (c / 16)) * 16 + UE.unhex (UE.hexdig (c mod 16)) =? c))
  else negb (c =? 37) && negb (c =? 43).

Lemma esc_query_ok_all : forall c, c < 256 -> esc_query_ok c = true.
Proof. apply UE.all_bytes. vm_compute. reflexivity. Qed.

Lemma unescape_escape1_query c r : c < 256 ->
  UE.query_unescape (UE.escape1 UE.MQuery c ++ r) =
  match UE.query_unescape r with Some t => Some (c :: t) | None => None end.
Proof.
  intros Hc. pose proof (esc_query_ok_all c Hc) as H. unfold esc_query_ok in H.
  unfold UE.escape1, UE.query_unescape in *. destruct (UE.should_escape UE.MQuery c) eqn:E.
  - destruct (c =? 32) eqn:E32.
    + apply Nat.eqb_eq in E32. subst c. cbn [app UE.unescape]. reflexivity.
    + cbn [orb] in H. repeat (apply andb_true_iff in H; destruct H as [H ?]). apply Nat.eqb_eq in H0.
      cbn [UE.pct app UE.unescape]. change (37 =? 37) with true. cbv iota.
      rewrite H, H1. cbn [andb]. rewrite H0. reflexivity.
  - apply andb_true_iff in H as [H1 H2]. apply negb_true_iff in H1, H2.
    cbn [app UE.unescape]. rewrite H1, H2. cbn [andb]. reflexivity.
Qed.

Theorem query_unescape_escape v : UE.wf_bytes v -> UE.query_unescape (UE.query_escape v) = Some v.
Proof.
  unfold UE.query_escape, UE.escape. induction 1 as [|c v Hc Hv IH]; [reflexivity|].
  cbn [flat_map]. rewrite unescape_escape1_query by exact Hc. now rewrite IH.
Qed.

(* an escaped query or form value cannot end or split the pair it sits in: no ampersand, equals sign,
   semicolon, question mark, hash or space is left *)
Definition query_safe (b : nat) : bool :=
  negb ((b =? 38) || (b =? 61) || (b =? 59) || (b =? 63) || (b =? 35) || (b =? 32)).

Lemma query_escape_safe v : UE.wf_bytes v -> forallb query_safe (UE.query_escape v) = true.
Proof.
  assert (H1 : forall c, c < 256 -> forallb query_safe (UE.escape1 UE.MQuery c) = true).
  { apply UE.all_bytes. vm_compute. reflexivity. }
  unfold UE.query_escape, UE.escape. induction 1 as [|c v Hc Hv IH]; [reflexivity|].
  change (flat_map (UE.escape1 UE.MQuery) (c :: v)) with (UE.escape1 UE.MQuery c ++ flat_map (UE.escape1 UE.MQuery) v).
  rewrite forallb_app. apply andb_true_iff. split; [exact (H1 c Hc) | exact IH].
Qed.

(* non-vacuity: a template with a literal sibling, a value full of reserved bytes *)
Example ex_value : value_ok [97; 47; 98; 37; 58; 42; 35; 32; 233] = true.
Proof. reflexivity. Qed.
