(* NegotiateProofs.v — the fold in Negotiate.v computes the answer NegotiateSpec.lexmax_b demands. *)
From V Require Import NegotiateSpec.
From Coq Require Import QArith Lia.
Local Open Scope nat_scope.

Definition spec_ok (sp : spec) : Prop := (0 < qd (sq sp))%Z /\ (0 <= q_num (sq sp))%Z.

Definition toQ (q : qv) : Q := Qmake (q_num q) (Z.to_pos (qd q)).

Lemma q_lt_Q a b : (0 < qd a)%Z -> (0 < qd b)%Z -> q_lt a b = true <-> (toQ a < toQ b)%Q.
Proof.
  intros Ha Hb. unfold q_lt, toQ, Qlt; simpl. rewrite !Z2Pos.id by assumption. apply Z.ltb_lt.
Qed.

Lemma q_eq_Q a b : (0 < qd a)%Z -> (0 < qd b)%Z -> q_eq a b = true <-> (toQ a == toQ b)%Q.
Proof.
  intros Ha Hb. unfold q_eq, toQ, Qeq; simpl. rewrite !Z2Pos.id by assumption. apply Z.eqb_eq.
Qed.

Definition sc_ok (sc : qv * nat) : Prop := (0 < qd (fst sc))%Z.

Definition Better (a b : qv * nat) : Prop :=
  (toQ (fst b) < toQ (fst a))%Q \/ ((toQ (fst a) == toQ (fst b))%Q /\ snd a < snd b).

Lemma sc_better_iff a b : sc_ok a -> sc_ok b -> sc_better a b = true <-> Better a b.
Proof.
  intros Ha Hb. unfold sc_better, Better.
  rewrite orb_true_iff, andb_true_iff, Nat.ltb_lt, q_lt_Q, q_eq_Q by assumption. reflexivity.
Qed.

Lemma Better_irrefl a : ~ Better a a.
Proof. intros [H | [_ H]]; [exact (Qlt_irrefl _ H) | lia]. Qed.

Lemma Better_trans a b c : Better a b -> Better b c -> Better a c.
Proof.
  intros [H1 | [E1 W1]] [H2 | [E2 W2]].
  - left. eapply Qlt_trans; eassumption.
  - left. rewrite <- E2. exact H1.
  - left. rewrite E1. exact H2.
  - right. split; [rewrite E1; exact E2 | lia].
Qed.

(* a is not above b, c is above b: c is above a *)
Lemma Better_weak a b c : ~ Better a b -> Better c b -> Better c a.
Proof.
  intros Hab Hcb. unfold Better in *.
  destruct (Qlt_le_dec (toQ (fst b)) (toQ (fst a))) as [Hlt | Hle]; [exfalso; apply Hab; now left|].
  destruct Hcb as [H | [E W]].
  - left. eapply Qle_lt_trans; eassumption.
  - destruct (Qlt_le_dec (toQ (fst a)) (toQ (fst c))) as [Hlt | Hge]; [now left|].
    right. assert (Eab : (toQ (fst a) == toQ (fst b))%Q).
    { apply Qle_antisym; [exact Hle | rewrite <- E; exact Hge]. }
    split; [rewrite E; symmetry; exact Eab|].
    destruct (Nat.lt_ge_cases (snd a) (snd b)) as [Hw | Hw]; [exfalso; apply Hab; right; now split | lia].
Qed.

Lemma Better_asym a b : Better a b -> ~ Better b a.
Proof. intros H1 H2. exact (Better_irrefl a (Better_trans _ _ _ H1 H2)). Qed.

(* ---------- the run of the two nested loops as a run over indexed triples ---------- *)
Definition triple := (nat * bytes * spec)%type.
Definition sc_of (t : triple) : list (nat * bytes * (qv * nat)) :=
  let '(i, o, sp) := t in match score sp o with Some sc => [(i, o, sc)] | None => [] end.
Definition scs (ts : list triple) := flat_map sc_of ts.

Fixpoint triples_from (i : nat) (specs : list spec) (offers : list bytes) : list triple :=
  match offers with
  | [] => []
  | o :: r => map (fun sp => (i, o, sp)) specs ++ triples_from (S i) specs r
  end.

Lemma scored_from_triples specs offers i : scored_from i specs offers = scs (triples_from i specs offers).
Proof.
  revert i; induction offers as [|o r IH]; intros i; simpl; [reflexivity|].
  unfold scs. rewrite flat_map_app. fold (scs (triples_from (S i) specs r)). rewrite <- IH. f_equal.
  clear IH. induction specs as [|sp specs IHs]; simpl; [reflexivity|]. now rewrite IHs.
Qed.

Definition b0 (d : bytes) : best := mkbest d q_neg1 3.

Definition Inv (d : bytes) (done : list triple) (b : best) : Prop :=
  (scs done = [] /\ b = b0 d) \/
  (exists i o sc, In (i, o, sc) (scs done) /\ b = mkbest o (fst sc) (snd sc) /\
     forall j o' sc', In (j, o', sc') (scs done) ->
       ~ Better sc' sc /\ (j < i -> Better sc sc')).

Definition idx_le (done : list triple) (k : nat) : Prop :=
  forall j o sp, In (j, o, sp) done -> j <= k.

Lemma score_ok sp o sc : spec_ok sp -> score sp o = Some sc -> sc_ok sc /\ (0 < q_num (fst sc))%Z /\ fst sc = sq sp /\
  range_match (sval sp) (normalize_offer o) = Some (snd sc).
Proof.
  intros [Hd Hn] H. unfold score in H. destruct (q_is0 (sq sp)) eqn:E0; [discriminate|].
  destruct (range_match _ _) as [w|] eqn:Er; [|discriminate]. inversion H; subst; simpl.
  unfold sc_ok; simpl. unfold q_is0 in E0. apply Z.eqb_neq in E0. repeat split; try assumption; lia.
Qed.

Lemma in_scs_idx done k : idx_le done k -> forall j o sc, In (j, o, sc) (scs done) -> j <= k.
Proof.
  intros H j o sc Hin. unfold scs in Hin. apply in_flat_map in Hin as [[[j' o'] sp] [Hin Hsc]].
  unfold sc_of in Hsc. destruct (score sp o'); [|contradiction].
  destruct Hsc as [E|[]]. inversion E; subst. eapply H; eassumption.
Qed.

Lemma in_scs_ok done : (forall j o sp, In (j, o, sp) done -> spec_ok sp) ->
  forall j o sc, In (j, o, sc) (scs done) -> sc_ok sc.
Proof.
  intros H j o sc Hin. unfold scs in Hin. apply in_flat_map in Hin as [[[j' o'] sp] [Hin Hsc]].
  unfold sc_of in Hsc. destruct (score sp o') eqn:E; [|contradiction].
  destruct Hsc as [E'|[]]. inversion E'; subst. eapply score_ok; [eapply H|]; eassumption.
Qed.

Lemma scs_snoc done t : scs (done ++ [t]) = scs done ++ sc_of t.
Proof. unfold scs. rewrite flat_map_app. simpl. now rewrite app_nil_r. Qed.

Lemma step_inv d done b i o sp :
  (forall j o' sp', In (j, o', sp') done -> spec_ok sp') -> spec_ok sp ->
  idx_le done i -> Inv d done b ->
  Inv d (done ++ [(i, o, sp)]) (step_spec o (normalize_offer o) b sp).
Proof.
  intros Hok Hsp Hidx HInv.
  unfold Inv in *. rewrite scs_snoc. cbn [sc_of].
  unfold step_spec.
  destruct (score sp o) as [sc'|] eqn:Esc.
  - destruct (score_ok _ _ _ Hsp Esc) as (Hsc' & Hpos & Hq & Hrm).
    assert (E0 : q_is0 (sq sp) = false).
    { unfold q_is0. rewrite <- Hq. apply Z.eqb_neq. lia. }
    rewrite E0, Hrm.
    destruct HInv as [[Hnil Hb] | (i0 & o0 & sc & Hin & Hb & Hall)].
    + (* first scored triple: it must be taken *)
      subst b. simpl.
      assert (L1 : q_lt (sq sp) q_neg1 = false).
      { rewrite <- Hq. unfold sc_ok in Hsc'. unfold q_lt. change (q_num q_neg1) with (-1)%Z. change (qd q_neg1) with 1%Z.
        apply Z.ltb_ge. lia. }
      assert (L2 : q_lt q_neg1 (sq sp) = true).
      { rewrite <- Hq. unfold sc_ok in Hsc'. unfold q_lt. change (q_num q_neg1) with (-1)%Z. change (qd q_neg1) with 1%Z.
        apply Z.ltb_lt. lia. }
      rewrite L1, L2. simpl. right. exists i, o, sc'. rewrite Hnil. simpl.
      split; [now left|]. split; [now rewrite Hq|].
      intros j o' x [E|[]]. inversion E; subst. split; [apply Better_irrefl | lia].
    + subst b. simpl.
      assert (Hsc : sc_ok sc) by (eapply in_scs_ok; eassumption).
      assert (Hi0 : i0 <= i) by (eapply in_scs_idx; eassumption).
      rewrite <- Hq.
      destruct (sc_better sc' sc) eqn:Eb.
      * (* strictly better: taken *)
        assert (HB : Better sc' sc) by (apply sc_better_iff; assumption).
        assert (Hupd : q_lt (fst sc') (fst sc) = false /\ (q_lt (fst sc) (fst sc') || (snd sc' <? snd sc)) = true).
        { unfold sc_better in Eb. apply orb_true_iff in Eb. unfold q_lt, q_eq in *.
          destruct Eb as [Eb | Eb].
          - apply Z.ltb_lt in Eb. split; [apply Z.ltb_ge; lia|]. apply orb_true_iff; left. apply Z.ltb_lt; lia.
          - apply andb_true_iff in Eb as [Eq Ew]. apply Z.eqb_eq in Eq. split; [apply Z.ltb_ge; lia|].
            apply orb_true_iff; now right. }
        destruct Hupd as [U1 U2]. rewrite U1, U2.
        right. exists i, o, sc'. split; [apply in_or_app; right; now left|]. split; [reflexivity|].
        intros j o' x Hx. apply in_app_or in Hx as [Hx | [E|[]]].
        -- destruct (Hall _ _ _ Hx) as [Hn _]. split.
           ++ apply Better_asym. eapply Better_weak; eassumption.
           ++ intros _. eapply Better_weak; eassumption.
        -- inversion E; subst. split; [apply Better_irrefl | lia].
      * (* not better: kept *)
        assert (HB : ~ Better sc' sc).
        { intro HB. apply sc_better_iff in HB; try assumption. congruence. }
        assert (Hkeep : (if q_lt (fst sc') (fst sc) then mkbest o0 (fst sc) (snd sc)
                         else if q_lt (fst sc) (fst sc') || (snd sc' <? snd sc) then mkbest o (fst sc') (snd sc')
                              else mkbest o0 (fst sc) (snd sc)) = mkbest o0 (fst sc) (snd sc)).
        { destruct (q_lt (fst sc') (fst sc)) eqn:E1; [reflexivity|].
          destruct (q_lt (fst sc) (fst sc') || (snd sc' <? snd sc)) eqn:E2; [|reflexivity].
          exfalso. unfold sc_better in Eb. apply orb_false_iff in Eb as [Eb1 Eb2].
          apply orb_true_iff in E2 as [E2|E2]; [congruence|].
          rewrite E2, andb_true_r in Eb2. unfold q_lt, q_eq in *.
          apply Z.ltb_ge in E1, Eb1. apply Z.eqb_neq in Eb2. lia. }
        rewrite Hkeep.
        right. exists i0, o0, sc. split; [apply in_or_app; now left|]. split; [reflexivity|].
        intros j o' x Hx. apply in_app_or in Hx as [Hx | [E|[]]]; [exact (Hall _ _ _ Hx)|].
        inversion E; subst. split; [exact HB | lia].
  - (* no score: state unchanged *)
    rewrite app_nil_r.
    assert (Hsame : (if q_is0 (sq sp) then b else if q_lt (sq sp) (b_q b) then b else
              match range_match (sval sp) (normalize_offer o) with
              | Some w => if q_lt (b_q b) (sq sp) || (w <? b_wild b) then mkbest o (sq sp) w else b
              | None => b end) = b).
    { unfold score in Esc. destruct (q_is0 (sq sp)); [reflexivity|].
      destruct (range_match _ _); [discriminate|]. now destruct (q_lt _ _). }
    rewrite Hsame. exact HInv.
Qed.

Lemma idx_le_app done ts k : idx_le done k -> idx_le ts k -> idx_le (done ++ ts) k.
Proof. intros H1 H2 j o sp Hin. apply in_app_or in Hin as [H|H]; [eapply H1 | eapply H2]; eassumption. Qed.

Lemma inner_inv d specs' : forall done b i o,
  (forall j o' sp', In (j, o', sp') done -> spec_ok sp') -> Forall spec_ok specs' ->
  idx_le done i -> Inv d done b ->
  Inv d (done ++ map (fun sp => (i, o, sp)) specs') (fold_left (step_spec o (normalize_offer o)) specs' b).
Proof.
  induction specs' as [|sp r IH]; intros done b i o Hok Hs Hidx HInv; simpl.
  - now rewrite app_nil_r.
  - inversion Hs as [|? ? Hsp Hr]; subst.
    replace (done ++ (i, o, sp) :: map (fun sp0 => (i, o, sp0)) r)
      with ((done ++ [(i, o, sp)]) ++ map (fun sp0 => (i, o, sp0)) r) by now rewrite <- app_assoc.
    apply IH; try assumption.
    + intros j o' sp' Hin. apply in_app_or in Hin as [H|[E|[]]]; [eapply Hok; eassumption|]. now inversion E; subst.
    + apply idx_le_app; [assumption|]. intros j o' sp' [E|[]]. inversion E; lia.
    + now apply step_inv.
Qed.

Lemma outer_inv d specs : Forall spec_ok specs -> forall offers done b i,
  (forall j o' sp', In (j, o', sp') done -> spec_ok sp') ->
  idx_le done i -> Inv d done b ->
  Inv d (done ++ triples_from i specs offers) (fold_left (step_offer specs) offers b).
Proof.
  intros Hs. induction offers as [|o r IH]; intros done b i Hok Hidx HInv; simpl.
  - now rewrite app_nil_r.
  - rewrite app_assoc. apply IH.
    + intros j o' sp' Hin. apply in_app_or in Hin as [H|H]; [eapply Hok; eassumption|].
      apply in_map_iff in H as [sp0 [E Hin0]]. inversion E; subst. rewrite Forall_forall in Hs. now apply Hs.
    + apply idx_le_app.
      * intros j o' sp' Hin. specialize (Hidx _ _ _ Hin). lia.
      * intros j o' sp' Hin. apply in_map_iff in Hin as [sp0 [E _]]. inversion E; lia.
    + unfold step_offer. now apply inner_inv.
Qed.

Lemma negotiate_inv specs offers d : Forall spec_ok specs ->
  Inv d (triples_from 0 specs offers) (fold_left (step_offer specs) offers (b0 d)).
Proof.
  intros Hs. change (triples_from 0 specs offers) with ([] ++ triples_from 0 specs offers).
  apply outer_inv; try assumption.
  - intros ? ? ? [].
  - intros ? ? ? [].
  - left. split; reflexivity.
Qed.

Lemma scs_all_ok specs offers i : Forall spec_ok specs ->
  forall j o sc, In (j, o, sc) (scs (triples_from i specs offers)) -> sc_ok sc.
Proof.
  intros Hs. apply in_scs_ok. revert i. induction offers as [|o r IH]; intros i j o' sp' Hin; simpl in Hin; [contradiction|].
  apply in_app_or in Hin as [H|H]; [|eapply IH; eassumption].
  apply in_map_iff in H as [sp0 [E Hin0]]. inversion E; subst. rewrite Forall_forall in Hs. now apply Hs.
Qed.

(* the general branch of negotiate_content_type meets the specification *)
Lemma lexmax_general specs offers d : Forall spec_ok specs ->
  let r := b_offer (fold_left (step_offer specs) offers (b0 d)) in
  match scored specs offers with
  | [] => bytes_eqb r d
  | _ => existsb (fun '(i, o, sc) =>
           bytes_eqb r o &&
           forallb (fun '(j, _, sc') =>
                      negb (sc_better sc' sc) && (if j <? i then sc_better sc sc' else true))
                   (scored specs offers)) (scored specs offers)
  end = true.
Proof.
  intros Hs r. subst r. pose proof (negotiate_inv specs offers d Hs) as HInv.
  pose proof (scs_all_ok specs offers 0 Hs) as Hok.
  unfold scored. rewrite scored_from_triples.
  destruct HInv as [[Hnil Hb] | (i & o & sc & Hin & Hb & Hall)].
  - rewrite Hnil, Hb. simpl. apply bytes_eqb_refl.
  - destruct (scs (triples_from 0 specs offers)) as [|x xs] eqn:E; [contradiction|].
    rewrite <- E in *. clear E x xs.
    apply existsb_exists. exists (i, o, sc). split; [assumption|].
    rewrite Hb; simpl. rewrite bytes_eqb_refl; simpl.
    apply forallb_forall. intros [[j o'] sc'] Hx.
    destruct (Hall _ _ _ Hx) as [Hn Hlt].
    assert (Hsc : sc_ok sc) by (eapply Hok; eassumption).
    assert (Hsc' : sc_ok sc') by (eapply Hok; eassumption).
    apply andb_true_iff; split.
    + apply negb_true_iff. destruct (sc_better sc' sc) eqn:Eb; [|reflexivity].
      exfalso. apply Hn. now apply sc_better_iff.
    + destruct (j <? i) eqn:Ej; [|reflexivity]. apply Nat.ltb_lt in Ej. apply sc_better_iff; auto.
Qed.

Theorem negotiate_lexmax specs offers d : Forall spec_ok specs ->
  lexmax_b specs offers d (negotiate_content_type specs offers d) = true.
Proof.
  intros Hs. unfold lexmax_b, negotiate_content_type.
  destruct specs as [|sp specs'].
  - destruct offers as [|o r]; [simpl; apply bytes_eqb_refl | apply bytes_eqb_refl].
  - exact (lexmax_general (sp :: specs') offers d Hs).
Qed.

(* the answer is an offer or the default *)
Lemma step_spec_offer raw o b sp : b_offer (step_spec raw o b sp) = b_offer b \/ b_offer (step_spec raw o b sp) = raw.
Proof.
  unfold step_spec. destruct (q_is0 _); [now left|]. destruct (q_lt _ _); [now left|].
  destruct (range_match _ _); [|now left]. destruct (_ || _); [now right | now left].
Qed.

Lemma fold_spec_offer raw o specs : forall b,
  b_offer (fold_left (step_spec raw o) specs b) = b_offer b \/ b_offer (fold_left (step_spec raw o) specs b) = raw.
Proof.
  induction specs as [|sp r IH]; intros b; simpl; [now left|].
  destruct (IH (step_spec raw o b sp)) as [H|H]; [|now right].
  rewrite H. apply step_spec_offer.
Qed.

Lemma fold_offer_in specs offers : forall b,
  b_offer (fold_left (step_offer specs) offers b) = b_offer b \/ In (b_offer (fold_left (step_offer specs) offers b)) offers.
Proof.
  induction offers as [|o r IH]; intros b; simpl; [now left|].
  destruct (IH (step_offer specs b o)) as [H|H]; [|right; now right].
  rewrite H. unfold step_offer. destruct (fold_spec_offer o (normalize_offer o) specs b) as [H'|H']; [now left | right; now left].
Qed.

Theorem negotiate_offer_or_default specs offers d :
  negotiate_content_type specs offers d = d \/ In (negotiate_content_type specs offers d) offers.
Proof.
  unfold negotiate_content_type. destruct specs as [|sp specs'].
  - destruct offers as [|o r]; [now left | right; now left].
  - apply (fold_offer_in (sp :: specs') offers (mkbest d q_neg1 3)).
Qed.

(* ranges of quality 0 never select an offer *)
Lemma step_spec_q0 raw o b sp : q_is0 (sq sp) = true -> step_spec raw o b sp = b.
Proof. intros H. unfold step_spec. now rewrite H. Qed.

Lemma fold_q0 raw o specs : Forall (fun sp => q_is0 (sq sp) = true) specs ->
  forall b, fold_left (step_spec raw o) specs b = b.
Proof.
  induction 1 as [|x l Hx Hl IHl]; intros b; simpl; [reflexivity|].
  rewrite step_spec_q0 by assumption. apply IHl.
Qed.

Theorem negotiate_all_q0 specs offers d : specs <> [] ->
  Forall (fun sp => q_is0 (sq sp) = true) specs -> negotiate_content_type specs offers d = d.
Proof.
  intros Hne H0. unfold negotiate_content_type.
  assert (Hfix : forall b, fold_left (step_offer specs) offers b = b).
  { induction offers as [|o r IH]; intros b; simpl; [reflexivity|].
    unfold step_offer at 2. rewrite fold_q0 by assumption. apply IH. }
  destruct specs as [|sp specs']; [congruence|]. now rewrite Hfix.
Qed.

Theorem negotiate_q0_ignored pre post sp0 offers d : q_is0 (sq sp0) = true -> pre ++ post <> [] ->
  negotiate_content_type (pre ++ sp0 :: post) offers d = negotiate_content_type (pre ++ post) offers d.
Proof.
  intros H0 Hne. unfold negotiate_content_type.
  assert (E : forall b o, step_offer (pre ++ sp0 :: post) b o = step_offer (pre ++ post) b o).
  { intros b o. unfold step_offer. rewrite !fold_left_app. simpl. now rewrite step_spec_q0. }
  assert (F : forall b, fold_left (step_offer (pre ++ sp0 :: post)) offers b = fold_left (step_offer (pre ++ post)) offers b).
  { induction offers as [|o r IH]; intros b; simpl; [reflexivity|]. now rewrite E, IH. }
  destruct (pre ++ sp0 :: post) eqn:E1; [destruct pre; discriminate|].
  destruct (pre ++ post) eqn:E2; [congruence|].
  rewrite <- E1, <- E2 in *. now rewrite F.
Qed.
