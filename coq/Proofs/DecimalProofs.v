(* DecimalProofs.v -- strconv.ParseInt(s, 10, 64) as modelled in Lib/Decimal.v accepts exactly the
   base-10 literals (optional sign, at least one digit, nothing else) that denote an int64, and
   returns the integer they denote. *)
From V Require Import Bytes Decimal.
Local Open Scope Z_scope.

Lemma is_digit_43 : is_digit 43%nat = false. Proof. reflexivity. Qed.
Lemma is_digit_45 : is_digit 45%nat = false. Proof. reflexivity. Qed.

Lemma digit_val_range d : is_digit d = true -> 0 <= digit_val d <= 9.
Proof.
  unfold is_digit, digit_val. intro H. apply andb_true_iff in H as [H1 H2].
  apply Nat.leb_le in H1. apply Nat.leb_le in H2. lia.
Qed.

Lemma digits_val_facts ds v : digits_val ds v -> ds <> [] /\ forallb is_digit ds = true /\ 0 <= v.
Proof.
  induction 1 as [d Hd | ds v d Hv [IH1 [IH2 IH3]] Hd].
  - repeat split; [discriminate | simpl; now rewrite Hd | apply digit_val_range in Hd; lia].
  - repeat split.
    + intro E. apply app_eq_nil in E as [_ E]. discriminate.
    + rewrite forallb_app, IH2. simpl. now rewrite Hd.
    + apply digit_val_range in Hd. lia.
Qed.

Lemma digits_acc_app a : forall acc b,
  digits_acc acc (a ++ b) = match digits_acc acc a with Some x => digits_acc x b | None => None end.
Proof.
  induction a as [|c a IH]; intros acc b; simpl; [reflexivity|].
  destruct (is_digit c); [apply IH | reflexivity].
Qed.

Lemma digits_val_acc ds v : digits_val ds v ->
  forall acc, digits_acc acc ds = Some (acc * 10 ^ Z.of_nat (length ds) + v).
Proof.
  induction 1 as [d Hd | ds v d Hv IH Hd]; intro acc.
  - cbn [digits_acc length]. rewrite Hd. f_equal; try (change (10 ^ Z.of_nat 1) with 10; ring).
  - rewrite digits_acc_app, IH. cbn [digits_acc]. rewrite Hd. f_equal.
    rewrite app_length. cbn [length]. rewrite Nat.add_1_r, Nat2Z.inj_succ, Z.pow_succ_r by lia. ring.
Qed.

Lemma digits_acc_val s : s <> [] -> forall acc r, digits_acc acc s = Some r ->
  exists v, digits_val s v /\ r = acc * 10 ^ Z.of_nat (length s) + v.
Proof.
  induction s as [|d s IH] using rev_ind; intros Hne acc r H; [congruence|].
  rewrite digits_acc_app in H.
  destruct (digits_acc acc s) as [x|] eqn:Hx; [|discriminate].
  cbn [digits_acc] in H. destruct (is_digit d) eqn:Hd; [|discriminate]. inversion H; subst r; clear H.
  destruct s as [|c s'].
  - cbn [digits_acc] in Hx. inversion Hx; subst x. exists (digit_val d). split; [now constructor|].
    cbn [app length]. change (10 ^ Z.of_nat 1) with 10. ring.
  - destruct (IH ltac:(discriminate) acc x Hx) as [v [Hv Hr]].
    remember (c :: s') as t eqn:Et.
    exists (10 * v + digit_val d). split; [now constructor|].
    rewrite Hr, app_length. change (length [d]) with 1%nat.
    rewrite Nat.add_1_r, Nat2Z.inj_succ, Z.pow_succ_r by lia.
    ring.
Qed.

Lemma digits_acc0_iff s v : s <> [] -> (digits_acc 0 s = Some v <-> digits_val s v).
Proof.
  intro Hne. split; intro H.
  - destruct (digits_acc_val s Hne 0 v H) as [v' [Hv' E]]. replace v with v' by lia. exact Hv'.
  - rewrite (digits_val_acc s v H). f_equal; lia.
Qed.

Lemma digits_val_fun s v1 v2 : digits_val s v1 -> digits_val s v2 -> v1 = v2.
Proof.
  intros H1 H2. pose proof (digits_val_facts _ _ H1) as [Hne _].
  apply (digits_acc0_iff s v1 Hne) in H1. apply (digits_acc0_iff s v2 Hne) in H2. congruence.
Qed.

Lemma parse_uint_dec_iff s un : parse_uint_dec s = Some un <-> digits_val s un /\ un < 2 ^ 64.
Proof.
  unfold parse_uint_dec. destruct s as [|c r].
  - simpl. split; [discriminate|]. intros [H _]. apply digits_val_facts in H as [H _]. congruence.
  - cbn [is_nil]. set (s := c :: r). assert (Hne : s <> []) by discriminate.
    destruct (digits_acc 0 s) as [v|] eqn:Hv.
    + apply (digits_acc0_iff s v Hne) in Hv. destruct (v <? 2 ^ 64) eqn:Hlt.
      * apply Z.ltb_lt in Hlt. split.
        -- intro E; inversion E; subst; auto.
        -- intros [H _]. f_equal. eapply digits_val_fun; eauto.
      * apply Z.ltb_ge in Hlt. split; [discriminate|]. intros [H Hlt'].
        assert (v = un) by (eapply digits_val_fun; eauto). lia.
    + split; [discriminate|]. intros [H _]. apply (digits_acc0_iff s un Hne) in H. congruence.
Qed.

(* the literal relation is decided by its first byte *)
Lemma dec_literal_minus r z : dec_literal (45%nat :: r) z <-> exists v, digits_val r v /\ z = - v.
Proof.
  split.
  - intro H. inversion H; subst.
    + match goal with H0 : digits_val (45%nat :: r) _ |- _ => apply digits_val_facts in H0 as [_ [H0 _]] end.
      simpl in *. discriminate.
    + eauto.
  - intros [v [Hv ->]]. now constructor.
Qed.

Lemma dec_literal_plus r z : dec_literal (43%nat :: r) z <-> digits_val r z.
Proof.
  split.
  - intro H. inversion H; subst.
    + match goal with H0 : digits_val (43%nat :: r) _ |- _ => apply digits_val_facts in H0 as [_ [H0 _]] end.
      simpl in *. discriminate.
    + assumption.
  - intro Hv. now constructor.
Qed.

Lemma dec_literal_plain c r z : Nat.eqb c 43 = false -> Nat.eqb c 45 = false ->
  (dec_literal (c :: r) z <-> digits_val (c :: r) z).
Proof.
  intros H43 H45. split.
  - intro H. inversion H; subst; try assumption.
    + rewrite Nat.eqb_refl in H43. discriminate.
    + rewrite Nat.eqb_refl in H45. discriminate.
  - intro Hv. now constructor.
Qed.

Lemma dec_literal_nil z : ~ dec_literal [] z.
Proof. intro H. inversion H; subst. apply digits_val_facts in H0 as [H0 _]. congruence. Qed.

Lemma dec_literal_fun s z1 z2 : dec_literal s z1 -> dec_literal s z2 -> z1 = z2.
Proof.
  destruct s as [|c r]; [intro H; now apply dec_literal_nil in H|].
  destruct (Nat.eqb c 45) eqn:H45.
  - apply Nat.eqb_eq in H45; subst c. rewrite !dec_literal_minus.
    intros [v1 [Hv1 ->]] [v2 [Hv2 ->]]. f_equal. eapply digits_val_fun; eauto.
  - destruct (Nat.eqb c 43) eqn:H43.
    + apply Nat.eqb_eq in H43; subst c. rewrite !dec_literal_plus. apply digits_val_fun.
    + rewrite !(dec_literal_plain c r _ H43 H45). apply digits_val_fun.
Qed.

(* strconv.ParseInt(s, 10, 64) = the integer the literal denotes, iff it is an int64 *)
Theorem parse_int_dec_iff s z :
  parse_int_dec s = Some z <-> dec_literal s z /\ - 2 ^ 63 <= z < 2 ^ 63.
Proof.
  destruct s as [|c r].
  - simpl. split; [discriminate|]. intros [H _]. now apply dec_literal_nil in H.
  - unfold parse_int_dec. destruct (Nat.eqb c 45) eqn:H45.
    + apply Nat.eqb_eq in H45; subst c. cbn [Nat.eqb orb negb andb].
      replace (Nat.eqb 45 43) with false by reflexivity. cbn [orb].
      rewrite dec_literal_minus.
      destruct (parse_uint_dec r) as [un|] eqn:Hu.
      * apply parse_uint_dec_iff in Hu as [Hv Hlt]. pose proof (digits_val_facts _ _ Hv) as [_ [_ Hpos]].
        destruct (2 ^ 63 <? un) eqn:Hc.
        -- apply Z.ltb_lt in Hc. split; [discriminate|]. intros [[v [Hv' ->]] Hr].
           assert (v = un) by (eapply digits_val_fun; eauto). lia.
        -- apply Z.ltb_ge in Hc. split.
           ++ intro E; inversion E; subst. split; [eauto | lia].
           ++ intros [[v [Hv' ->]] Hr]. do 2 f_equal. eapply digits_val_fun; eauto.
      * split; [discriminate|]. intros [[v [Hv ->]] Hr].
        assert (parse_uint_dec r = Some v) by (apply parse_uint_dec_iff; split; [assumption | lia]). congruence.
    + destruct (Nat.eqb c 43) eqn:H43.
      * apply Nat.eqb_eq in H43; subst c. cbn [orb negb andb]. rewrite dec_literal_plus.
        destruct (parse_uint_dec r) as [un|] eqn:Hu.
        -- apply parse_uint_dec_iff in Hu as [Hv Hlt]. pose proof (digits_val_facts _ _ Hv) as [_ [_ Hpos]].
           destruct (2 ^ 63 <=? un) eqn:Hc.
           ++ apply Z.leb_le in Hc. split; [discriminate|]. intros [Hv' Hr].
              assert (z = un) by (eapply digits_val_fun; eauto). lia.
           ++ apply Z.leb_gt in Hc. split.
              ** intro E; inversion E; subst. split; [assumption | lia].
              ** intros [Hv' Hr]. f_equal. eapply digits_val_fun; eauto.
        -- split; [discriminate|]. intros [Hv Hr].
           assert (parse_uint_dec r = Some z) by (apply parse_uint_dec_iff; split; [assumption | lia]). congruence.
      * cbn [orb negb andb]. rewrite (dec_literal_plain c r z H43 H45).
        destruct (parse_uint_dec (c :: r)) as [un|] eqn:Hu.
        -- apply parse_uint_dec_iff in Hu as [Hv Hlt]. pose proof (digits_val_facts _ _ Hv) as [_ [_ Hpos]].
           destruct (2 ^ 63 <=? un) eqn:Hc.
           ++ apply Z.leb_le in Hc. split; [discriminate|]. intros [Hv' Hr].
              assert (z = un) by (eapply digits_val_fun; eauto). lia.
           ++ apply Z.leb_gt in Hc. split.
              ** intro E; inversion E; subst. split; [assumption | lia].
              ** intros [Hv' Hr]. f_equal. eapply digits_val_fun; eauto.
        -- split; [discriminate|]. intros [Hv Hr].
           assert (parse_uint_dec (c :: r) = Some z) by (apply parse_uint_dec_iff; split; [assumption | lia]). congruence.
Qed.

(* ---- the executable denotation used by the case checker is the same relation ---- *)
Lemma digits_val_lsf ds v : digits_val ds v -> v = digits_value_lsf (rev ds).
Proof.
  induction 1 as [d Hd | ds v d Hv IH Hd].
  - simpl. lia.
  - rewrite rev_app_distr. simpl. rewrite <- IH. lia.
Qed.

Lemma lsf_digits_val ds : ds <> [] -> forallb is_digit ds = true -> digits_val ds (digits_value_lsf (rev ds)).
Proof.
  induction ds as [|d ds IH] using rev_ind; intros Hne Hall; [congruence|].
  rewrite forallb_app in Hall. apply andb_true_iff in Hall as [Hds Hd]. simpl in Hd.
  rewrite andb_true_r in Hd. rewrite rev_app_distr. change (rev [d]) with [d].
  cbn [app]. cbn [digits_value_lsf].
  destruct ds as [|c ds'].
  - change (rev []) with (@nil byte). cbn [digits_value_lsf].
    replace (digit_val d + 10 * 0) with (digit_val d) by lia. now constructor.
  - replace (digit_val d + 10 * digits_value_lsf (rev (c :: ds'))) with
      (10 * digits_value_lsf (rev (c :: ds')) + digit_val d) by lia.
    constructor; [apply IH; [discriminate | assumption] | assumption].
Qed.

Lemma digits_val_iff ds v :
  digits_val ds v <-> ds <> [] /\ forallb is_digit ds = true /\ v = digits_value_lsf (rev ds).
Proof.
  split.
  - intro H. pose proof (digits_val_facts _ _ H) as [H1 [H2 _]]. repeat split; auto using digits_val_lsf.
  - intros [H1 [H2 ->]]. now apply lsf_digits_val.
Qed.

Theorem dec_denotes_iff s z : dec_denotes s = Some z <-> dec_literal s z.
Proof.
  destruct s as [|c r].
  - unfold dec_denotes; simpl. split; [discriminate | intro H; now apply dec_literal_nil in H].
  - unfold dec_denotes. destruct (Nat.eqb c 45) eqn:H45.
    + apply Nat.eqb_eq in H45; subst c. cbn [Nat.eqb orb]. rewrite dec_literal_minus.
      destruct r as [|c' r'].
      * simpl. split; [discriminate|]. intros [v [Hv _]]. apply digits_val_facts in Hv as [Hv _]. congruence.
      * cbn [is_nil orb]. destruct (forallb is_digit (c' :: r')) eqn:Hall; cbn [negb].
        -- split.
           ++ intro E; inversion E; subst. eexists; split; [|reflexivity].
              apply lsf_digits_val; [discriminate | assumption].
           ++ intros [v [Hv ->]]. apply digits_val_lsf in Hv. now subst v.
        -- split; [discriminate|]. intros [v [Hv _]]. apply digits_val_facts in Hv as [_ [Hv _]]. exfalso. exact (eq_true_false_abs _ Hv Hall).
    + destruct (Nat.eqb c 43) eqn:H43.
      * apply Nat.eqb_eq in H43; subst c. cbn [orb]. rewrite dec_literal_plus.
        destruct r as [|c' r'].
        -- simpl. split; [discriminate|]. intro Hv. apply digits_val_facts in Hv as [Hv _]. congruence.
        -- cbn [is_nil orb]. destruct (forallb is_digit (c' :: r')) eqn:Hall; cbn [negb].
           ++ split.
              ** intro E; inversion E; subst. apply lsf_digits_val; [discriminate | assumption].
              ** intro Hv. apply digits_val_lsf in Hv. now subst z.
           ++ split; [discriminate|]. intro Hv. apply digits_val_facts in Hv as [_ [Hv _]]. exfalso. exact (eq_true_false_abs _ Hv Hall).
      * cbn [orb]. rewrite (dec_literal_plain c r z H43 H45).
        cbn [is_nil orb]. destruct (forallb is_digit (c :: r)) eqn:Hall; cbn [negb].
        -- split.
           ++ intro E; inversion E; subst. apply lsf_digits_val; [discriminate | assumption].
           ++ intro Hv. apply digits_val_lsf in Hv. now subst z.
        -- split; [discriminate|]. intro Hv. apply digits_val_facts in Hv as [_ [Hv _]]. exfalso. exact (eq_true_false_abs _ Hv Hall).
Qed.

Corollary parse_int_dec_denotes s :
  parse_int_dec s = match dec_denotes s with
                    | Some z => if in_int_range 64 z then Some z else None
                    | None => None
                    end.
Proof.
  destruct (dec_denotes s) as [z|] eqn:Hd.
  - apply dec_denotes_iff in Hd. unfold in_int_range. change (Z.of_nat 64 - 1) with 63.
    destruct ((- 2 ^ 63 <=? z) && (z <? 2 ^ 63)) eqn:Hr.
    + apply parse_int_dec_iff. apply andb_true_iff in Hr as [H1 H2].
      apply Z.leb_le in H1. apply Z.ltb_lt in H2. split; [assumption | lia].
    + destruct (parse_int_dec s) as [z'|] eqn:Hp; [|reflexivity].
      apply parse_int_dec_iff in Hp as [Hl Hr']. assert (z' = z) by (eapply dec_literal_fun; eauto). subst z'.
      apply andb_false_iff in Hr as [H|H]; [apply Z.leb_gt in H | apply Z.ltb_ge in H]; lia.
  - destruct (parse_int_dec s) as [z'|] eqn:Hp; [|reflexivity].
    apply parse_int_dec_iff in Hp as [Hl _]. apply dec_denotes_iff in Hl. congruence.
Qed.
