(* ClientURLProofs.v — lemmas and proofs for C10 (client URLs). *)
From V Require Import Bytes UrlEscape ClientURL ClientURLSpec.
From Coq Require Import Permutation.

(* ---------- scheme selection ---------- *)
Lemma existsb_https_in l : existsb (bytes_eqb sch_https) l = true <-> In sch_https l.
Proof.
  rewrite existsb_exists. split.
  - intros [x [Hx E]]. apply bytes_eqb_eq in E. now subst.
  - intros H. exists sch_https. split; [exact H | apply bytes_eqb_refl].
Qed.

Lemma select_scheme_https l : In sch_https l -> select_scheme l = sch_https.
Proof.
  intros H. unfold select_scheme. destruct l as [|s0 r]; [contradiction|].
  destruct (bytes_eqb s0 sch_https) eqn:E0.
  - apply bytes_eqb_eq in E0. subst. reflexivity.
  - cbn [negb andb]. destruct r as [|s1 r'].
    + destruct H as [H|[]]. subst. rewrite bytes_eqb_refl in E0. discriminate.
    + cbn [length]. change (1 <? S (S (length r'))) with true. cbv iota.
      apply existsb_https_in in H. now rewrite H.
Qed.

Lemma pick_scheme_https_transport rs os : In sch_https rs -> pick_scheme rs os = sch_https.
Proof. intros H. unfold pick_scheme. rewrite (select_scheme_https rs H). reflexivity. Qed.

Lemma pick_scheme_https_operation os : In sch_https os -> pick_scheme [] os = sch_https.
Proof. intros H. unfold pick_scheme. cbn [select_scheme]. rewrite (select_scheme_https os H). reflexivity. Qed.

Lemma pick_scheme_nonempty rs os : pick_scheme rs os <> [].
Proof.
  unfold pick_scheme. destruct (select_scheme rs) eqn:E1; [|discriminate].
  destruct (select_scheme os) eqn:E2; discriminate.
Qed.

(* the model satisfies the scheme clause of the specification *)
Lemma pick_scheme_ok rs os : scheme_ok rs os (pick_scheme rs os) = true.
Proof.
  unfold scheme_ok, several_with_https.
  assert (A : (if existsb (bytes_eqb sch_https) rs && (1 <? length rs)
               then bytes_eqb (pick_scheme rs os) sch_https else true) = true).
  { destruct (existsb (bytes_eqb sch_https) rs) eqn:E; [|reflexivity].
    destruct (1 <? length rs); [|reflexivity]. cbn [andb].
    apply existsb_https_in in E. rewrite (pick_scheme_https_transport rs os E). apply bytes_eqb_refl. }
  rewrite A. cbn [andb].
  assert (B : match rs with
              | [] => if existsb (bytes_eqb sch_https) os && (1 <? length os)
                      then bytes_eqb (pick_scheme rs os) sch_https else true
              | _ :: _ => true end = true).
  { destruct rs; [|reflexivity].
    destruct (existsb (bytes_eqb sch_https) os) eqn:E; [|reflexivity].
    destruct (1 <? length os); [|reflexivity]. cbn [andb].
    apply existsb_https_in in E. rewrite (pick_scheme_https_operation os E). apply bytes_eqb_refl. }
  rewrite B. cbn [andb].
  apply negb_true_iff. apply bytes_eqb_neq. apply pick_scheme_nonempty.
Qed.

Lemma https_preferred : forall rs os,
  (In sch_https rs -> pick_scheme rs os = sch_https) /\
  (In sch_https os -> pick_scheme [] os = sch_https) /\
  scheme_ok rs os (pick_scheme rs os) = true.
Proof.
  intros rs os. split; [exact (pick_scheme_https_transport rs os)|].
  split; [exact (pick_scheme_https_operation os) | exact (pick_scheme_ok rs os)].
Qed.

(* the chosen scheme is an offered one or the default *)
Lemma select_scheme_in l : select_scheme l = [] \/ In (select_scheme l) l.
Proof.
  unfold select_scheme. destruct l as [|s0 r]; [now left|]. right.
  destruct (negb (bytes_eqb s0 sch_https) && (1 <? length (s0 :: r))); [|now left].
  destruct (existsb (bytes_eqb sch_https) (s0 :: r)) eqn:E; [|now left].
  now apply existsb_https_in.
Qed.

Lemma existsb_eqb_in x l : In x l -> existsb (bytes_eqb x) l = true.
Proof. intros H. apply existsb_exists. exists x. split; [exact H | apply bytes_eqb_refl]. Qed.

Lemma pick_scheme_offered rs os : scheme_offered rs os (pick_scheme rs os) = true.
Proof.
  unfold scheme_offered, pick_scheme.
  destruct (select_scheme_in rs) as [E1|H1].
  - rewrite E1. destruct (select_scheme_in os) as [E2|H2].
    + rewrite E2. rewrite bytes_eqb_refl. apply orb_true_r.
    + destruct (select_scheme os) as [|c w] eqn:E2.
      * rewrite bytes_eqb_refl. apply orb_true_r.
      * rewrite (existsb_eqb_in (c :: w) (rs ++ os)); [reflexivity|].
        apply in_or_app. now right.
  - destruct (select_scheme rs) as [|c w] eqn:E1.
    + destruct (select_scheme os) as [|c w] eqn:E2.
      * rewrite bytes_eqb_refl. apply orb_true_r.
      * destruct (select_scheme_in os) as [E3|H3]; [rewrite E2 in E3; discriminate|].
        rewrite E2 in H3.
        rewrite (existsb_eqb_in (c :: w) (rs ++ os)); [reflexivity|].
        apply in_or_app. now right.
    + rewrite (existsb_eqb_in (c :: w) (rs ++ os)); [reflexivity|].
      apply in_or_app. now left.
Qed.

(* a history on one Runtime is the list of the single requests: no step sees an earlier one *)
Lemma history_stateless base rs host steps n pattern ps caller os :
  nth_error steps n = Some (pattern, ps, caller, os) ->
  nth_error (create_history base rs host steps) n = Some (create_request base pattern ps caller rs os host).
Proof.
  intros H. unfold create_history.
  rewrite (map_nth_error (create_step base rs host) n steps H). reflexivity.
Qed.

Lemma history_prefix_irrelevant base rs host pre pre' s :
  nth_error (create_history base rs host (pre ++ [s])) (length pre) =
  nth_error (create_history base rs host (pre' ++ [s])) (length pre').
Proof.
  unfold create_history. rewrite !map_app.
  rewrite !nth_error_app2 by (rewrite map_length; apply le_n).
  rewrite !map_length, !Nat.sub_diag. reflexivity.
Qed.

(* ---------- strings.ReplaceAll ---------- *)
Lemma replace_go_skip t e u r : replace_go t e (length u) (u ++ r) = replace_go t e 0 r.
Proof. induction u as [|c u IH]; [reflexivity|]. cbn [length app replace_go]. exact IH. Qed.

Lemma replace_nil t e : replace_all [] t e = [].
Proof. reflexivity. Qed.

Lemma replace_nomatch c r t e : has_prefix t (c :: r) = false ->
  replace_all (c :: r) t e = c :: replace_all r t e.
Proof. intros H. unfold replace_all. cbn [replace_go]. rewrite H. reflexivity. Qed.

Lemma replace_match k r e : replace_all (token k ++ r) (token k) e = e ++ replace_all r (token k) e.
Proof.
  unfold replace_all. remember (token k) as t eqn:Ht.
  assert (Hp : has_prefix t (t ++ r) = true) by apply has_prefix_app.
  destruct t as [|c t']; [discriminate|].
  cbn [app replace_go]. change (c :: t' ++ r) with ((c :: t') ++ r). rewrite Hp.
  replace (length (c :: t') - 1) with (length t') by (cbn [length]; lia).
  rewrite replace_go_skip. reflexivity.
Qed.

Lemma name_byte_no c : name_byte c = true -> c <> 123 /\ c <> 125 /\ c <> 47.
Proof.
  unfold name_byte. rewrite negb_true_iff. intros H.
  repeat (apply orb_false_iff in H; destruct H as [H ?]).
  repeat split; intro E; subst; discriminate.
Qed.

Lemma nonbrace_no c : nonbrace c = true -> c <> 123 /\ c <> 125.
Proof.
  unfold nonbrace. rewrite negb_true_iff. intros H.
  apply orb_false_iff in H; destruct H as [H ?].
  split; intro E; subst; discriminate.
Qed.

Lemma replace_skip_nolbrace u r k e : (forall c, In c u -> c <> 123) ->
  replace_all (u ++ r) (token k) e = u ++ replace_all r (token k) e.
Proof.
  induction u as [|c u IH]; intros H; [reflexivity|].
  cbn [app]. rewrite replace_nomatch.
  - rewrite IH; [reflexivity|]. intros x Hx. apply H. now right.
  - unfold token. cbn [has_prefix]. assert (c <> 123) by (apply H; now left).
    destruct (123 =? c) eqn:E; [apply Nat.eqb_eq in E; congruence | reflexivity].
Qed.

Lemma name_prefix_eq k : forall k' r, forallb name_byte k = true -> forallb name_byte k' = true ->
  has_prefix (k ++ [125]) (k' ++ 125 :: r) = true -> k = k'.
Proof.
  induction k as [|a k IH]; intros [|c k'] r Hk Hk' H; cbn [app has_prefix forallb] in *.
  - reflexivity.
  - apply andb_true_iff in Hk' as [Hc _]. apply name_byte_no in Hc.
    apply andb_true_iff in H as [H _]. apply Nat.eqb_eq in H. lia.
  - apply andb_true_iff in Hk as [Ha _]. apply name_byte_no in Ha.
    apply andb_true_iff in H as [H _]. apply Nat.eqb_eq in H. lia.
  - apply andb_true_iff in Hk as [_ Hk]. apply andb_true_iff in Hk' as [_ Hk'].
    apply andb_true_iff in H as [H1 H2]. apply Nat.eqb_eq in H1. subst c.
    f_equal. exact (IH k' r Hk Hk' H2).
Qed.

Lemma replace_hole_other k k' r e :
  forallb name_byte k = true -> forallb name_byte k' = true -> k <> k' ->
  replace_all (token k' ++ r) (token k) e = token k' ++ replace_all r (token k) e.
Proof.
  intros Hk Hk' Hne. unfold token at 1 3. cbn [app].
  rewrite replace_nomatch.
  - f_equal. rewrite replace_skip_nolbrace; [reflexivity|].
    intros c Hc. apply in_app_or in Hc as [Hc|[Hc|[]]].
    + rewrite forallb_forall in Hk'. apply Hk' in Hc. now apply name_byte_no in Hc.
    + subst. discriminate.
  - unfold token. cbn [has_prefix]. rewrite Nat.eqb_refl. cbn [andb].
    match goal with |- ?X = false => destruct X eqn:E end; [|reflexivity].
    rewrite <- app_assoc in E. cbn [app] in E.
    exfalso. apply Hne. exact (name_prefix_eq k k' r Hk Hk' E).
Qed.

(* ---------- one ReplaceAll on a well-formed pattern = filling the holes of that name ---------- *)
Definition fill1 (k e : bytes) (it : item) : list item :=
  match it with
  | Hole k' => if bytes_eqb k k' then map Lit e else [it]
  | Lit _ => [it]
  end.
Definition fill (k e : bytes) (items : list item) : list item := flat_map (fill1 k e) items.

Lemma render_app a b : render (a ++ b) = render a ++ render b.
Proof. unfold render. apply flat_map_app. Qed.

Lemma render_lits e : render (map Lit e) = e.
Proof.
  induction e as [|c e IH]; [reflexivity|]. cbn [map].
  change (render (Lit c :: map Lit e)) with ([c] ++ render (map Lit e)). now rewrite IH.
Qed.

Lemma replace_render k e items : items_ok items = true -> forallb name_byte k = true ->
  replace_all (render items) (token k) e = render (fill k e items).
Proof.
  intros Hok Hk. induction items as [|it items IH]; [reflexivity|].
  cbn [items_ok forallb] in Hok. apply andb_true_iff in Hok as [Hit Hok].
  specialize (IH Hok). unfold fill. cbn [flat_map]. fold (fill k e items).
  rewrite render_app. change (render (it :: items)) with (render1 it ++ render items).
  destruct it as [c|k']; cbn [render1 fill1 item_ok] in *.
  - cbn [app]. rewrite replace_nomatch.
    + now rewrite IH.
    + unfold token. cbn [has_prefix]. apply nonbrace_no in Hit.
      destruct (123 =? c) eqn:E; [apply Nat.eqb_eq in E; lia | reflexivity].
  - destruct (bytes_eqb k k') eqn:E.
    + apply bytes_eqb_eq in E. subst k'. rewrite replace_match, render_lits. now rewrite IH.
    + apply bytes_eqb_neq in E. rewrite (replace_hole_other k k' _ e Hk Hit E).
      rewrite IH. cbn [render flat_map render1]. now rewrite app_nil_r.
Qed.

Lemma fill_ok k e items : items_ok items = true -> forallb nonbrace e = true -> items_ok (fill k e items) = true.
Proof.
  intros Hok He. unfold items_ok, fill in *. rewrite forallb_flat_map.
  rewrite forallb_forall in Hok. apply forallb_forall. intros it Hit. specialize (Hok it Hit).
  destruct it as [c|k']; cbn [fill1].
  - cbn [forallb]. now rewrite Hok.
  - destruct (bytes_eqb k k').
    + rewrite forallb_forall in He. apply forallb_forall. intros x Hx.
      apply in_map_iff in Hx as [c [<- Hc]]. cbn [item_ok]. now apply He.
    + cbn [forallb]. now rewrite Hok.
Qed.

Lemma seg_safe_nonbrace b : seg_safe b = true -> nonbrace b = true.
Proof.
  intros H. apply seg_safe_no in H. destruct H as (_ & _ & _ & H1 & H2).
  unfold nonbrace. apply negb_true_iff. apply orb_false_iff. split; apply Nat.eqb_neq; assumption.
Qed.

Lemma path_escape_nonbrace v : wf_bytes v -> forallb nonbrace (path_escape v) = true.
Proof.
  intros Hv. pose proof (path_escape_safe v Hv) as H. rewrite forallb_forall in H.
  apply forallb_forall. intros b Hb. apply seg_safe_nonbrace. now apply H.
Qed.

Lemma inst_sub_lits ps e : flat_map (inst_sub ps) (map Lit e) = e.
Proof. induction e as [|c e IH]; [reflexivity|]. cbn. now rewrite IH. Qed.

Lemma inst_sub_fill ps k v items :
  flat_map (inst_sub ps) (fill k (path_escape v) items) = flat_map (inst_sub ((k, v) :: ps)) items.
Proof.
  induction items as [|it items IH]; [reflexivity|].
  unfold fill. cbn [flat_map]. fold (fill k (path_escape v) items).
  rewrite flat_map_app, IH. f_equal.
  destruct it as [c|k']; cbn [fill1]; [reflexivity|].
  cbn [inst_sub assoc]. destruct (bytes_eqb k k') eqn:E.
  - apply bytes_eqb_eq in E. subst k'. rewrite bytes_eqb_refl. apply inst_sub_lits.
  - assert (E' : bytes_eqb k' k = false).
    { apply bytes_eqb_neq. apply bytes_eqb_neq in E. congruence. }
    rewrite E'. cbn [flat_map inst_sub]. now rewrite app_nil_r.
Qed.

Lemma inst_sub_nil items : flat_map (inst_sub []) items = render items.
Proof. induction items as [|it items IH]; [reflexivity|]. cbn [flat_map]. rewrite IH. now destruct it. Qed.

Definition key_ok (k : bytes) : Prop := forallb name_byte k = true.

(* Theorem A: the sequential ReplaceAll fold is the simultaneous substitution: every placeholder
   becomes the escaped value set for its name (or stays), nothing else changes; in particular
   an escaped value is never substituted again *)
Theorem subst_items : forall ps items,
  items_ok items = true -> Forall key_ok (map fst ps) -> Forall wf_bytes (map snd ps) ->
  subst ps (render items) = flat_map (inst_sub ps) items.
Proof.
  induction ps as [|[k v] ps IH]; intros items Hok Hk Hv.
  - cbn. symmetry. apply inst_sub_nil.
  - cbn [map fst snd] in Hk, Hv. inversion Hk as [|? ? Hk1 Hk2]; subst. inversion Hv as [|? ? Hv1 Hv2]; subst.
    unfold subst. cbn [fold_left]. unfold subst1 at 2. cbn [fst snd].
    rewrite (replace_render k (path_escape v) items Hok Hk1).
    fold (subst ps (render (fill k (path_escape v) items))).
    rewrite IH; [apply inst_sub_fill | | assumption | assumption].
    apply fill_ok; [assumption | now apply path_escape_nonbrace].
Qed.

(* ---------- order independence ---------- *)
Lemma assoc_in_none k ps : ~ In k (map fst ps) -> assoc k ps = None.
Proof.
  induction ps as [|[k' v] ps IH]; [reflexivity|]. cbn [map fst assoc In]. intros H.
  destruct (bytes_eqb k k') eqn:E.
  - apply bytes_eqb_eq in E. subst. exfalso. apply H. now left.
  - apply IH. intro. apply H. now right.
Qed.

Lemma assoc_perm k ps ps' : Permutation ps ps' -> NoDup (map fst ps) -> assoc k ps = assoc k ps'.
Proof.
  induction 1 as [| [k1 v1] l l' HP IH | [k1 v1] [k2 v2] l | l l' l'' HP1 IH1 HP2 IH2]; intros Hnd.
  - reflexivity.
  - cbn [assoc]. destruct (bytes_eqb k k1); [reflexivity|]. apply IH. now inversion Hnd.
  - cbn [assoc]. destruct (bytes_eqb k k2) eqn:E2; destruct (bytes_eqb k k1) eqn:E1; try reflexivity.
    apply bytes_eqb_eq in E1, E2. subst. cbn [map fst] in Hnd. inversion Hnd as [|? ? Hn _]; subst.
    exfalso. apply Hn. now left.
  - rewrite IH1 by assumption. apply IH2.
    eapply Permutation_NoDup; [|exact Hnd]. now apply Permutation_map.
Qed.

Lemma inst_sub_perm ps ps' items : Permutation ps ps' -> NoDup (map fst ps) ->
  flat_map (inst_sub ps) items = flat_map (inst_sub ps') items.
Proof.
  intros HP Hnd. induction items as [|it items IH]; [reflexivity|].
  cbn [flat_map]. rewrite IH. f_equal. destruct it as [c|k]; [reflexivity|].
  cbn [inst_sub]. now rewrite (assoc_perm k ps ps' HP Hnd).
Qed.

Theorem subst_order_independent : forall ps ps' items,
  items_ok items = true -> Forall key_ok (map fst ps) -> Forall wf_bytes (map snd ps) ->
  NoDup (map fst ps) -> Permutation ps ps' ->
  subst ps (render items) = subst ps' (render items).
Proof.
  intros ps ps' items Hok Hk Hv Hnd HP.
  rewrite (subst_items ps items Hok Hk Hv).
  rewrite (subst_items ps' items Hok).
  - now apply inst_sub_perm.
  - eapply Permutation_Forall; [|exact Hk]. now apply Permutation_map.
  - eapply Permutation_Forall; [|exact Hv]. now apply Permutation_map.
Qed.

(* ---------- the re-encoding of the literals ---------- *)
Lemma escape_invalid_app a b : escape_invalid (a ++ b) = escape_invalid a ++ escape_invalid b.
Proof. unfold escape_invalid. apply flat_map_app. Qed.

Lemma escape_invalid_valid u : valid_encoded u = true -> escape_invalid u = u.
Proof.
  unfold valid_encoded, escape_invalid. induction u as [|c u IH]; [reflexivity|].
  cbn [forallb flat_map]. rewrite andb_true_iff. intros [Hc Hu].
  assert (E : escape_invalid1 c = [c]) by (unfold escape_invalid1; now rewrite Hc).
  rewrite E. cbn [app]. now rewrite (IH Hu).
Qed.

Definition einv_ok (c : nat) : bool :=
  forallb valid_encoded_byte (escape_invalid1 c)
  && ((c =? 47) || forallb (fun b => negb (b =? 47)) (escape_invalid1 c))
  && ((c =? 37) || opt_eqb bytes_eqb (path_unescape (escape_invalid1 c)) (Some [c]))
  && negb (valid_encoded_byte 63) && negb (valid_encoded_byte 35).

Lemma einv_ok_all : forall c, c < 256 -> einv_ok c = true.
Proof. apply all_bytes. vm_compute. reflexivity. Qed.

Lemma einv_parts c : c < 256 ->
  forallb valid_encoded_byte (escape_invalid1 c) = true /\
  (c <> 47 -> forallb (fun b => negb (b =? 47)) (escape_invalid1 c) = true) /\
  (c <> 37 -> path_unescape (escape_invalid1 c) = Some [c]).
Proof.
  intros Hc. pose proof (einv_ok_all c Hc) as H. unfold einv_ok in H.
  apply andb_true_iff in H as [H _]. apply andb_true_iff in H as [H _].
  apply andb_true_iff in H as [H H3]. apply andb_true_iff in H as [H1 H2].
  split; [assumption|]. split; intros Hne.
  - apply orb_true_iff in H2 as [E|E]; [apply Nat.eqb_eq in E; contradiction | exact E].
  - apply orb_true_iff in H3 as [E|E]; [apply Nat.eqb_eq in E; contradiction |].
    destruct (path_unescape (escape_invalid1 c)) as [t|]; cbn [opt_eqb] in E; [|discriminate].
    apply bytes_eqb_eq in E. now subst.
Qed.

(* whatever the input, the re-encoded path is a valid encoding *)
Lemma escape_invalid_valid_encoded s : wf_bytes s -> valid_encoded (escape_invalid s) = true.
Proof.
  intros Hs. unfold valid_encoded, escape_invalid. rewrite forallb_flat_map.
  apply forallb_bytes; [|exact Hs]. intros c Hc. apply (einv_parts c Hc).
Qed.

Lemma no_slash_spec u : forallb (fun b => negb (b =? 47)) u = true <-> ~ In 47 u.
Proof.
  rewrite forallb_forall. split.
  - intros H Hin. specialize (H 47 Hin). discriminate.
  - intros H x Hx. apply negb_true_iff. apply Nat.eqb_neq. intro; subst. contradiction.
Qed.

Lemma escape_invalid_no_slash u : wf_bytes u -> ~ In 47 u -> ~ In 47 (escape_invalid u).
Proof.
  intros Hu Hn. apply no_slash_spec. unfold escape_invalid. rewrite forallb_flat_map.
  apply forallb_forall. intros c Hc.
  unfold wf_bytes in Hu. rewrite Forall_forall in Hu.
  apply (einv_parts c (Hu c Hc)). intro; subst. contradiction.
Qed.

Lemma unescape_escape_invalid u : wf_bytes u -> ~ In 37 u -> path_unescape (escape_invalid u) = Some u.
Proof.
  induction 1 as [|c u Hc Hu IH]; intros Hn; [reflexivity|].
  change (escape_invalid (c :: u)) with (escape_invalid1 c ++ escape_invalid u).
  unfold path_unescape in *.
  rewrite (unescape_app false (escape_invalid1 c) [c]).
  - rewrite IH; [reflexivity|]. intro. apply Hn. now right.
  - apply (einv_parts c Hc). intro; subst. apply Hn. now left.
Qed.

(* ---------- what each item of the pattern becomes in the request path ---------- *)
Definition inst_esc (ps : list (bytes * bytes)) (it : item) : bytes := escape_invalid (inst_sub ps it).

Lemma escape_invalid_flat ps items :
  escape_invalid (flat_map (inst_sub ps) items) = flat_map (inst_esc ps) items.
Proof.
  induction items as [|it items IH]; [reflexivity|].
  cbn [flat_map]. now rewrite escape_invalid_app, IH.
Qed.

(* a pattern item with bytes below 256, no stray brace, no raw percent sign *)
Definition item_strict (it : item) : bool :=
  match it with
  | Lit c => nonbrace c && (c <? 256) && negb (c =? 37)
  | Hole k => forallb name_byte k && wf_bytesb k && negb (mem_byte 37 k)
  end.

Lemma item_strict_ok it : item_strict it = true -> item_ok it = true.
Proof.
  destruct it as [c|k]; cbn [item_strict item_ok]; intros H.
  - apply andb_true_iff in H as [H _]. now apply andb_true_iff in H as [H _].
  - apply andb_true_iff in H as [H _]. now apply andb_true_iff in H as [H _].
Qed.

Lemma items_strict_ok items : forallb item_strict items = true -> items_ok items = true.
Proof.
  unfold items_ok. rewrite !forallb_forall. intros H it Hit. apply item_strict_ok. now apply H.
Qed.

Lemma mem_byte_in c l : mem_byte c l = true <-> In c l.
Proof.
  unfold mem_byte. rewrite existsb_exists. split.
  - intros [x [Hx E]]. apply Nat.eqb_eq in E. now subst.
  - intros H. exists c. split; [exact H | apply Nat.eqb_refl].
Qed.

Lemma assoc_in k v ps : assoc k ps = Some v -> In v (map snd ps).
Proof.
  induction ps as [|[k' v'] ps IH]; [discriminate|]. cbn [assoc map snd In].
  destruct (bytes_eqb k k'); [intros E; inversion E; now left | intros E; right; now apply IH].
Qed.

Section Items.
  Variable ps : list (bytes * bytes).
  Hypothesis Hvals : Forall wf_bytes (map snd ps).

  Lemma vals_wf k v : assoc k ps = Some v -> wf_bytes v.
  Proof. intros H. apply assoc_in in H. rewrite Forall_forall in Hvals. now apply Hvals. Qed.

  Lemma token_wf k : wf_bytes k -> wf_bytes (token k).
  Proof.
    intros Hk. unfold token, wf_bytes. constructor; [lia|]. apply Forall_app. split; [exact Hk|].
    constructor; [lia | constructor].
  Qed.

  (* only a literal separator yields a separator *)
  Lemma inst_esc_no_slash it : item_strict it = true ->
    match it with Lit c => c <> 47 | Hole _ => True end -> ~ In 47 (inst_esc ps it).
  Proof.
    intros Hs Hsep. unfold inst_esc. destruct it as [c|k]; cbn [inst_sub item_strict] in *.
    - apply andb_true_iff in Hs as [Hs _]. apply andb_true_iff in Hs as [_ Hc]. apply Nat.ltb_lt in Hc.
      apply escape_invalid_no_slash; [constructor; [exact Hc | constructor] | intros [E|[]]; congruence].
    - apply andb_true_iff in Hs as [Hs _]. apply andb_true_iff in Hs as [Hn Hw].
      apply wf_bytesb_spec in Hw.
      destruct (assoc k ps) as [v|] eqn:E.
      + pose proof (vals_wf k v E) as Hv.
        rewrite escape_invalid_valid by (now apply path_escape_valid_encoded).
        intro Hin. apply (path_escape_no_special v 47 Hv) in Hin. destruct Hin as [Hin _]. congruence.
      + apply escape_invalid_no_slash; [now apply token_wf|].
        unfold token. intros [Hin|Hin]; [discriminate|].
        apply in_app_or in Hin as [Hin|[Hin|[]]]; [|discriminate].
        rewrite forallb_forall in Hn. apply Hn in Hin. apply name_byte_no in Hin. lia.
  Qed.

  (* every item decodes to its raw instantiation *)
  Lemma inst_esc_decodes it : item_strict it = true ->
    path_unescape (inst_esc ps it) = Some (inst_raw ps it).
  Proof.
    intros Hs. unfold inst_esc. destruct it as [c|k]; cbn [inst_sub inst_raw item_strict] in *.
    - apply andb_true_iff in Hs as [Hs Hp]. apply andb_true_iff in Hs as [_ Hc]. apply Nat.ltb_lt in Hc.
      apply negb_true_iff, Nat.eqb_neq in Hp.
      apply unescape_escape_invalid; [constructor; [exact Hc | constructor] | intros [E|[]]; congruence].
    - apply andb_true_iff in Hs as [Hs Hp]. apply andb_true_iff in Hs as [Hn Hw].
      apply wf_bytesb_spec in Hw.
      destruct (assoc k ps) as [v|] eqn:E.
      + pose proof (vals_wf k v E) as Hv.
        rewrite escape_invalid_valid by (now apply path_escape_valid_encoded).
        now apply path_unescape_escape.
      + apply unescape_escape_invalid; [now apply token_wf|].
        unfold token. intros [Hin|Hin]; [discriminate|].
        apply in_app_or in Hin as [Hin|[Hin|[]]]; [|discriminate].
        apply negb_true_iff in Hp. apply mem_byte_in in Hin. congruence.
  Qed.

  Lemma flat_decodes items : forallb item_strict items = true ->
    path_unescape (flat_map (inst_esc ps) items) = Some (flat_map (inst_raw ps) items).
  Proof.
    induction items as [|it items IH]; [reflexivity|].
    cbn [forallb flat_map]. rewrite andb_true_iff. intros [Hit Hr].
    unfold path_unescape in *.
    rewrite (unescape_app false _ _ _ (inst_esc_decodes it Hit)). now rewrite (IH Hr).
  Qed.
End Items.

(* ---------- splitting at the separators ---------- *)
Lemma split_on_nonnil d s : split_on d s <> [].
Proof.
  destruct s as [|c r]; cbn [split_on]; [discriminate|].
  destruct (c =? d); [discriminate|]. destruct (split_on d r); discriminate.
Qed.

Lemma split_on_app_nosep u s : ~ In 47 u ->
  split_on 47 (u ++ s) = match split_on 47 s with h :: t => (u ++ h) :: t | [] => [u] end.
Proof.
  induction u as [|c u IH]; intros Hn.
  - cbn [app]. pose proof (split_on_nonnil 47 s). now destruct (split_on 47 s).
  - cbn [app split_on]. destruct (c =? 47) eqn:E.
    + apply Nat.eqb_eq in E. subst. exfalso. apply Hn. now left.
    + rewrite IH by (intro; apply Hn; now right).
      destruct (split_on 47 s); reflexivity.
Qed.

Lemma split_flat (f : item -> bytes) items :
  f (Lit 47) = [47] ->
  (forall it, In it items -> match it with Lit c => c <> 47 | Hole _ => True end -> ~ In 47 (f it)) ->
  split_on 47 (flat_map f items) = map (flat_map f) (split_items items).
Proof.
  intros Hsep Hno. induction items as [|it items IH]; [reflexivity|].
  assert (IH' : split_on 47 (flat_map f items) = map (flat_map f) (split_items items)).
  { apply IH. intros x Hx. apply Hno. now right. }
  cbn [flat_map split_items].
  assert (Hgen : match it with Lit c => c <> 47 | Hole _ => True end ->
     split_on 47 (f it ++ flat_map f items) =
     map (flat_map f) (match split_items items with h :: t => (it :: h) :: t | [] => [[it]] end)).
  { intros Hc. rewrite split_on_app_nosep by (apply Hno; [now left | exact Hc]).
    rewrite IH'. destruct (split_items items) as [|h t]; cbn [map flat_map]; [now rewrite app_nil_r | reflexivity]. }
  destruct it as [c|k].
  - destruct (c =? 47) eqn:E.
    + apply Nat.eqb_eq in E. subst c. rewrite Hsep. cbn [app split_on]. cbn [map flat_map]. now rewrite IH'.
    + apply Hgen. now apply Nat.eqb_neq.
  - now apply Hgen.
Qed.

Lemma list_eqb_map {A B C} (R : B -> C -> bool) (f : A -> B) (g : A -> C) l :
  (forall x, In x l -> R (f x) (g x) = true) -> list_eqb R (map f l) (map g l) = true.
Proof.
  induction l as [|x l IH]; intros H; [reflexivity|].
  cbn [map list_eqb]. rewrite (H x (or_introl eq_refl)). cbn [andb]. apply IH. intros y Hy. apply H. now right.
Qed.

Lemma split_items_sub items : forall seg it, In seg (split_items items) -> In it seg -> In it items.
Proof.
  induction items as [|x items IH]; intros seg it Hseg Hit.
  - cbn in Hseg. destruct Hseg as [<-|[]]. contradiction.
  - cbn [split_items] in Hseg.
    assert (Hgen : In seg (match split_items items with h :: t => (x :: h) :: t | [] => [[x]] end) -> In it (x :: items)).
    { destruct (split_items items) as [|h t] eqn:E.
      - intros [<-|[]]. destruct Hit as [<-|[]]. now left.
      - intros [<-|Hin].
        + destruct Hit as [<-|Hit]; [now left | right; apply (IH h it); [now left | exact Hit]].
        + right. apply (IH seg it); [now right | exact Hit]. }
    destruct x as [c|k]; [|now apply Hgen].
    destruct (c =? 47); [|now apply Hgen].
    destruct Hseg as [<-|Hseg]; [contradiction|]. right. now apply (IH seg it).
Qed.

(* Theorem B: the request path has exactly the pattern's segments, each decoding to the pattern
   segment with the raw values in place of the placeholders; no query or fragment mark *)
Theorem segments_ok_items : forall ps items,
  forallb item_strict items = true -> Forall key_ok (map fst ps) -> Forall wf_bytes (map snd ps) ->
  segments_ok items false ps (escape_invalid (subst ps (render items))) = true.
Proof.
  intros ps items Hst Hk Hv.
  rewrite (subst_items ps items (items_strict_ok items Hst) Hk Hv), escape_invalid_flat.
  unfold segments_ok.
  assert (Hwf : wf_bytes (flat_map (inst_sub ps) items)).
  { unfold wf_bytes. rewrite Forall_forall. intros b Hb. apply in_flat_map in Hb as [it [Hit Hb]].
    rewrite forallb_forall in Hst. specialize (Hst it Hit).
    destruct it as [c|k]; cbn [inst_sub item_strict] in *.
    - destruct Hb as [<-|[]]. apply andb_true_iff in Hst as [Hst _]. apply andb_true_iff in Hst as [_ Hc]. now apply Nat.ltb_lt.
    - apply andb_true_iff in Hst as [Hst _]. apply andb_true_iff in Hst as [_ Hw]. apply wf_bytesb_spec in Hw.
      destruct (assoc k ps) as [v|] eqn:E.
      + pose proof (path_escape_wf v (vals_wf ps Hv k v E)) as W. unfold wf_bytes in W. rewrite Forall_forall in W. now apply W.
      + pose proof (token_wf k Hw) as W. unfold wf_bytes in W. rewrite Forall_forall in W. now apply W. }
  assert (Hvalid : valid_encoded (flat_map (inst_esc ps) items) = true).
  { rewrite <- escape_invalid_flat. now apply escape_invalid_valid_encoded. }
  assert (Hno : forall d, valid_encoded_byte d = false -> mem_byte d (flat_map (inst_esc ps) items) = false).
  { intros d Hd. destruct (mem_byte d (flat_map (inst_esc ps) items)) eqn:E; [|reflexivity].
    apply mem_byte_in in E. unfold valid_encoded in Hvalid. rewrite forallb_forall in Hvalid.
    rewrite (Hvalid d E) in Hd. discriminate. }
  rewrite (Hno 63 eq_refl), (Hno 35 eq_refl). cbn [negb]. rewrite !andb_true_r.
  rewrite split_flat.
  - apply list_eqb_map. intros seg Hseg. rewrite flat_decodes; [cbn [opt_eqb]; apply bytes_eqb_refl | exact Hv |].
    apply forallb_forall. intros it Hit. rewrite forallb_forall in Hst. apply Hst.
    now apply (split_items_sub items seg it).
  - reflexivity.
  - intros it Hit Hsep. apply inst_esc_no_slash; [exact Hv | | exact Hsep].
    rewrite forallb_forall in Hst. now apply Hst.
Qed.

Lemma flat_inst_sub_wf ps items : forallb item_strict items = true -> Forall wf_bytes (map snd ps) ->
  wf_bytes (flat_map (inst_sub ps) items).
Proof.
  intros Hst Hv. unfold wf_bytes. rewrite Forall_forall. intros b Hb. apply in_flat_map in Hb as [it [Hit Hb]].
  rewrite forallb_forall in Hst. specialize (Hst it Hit).
  destruct it as [c|k]; cbn [inst_sub item_strict] in *.
  - destruct Hb as [<-|[]]. apply andb_true_iff in Hst as [Hst _]. apply andb_true_iff in Hst as [_ Hc]. now apply Nat.ltb_lt.
  - apply andb_true_iff in Hst as [Hst _]. apply andb_true_iff in Hst as [_ Hw]. apply wf_bytesb_spec in Hw.
    destruct (assoc k ps) as [v|] eqn:E.
    + pose proof (path_escape_wf v (vals_wf ps Hv k v E)) as W. unfold wf_bytes in W. rewrite Forall_forall in W. now apply W.
    + pose proof (token_wf k Hw) as W. unfold wf_bytes in W. rewrite Forall_forall in W. now apply W.
Qed.

(* with the reinstated trailing slash: one more, empty, last segment *)
Theorem segments_ok_items_slash : forall ps items (slash : bool),
  forallb item_strict items = true -> Forall key_ok (map fst ps) -> Forall wf_bytes (map snd ps) ->
  segments_ok items slash ps
    (escape_invalid (if slash then subst ps (render items) ++ [47] else subst ps (render items))) = true.
Proof.
  intros ps items [|] Hst Hk Hv; [|now apply segments_ok_items].
  assert (Hst' : forallb item_strict (items ++ [Lit 47]) = true).
  { rewrite forallb_app, Hst. reflexivity. }
  pose proof (segments_ok_items ps (items ++ [Lit 47]) Hst' Hk Hv) as H.
  rewrite (subst_items ps _ (items_strict_ok _ Hst') Hk Hv) in H.
  rewrite (subst_items ps _ (items_strict_ok _ Hst) Hk Hv).
  rewrite flat_map_app in H. cbn [flat_map inst_sub app] in H.
  unfold segments_ok in *. exact H.
Qed.

Theorem segments_ok_build : forall bp pp ps items,
  path_join bp pp = render items ->
  forallb item_strict items = true -> Forall key_ok (map fst ps) -> Forall wf_bytes (map snd ps) ->
  segments_ok items (reinstate_slash pp) ps (build_path bp pp ps) = true.
Proof.
  intros bp pp ps items Hj Hst Hk Hv. unfold build_path. rewrite Hj.
  now apply segments_ok_items_slash.
Qed.

(* a trailing slash of the pattern is kept *)
Theorem build_path_trailing_slash : forall bp pp ps,
  reinstate_slash pp = true -> exists u, build_path bp pp ps = u ++ [47].
Proof.
  intros bp pp ps H. unfold build_path. rewrite H. rewrite escape_invalid_app.
  eexists. reflexivity.
Qed.

(* ---------- the URL parser keeps the path that was built ---------- *)
Lemma cut_notin d s : ~ In d s -> cut d s = (s, None).
Proof.
  induction s as [|c r IH]; intros H; [reflexivity|]. cbn [cut].
  destruct (c =? d) eqn:E.
  - apply Nat.eqb_eq in E. subst. exfalso. apply H. now left.
  - rewrite IH; [reflexivity|]. intro. apply H. now right.
Qed.

Lemma count_byte_notin d s : ~ In d s -> count_byte d s = 0.
Proof.
  unfold count_byte. induction s as [|c r IH]; intros H; [reflexivity|]. cbn [filter].
  destruct (d =? c) eqn:E.
  - apply Nat.eqb_eq in E. subst. exfalso. apply H. now left.
  - apply IH. intro. apply H. now right.
Qed.

Lemma split_query_notin s : ~ In 63 s -> split_query s = (s, []).
Proof.
  intros H. unfold split_query. rewrite (count_byte_notin 63 s H). cbn [Nat.eqb]. rewrite andb_false_r.
  now rewrite (cut_notin 63 s H).
Qed.

Theorem built_path_escaped : forall s p raw q, wf_bytes s ->
  url_parse (escape_invalid s) = POk p raw q -> escaped_path p raw = escape_invalid s /\ q = [].
Proof.
  intros s p raw q Hs. pose proof (escape_invalid_valid_encoded s Hs) as Hvalid.
  remember (escape_invalid s) as u eqn:Hu. clear Hu.
  assert (Hno : forall d, valid_encoded_byte d = false -> ~ In d u).
  { intros d Hd Hin. unfold valid_encoded in Hvalid. rewrite forallb_forall in Hvalid.
    rewrite (Hvalid d Hin) in Hd. discriminate. }
  unfold url_parse. rewrite (cut_notin 35 u (Hno 35 eq_refl)).
  destruct (existsb is_ctl u); [discriminate|].
  destruct (bytes_eqb u [42]); [discriminate|].
  destruct (get_scheme true u); try discriminate.
  rewrite (split_query_notin u (Hno 63 eq_refl)).
  destruct (negb (has_prefix [47] u) && mem_byte 58 (fst (cut 47 u))); [discriminate|].
  destruct (has_prefix [47; 47] u && negb (has_prefix [47; 47; 47] u)); [discriminate|].
  destruct (path_unescape u) as [p'|]; [|discriminate].
  intros H. inversion H; subst. unfold escaped_path. rewrite Hvalid. split; reflexivity.
Qed.

(* Theorem C: whenever the model builds a request from a well-formed pattern, its escaped path has
   exactly the pattern's segments, scheme and host are the chosen ones and the query is the merged one *)
Theorem create_request_ok : forall base pattern ps caller rs os host bp br bq pp pr pq items ep q sch h,
  url_parse base = POk bp br bq -> url_parse pattern = POk pp pr pq ->
  path_join bp pp = render items ->
  forallb item_strict items = true -> Forall key_ok (map fst ps) -> Forall wf_bytes (map snd ps) ->
  create_request base pattern ps caller rs os host = OutOk ep q sch h ->
  segments_ok items (reinstate_slash pp) ps ep = true /\
  q = client_query caller (merge_static (parse_query bq) (parse_query pq)) /\
  sch = pick_scheme rs os /\ h = host.
Proof.
  intros base pattern ps caller rs os host bp br bq pp pr pq items ep q sch h Hb Hp Hj Hst Hk Hv.
  unfold create_request. rewrite Hb, Hp.
  destruct (url_parse (build_path bp pp ps)) as [| |p raw rq] eqn:E; try discriminate.
  intros H. inversion H; subst. repeat split.
  pose proof (segments_ok_build bp pp ps items Hj Hst Hk Hv) as Hseg.
  unfold build_path in E, Hseg. rewrite Hj in E, Hseg.
  rewrite (subst_items ps items (items_strict_ok items Hst) Hk Hv) in E, Hseg.
  assert (Hwf : wf_bytes (if reinstate_slash pp then flat_map (inst_sub ps) items ++ [47] else flat_map (inst_sub ps) items)).
  { pose proof (flat_inst_sub_wf ps items Hst Hv) as W. destruct (reinstate_slash pp); [|exact W].
    unfold wf_bytes. apply Forall_app. split; [exact W | constructor; [lia | constructor]]. }
  destruct (built_path_escaped _ p raw rq Hwf E) as [Hep _]. rewrite Hep. exact Hseg.
Qed.

(* ---------- reading a text as items ---------- *)
Lemma render_lex_go : forall n s, render (lex_go n s) = s.
Proof.
  induction n as [|n IH]; intros s; [apply render_lits|].
  destruct s as [|c r]; [reflexivity|]. cbn [lex_go].
  destruct (c =? 123) eqn:E.
  - apply Nat.eqb_eq in E. subst c.
    destruct (span name_byte r) as [name rest] eqn:Es.
    pose proof (span_app name_byte r) as Happ. rewrite Es in Happ. cbn [fst snd] in Happ.
    destruct rest as [|d rest'].
    + change (render (Lit 123 :: lex_go n r)) with ([123] ++ render (lex_go n r)). now rewrite IH.
    + destruct (d =? 125) eqn:Ed.
      * apply Nat.eqb_eq in Ed. subst d.
        change (render (Hole name :: lex_go n rest')) with (token name ++ render (lex_go n rest')).
        rewrite IH. unfold token. cbn [app]. rewrite <- app_assoc. cbn [app]. now rewrite Happ.
      * change (render (Lit 123 :: lex_go n r)) with ([123] ++ render (lex_go n r)). now rewrite IH.
  - change (render (Lit c :: lex_go n r)) with ([c] ++ render (lex_go n r)). now rewrite IH.
Qed.

Theorem render_lex s : render (lex s) = s.
Proof. apply render_lex_go. Qed.

(* ---------- query values ---------- *)
Lemma q_get_app k a b : q_get k (a ++ b) = match q_get k a with Some v => Some v | None => q_get k b end.
Proof.
  induction a as [|[k' vs] a IH]; [reflexivity|]. cbn [app q_get]. destruct (bytes_eqb k k'); [reflexivity | exact IH].
Qed.

Lemma q_get_del k k' m : q_get k (q_del k' m) = if bytes_eqb k k' then None else q_get k m.
Proof.
  unfold q_del. induction m as [|[k0 vs] m IH]; [now destruct (bytes_eqb k k')|].
  cbn [filter fst]. destruct (bytes_eqb k' k0) eqn:E0; cbn [negb].
  - apply bytes_eqb_eq in E0. subst k0. rewrite IH. cbn [q_get]. now destruct (bytes_eqb k k').
  - cbn [q_get]. destruct (bytes_eqb k k0) eqn:E1.
    + apply bytes_eqb_eq in E1. subst k0.
      destruct (bytes_eqb k k') eqn:E2; [|reflexivity].
      apply bytes_eqb_eq in E2. subst k'. rewrite bytes_eqb_refl in E0. discriminate.
    + exact IH.
Qed.

Lemma q_get_set k k' vs m : q_get k (q_set k' vs m) = if bytes_eqb k k' then Some vs else q_get k m.
Proof.
  unfold q_set. rewrite q_get_app, q_get_del. cbn [q_get].
  destruct (bytes_eqb k k'); [reflexivity|]. now destruct (q_get k m).
Qed.

Lemma q_get_notin k m : ~ In k (map fst m) -> q_get k m = None.
Proof.
  induction m as [|[k' vs] m IH]; [reflexivity|]. cbn [map fst In q_get]. intros H.
  destruct (bytes_eqb k k') eqn:E.
  - apply bytes_eqb_eq in E. subst. exfalso. apply H. now left.
  - apply IH. intro. apply H. now right.
Qed.

Lemma q_has_get k m : q_has k m = match q_get k m with Some _ => true | None => false end.
Proof. reflexivity. Qed.

Lemma cq_fold caller k : forall static m, NoDup (map fst static) ->
  q_get k (fold_left (client_query1 caller) static m) =
  if q_has k caller then q_get k m
  else match q_get k static with Some vs => Some vs | None => q_get k m end.
Proof.
  induction static as [|[k0 vs0] static IH]; intros m Hnd.
  - cbn. now destruct (q_has k caller).
  - cbn [map fst] in Hnd. inversion Hnd as [|? ? Hn Hnd']; subst.
    cbn [fold_left]. rewrite (IH _ Hnd'). unfold client_query1 at 1 2. cbn [fst snd q_get].
    destruct (q_has k caller) eqn:Ek.
    + destruct (q_has k0 caller) eqn:Ek0; [reflexivity|].
      rewrite q_get_set. destruct (bytes_eqb k k0) eqn:E; [|reflexivity].
      apply bytes_eqb_eq in E. subst. congruence.
    + destruct (bytes_eqb k k0) eqn:E.
      * apply bytes_eqb_eq in E. subst k0. rewrite (q_get_notin k static Hn).
        rewrite Ek. rewrite q_get_set, bytes_eqb_refl. reflexivity.
      * destruct (q_get k static); [reflexivity|].
        destruct (q_has k0 caller); [reflexivity|]. rewrite q_get_set, E. reflexivity.
Qed.

Lemma q_get_add k k' v m : q_get k (q_add k' v m) = if bytes_eqb k k' then Some (q_vals k m ++ [v]) else q_get k m.
Proof.
  unfold q_vals. induction m as [|[k0 vs] m IH].
  - cbn [q_add q_get]. now destruct (bytes_eqb k k').
  - cbn [q_add]. destruct (bytes_eqb k' k0) eqn:E0.
    + apply bytes_eqb_eq in E0. subst k0. cbn [q_get]. destruct (bytes_eqb k k') eqn:E; reflexivity.
    + cbn [q_get]. destruct (bytes_eqb k k0) eqn:E1.
      * apply bytes_eqb_eq in E1. subst k0. destruct (bytes_eqb k k') eqn:E2; [|reflexivity].
        apply bytes_eqb_eq in E2. subst k'. rewrite bytes_eqb_refl in E0. discriminate.
      * exact IH.
Qed.

Lemma q_vals_add_fold k name : forall vs m,
  q_vals k (fold_left (fun m' v => q_add name v m') vs m) = if bytes_eqb k name then q_vals k m ++ vs else q_vals k m.
Proof.
  induction vs as [|v vs IH]; intros m.
  - cbn. destruct (bytes_eqb k name); [now rewrite app_nil_r | reflexivity].
  - cbn [fold_left]. rewrite IH.
    assert (A : q_vals k (q_add name v m) = if bytes_eqb k name then q_vals k m ++ [v] else q_vals k m).
    { unfold q_vals at 1. rewrite q_get_add. now destruct (bytes_eqb k name). }
    rewrite A. destruct (bytes_eqb k name); [now rewrite <- app_assoc | reflexivity].
Qed.

Lemma q_vals_merge1 k m name vs :
  q_vals k (merge_static1 m (name, vs)) = if bytes_eqb k name then vs else q_vals k m.
Proof.
  unfold merge_static1. cbn [fst snd]. rewrite q_vals_add_fold. unfold q_vals. rewrite q_get_del.
  destruct (bytes_eqb k name); reflexivity.
Qed.

Lemma q_vals_merge k : forall pat m, NoDup (map fst pat) ->
  q_vals k (fold_left merge_static1 pat m) = if q_has k pat then q_vals k pat else q_vals k m.
Proof.
  induction pat as [|[name vs] pat IH]; intros m Hnd; [reflexivity|].
  cbn [map fst] in Hnd. inversion Hnd as [|? ? Hn Hnd']; subst.
  cbn [fold_left]. rewrite (IH _ Hnd'). rewrite q_vals_merge1.
  unfold q_has, q_vals. cbn [q_get]. destruct (bytes_eqb k name) eqn:E.
  - apply bytes_eqb_eq in E. subst name. now rewrite (q_get_notin k pat Hn).
  - reflexivity.
Qed.

(* keys stay distinct *)
Lemma q_add_keys k v m x : In x (map fst (q_add k v m)) <-> x = k \/ In x (map fst m).
Proof.
  induction m as [|[k0 vs] m IH]; cbn [q_add map fst In].
  - split; [intros [H|[]]; now left | intros [H|[]]; now left].
  - destruct (bytes_eqb k k0) eqn:E; cbn [map fst In].
    + apply bytes_eqb_eq in E. subst k0. split; [intros [H|H]; [right; now left | right; now right] | intros [H|[H|H]]; [left; now symmetry | now left | now right]].
    + rewrite IH. split; [intros [H|[H|H]]; auto | intros [H|[H|H]]; auto].
Qed.

Lemma q_add_nodup k v m : NoDup (map fst m) -> NoDup (map fst (q_add k v m)).
Proof.
  induction m as [|[k0 vs] m IH]; intros Hnd; cbn [q_add].
  - cbn. constructor; [intros [] | constructor].
  - cbn [map fst] in Hnd. inversion Hnd as [|? ? Hn Hnd']; subst.
    destruct (bytes_eqb k k0) eqn:E; cbn [map fst].
    + constructor; assumption.
    + constructor; [|now apply IH]. rewrite q_add_keys. intros [H|H]; [|contradiction].
      subst. rewrite bytes_eqb_refl in E. discriminate.
Qed.

Lemma q_del_nodup k m : NoDup (map fst m) -> NoDup (map fst (q_del k m)).
Proof.
  unfold q_del. induction m as [|[k0 vs] m IH]; intros Hnd; [constructor|].
  cbn [map fst] in Hnd. inversion Hnd as [|? ? Hn Hnd']; subst.
  cbn [filter fst]. destruct (negb (bytes_eqb k k0)); [|now apply IH].
  cbn [map fst]. constructor; [|now apply IH].
  intro Hin. apply Hn. apply in_map_iff in Hin as [[a b] [Ha Hb]]. apply filter_In in Hb as [Hb _].
  apply in_map_iff. now exists (a, b).
Qed.

Lemma add_fold_nodup name : forall vs m, NoDup (map fst m) ->
  NoDup (map fst (fold_left (fun m' v => q_add name v m') vs m)).
Proof. induction vs as [|v vs IH]; intros m H; [exact H|]. cbn [fold_left]. apply IH. now apply q_add_nodup. Qed.

Lemma merge_static_nodup : forall pat m, NoDup (map fst m) -> NoDup (map fst (fold_left merge_static1 pat m)).
Proof.
  induction pat as [|[name vs] pat IH]; intros m H; [exact H|]. cbn [fold_left]. apply IH.
  unfold merge_static1. cbn [fst snd]. apply add_fold_nodup. now apply q_del_nodup.
Qed.

Lemma parse_query_nodup raw : NoDup (map fst (parse_query raw)).
Proof.
  unfold parse_query. generalize (split_on 38 raw). intros l.
  assert (H : forall m, NoDup (map fst m) -> NoDup (map fst (fold_left parse_query_piece l m))).
  { induction l as [|p l IH]; intros m Hm; [exact Hm|]. cbn [fold_left]. apply IH.
    unfold parse_query_piece. destruct (mem_byte 59 p); [exact Hm|]. destruct p as [|c p']; [exact Hm|].
    destruct (cut 61 (c :: p')) as [k v]. destruct (query_unescape k); [|exact Hm].
    destruct (query_unescape _); [|exact Hm]. now apply q_add_nodup. }
  apply H. constructor.
Qed.

(* Theorem D: per name, the caller's values, else the pattern's, else the base path's *)
Theorem query_precedence : forall caller pat_q base_q k,
  NoDup (map fst pat_q) -> NoDup (map fst base_q) ->
  q_vals k (client_query caller (merge_static base_q pat_q)) = query_want caller pat_q base_q k.
Proof.
  intros caller pat_q base_q k Hp Hb. unfold client_query, q_vals at 1.
  rewrite cq_fold by (now apply merge_static_nodup).
  unfold query_want, q_has. destruct (q_get k caller) as [vs|] eqn:Ec; [reflexivity|].
  pose proof (q_vals_merge k pat_q base_q Hp) as Hm. fold (merge_static base_q pat_q) in Hm.
  unfold q_vals, q_has in Hm.
  destruct (q_get k (merge_static base_q pat_q)) as [vs|]; destruct (q_get k pat_q) as [ws|]; exact Hm.
Qed.

Theorem query_precedence_parsed : forall caller bq pq k,
  q_vals k (client_query caller (merge_static (parse_query bq) (parse_query pq))) =
  query_want caller (parse_query pq) (parse_query bq) k.
Proof. intros. apply query_precedence; apply parse_query_nodup. Qed.

(* ---------- examples: the hypotheses are satisfiable, and what happens outside them ---------- *)
From Coq Require Import String Ascii.
Definition s2b (s : string) : bytes := map nat_of_ascii (list_ascii_of_string s).

(* a pattern with a space literal, a value with a separator: the hypotheses of Theorem C hold and the
   request path is /base/a%20b/x%2Fy/k *)
Example ex_strict : forallb item_strict (lex (s2b "/base/a b/{id}/k")) = true.
Proof. vm_compute. reflexivity. Qed.

Example ex_request :
  create_request (s2b "/base") (s2b "/a b/{id}/k") [(s2b "id", s2b "x/y")] [] [] [sch_http; sch_https] (s2b "h")
  = OutOk (s2b "/base/a%20b/x%2Fy/k") [] sch_https (s2b "h").
Proof. vm_compute. reflexivity. Qed.

(* look-alike values are not substituted again, whatever the order *)
Example ex_lookalike :
  subst [(s2b "a", s2b "{b}"); (s2b "b", s2b "{a}")] (s2b "/{a}/{b}") = s2b "/%7Bb%7D/%7Ba%7D" /\
  subst [(s2b "b", s2b "{a}"); (s2b "a", s2b "{b}")] (s2b "/{a}/{b}") = s2b "/%7Bb%7D/%7Ba%7D".
Proof. vm_compute. split; reflexivity. Qed.

(* without the hypothesis items_ok (stray braces) the order of the parameters matters: F-C10-4 *)
Theorem order_refuted_with_stray_braces : exists ps ps' p,
  Permutation ps ps' /\ NoDup (map fst ps) /\ Forall key_ok (map fst ps) /\ Forall wf_bytes (map snd ps) /\
  subst ps p <> subst ps' p.
Proof.
  exists [(s2b "x", s2b "b"); (s2b "ba", s2b "Z")], [(s2b "ba", s2b "Z"); (s2b "x", s2b "b")], (s2b "/{{x}a}").
  split; [apply perm_swap|]. split.
  - cbn. constructor; [intros [H|[]]; discriminate | constructor; [intros [] | constructor]].
  - split; [repeat constructor|]. split.
    + apply Forall_forall. intros v Hv. apply wf_bytesb_spec.
      cbn in Hv. destruct Hv as [<-|[<-|[]]]; vm_compute; reflexivity.
    + vm_compute. discriminate.
Qed.

(* a literal percent sign (the pattern wrote %25) violates item_strict; the request is refused: F-C10-2 *)
Example ex_percent_literal :
  create_request (s2b "/") (s2b "/100%25/{id}") [(s2b "id", s2b "1")] [] [] [] (s2b "h") = OutErr.
Proof. vm_compute. reflexivity. Qed.

(* an empty value in the first segment: the built path begins with two slashes and the URL parser
   reads an authority; outside the modelled part of url.Parse: F-C10-3 *)
Example ex_double_slash :
  create_request (s2b "/") (s2b "/{id}/items") [(s2b "id", [])] [] [] [] (s2b "h") = OutExotic.
Proof. vm_compute. reflexivity. Qed.

(* ---------- client.New leaves the base path text alone ---------- *)
Theorem new_base_path_text : forall b,
  (has_prefix [47] b = true /\ new_base_path b = b) \/
  (has_prefix [47] b = false /\ new_base_path b = 47 :: b).
Proof.
  intro b. unfold new_base_path. destruct (has_prefix [47] b) eqn:E.
  - left. split; reflexivity.
  - right. split; reflexivity.
Qed.

Theorem new_base_path_rooted : forall b, has_prefix [47] (new_base_path b) = true.
Proof.
  intro b. unfold new_base_path. destruct (has_prefix [47] b) eqn:E.
  - exact E.
  - reflexivity.
Qed.

Theorem new_base_path_idem : forall b, new_base_path (new_base_path b) = new_base_path b.
Proof.
  intro b. unfold new_base_path at 1. rewrite new_base_path_rooted. reflexivity.
Qed.

(* the query string of the base path (the text behind the first question mark) reaches buildHTTP as written *)
Theorem new_base_path_keeps_query : forall b, snd (cut 63 (new_base_path b)) = snd (cut 63 b).
Proof.
  intro b. unfold new_base_path. destruct (has_prefix [47] b) eqn:E.
  - reflexivity.
  - cbn [cut]. replace (47 =? 63) with false by reflexivity.
    destruct (cut 63 b) as [a q]. reflexivity.
Qed.
