(* BinderClauses.v -- C03: the clauses of the property, proved of the model of the binder
   (Binder.bind_param) for every declaration, request and oracle. *)
From V Require Import Bytes Decimal Binder BinderSpec DecimalProofs BinderProofs.
Local Open Scope nat_scope.

Section Clauses.
Variable O : oracles.

Definition lift_valid (d : decl) (valid : option nat) (v : gval) : outcome :=
  match valid with None => Bound v | Some c => R422 (d_name d) c end.

(* ------------------------------------------------------------------ scalars: the last occurrence decides *)
Lemma bind_scalar d rq valid t : request_wf rq = true -> gtype_for O d = Some (GScalar t) ->
  bind_param O d rq valid =
  match scalar_value O d t (occurrences d rq) with
  | Ok v => lift_valid d valid (VScalar v)
  | Err c => R422 (d_name d) c
  | UnspecR => Unspec
  end.
Proof.
  intros Hwf Egt. rewrite (bind_param_meets_spec O d rq valid Hwf) by congruence.
  unfold spec_outcome. rewrite Egt. destruct (scalar_value O d t (occurrences d rq)); reflexivity.
Qed.

Lemma scalar_value_text d t occ c r : last_or_empty occ = c :: r ->
  scalar_value O d t occ = text_value O t (c :: r).
Proof. intro H. unfold scalar_value. change (List.last occ []) with (last_or_empty occ). now rewrite H. Qed.

Theorem scalar_last_wins d rq rq' valid t :
  request_wf rq = true -> request_wf rq' = true -> gtype_for O d = Some (GScalar t) ->
  last_or_empty (occurrences d rq) = last_or_empty (occurrences d rq') ->
  is_nil (occurrences d rq) = is_nil (occurrences d rq') ->
  bind_param O d rq valid = bind_param O d rq' valid.
Proof.
  intros Hwf Hwf' Egt Hlast Hnil. rewrite !(bind_scalar d _ valid t) by assumption.
  unfold scalar_value. change (List.last ?l []) with (last_or_empty l). now rewrite Hlast, Hnil.
Qed.

Definition with_query (rq : request) (q : pairs) : request :=
  {| r_query := q; r_header := r_header rq; r_path := r_path rq; r_form := r_form rq |}.
Definition with_form (rq : request) (q : pairs) : request :=
  {| r_query := r_query rq; r_header := r_header rq; r_path := r_path rq; r_form := q |}.

Lemma values_of_app k a b : values_of k (a ++ b) = values_of k a ++ values_of k b.
Proof. unfold values_of. now rewrite filter_app, map_app. Qed.

Lemma values_of_absent k ps : has_key k ps = false -> values_of k ps = [].
Proof. rewrite has_key_values_of. intro H. apply negb_false_iff in H. now apply is_nil_true. Qed.

Lemma last_app_single (a : list bytes) v : last_or_empty (a ++ [v]) = v.
Proof. unfold last_or_empty. apply last_last. Qed.

(* a later occurrence of the key overrides every earlier one (query; the same proof serves formData) *)
Corollary query_last_occurrence_wins d t rq pre post v valid :
  request_wf rq = true -> d_in d = LQuery -> gtype_for O d = Some (GScalar t) ->
  has_key (d_name d) post = false ->
  bind_param O d (with_query rq (pre ++ (d_name d, v) :: post)) valid =
  bind_param O d (with_query rq [(d_name d, v)]) valid.
Proof.
  intros Hwf Hin Egt Hpost. apply (scalar_last_wins _ _ _ valid t); try assumption.
  - unfold occurrences. rewrite Hin. cbn [with_query r_query].
    change ((d_name d, v) :: post) with ([(d_name d, v)] ++ post).
    rewrite !values_of_app, (values_of_absent _ _ Hpost), app_nil_r.
    unfold values_of at 2 3. cbn [List.filter fst]. rewrite bytes_eqb_refl. cbn [List.map snd].
    rewrite last_app_single. reflexivity.
  - unfold occurrences. rewrite Hin. cbn [with_query r_query].
    change ((d_name d, v) :: post) with ([(d_name d, v)] ++ post).
    rewrite !values_of_app. unfold values_of at 2 4. cbn [List.filter fst]. rewrite bytes_eqb_refl. cbn [List.map snd].
    destruct (values_of (d_name d) pre); reflexivity.
Qed.

Corollary form_last_occurrence_wins d t rq pre post v valid :
  request_wf rq = true -> d_in d = LForm -> gtype_for O d = Some (GScalar t) ->
  has_key (d_name d) post = false ->
  bind_param O d (with_form rq (pre ++ (d_name d, v) :: post)) valid =
  bind_param O d (with_form rq [(d_name d, v)]) valid.
Proof.
  intros Hwf Hin Egt Hpost. apply (scalar_last_wins _ _ _ valid t); try assumption.
  - unfold occurrences. rewrite Hin. cbn [with_form r_form].
    change ((d_name d, v) :: post) with ([(d_name d, v)] ++ post).
    rewrite !values_of_app, (values_of_absent _ _ Hpost), app_nil_r.
    unfold values_of at 2 3. cbn [List.filter fst]. rewrite bytes_eqb_refl. cbn [List.map snd].
    rewrite last_app_single. reflexivity.
  - unfold occurrences. rewrite Hin. cbn [with_form r_form].
    change ((d_name d, v) :: post) with ([(d_name d, v)] ++ post).
    rewrite !values_of_app. unfold values_of at 2 4. cbn [List.filter fst]. rewrite bytes_eqb_refl. cbn [List.map snd].
    destruct (values_of (d_name d) pre); reflexivity.
Qed.

(* ------------------------------------------------------------------ integers, exactly *)
Definition int_range (w : nat) (z : Z) : Prop := (- 2 ^ (Z.of_nat w - 1) <= z < 2 ^ (Z.of_nat w - 1))%Z.

Lemma in_int_range_iff w z : in_int_range w z = true <-> int_range w z.
Proof.
  unfold in_int_range, int_range. rewrite andb_true_iff, Z.leb_le, Z.ltb_lt. reflexivity.
Qed.

Lemma denote_int_iff w txt z :
  denote O (SInt w) txt = Some (VInt w z) <-> dec_literal txt z /\ int_range w z.
Proof.
  unfold denote. destruct (dec_denotes txt) as [z'|] eqn:Hd.
  - apply dec_denotes_iff in Hd. destruct (in_int_range w z') eqn:Hr.
    + apply in_int_range_iff in Hr. split.
      * intro E; inversion E; subst. auto.
      * intros [Hl _]. assert (z' = z) by (eapply dec_literal_fun; eauto). now subst.
    + split; [discriminate|]. intros [Hl Hr']. assert (z' = z) by (eapply dec_literal_fun; eauto). subst.
      apply in_int_range_iff in Hr'. congruence.
  - split; [discriminate|]. intros [Hl _]. apply dec_denotes_iff in Hl. congruence.
Qed.

Lemma denote_int_shape w txt v : denote O (SInt w) txt = Some v -> exists z, v = VInt w z.
Proof.
  unfold denote. destruct (dec_denotes txt) as [z|]; [|discriminate].
  destruct (in_int_range w z); [|discriminate]. intro E; inversion E. eauto.
Qed.

(* the width the declared format selects: int8, int16, int32, int64, anything else (or none) = 64 *)
Theorem int_width d w : gtype_for O d = Some (GScalar (SInt w)) ->
  d_kind d = KInteger /\
  w = (if bytes_eqb (d_format d) s_int8 then 8
       else if bytes_eqb (d_format d) s_int16 then 16
       else if bytes_eqb (d_format d) s_int32 then 32 else 64).
Proof.
  unfold gtype_for. destruct (d_kind d); simpl; try discriminate.
  - destruct (o_registered O (d_format d)); discriminate.
  - destruct (bytes_eqb (d_format d) s_int8); [intro E; inversion E; auto|].
    destruct (bytes_eqb (d_format d) s_int16); [intro E; inversion E; auto|].
    destruct (bytes_eqb (d_format d) s_int32); intro E; inversion E; auto.
  - destruct (bytes_eqb (d_format d) s_float); discriminate.
  - destruct (d_item_kind d) as [ik|]; [|discriminate]. destruct (stype_for O ik (d_item_format d)); discriminate.
Qed.

(* C03_int_exact: the text sent last for an integer parameter of width w binds to intw(z) exactly when it
   is a base-10 literal (optional sign, digits only) denoting z and z fits w bits; any other non-empty text
   is answered 422 (invalid type) naming the parameter, whatever the declared validations say *)
Theorem int_exact d rq w txt :
  request_wf rq = true -> gtype_for O d = Some (GScalar (SInt w)) ->
  last_or_empty (occurrences d rq) = txt -> txt <> [] ->
  (forall z, bind_param O d rq None = Bound (VScalar (VInt w z)) <-> dec_literal txt z /\ int_range w z) /\
  (forall valid, (~ exists z, dec_literal txt z /\ int_range w z) ->
                 bind_param O d rq valid = R422 (d_name d) code_invalid_type) /\
  (forall valid v, bind_param O d rq valid = Bound v -> exists z, v = VScalar (VInt w z) /\ dec_literal txt z /\ int_range w z).
Proof.
  intros Hwf Egt Hlast Hne. destruct txt as [|c r]; [congruence|].
  assert (E : forall valid, bind_param O d rq valid =
              match denote O (SInt w) (c :: r) with
              | Some v => lift_valid d valid (VScalar v)
              | None => R422 (d_name d) code_invalid_type
              end).
  { intro valid. rewrite (bind_scalar d rq valid (SInt w) Hwf Egt), (scalar_value_text d (SInt w) _ c r Hlast).
    unfold text_value. destruct (denote O (SInt w) (c :: r)); reflexivity. }
  split; [intro z; split | split].
  - rewrite E. destruct (denote O (SInt w) (c :: r)) as [v|] eqn:Hd; [|discriminate].
    cbn [lift_valid]. intro H; inversion H; subst. now apply denote_int_iff.
  - intros [Hl Hr]. rewrite E. rewrite (proj2 (denote_int_iff w (c :: r) z) (conj Hl Hr)). reflexivity.
  - intros valid Hno. rewrite E. destruct (denote O (SInt w) (c :: r)) as [v|] eqn:Hd; [|reflexivity].
    exfalso. apply Hno. destruct (denote_int_shape _ _ _ Hd) as [z ->]. exists z. now apply denote_int_iff.
  - intros valid v. rewrite E. destruct (denote O (SInt w) (c :: r)) as [v'|] eqn:Hd; [|discriminate].
    destruct valid; cbn [lift_valid]; [discriminate|]. intro H; inversion H; subst.
    destruct (denote_int_shape _ _ _ Hd) as [z ->]. exists z. split; [reflexivity | now apply denote_int_iff].
Qed.

(* ------------------------------------------------------------------ arrays *)
Definition array_items (d : decl) (occ : list bytes) : list bytes :=
  if bytes_eqb (d_cf d) s_multi then occ else split_by_format (last_or_empty occ) (d_cf d).

Lemma bind_array d rq valid t : request_wf rq = true -> gtype_for O d = Some (GSlice t) ->
  bind_param O d rq valid =
  match array_value O d t (occurrences d rq) with
  | Ok v => lift_valid d valid v
  | Err c => R422 (d_name d) c
  | UnspecR => Unspec
  end.
Proof.
  intros Hwf Egt. rewrite (bind_param_meets_spec O d rq valid Hwf) by congruence.
  unfold spec_outcome. rewrite Egt. destruct (array_value O d t (occurrences d rq)); reflexivity.
Qed.

Lemma items_value_ok d t items vs :
  items_value O d t items = Ok vs <-> Forall2 (fun x v => item_value O d t x = Ok v) items vs.
Proof.
  revert vs. induction items as [|x items IH]; intro vs.
  - simpl. split; [intro E; inversion E; constructor | intro H; inversion H; reflexivity].
  - cbn [items_value]. destruct (item_value O d t x) as [v| |] eqn:Hx.
    + destruct (items_value O d t items) as [vs'| |] eqn:Hi.
      * split.
        -- intro E; inversion E; subst. constructor; [assumption | now apply IH].
        -- intro H; inversion H; subst. apply IH in H4. inversion H4; subst. congruence.
      * split; [discriminate|]. intro H; inversion H; subst. apply IH in H4. discriminate.
      * split; [discriminate|]. intro H; inversion H; subst. apply IH in H4. discriminate.
    + split; [discriminate|]. intro H; inversion H; subst. congruence.
    + split; [discriminate|]. intro H; inversion H; subst. congruence.
Qed.

(* C03_array_items: multi = every occurrence is an item; otherwise the items are the pieces of the last
   occurrence; the handler receives exactly the values the items denote, in order; one bad item = 422 *)
Theorem array_items_bound d rq t vs :
  request_wf rq = true -> gtype_for O d = Some (GSlice t) ->
  array_items d (occurrences d rq) <> [] ->
  (bind_param O d rq None = Bound (VSlice t vs) <->
   (bytes_eqb (d_cf d) s_multi && negb (allows_multi d)) = false /\
   Forall2 (fun x v => item_value O d t x = Ok v) (array_items d (occurrences d rq)) vs /\
   (array_items d (occurrences d rq) = [[]] -> d_allow_empty d = false -> d_required d = true -> d_default d <> None)).
Proof.
  intros Hwf Egt Hne. rewrite (bind_array d rq None t Hwf Egt). unfold array_value, array_items in *.
  change (List.last (occurrences d rq) []) with (last_or_empty (occurrences d rq)).
  destruct (bytes_eqb (d_cf d) s_multi && negb (allows_multi d)) eqn:Hbad.
  - split; [discriminate | intros [H _]; discriminate].
  - set (items := if bytes_eqb (d_cf d) s_multi then occurrences d rq
                  else split_by_format (last_or_empty (occurrences d rq)) (d_cf d)) in *.
    assert (Hocc : is_nil (occurrences d rq) = false).
    { destruct (occurrences d rq) eqn:Eo; [|reflexivity]. exfalso. apply Hne. subst items.
      destruct (bytes_eqb (d_cf d) s_multi); reflexivity. }
    rewrite Hocc. cbn [orb].
    destruct items as [|x items'] eqn:Eit; [congruence|].
    destruct (negb (d_allow_empty d) && match items' with [] => is_nil x | _ :: _ => false end
              && d_required d && no_default d) eqn:Hreq.
    + split; [discriminate|]. intros [_ [_ H]].
      apply andb_true_iff in Hreq as [Hreq Hnd]. apply andb_true_iff in Hreq as [Hreq Hrq].
      apply andb_true_iff in Hreq as [Hae Hx]. apply negb_true_iff in Hae.
      destruct items'; [|discriminate]. apply is_nil_true in Hx. subst x.
      exfalso. apply (H eq_refl Hae Hrq). unfold no_default in Hnd. destruct (d_default d); [discriminate | reflexivity].
    + destruct (items_value O d t (x :: items')) as [vs'| |] eqn:Hv.
      * cbn [lift_valid]. split.
        -- intro E; inversion E; subst. split; [reflexivity|]. split; [now apply items_value_ok|].
           intros Hx Hae Hrq. inversion Hx; subst. unfold no_default in Hreq. rewrite Hae, Hrq in Hreq. simpl in Hreq.
           destruct (d_default d); [discriminate | discriminate].
        -- intros [_ [H _]]. apply items_value_ok in H. rewrite Hv in H. inversion H; reflexivity.
      * split; [discriminate|]. intros [_ [H _]]. apply items_value_ok in H. congruence.
      * split; [discriminate|]. intros [_ [H _]]. apply items_value_ok in H. congruence.
Qed.

(* multi is only defined for query and formData: elsewhere the declaration is answered 422 *)
Theorem array_multi_outside_query_form d rq valid t :
  request_wf rq = true -> gtype_for O d = Some (GSlice t) ->
  bytes_eqb (d_cf d) s_multi = true -> allows_multi d = false ->
  bind_param O d rq valid = R422 (d_name d) code_invalid_type.
Proof.
  intros Hwf Egt Hm Ha. rewrite (bind_array d rq valid t Hwf Egt). unfold array_value. rewrite Hm, Ha. reflexivity.
Qed.

(* strings.Split with a one-byte separator, characterised: the pieces joined by the separator give the
   text back, and no piece contains the separator; any list with these two properties is the split *)
Fixpoint join_sep (sep : byte) (l : list bytes) : bytes :=
  match l with
  | [] => []
  | [x] => x
  | x :: r => x ++ sep :: join_sep sep r
  end.

Lemma split_raw_nonempty sep s : split_raw sep s <> [].
Proof. induction s as [|c s IH]; simpl; [discriminate|]. destruct (Nat.eqb c sep); [discriminate|]. destruct (split_raw sep s); discriminate. Qed.

Lemma split_raw_join sep s : join_sep sep (split_raw sep s) = s.
Proof.
  induction s as [|c s IH]; [reflexivity|]. simpl. destruct (Nat.eqb c sep) eqn:E.
  - apply Nat.eqb_eq in E. subst c. pose proof (split_raw_nonempty sep s) as Hne.
    destruct (split_raw sep s) as [|h t] eqn:Hs; [congruence|]. cbn [join_sep app]. cbn [join_sep] in IH. now rewrite IH.
  - pose proof (split_raw_nonempty sep s) as Hne.
    destruct (split_raw sep s) as [|h t] eqn:Hs; [congruence|].
    destruct t as [|h' t']; cbn [join_sep app] in *; now rewrite IH.
Qed.

Lemma split_raw_no_sep sep s : Forall (fun it => ~ In sep it) (split_raw sep s).
Proof.
  induction s as [|c s IH]; simpl; [constructor; [intros []|constructor]|].
  destruct (Nat.eqb c sep) eqn:E.
  - constructor; [intros []|exact IH].
  - destruct (split_raw sep s) as [|h t]; [constructor; [|constructor]|].
    + intros [H|[]]. subst. rewrite Nat.eqb_refl in E. discriminate.
    + inversion IH; subst. constructor; [|assumption]. intros [H|H]; [subst; rewrite Nat.eqb_refl in E; discriminate | contradiction].
Qed.

Lemma split_raw_unique sep l : l <> [] -> Forall (fun it => ~ In sep it) l -> split_raw sep (join_sep sep l) = l.
Proof.
  induction l as [|x l IH]; intros Hne Hall; [congruence|]. inversion Hall as [|? ? Hx Hl]; subst.
  destruct l as [|y l'].
  - cbn [join_sep]. clear IH Hall Hne Hl. induction x as [|c x IHx]; [reflexivity|].
    simpl. destruct (Nat.eqb c sep) eqn:E; [apply Nat.eqb_eq in E; subst; exfalso; apply Hx; now left|].
    rewrite IHx; [reflexivity|]. intro H. apply Hx. now right.
  - specialize (IH ltac:(discriminate) Hl).
    change (join_sep sep (x :: y :: l')) with (x ++ sep :: join_sep sep (y :: l')).
    remember (y :: l') as l eqn:El. clear Hall Hne.
    induction x as [|c x IHx].
    + cbn [app split_raw]. rewrite Nat.eqb_refl. now rewrite IH.
    + cbn [app split_raw]. destruct (Nat.eqb c sep) eqn:E; [apply Nat.eqb_eq in E; subst; exfalso; apply Hx; now left|].
      rewrite IHx; [reflexivity|]. intro H. apply Hx. now right.
Qed.

(* the items of a split collection are trimmed and not empty *)
Theorem split_items_trimmed data cf it : In it (split_by_format data cf) ->
  it <> [] /\ exists piece, In piece (split_raw (sep_of cf) data) /\ it = trim_space piece.
Proof.
  unfold split_by_format. destruct (is_nil data); [intros []|]. destruct (bytes_eqb cf s_multi); [intros []|].
  intro H. apply filter_In in H as [H1 H2]. apply in_map_iff in H1 as [piece [Hp Hin]]. split.
  - intro E. subst it. rewrite E in H2. discriminate.
  - exists piece. auto.
Qed.

(* ------------------------------------------------------------------ defaults *)
(* C03_default_absent_or_empty, scalars: absent, or the last occurrence is empty -> the declared default *)
Theorem default_scalar d rq t v :
  request_wf rq = true -> gtype_for O d = Some (GScalar t) ->
  d_default d = Some (DScalar v) -> sval_has_type v t = true ->
  last_or_empty (occurrences d rq) = [] ->
  bind_param O d rq None = Bound (VScalar v).
Proof.
  intros Hwf Egt Hd Ht Hlast. rewrite (bind_scalar d rq None t Hwf Egt). unfold scalar_value.
  change (List.last (occurrences d rq) []) with (last_or_empty (occurrences d rq)). rewrite Hlast. cbn [is_nil].
  rewrite Hd, Ht. reflexivity.
Qed.

(* arrays: no item (absent, empty, or nothing but separators and blanks) -> the declared default *)
Theorem default_array d rq t l :
  request_wf rq = true -> gtype_for O d = Some (GSlice t) ->
  d_default d = Some (DSlice l) -> forallb (fun v => sval_has_type v t) l = true ->
  (bytes_eqb (d_cf d) s_multi && negb (allows_multi d)) = false ->
  array_items d (occurrences d rq) = [] ->
  bind_param O d rq None = Bound (VSlice t l).
Proof.
  intros Hwf Egt Hd Ht Hbad Hit. rewrite (bind_array d rq None t Hwf Egt). unfold array_value, array_items in *.
  change (List.last (occurrences d rq) []) with (last_or_empty (occurrences d rq)).
  rewrite Hbad, Hit. unfold no_default. rewrite Hd, andb_false_r, Ht. reflexivity.
Qed.

Lemma array_items_absent d occ : last_or_empty occ = [] -> bytes_eqb (d_cf d) s_multi = false -> array_items d occ = [].
Proof. intros H Hm. unfold array_items. now rewrite Hm, H. Qed.

(* without a default: the zero value of the type (a registered format decides what the empty text is) *)
Theorem absent_optional_scalar d rq t :
  request_wf rq = true -> gtype_for O d = Some (GScalar t) ->
  d_default d = None -> d_required d = false -> (forall f, t <> SFmt f) ->
  last_or_empty (occurrences d rq) = [] ->
  bind_param O d rq None = Bound (VScalar (zero_of t)).
Proof.
  intros Hwf Egt Hd Hr Hf Hlast. rewrite (bind_scalar d rq None t Hwf Egt). unfold scalar_value.
  change (List.last (occurrences d rq) []) with (last_or_empty (occurrences d rq)). rewrite Hlast. cbn [is_nil].
  rewrite Hd, Hr. cbn [andb]. unfold empty_value. destruct t; try reflexivity. exfalso. now apply (Hf f).
Qed.

(* ------------------------------------------------------------------ required *)
(* C03_required: a required parameter without default that is absent, or empty when empty values are
   not allowed, is answered 422 (required) naming the parameter *)
Theorem required_scalar d rq valid t :
  request_wf rq = true -> gtype_for O d = Some (GScalar t) ->
  d_required d = true -> d_default d = None ->
  (occurrences d rq = [] \/ (d_allow_empty d = false /\ last_or_empty (occurrences d rq) = [])) ->
  bind_param O d rq valid = R422 (d_name d) code_required.
Proof.
  intros Hwf Egt Hr Hd H. rewrite (bind_scalar d rq valid t Hwf Egt). unfold scalar_value.
  change (List.last (occurrences d rq) []) with (last_or_empty (occurrences d rq)).
  destruct H as [H|[Hae H]].
  - rewrite H. cbn [last_or_empty List.last is_nil]. rewrite Hd, Hr. reflexivity.
  - rewrite H. cbn [is_nil]. rewrite Hd, Hr, Hae. cbn [negb]. rewrite orb_true_r. reflexivity.
Qed.

Theorem required_array d rq valid t :
  request_wf rq = true -> gtype_for O d = Some (GSlice t) ->
  d_required d = true -> d_default d = None ->
  (bytes_eqb (d_cf d) s_multi && negb (allows_multi d)) = false ->
  (occurrences d rq = [] \/
   (d_allow_empty d = false /\ (array_items d (occurrences d rq) = [] \/ array_items d (occurrences d rq) = [[]]))) ->
  bind_param O d rq valid = R422 (d_name d) code_required.
Proof.
  intros Hwf Egt Hr Hd Hbad H. rewrite (bind_array d rq valid t Hwf Egt). unfold array_value, array_items in *.
  change (List.last (occurrences d rq) []) with (last_or_empty (occurrences d rq)).
  rewrite Hbad, Hr. unfold no_default. rewrite Hd.
  destruct H as [H|[Hae [H|H]]].
  - rewrite H. reflexivity.
  - rewrite H, Hae. cbn [negb andb]. rewrite orb_true_r. reflexivity.
  - rewrite H, Hae. cbn [negb andb is_nil]. rewrite orb_true_r. reflexivity.
Qed.

(* a present, non-empty text is never answered "required" *)
Theorem present_not_required d rq valid t c r :
  request_wf rq = true -> gtype_for O d = Some (GScalar t) ->
  last_or_empty (occurrences d rq) = c :: r ->
  bind_param O d rq valid <> R422 (d_name d) code_required \/ valid = Some code_required.
Proof.
  intros Hwf Egt Hlast. rewrite (bind_scalar d rq valid t Hwf Egt), (scalar_value_text d t _ c r Hlast).
  unfold text_value. destruct (denote O t (c :: r)).
  - destruct valid as [k|]; cbn [lift_valid]; [|left; discriminate].
    destruct (Nat.eq_dec k code_required) as [->|Hk]; [right; reflexivity | left; congruence].
  - left. unfold code_invalid_type, code_required. congruence.
Qed.

(* ------------------------------------------------------------------ validations *)
(* C03_validation_422: when a declared validation rejects the bound value the handler does not run:
   the outcome is the 422 of the validation, naming the parameter *)
Theorem validation_422 d rq c : forall v, bind_param O d rq (Some c) <> Bound v.
Proof.
  intro v. unfold bind_param. destruct (gtype_for O d); [|discriminate].
  destruct (read_value d rq) as [[data hk]| |]; try discriminate.
  destruct (bind_value O d g data hk); discriminate.
Qed.

Theorem validation_outcome d rq c v :
  bind_param O d rq None = Bound v -> bind_param O d rq (Some c) = R422 (d_name d) c.
Proof.
  unfold bind_param. destruct (gtype_for O d); [|discriminate].
  destruct (read_value d rq) as [[data hk]| |]; try discriminate.
  destruct (bind_value O d g data hk); try discriminate. reflexivity.
Qed.

(* binding errors come first: a text that does not denote a value is answered by the binder, the validations are not consulted *)
Theorem validation_after_binding d rq c n k :
  bind_param O d rq None = R422 n k -> bind_param O d rq (Some c) = R422 n k.
Proof.
  unfold bind_param. destruct (gtype_for O d); [|discriminate].
  destruct (read_value d rq) as [[data hk]| |]; try discriminate; [|auto].
  destruct (bind_value O d g data hk); try discriminate. auto.
Qed.

(* ------------------------------------------------------------------ header names *)
(* C03_header_ci: a header parameter is found under every spelling of its declared name *)
Theorem header_ci d rq : request_wf rq = true -> d_in d = LHeader ->
  fst (fst (source_get_ok d rq)) =
  List.map snd (List.filter (fun p => eq_fold (fst p) (d_name d)) (r_header rq)).
Proof.
  intros Hwf Hin. unfold source_get_ok. rewrite Hin. unfold get_ok. cbn [fst]. now apply header_occurrences.
Qed.

Theorem canon_key_ci n1 n2 : forallb is_token_byte n1 = true -> eq_fold n1 n2 = true -> canon_key n1 = canon_key n2.
Proof.
  intros H1 E. unfold eq_fold in E. apply bytes_eqb_eq in E.
  assert (H2 : forallb is_token_byte n2 = true) by (rewrite <- forallb_token_lower, <- E, forallb_token_lower; exact H1).
  unfold canon_key. rewrite H1, H2, <- (canon_go_lower n1), <- (canon_go_lower n2), E. reflexivity.
Qed.

(* ------------------------------------------------------------------ totality *)
Lemma default_or_zero_total t def :
  match def with None => True | Some (DScalar v) => sval_has_type v t = true | Some _ => False end ->
  default_or_zero t def <> UnspecR.
Proof. destruct def as [[v|l|]|]; simpl; try contradiction; [intros ->|]; discriminate. Qed.

Lemma set_field_total d t def data hk :
  match def with None => True | Some (DScalar v) => sval_has_type v t = true | Some _ => False end ->
  set_field O d t def data hk <> UnspecR.
Proof.
  intro Hdef. pose proof (default_or_zero_total t def Hdef) as Hz. unfold set_field.
  destruct (required_fails d hk (is_nil data)); [discriminate|].
  destruct t as [| |f|w| |].
  - destruct (is_nil data); [exact Hz | discriminate].
  - destruct (is_nil data); [exact Hz | discriminate].
  - destruct def as [dv|]; [destruct data; [exact Hz|]|]; destruct (o_format O f _); discriminate.
  - destruct (is_nil data); [exact Hz|]. destruct (parse_int_dec data); [|discriminate].
    destruct (in_int_range w z); discriminate.
  - destruct (is_nil data); [exact Hz|]. destruct (o_float O data) as [[[b64 ov] b32]|]; [destruct ov|]; discriminate.
  - destruct (is_nil data); [exact Hz|]. destruct (o_float O data) as [[[b64 ov] b32]|]; discriminate.
Qed.

Lemma set_items_total d t data hk : set_items O d t data hk <> UnspecR.
Proof.
  induction data as [|x data IH]; [discriminate|]. cbn [set_items].
  pose proof (set_field_total d t None x hk I) as H.
  destruct (set_field O d t None x hk); try discriminate; [|congruence].
  destruct (set_items O d t data hk); try discriminate. congruence.
Qed.

(* C03_total: for every declaration of the modelled language (scalars of the four primitive types with
   any format, arrays of those with any collection format; default conforming to the type), every
   request (any keys, any bytes, any number of occurrences), every answer of the oracles and of the
   validator: the parameter is bound or answered 422 naming it; the binder never panics *)
Theorem bind_total d rq valid : decl_wf O d = true ->
  (exists v, bind_param O d rq valid = Bound v) \/ (exists c, bind_param O d rq valid = R422 (d_name d) c).
Proof.
  unfold decl_wf. intro Hwf. apply andb_true_iff in Hwf as [Hk Hdef].
  unfold bind_param. unfold default_conforms in Hdef.
  destruct (gtype_for O d) as [gt|] eqn:Egt.
  - destruct (read_value d rq) as [[data hk]|c|] eqn:Erv.
    + assert (Hbv : bind_value O d gt data hk <> UnspecR).
      { destruct gt as [t|t]; unfold bind_value.
        - pose proof (set_field_total d t (d_default d) (last_or_empty data) hk) as H.
          destruct (d_default d) as [[v|l|]|]; try discriminate;
            (specialize (H ltac:(auto)); destruct (set_field O d t _ (last_or_empty data) hk); try discriminate;
             exfalso; apply H; reflexivity).
        - unfold set_slice. destruct (slice_required_fails d hk data); [discriminate|].
          destruct data as [|x data'].
          + destruct (d_default d) as [[v|l|]|]; try discriminate. rewrite Hdef. discriminate.
          + pose proof (set_items_total d t (x :: data') hk) as H.
            destruct (set_items O d t (x :: data') hk); try discriminate. congruence. }
      destruct (bind_value O d gt data hk) as [v|c|]; [|right; eauto|congruence].
      destruct valid; [right | left]; eauto.
    + right. eauto.
    + exfalso. unfold read_value in Erv. destruct (source_get_ok d rq) as [[vv hk] hv].
      destruct (d_kind d); try discriminate.
      destruct (bytes_eqb (d_cf d) s_multi); [destruct (allows_multi d)|destruct hv]; discriminate.
  - exfalso. unfold gtype_for in Egt. destruct (d_kind d) eqn:Ek; try discriminate.
    + simpl in Egt. destruct (o_registered O (d_format d)); discriminate.
    + simpl in Egt. destruct (bytes_eqb (d_format d) s_int8); [discriminate|].
      destruct (bytes_eqb (d_format d) s_int16); [discriminate|]. destruct (bytes_eqb (d_format d) s_int32); discriminate.
    + simpl in Egt. destruct (bytes_eqb (d_format d) s_float); discriminate.
    + destruct (d_item_kind d) as [ik|]; [|discriminate].
      destruct ik; try discriminate; simpl in Egt.
      * destruct (o_registered O (d_item_format d)); discriminate.
      * destruct (bytes_eqb (d_item_format d) s_int8); [discriminate|].
        destruct (bytes_eqb (d_item_format d) s_int16); [discriminate|]. destruct (bytes_eqb (d_item_format d) s_int32); discriminate.
      * destruct (bytes_eqb (d_item_format d) s_float); discriminate.
Qed.

End Clauses.

(* ------------------------------------------------------------------ only the declared location is read *)
(* the part of the request that belongs to the declared location: the query string, the header lines, the
   route parameters, the fields of the form body (PostForm / MultipartForm.Value, never Request.Form) *)
Definition own_source (d : decl) (rq : request) : pairs :=
  match d_in d with
  | LQuery => r_query rq
  | LHeader => r_header rq
  | LPath => r_path rq
  | LForm => r_form rq
  end.

Lemma source_get_ok_own d rq rq' : own_source d rq = own_source d rq' ->
  source_get_ok d rq = source_get_ok d rq'.
Proof.
  unfold own_source, source_get_ok. intro H. destruct (d_in d); now rewrite H.
Qed.

Lemma occurrences_own d rq rq' : own_source d rq = own_source d rq' ->
  occurrences d rq = occurrences d rq'.
Proof.
  unfold own_source, occurrences. intro H. destruct (d_in d); now rewrite H.
Qed.

(* two requests that agree on the declared location have the same outcome, whatever the other three
   locations carry (a same-named key in the query string of a form post, in the body of a query request,
   in a header line or a path segment): code model and specification alike, no hypothesis on the requests *)
Theorem only_declared_location O d rq rq' valid : own_source d rq = own_source d rq' ->
  bind_param O d rq valid = bind_param O d rq' valid /\
  spec_outcome O d rq valid = spec_outcome O d rq' valid.
Proof.
  intro H. split.
  - unfold bind_param, read_value. now rewrite (source_get_ok_own d rq rq' H).
  - unfold spec_outcome. now rewrite (occurrences_own d rq rq' H).
Qed.

(* in particular: a formData parameter does not see the query string, a query parameter does not see the form body *)
Corollary form_ignores_other_locations O d rq q h p valid : d_in d = LForm ->
  bind_param O d {| r_query := q; r_header := h; r_path := p; r_form := r_form rq |} valid = bind_param O d rq valid.
Proof. intro Hin. apply only_declared_location. unfold own_source. now rewrite Hin. Qed.
