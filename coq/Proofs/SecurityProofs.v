(* SecurityProofs.v — proofs about the C02 model (Security.v) against its specification (SecuritySpec.v). *)
From V Require Import SecuritySpec.

Definition is_auth (ev : event) : bool := match ev with AuthCalled _ _ => true | _ => false end.
Definition only_auth (t : list event) : bool := forallb is_auth t.

(* ---------- traces ---------- *)

Lemma last_rej_app out t t' acc : last_rej out (t ++ t') acc = last_rej out t' (last_rej out t acc).
Proof.
  revert acc. induction t as [|ev t IH]; intro acc; [reflexivity|].
  destruct ev; cbn [app last_rej]; apply IH.
Qed.

Lemma last_rej_none out t acc : last_rej out t acc = None -> acc = None /\ rejected_in out t = false.
Proof.
  revert acc. induction t as [|ev t IH]; intros acc H; [now split|].
  destruct ev; cbn [last_rej] in H; cbn [rejected_in existsb]; try (apply IH in H; exact H).
  apply IH in H. destruct H as [H1 H2]. unfold rejected_in in H2. rewrite H2.
  destruct (out s scopes) eqn:E; cbn [is_rej orb]; try (split; [exact H1|reflexivity]). discriminate.
Qed.

Lemma last_rej_norej out t acc : rejected_in out t = false -> last_rej out t acc = acc.
Proof.
  revert acc. induction t as [|ev t IH]; intros acc H; [reflexivity|].
  unfold rejected_in in H. cbn [existsb] in H. apply orb_false_iff in H. destruct H as [H1 H2].
  destruct ev; cbn [last_rej]; try (apply IH; exact H2).
  destruct (out s scopes); try discriminate; apply IH; exact H2.
Qed.

Lemma rejected_in_app out t t' : rejected_in out (t ++ t') = rejected_in out t || rejected_in out t'.
Proof. unfold rejected_in. apply existsb_app. Qed.

Definition no_auth (t : list event) : bool := forallb (fun ev => negb (is_auth ev)) t.

Lemma rejected_in_no_auth out t : no_auth t = true -> rejected_in out t = false.
Proof.
  induction t as [|ev t IH]; intro H; [reflexivity|].
  cbn [no_auth forallb] in H. apply andb_true_iff in H. destruct H as [H1 H2].
  unfold rejected_in. cbn [existsb]. destruct ev; try discriminate; cbn [orb]; apply IH; exact H2.
Qed.

Lemma last_rej_no_auth out t acc : no_auth t = true -> last_rej out t acc = acc.
Proof. intro H. apply last_rej_norej. now apply rejected_in_no_auth. Qed.

Lemma only_auth_app t t' : only_auth (t ++ t') = only_auth t && only_auth t'.
Proof. apply forallb_app. Qed.

Lemma only_auth_no (f : event -> bool) t :
  (forall s sc, f (AuthCalled s sc) = false) -> only_auth t = true -> existsb f t = false.
Proof.
  intros Hf. induction t as [|ev t IH]; intro H; [reflexivity|].
  cbn [only_auth forallb] in H. apply andb_true_iff in H. destruct H as [H1 H2].
  destruct ev; try discriminate. cbn [existsb]. rewrite Hf. apply IH. exact H2.
Qed.

Lemma az_called_app_only_auth t t' : only_auth t = true -> az_called (t ++ t') = az_called t'.
Proof.
  induction t as [|ev t IH]; intro H; [reflexivity|].
  cbn [only_auth forallb] in H. apply andb_true_iff in H. destruct H as [H1 H2].
  destruct ev; try discriminate. unfold az_called in *. cbn [app find]. apply IH. exact H2.
Qed.

Lemma last_app_single {A} (t : list A) x d : last (t ++ [x]) d = x.
Proof. induction t as [|y t IH]; [reflexivity|]. cbn [app]. destruct (t ++ [x]) eqn:E; [destruct t; discriminate|]. exact IH. Qed.

(* ---------- one alternative ---------- *)

(* what run_schemes promises, as a proposition over its result *)
Definition alt_post (out : oracle) (l : list sreq) (t : list event) (res : ares) : Prop :=
  only_auth t = true /\
  match a_err res with
  | Some e => a_applies res = true /\ a_usr res = None /\ (forall acc, last_rej out t acc = Some e)
  | None =>
    rejected_in out t = false /\
    (a_applies res = false -> a_usr res = None) /\
    (forall q, a_usr res = Some q -> a_applies res = true /\ a_set res = true)
  end.

Lemma run_schemes_post out l : forall last missing t res,
  run_schemes out l last missing = (t, res) -> alt_post out l t res.
Proof.
  induction l as [|s r IH]; intros last missing t res H.
  - cbn [run_schemes] in H. injection H as <- <-. unfold alt_post. cbn. repeat split; auto; discriminate.
  - cbn [run_schemes] in H. destruct (out (sname s) (sscopes s)) eqn:E.
    + injection H as <- <-. unfold alt_post, rejected_in. cbn. rewrite E. cbn. repeat split; auto; discriminate.
    + destruct (run_schemes out r p _) as [t' res'] eqn:R. injection H as <- <-.
      apply IH in R. unfold alt_post in *. destruct R as [R1 R2]. split; [cbn; exact R1|].
      destruct (a_err res') as [e|].
      * destruct R2 as (A & B & C). repeat split; auto. intro acc. cbn [last_rej]. rewrite E. apply C.
      * destruct R2 as (A & B & C). unfold rejected_in in *. cbn [existsb]. rewrite E. cbn. auto.
    + injection H as <- <-. unfold alt_post. cbn. repeat split; auto. intro acc. rewrite E. reflexivity.
Qed.

Lemma forallb_andb {A} (f g : A -> bool) l : forallb (fun x => f x && g x) l = forallb f l && forallb g l.
Proof.
  induction l as [|x l IH]; [reflexivity|]. cbn [forallb]. rewrite IH.
  destruct (f x), (g x), (forallb f l), (forallb g l); reflexivity.
Qed.

(* an alternative all of whose schemes found credentials and one of which rejected them ends in an error *)
Lemma run_schemes_norej out l : forall lst missing t res,
  run_schemes out l lst missing = (t, res) -> a_err res = None ->
  forallb (fun s => negb (is_na (out (sname s) (sscopes s)))) l = true ->
  existsb (fun s => is_rej (out (sname s) (sscopes s))) l = false.
Proof.
  induction l as [|s r IH]; intros lst missing t res H E F; [reflexivity|].
  cbn [run_schemes] in H. cbn [forallb] in F. apply andb_true_iff in F. destruct F as [F1 F2].
  cbn [existsb]. destruct (out (sname s) (sscopes s)) eqn:O.
  - discriminate.
  - destruct (run_schemes out r p _) as [t' res'] eqn:R. injection H as <- <-. cbn [is_rej orb].
    eapply IH; [exact R|exact E|exact F2].
  - injection H as <- <-. discriminate.
Qed.

Lemma auth_alt_norej out l t res :
  auth_alt out (Reqs l) = (t, res) -> a_err res = None -> presented_and_rejected out l = false.
Proof.
  cbn [auth_alt]. unfold presented_and_rejected. rewrite forallb_andb. destruct (forallb sreg l); [|reflexivity].
  intros H E. cbn [andb].
  destruct (forallb (fun s => negb (is_na (out (sname s) (sscopes s)))) l) eqn:F; [|reflexivity].
  cbn [andb]. eapply run_schemes_norej; [exact H|exact E|exact F].
Qed.

(* a principal comes out only when every scheme accepted with one; it is the one of the scheme evaluated last *)
Definition last_scheme_yields (out : oracle) (l : list sreq) (q : principal) : Prop :=
  match l with
  | [] => False
  | s0 :: _ => let s := last l s0 in out (sname s) (sscopes s) = Acc (Some q)
  end.

Lemma last_default_irrelevant {A} (x : A) r d d' : last (x :: r) d = last (x :: r) d'.
Proof. revert x. induction r as [|y r IH]; intro x; [reflexivity|]. cbn [last] in *. apply IH. Qed.

Lemma run_schemes_some out l : forall lst missing t res q,
  run_schemes out l lst missing = (t, res) -> a_usr res = Some q ->
  missing = false /\
  forallb (fun s => accepts_with_principal (out (sname s) (sscopes s))) l = true /\
  match l with
  | [] => lst = Some q
  | _ :: _ => yields out l q = true /\ last_scheme_yields out l q
  end.
Proof.
  induction l as [|s r IH]; intros lst missing t res q H U.
  - cbn [run_schemes] in H. injection H as <- <-. cbn in U. destruct missing; [discriminate|]. auto.
  - cbn [run_schemes] in H. destruct (out (sname s) (sscopes s)) eqn:E.
    + injection H as <- <-. discriminate.
    + destruct (run_schemes out r p _) as [t' res'] eqn:R. injection H as <- <-.
      destruct (IH _ _ _ _ _ R U) as (M & F & L).
      apply orb_false_iff in M. destruct M as [M1 M2]. destruct p as [p'|]; [|discriminate].
      split; [exact M1|]. split.
      * cbn [forallb]. rewrite E. cbn. exact F.
      * destruct r as [|s' r'].
        -- injection L as ->. split.
           ++ unfold yields. cbn [existsb]. rewrite E, Nat.eqb_refl. reflexivity.
           ++ unfold last_scheme_yields. cbn. exact E.
        -- destruct L as [L1 L2]. split.
           ++ unfold yields in *. cbn [existsb] in *. rewrite L1. apply orb_true_r.
           ++ unfold last_scheme_yields in *.
              replace (last (s :: s' :: r') s) with (last (s' :: r') s'); [exact L2|].
              cbn [last]. apply last_default_irrelevant.
    + injection H as <- <-. discriminate.
Qed.



Definition alt_some_post (out : oracle) (l : list sreq) (q : principal) : Prop :=
  satisfied out l = true /\ yields out l q = true /\ last_scheme_yields out l q.

Lemma auth_alt_post out l t res :
  auth_alt out (Reqs l) = (t, res) ->
  alt_post out l t res /\ (forall q, a_usr res = Some q -> alt_some_post out l q).
Proof.
  cbn [auth_alt]. destruct (forallb sreg l) eqn:Reg; intro H.
  - split; [eapply run_schemes_post; exact H|].
    intros q U. destruct (run_schemes_some _ _ _ _ _ _ _ H U) as (_ & F & L).
    destruct l as [|s r]; [discriminate|]. destruct L as [L1 L2].
    unfold alt_some_post, satisfied. rewrite forallb_andb, Reg, F. auto.
  - injection H as <- <-. split; [|intros q U; discriminate].
    unfold alt_post. cbn. repeat split; auto; discriminate.
Qed.

(* ---------- the OR over alternatives ---------- *)

Definition or_post (out : oracle) (alts : list alt) (lastErr : option err) (anon : option alt)
           (t : list event) (res : ores) : Prop :=
  only_auth t = true /\
  match o_err res with
  | Some e => o_applies res = true /\ o_usr res = None /\ last_rej out t lastErr = Some e
  | None =>
    match o_usr res with
    | Some q => o_applies res = true /\
                exists l, In (Reqs l) alts /\ o_route res = Some (Reqs l) /\ alt_some_post out l q
    | None => last_rej out t lastErr = None /\ rejected_declared out alts = false /\
              (o_applies res = true -> (anon = Some Anon \/ allows_anon alts = true) /\ o_route res = Some Anon)
    end
  end.

Lemma auth_alts_from_post out alts : forall lastErr anon route t res,
  anon = None \/ anon = Some Anon ->
  auth_alts_from out alts lastErr anon route = (t, res) -> or_post out alts lastErr anon t res.
Proof.
  induction alts as [|a r IH]; intros lastErr anon route t res Han H.
  - cbn [auth_alts_from] in H. unfold or_post.
    destruct anon as [a0|]; [destruct lastErr as [e|]|destruct lastErr as [e|]]; injection H as <- <-; cbn.
    + auto.
    + split; [reflexivity|]. split; [reflexivity|]. split; [reflexivity|]. intros _. destruct Han as [Han|Han]; [discriminate|].
      injection Han as ->. auto.
    + auto.
    + split; [reflexivity|]. split; [reflexivity|]. split; [reflexivity|]. discriminate.
  - cbn [auth_alts_from] in H. destruct a as [|l]; cbn [is_anon] in H.
    + apply IH in H; [|now right]. unfold or_post in *. destruct H as [H1 H2]. split; [exact H1|].
      destruct (o_err res) as [e|]; [exact H2|]. destruct (o_usr res) as [q|].
      * destruct H2 as (A & l & B & C). split; [exact A|]. exists l. split; [now right|exact C].
      * destruct H2 as (A & RD & B). split; [exact A|]. split; [exact RD|]. intro Ap. destruct (B Ap) as [_ B2]. split; [|exact B2].
        right. reflexivity.
    + destruct (auth_alt out (Reqs l)) as [t1 res1] eqn:A1.
      destruct (auth_alt_post _ _ _ _ A1) as [P1 P2]. unfold alt_post in P1. destruct P1 as [O1 P1].
      destruct (negb (a_applies res1) || is_some (a_err res1) || negb (is_some (a_usr res1))) eqn:C.
      * destruct (auth_alts_from out r _ anon _) as [t' res'] eqn:R. injection H as <- <-.
        apply IH in R; [|exact Han]. unfold or_post in *. destruct R as [R1 R2].
        rewrite only_auth_app, O1, R1. split; [reflexivity|].
        assert (LR : last_rej out t1 lastErr = match a_err res1 with Some e => Some e | None => lastErr end).
        { destruct (a_err res1) as [e|]; [destruct P1 as (_ & _ & P); apply P|].
          destruct P1 as (P & _). now apply last_rej_norej. }
        rewrite last_rej_app, LR.
        destruct (o_err res') as [e|]; [exact R2|]. destruct (o_usr res') as [q|].
        -- destruct R2 as (A & l' & B & C'). split; [exact A|]. exists l'. split; [now right|exact C'].
        -- destruct R2 as (A & RD & B). split; [exact A|]. split.
           ++ assert (E1 : a_err res1 = None).
              { apply last_rej_none in A. destruct A as [A _]. destruct (a_err res1); [discriminate|reflexivity]. }
              unfold rejected_declared. cbn [existsb]. rewrite (auth_alt_norej _ _ _ _ A1 E1). exact RD.
           ++ intro Ap. destruct (B Ap) as [[B1|B1] B2]; split; auto.
      * injection H as <- <-. apply orb_false_iff in C. destruct C as [C C3]. apply orb_false_iff in C.
        destruct C as [C1 C2]. destruct (a_err res1) as [e|]; [discriminate|].
        destruct (a_usr res1) as [q|] eqn:U; [|discriminate]. destruct P1 as (_ & _ & P).
        destruct (P q eq_refl) as [Pa Ps]. unfold or_post. cbn. rewrite O1. split; [reflexivity|].
        split; [reflexivity|]. exists l. rewrite Ps. split; [now left|]. split; [reflexivity|]. now apply P2.
Qed.

Lemma auth_alts_post out alts t res : auth_alts out alts = (t, res) -> or_post out alts None None t res.
Proof. apply auth_alts_from_post. now left. Qed.

(* ---------- scopes ---------- *)

Lemma existsb_eqb_in x l : existsb (Nat.eqb x) l = true <-> In x l.
Proof.
  rewrite existsb_exists. split.
  - intros (y & Hy & E). apply Nat.eqb_eq in E. now subst.
  - intro H. exists x. split; [exact H|apply Nat.eqb_refl].
Qed.

Lemma subset_spec a b : subset a b = true <-> (forall x, In x a -> In x b).
Proof.
  unfold subset. rewrite forallb_forall. split; intros H x Hx; specialize (H x Hx); now apply existsb_eqb_in.
Qed.

Lemma union_into_in l : forall seen x, In x (union_into seen l) <-> In x l /\ ~ In x seen.
Proof.
  induction l as [|y r IH]; intros seen x; cbn [union_into].
  - split; [intros []|intros [[] _]].
  - destruct (existsb (Nat.eqb y) seen) eqn:E.
    + rewrite IH. apply existsb_eqb_in in E. split.
      * intros [A B]. split; [now right|exact B].
      * intros [[A|A] B]; [subst; contradiction|now split].
    + assert (N : ~ In y seen) by (intro Hin; apply existsb_eqb_in in Hin; congruence).
      cbn [In]. rewrite IH. cbn [In]. split.
      * intros [A|[A B]]; [subst; split; [now left|exact N]|]. split; [now right|]. intro C. apply B. now right.
      * intros [[A|A] B]; [now left|]. destruct (Nat.eq_dec y x) as [->|D]; [now left|]. right. split; [exact A|].
        intros [C|C]; [contradiction|contradiction].
Qed.

Lemma all_scopes_same_set l : same_set (all_scopes (Reqs l)) (scopes_of l) = true.
Proof.
  unfold same_set, all_scopes, scopes_of. apply andb_true_iff. split; apply subset_spec; intros x Hx.
  - apply union_into_in in Hx. tauto.
  - apply union_into_in. split; [exact Hx|intros []].
Qed.

Lemma err_eqb_refl e : err_eqb e e = true.
Proof. destruct e; cbn; now rewrite ?Nat.eqb_refl. Qed.

Lemma err_eqb_eq a b : err_eqb a b = true -> a = b.
Proof.
  destruct a, b; cbn; try discriminate.
  - intro H. apply andb_true_iff in H. destruct H as [H1 H2]. apply Nat.eqb_eq in H1, H2. now subst.
  - intro H. apply Nat.eqb_eq in H. now subst.
Qed.

(* ---------- Context.Authorize ---------- *)

Definition is_az (ev : event) : bool := match ev with AuthorizerCalled _ => true | _ => false end.
(* the part of a trace produced before the request is let through or refused *)
Definition pre_ok (t : list event) : bool := forallb (fun ev => is_auth ev || is_az ev) t.

Lemma only_auth_pre t : only_auth t = true -> pre_ok t = true.
Proof.
  unfold only_auth, pre_ok. rewrite !forallb_forall. intros H x Hx. rewrite (H x Hx). reflexivity.
Qed.

Lemma pre_ok_app t t' : pre_ok (t ++ t') = pre_ok t && pre_ok t'.
Proof. apply forallb_app. Qed.

Lemma pre_no (f : event -> bool) t :
  (forall ev, is_auth ev || is_az ev = true -> f ev = false) -> pre_ok t = true -> existsb f t = false.
Proof.
  intros Hf. induction t as [|ev t IH]; intro H; [reflexivity|].
  cbn [pre_ok forallb] in H. apply andb_true_iff in H. destruct H as [H1 H2].
  cbn [existsb]. rewrite (Hf ev H1). apply IH. exact H2.
Qed.

Lemma az_called_only_auth t : only_auth t = true -> az_called t = None.
Proof. intro H. rewrite <- (app_nil_r t). rewrite az_called_app_only_auth; [reflexivity|exact H]. Qed.

Lemma handle_justified_ext out alts az tr tr' p sc :
  rejected_in out tr = rejected_in out tr' ->
  handle_justified out alts az tr p sc = handle_justified out alts az tr' p sc.
Proof. intro H. unfold handle_justified, nothing_rejected. now rewrite H. Qed.

Lemma admissible_ext out alts az tr tr' :
  rejected_in out tr = rejected_in out tr' -> admissible out alts az tr = admissible out alts az tr'.
Proof. intro H. unfold admissible, nothing_rejected. now rewrite H. Qed.

Lemma handle_justified_admissible out alts az tr p sc :
  handle_justified out alts az tr p sc = true -> admissible out alts az tr = true.
Proof.
  unfold handle_justified, admissible. destruct p as [q|]; intro H.
  - apply andb_true_iff in H. destruct H as [H Az]. apply orb_true_iff. left.
    apply existsb_exists in H. destruct H as (a & Ha & H). apply existsb_exists. exists a. split; [exact Ha|].
    destruct a as [|l]; [discriminate|]. apply andb_true_iff in H. destruct H as [H _].
    apply andb_true_iff in H. destruct H as [S Y]. rewrite S. cbn [andb].
    unfold yields in Y. apply existsb_exists in Y. destruct Y as (s & Hs & Y). apply existsb_exists. exists s.
    split; [exact Hs|]. destruct (out (sname s) (sscopes s)) as [|[q'|]|]; try discriminate.
    apply Nat.eqb_eq in Y. subst q'. exact Az.
  - apply andb_true_iff in H. destruct H as [H Az]. apply andb_true_iff in H. destruct H as [H R].
    apply andb_true_iff in H. destruct H as [A _]. rewrite A, R, Az. apply orb_true_r.
Qed.

Lemma authorize_ok_model out alts az t r :
  authorize out alts az = (t, r) ->
  pre_ok t = true /\
  match r with
  | Granted p sc => handle_justified out alts az t p sc = true
  | Refused e => refusal_ok out alts az t e = true
  | AuthPanic => False
  end.
Proof.
  unfold authorize. destruct (auth_alts out alts) as [t0 res] eqn:A. apply auth_alts_post in A.
  unfold or_post in A. destruct A as [O A].
  assert (Pre0 : pre_ok t0 = true) by now apply only_auth_pre.
  assert (Pre1 : forall p, pre_ok (t0 ++ [AuthorizerCalled p]) = true).
  { intro p. rewrite pre_ok_app, Pre0. reflexivity. }
  assert (AzC : forall p, az_called (t0 ++ [AuthorizerCalled p]) = Some p).
  { intro p. rewrite az_called_app_only_auth; [reflexivity|exact O]. }
  assert (Rj : forall p, rejected_in out (t0 ++ [AuthorizerCalled p]) = rejected_in out t0).
  { intro p. rewrite rejected_in_app. unfold rejected_in at 2. cbn. apply orb_false_r. }
  destruct (o_err res) as [e|] eqn:Er.
  - (* some scheme rejected and nothing later succeeded *)
    destruct A as (Ap & U & L). rewrite Ap, U. cbn [negb orb is_some].
    intro H. injection H as <- <-. split; [exact Pre0|].
    unfold refusal_ok, expected_refusal. rewrite (az_called_only_auth _ O), L. apply err_eqb_refl.
  - destruct (o_usr res) as [q|] eqn:U.
    + (* an alternative was satisfied *)
      destruct A as (Ap & l & Hin & Hr & S & Y & _). rewrite Ap, Hr. cbn [negb orb is_some andb].
      rewrite andb_false_r. cbn [orb].
      assert (J : forall tr, az_accepts az (Some q) = true ->
                             handle_justified out alts az tr (Some q) (all_scopes (Reqs l)) = true).
      { intros tr Az. unfold handle_justified. rewrite Az, andb_true_r. apply existsb_exists.
        exists (Reqs l). split; [exact Hin|]. rewrite S, Y, all_scopes_same_set. reflexivity. }
      destruct az as [f|].
      * destruct (f (Some q)) as [e'|] eqn:F.
        -- destruct e' as [c m|m]; intro H; injection H as <- <-; (split; [apply Pre1|]);
             unfold refusal_ok, expected_refusal; rewrite AzC, F; cbn [is_some orb]; apply err_eqb_refl.
        -- intro H. injection H as <- <-. split; [apply Pre1|]. apply J. unfold az_accepts. now rewrite F.
      * intro H. injection H as <- <-. split; [exact Pre0|]. now apply J.
    + destruct A as (L & RD & An). apply last_rej_none in L. destruct L as [_ NR].
      assert (NRj : forall p, nothing_rejected out alts (t0 ++ [AuthorizerCalled p]) = true).
      { intro p. unfold nothing_rejected. now rewrite Rj, NR, RD. }
      destruct (o_applies res) eqn:Ap.
      * (* admitted by the anonymous alternative *)
        destruct (An eq_refl) as [[An1|An1] Hr]; [discriminate|]. rewrite An1, Hr. cbn [negb orb is_some andb all_scopes].
        assert (J : forall tr, rejected_in out tr = false -> az_accepts az None = true ->
                               handle_justified out alts az tr None [] = true).
        { intros tr R Az. unfold handle_justified, nothing_rejected. rewrite An1, R, RD, Az. reflexivity. }
        destruct az as [f|].
        -- destruct (f None) as [e'|] eqn:F.
           ++ destruct e' as [c m|m]; intro H; injection H as <- <-; (split; [apply Pre1|]);
                unfold refusal_ok, expected_refusal; rewrite AzC, F, NRj; cbn [is_some orb]; apply err_eqb_refl.
           ++ intro H. injection H as <- <-. split; [apply Pre1|]. apply J; [now rewrite Rj|].
              unfold az_accepts. now rewrite F.
        -- intro H. injection H as <- <-. split; [exact Pre0|]. now apply J.
      * (* nothing applied *)
        cbn [negb orb]. intro H. injection H as <- <-. split; [exact Pre0|].
        unfold refusal_ok, expected_refusal. rewrite (az_called_only_auth _ O).
        rewrite (last_rej_norej _ _ _ NR), RD. reflexivity.
Qed.

Theorem authorize_satisfies_property out alts az :
  authorize_ok out alts az (fst (authorize out alts az)) (snd (authorize out alts az)) = true.
Proof.
  destruct (authorize out alts az) as [t r] eqn:A. cbn [fst snd].
  destruct (authorize_ok_model _ _ _ _ _ A) as [_ H]. unfold authorize_ok.
  destruct r; [rewrite H|rewrite H|destruct H]; apply orb_true_r.
Qed.

Theorem authenticate_satisfies_property out alts :
  let '(t, res) := auth_alts out alts in
  authenticate_ok out alts t (o_applies res) (o_usr res) (o_err res) = true.
Proof.
  destruct (auth_alts out alts) as [t res] eqn:A. apply auth_alts_post in A. unfold or_post in A.
  destruct A as [O A]. unfold authenticate_ok. destruct (o_err res) as [e|].
  - destruct A as (Ap & U & L). rewrite Ap, U, L. cbn. apply err_eqb_refl.
  - destruct (o_usr res) as [q|].
    + destruct A as (Ap & l & Hin & _ & S & Y & _). rewrite Ap. cbn [andb]. apply existsb_exists.
      exists (Reqs l). split; [exact Hin|]. now rewrite S, Y.
    + destruct A as (L & RD & An). apply last_rej_none in L. destruct L as [_ NR].
      unfold nothing_rejected. rewrite NR, RD. cbn [negb andb].
      destruct (o_applies res); [|reflexivity]. destruct (An eq_refl) as [[An1|An1] _]; [discriminate|exact An1].
Qed.

(* ---------- the secured handler ---------- *)

Lemma find_app_false {A} (f : A -> bool) l l' : existsb f l' = false -> find f (l ++ l') = find f l.
Proof.
  intro H. induction l as [|x l IH]; cbn [app find].
  - destruct (find f l') as [y|] eqn:F; [|reflexivity]. apply find_some in F. destruct F as [F1 F2].
    assert (E : existsb f l' = true) by (apply existsb_exists; now exists y). congruence.
  - destruct (f x); [reflexivity|exact IH].
Qed.

Lemma az_called_app_noaz t t' : existsb is_az t' = false -> az_called (t ++ t') = az_called t.
Proof.
  intro H. pose proof (find_app_false is_az t t' H) as E. unfold az_called. unfold is_az in E.
  rewrite E. reflexivity.
Qed.

Lemma rejected_in_app_no_auth out t t' : no_auth t' = true -> rejected_in out (t ++ t') = rejected_in out t.
Proof. intro H. rewrite rejected_in_app, (rejected_in_no_auth _ _ H). apply orb_false_r. Qed.

Lemma expected_refusal_app out alts az t t' :
  existsb is_az t' = false -> no_auth t' = true ->
  expected_refusal out alts az (t ++ t') = expected_refusal out alts az t.
Proof.
  intros H1 H2. unfold expected_refusal, nothing_rejected. rewrite az_called_app_noaz by exact H1.
  rewrite last_rej_app, (last_rej_no_auth _ _ _ H2), (rejected_in_app_no_auth _ _ _ H2). reflexivity.
Qed.


Theorem secure_handler_satisfies_property out alts az b :
  sec_ok out alts az b true (secure_handler out alts az b) = true.
Proof.
  unfold sec_ok. destruct alts as [|a0 r0]; [reflexivity|]. cbn [is_nil orb].
  unfold secure_handler. cbv iota. remember (a0 :: r0) as alts eqn:Ealts.
  destruct (authorize out alts az) as [t r] eqn:A. destruct (authorize_ok_model _ _ _ _ _ A) as [Pre H].
  assert (NP : existsb is_panic t = false) by (apply pre_no; [intros [] E; try discriminate; reflexivity|exact Pre]).
  assert (NB : existsb is_bind t = false) by (apply pre_no; [intros [] E; try discriminate; reflexivity|exact Pre]).
  assert (NH : existsb is_handle t = false) by (apply pre_no; [intros [] E; try discriminate; reflexivity|exact Pre]).
  assert (FH : forall g, forallb (fun ev => match ev with Handle p sc => g p sc | _ => true end) t = true).
  { intro g. apply forallb_forall. intros ev Hev. destruct ev; try reflexivity.
    assert (E : existsb is_handle t = true) by (apply existsb_exists; eexists; split; [exact Hev|reflexivity]). congruence. }
  destruct r as [usr sc|e|]; [| |destruct H].
  - (* let through *)
    assert (J : forall rest, no_auth rest = true -> handle_justified out alts az (t ++ rest) usr sc = true).
    { intros rest Hr. rewrite (handle_justified_ext _ _ _ _ t); [exact H|]. now apply rejected_in_app_no_auth. }
    unfold body. destruct b.
    + pose proof (J [Bind; Handle usr sc; Respond 200 0] eq_refl) as J1.
      rewrite existsb_app, NP. cbn [existsb is_panic orb negb andb].
      rewrite forallb_app, FH. cbn [forallb andb]. rewrite J1. cbn [andb].
      rewrite existsb_app. cbn [existsb is_bind orb]. rewrite orb_true_r.
      rewrite (handle_justified_admissible _ _ _ _ _ _ J1). cbn [andb negb orb].
      rewrite existsb_app. cbn. apply orb_true_r.
    + pose proof (J [Bind; Respond 422 0] eq_refl) as J1.
      rewrite existsb_app, NP. cbn [existsb is_panic orb negb andb].
      rewrite forallb_app, FH. cbn [forallb andb].
      rewrite existsb_app. cbn [existsb is_bind orb]. rewrite orb_true_r.
      rewrite (handle_justified_admissible _ _ _ _ _ _ J1). reflexivity.
  - (* refused *)
    rewrite existsb_app, NP. cbn [existsb is_panic orb negb andb].
    rewrite forallb_app, FH. cbn [forallb andb].
    rewrite existsb_app, NB. cbn [existsb is_bind orb].
    rewrite existsb_app, NH. cbn [existsb is_handle orb negb andb].
    unfold responded. rewrite last_app_single. unfold response_ok.
    rewrite expected_refusal_app by reflexivity.
    unfold refusal_ok in H. destruct (expected_refusal out alts az t) as [[e'|]|]; [| |discriminate].
    + apply err_eqb_eq in H. subst e'. now rewrite !Nat.eqb_refl.
    + exact H.
Qed.

(* ---------- the property in propositional form ---------- *)

(* every scheme of the alternative has an authenticator, found credentials and accepted them with a principal *)
Definition fully_satisfied (out : oracle) (l : list sreq) : Prop :=
  l <> [] /\ forall s, In s l -> sreg s = true /\ exists q, out (sname s) (sscopes s) = Acc (Some q).

Lemma satisfied_prop out l : satisfied out l = true <-> fully_satisfied out l.
Proof.
  unfold satisfied, fully_satisfied. rewrite andb_true_iff, forallb_forall. split.
  - intros [N F]. split; [destruct l; [discriminate|discriminate]|].
    intros s Hs. specialize (F s Hs). apply andb_true_iff in F. destruct F as [F1 F2]. split; [exact F1|].
    destruct (out (sname s) (sscopes s)) as [|[q|]|]; try discriminate. now exists q.
  - intros [N F]. split; [destruct l; [contradiction|reflexivity]|].
    intros s Hs. destruct (F s Hs) as [F1 [q F2]]. rewrite F1, F2. reflexivity.
Qed.

Lemma yields_prop out l q : yields out l q = true <-> exists s, In s l /\ out (sname s) (sscopes s) = Acc (Some q).
Proof.
  unfold yields. rewrite existsb_exists. split; intros (s & Hs & H); exists s; (split; [exact Hs|]).
  - destruct (out (sname s) (sscopes s)) as [|[q'|]|]; try discriminate. apply Nat.eqb_eq in H. now subst.
  - rewrite H. apply Nat.eqb_refl.
Qed.

Lemma same_set_prop a b : same_set a b = true <-> (forall x, In x a <-> In x b).
Proof.
  unfold same_set. rewrite andb_true_iff, !subset_spec. split.
  - intros [A B] x. split; [apply A|apply B].
  - intro H. split; intros x Hx; now apply H.
Qed.

Lemma allows_anon_prop alts : allows_anon alts = true <-> In Anon alts.
Proof.
  unfold allows_anon. rewrite existsb_exists. split.
  - intros (a & Ha & H). destruct a; [exact Ha|discriminate].
  - intro H. exists Anon. now split.
Qed.

Lemma rejected_in_prop out tr :
  rejected_in out tr = false <-> (forall s sc e, In (AuthCalled s sc) tr -> out s sc <> Rej e).
Proof.
  split.
  - intros H s sc e Hin E.
    assert (T : rejected_in out tr = true).
    { unfold rejected_in. apply existsb_exists. exists (AuthCalled s sc). split; [exact Hin|]. now rewrite E. }
    congruence.
  - intro H. destruct (rejected_in out tr) eqn:R; [|reflexivity]. unfold rejected_in in R.
    apply existsb_exists in R. destruct R as (ev & Hev & R). destruct ev; try discriminate.
    destruct (out s scopes) eqn:E; try discriminate. exfalso. exact (H _ _ _ Hev E).
Qed.

(* no alternative for which the request presented all credentials (every scheme has an authenticator and found
   its credentials) had a scheme rejecting them - over the declared structure, whatever was actually asked *)
Definition none_rejected_declared (out : oracle) (alts : list alt) : Prop :=
  forall l, In (Reqs l) alts ->
    (forall s, In s l -> sreg s = true /\ out (sname s) (sscopes s) <> NA) ->
    forall s e, In s l -> out (sname s) (sscopes s) <> Rej e.

Lemma rejected_declared_prop out alts : rejected_declared out alts = false <-> none_rejected_declared out alts.
Proof.
  unfold none_rejected_declared. split.
  - intros H l Hl Hall s e Hs E.
    assert (T : rejected_declared out alts = true).
    { unfold rejected_declared. apply existsb_exists. exists (Reqs l). split; [exact Hl|].
      unfold presented_and_rejected. apply andb_true_iff. split.
      - apply forallb_forall. intros s' Hs'. destruct (Hall s' Hs') as [R N]. rewrite R. cbn [andb].
        destruct (out (sname s') (sscopes s')); [contradiction|reflexivity|reflexivity].
      - apply existsb_exists. exists s. split; [exact Hs|]. now rewrite E. }
    congruence.
  - intro H. destruct (rejected_declared out alts) eqn:R; [|reflexivity]. exfalso.
    unfold rejected_declared in R. apply existsb_exists in R. destruct R as (a & Ha & R).
    destruct a as [|l]; [discriminate|]. unfold presented_and_rejected in R. apply andb_true_iff in R.
    destruct R as [F X]. rewrite forallb_forall in F. apply existsb_exists in X. destruct X as (s & Hs & X).
    destruct (out (sname s) (sscopes s)) as [| |e] eqn:E; try discriminate.
    apply (H l Ha) with (s := s) (e := e); [|exact Hs|exact E].
    intros s' Hs'. specialize (F s' Hs'). apply andb_true_iff in F. destruct F as [F1 F2]. split; [exact F1|].
    intro N. rewrite N in F2. discriminate.
Qed.

(* what justifies a handler that read principal p and scopes sc *)
Definition justified (out : oracle) (alts : list alt) (az : authorizer) (tr : list event)
           (p : option principal) (sc : list nat) : Prop :=
  match p with
  | Some q =>
    (exists l, In (Reqs l) alts /\ fully_satisfied out l /\
               (exists s, In s l /\ out (sname s) (sscopes s) = Acc (Some q)) /\
               (forall x, In x sc <-> In x (scopes_of l)))
    /\ az_accepts az (Some q) = true
  | None =>
    In Anon alts /\ sc = [] /\
    (forall s scs e, In (AuthCalled s scs) tr -> out s scs <> Rej e) /\
    none_rejected_declared out alts /\
    az_accepts az None = true
  end.

Lemma handle_justified_prop out alts az tr p sc :
  handle_justified out alts az tr p sc = true <-> justified out alts az tr p sc.
Proof.
  unfold handle_justified, justified. destruct p as [q|].
  - rewrite andb_true_iff, existsb_exists. split.
    + intros [(a & Ha & H) Az]. split; [|exact Az]. destruct a as [|l]; [discriminate|].
      apply andb_true_iff in H. destruct H as [H S3]. apply andb_true_iff in H. destruct H as [S1 S2].
      exists l. split; [exact Ha|]. split; [now apply satisfied_prop|]. split; [now apply yields_prop|].
      now apply same_set_prop.
    + intros [(l & Ha & S1 & S2 & S3) Az]. split; [|exact Az]. exists (Reqs l). split; [exact Ha|].
      apply satisfied_prop in S1. apply yields_prop in S2. apply same_set_prop in S3. now rewrite S1, S2, S3.
  - unfold nothing_rejected.
    rewrite !andb_true_iff, !negb_true_iff, allows_anon_prop, rejected_in_prop, rejected_declared_prop. split.
    + intros [[[A B] [C C']] D]. destruct sc; [|discriminate]. auto.
    + intros (A & -> & C & C' & D). split; [split; [split; [exact A|reflexivity]|split; [exact C|exact C']]|exact D].
Qed.

Lemma sec_ok_parts out alts az b tr :
  alts <> [] -> sec_ok out alts az b true tr = true ->
  ~ In Panicked tr /\
  (forall p sc, In (Handle p sc) tr -> handle_justified out alts az tr p sc = true) /\
  (In Bind tr -> admissible out alts az tr = true /\ (b = true -> exists p sc, In (Handle p sc) tr)) /\
  (~ In Bind tr -> (forall p sc, ~ In (Handle p sc) tr) /\
                   exists c m, last tr Bind = Respond c m /\ response_ok out alts az tr c m = true).
Proof.
  intros N H. unfold sec_ok in H. destruct alts as [|a0 r0]; [contradiction|]. cbn [is_nil orb] in H.
  apply andb_true_iff in H. destruct H as [H H3]. apply andb_true_iff in H. destruct H as [H1 H2].
  split; [|split; [|split]].
  - intro Hin. apply negb_true_iff in H1.
    assert (T : existsb is_panic tr = true) by (apply existsb_exists; exists Panicked; now split). congruence.
  - intros p sc Hin. rewrite forallb_forall in H2. exact (H2 _ Hin).
  - intro Hin. assert (T : existsb is_bind tr = true) by (apply existsb_exists; exists Bind; now split).
    rewrite T in H3. apply andb_true_iff in H3. destruct H3 as [A B]. split; [exact A|]. intros ->.
    cbn [negb orb] in B. apply existsb_exists in B. destruct B as (ev & Hev & B). destruct ev; try discriminate.
    eauto.
  - intro Hn. destruct (existsb is_bind tr) eqn:T.
    + apply existsb_exists in T. destruct T as (ev & Hev & T). destruct ev; try discriminate. contradiction.
    + apply andb_true_iff in H3. destruct H3 as [A B]. apply negb_true_iff in A. split.
      * intros p sc Hin. assert (T' : existsb is_handle tr = true) by (apply existsb_exists; eexists; split; [exact Hin|reflexivity]).
        congruence.
      * unfold responded in B. destruct (last tr Bind) as [| | | |c m|] eqn:L; try discriminate. now exists c, m.
Qed.

(* the handler runs only for a request an alternative justifies, and reads that alternative's principal and scopes *)
Theorem handler_runs_only_if_satisfied out alts az b p sc :
  alts <> [] -> In (Handle p sc) (secure_handler out alts az b) ->
  justified out alts az (secure_handler out alts az b) p sc.
Proof.
  intros N Hin. apply handle_justified_prop.
  destruct (sec_ok_parts _ _ _ _ _ N (secure_handler_satisfies_property out alts az b)) as (_ & H & _).
  now apply H.
Qed.

(* what lets a request through at all: a fully satisfied alternative one of whose principals the authorizer
   accepts, or the anonymous alternative with no rejection and an accepting authorizer *)
Definition admissible_prop (out : oracle) (alts : list alt) (az : authorizer) (tr : list event) : Prop :=
  (exists l, In (Reqs l) alts /\ fully_satisfied out l /\
             exists s q, In s l /\ out (sname s) (sscopes s) = Acc (Some q) /\ az_accepts az (Some q) = true)
  \/ (In Anon alts /\ (forall s scs e, In (AuthCalled s scs) tr -> out s scs <> Rej e) /\
      none_rejected_declared out alts /\ az_accepts az None = true).

Lemma admissible_to_prop out alts az tr : admissible out alts az tr = true -> admissible_prop out alts az tr.
Proof.
  unfold admissible, admissible_prop. rewrite orb_true_iff. intros [H|H]; [left|right].
  - apply existsb_exists in H. destruct H as (a & Ha & H). destruct a as [|l]; [discriminate|].
    apply andb_true_iff in H. destruct H as [S E]. exists l. split; [exact Ha|]. split; [now apply satisfied_prop|].
    apply existsb_exists in E. destruct E as (s & Hs & E). destruct (out (sname s) (sscopes s)) as [|[q|]|] eqn:O; try discriminate.
    exists s, q. auto.
  - apply andb_true_iff in H. destruct H as [H Az]. apply andb_true_iff in H. destruct H as [A R].
    unfold nothing_rejected in R. apply andb_true_iff in R. destruct R as [R R'].
    apply negb_true_iff in R, R'. split; [now apply allows_anon_prop|]. split; [now apply rejected_in_prop|].
    split; [now apply rejected_declared_prop|exact Az].
Qed.

(* neither parameter binding nor the handler runs for any other request, and the model never dereferences a nil route authenticator *)
Theorem nothing_runs_unless_admissible out alts az b :
  alts <> [] ->
  let tr := secure_handler out alts az b in
  (In Bind tr \/ (exists p sc, In (Handle p sc) tr) -> admissible_prop out alts az tr) /\ ~ In Panicked tr.
Proof.
  intros N tr. destruct (sec_ok_parts _ _ _ _ _ N (secure_handler_satisfies_property out alts az b)) as (P & H & B & _).
  split; [|exact P]. intros [Hb|(p & sc & Hh)].
  - apply admissible_to_prop. now apply B.
  - apply admissible_to_prop. eapply handle_justified_admissible. apply H. exact Hh.
Qed.

(* every other request is refused: the response is the error of the scheme that rejected last, a 401 when no
   scheme rejected, or the authorizer's error (403 unless it carries a status) *)
Definition refusal (out : oracle) (alts : list alt) (az : authorizer) (tr : list event) (c m : nat) : Prop :=
  match az_called tr with
  | Some p => exists f e, az = Some f /\ f p = Some e /\ c = code_of (az_error e) /\ m = msg_of e /\
                          (p = None -> (forall s scs e', In (AuthCalled s scs) tr -> out s scs <> Rej e') /\
                                       none_rejected_declared out alts)
  | None => match last_rej out tr None with
            | Some e => c = code_of e /\ m = msg_of e
            | None => c = 401 /\ none_rejected_declared out alts
            end
  end.

Lemma response_ok_prop out alts az tr c m : response_ok out alts az tr c m = true -> refusal out alts az tr c m.
Proof.
  unfold response_ok, expected_refusal, refusal. destruct (az_called tr) as [p|].
  - destruct az as [f|]; [|discriminate]. destruct (f p) as [e|] eqn:F; [|discriminate].
    destruct (is_some p || nothing_rejected out alts tr) eqn:G; [|discriminate]. intro H.
    apply andb_true_iff in H. destruct H as [H1 H2]. apply Nat.eqb_eq in H1, H2. exists f, e.
    split; [reflexivity|]. split; [exact F|]. split; [exact H1|]. split; [destruct e; exact H2|].
    intros ->. cbn [is_some orb] in G. unfold nothing_rejected in G. apply andb_true_iff in G.
    destruct G as [G1 G2]. apply negb_true_iff in G1, G2. split; [now apply rejected_in_prop|now apply rejected_declared_prop].
  - destruct (last_rej out tr None) as [e|].
    + intro H. apply andb_true_iff in H. destruct H as [H1 H2]. apply Nat.eqb_eq in H1, H2. auto.
    + destruct (rejected_declared out alts) eqn:RD; [discriminate|]. intro H. apply Nat.eqb_eq in H.
      split; [exact H|now apply rejected_declared_prop].
Qed.

Theorem refused_otherwise out alts az b :
  alts <> [] ->
  let tr := secure_handler out alts az b in
  ~ In Bind tr ->
  (forall p sc, ~ In (Handle p sc) tr) /\ exists c m, last tr Bind = Respond c m /\ refusal out alts az tr c m.
Proof.
  intros N tr Hn. destruct (sec_ok_parts _ _ _ _ _ N (secure_handler_satisfies_property out alts az b)) as (_ & _ & _ & R).
  destruct (R Hn) as [A (c & m & L & Ok)]. split; [exact A|]. exists c, m. split; [exact L|]. now apply response_ok_prop.
Qed.

(* a request that is let through with valid parameters reaches the handler *)
Theorem admitted_runs out alts az :
  alts <> [] -> let tr := secure_handler out alts az true in In Bind tr -> exists p sc, In (Handle p sc) tr.
Proof.
  intros N tr Hb. destruct (sec_ok_parts _ _ _ _ _ N (secure_handler_satisfies_property out alts az true)) as (_ & _ & B & _).
  destruct (B Hb) as [_ H]. now apply H.
Qed.

(* ---------- every evaluation order ---------- *)
From Coq Require Import Permutation.

(* the same alternative with its schemes evaluated in another order *)
Definition alt_perm (a a' : alt) : Prop :=
  match a, a' with
  | Anon, Anon => True
  | Reqs l, Reqs l' => Permutation l l'
  | _, _ => False
  end.

Lemma fully_satisfied_perm out l l' : Permutation l l' -> fully_satisfied out l' -> fully_satisfied out l.
Proof.
  intros P [N F]. split.
  - intros ->. apply Permutation_nil in P. contradiction.
  - intros s Hs. apply F. eapply Permutation_in; [exact P|exact Hs].
Qed.

Lemma scopes_of_perm l l' x : Permutation l l' -> In x (scopes_of l') -> In x (scopes_of l).
Proof.
  intros P H. unfold scopes_of in *. apply in_flat_map in H. destruct H as (s & Hs & H).
  apply in_flat_map. exists s. split; [|exact H]. eapply Permutation_in; [apply Permutation_sym; exact P|exact Hs].
Qed.

Lemma Forall2_alt_perm_in alts alts' a' :
  Forall2 alt_perm alts alts' -> In a' alts' -> exists a, In a alts /\ alt_perm a a'.
Proof.
  induction 1 as [|x y l l' Hxy F IH]; intros Hin; [destruct Hin|].
  destruct Hin as [<-|Hin].
  - exists x. split; [now left|exact Hxy].
  - destruct (IH Hin) as (a & Ha & P). exists a. split; [now right|exact P].
Qed.

Lemma Forall2_alt_perm_in_l alts alts' a :
  Forall2 alt_perm alts alts' -> In a alts -> exists a', In a' alts' /\ alt_perm a a'.
Proof.
  induction 1 as [|x y l l' Hxy F IH]; intros Hin; [destruct Hin|].
  destruct Hin as [<-|Hin].
  - exists y. split; [now left|exact Hxy].
  - destruct (IH Hin) as (a' & Ha & P). exists a'. split; [now right|exact P].
Qed.

Lemma none_rejected_declared_perm out alts alts' :
  Forall2 alt_perm alts alts' -> none_rejected_declared out alts' -> none_rejected_declared out alts.
Proof.
  intros F H l Hl Hall s e Hs. destruct (Forall2_alt_perm_in_l _ _ _ F Hl) as (a' & Ha' & P).
  destruct a' as [|l']; [destruct P|]. cbn in P. apply (H l' Ha').
  - intros s' Hs'. apply Hall. eapply Permutation_in; [apply Permutation_sym; exact P|exact Hs'].
  - eapply Permutation_in; [exact P|exact Hs].
Qed.

(* Whatever order the schemes of each alternative are evaluated in (alts' = the declared structure alts with every
   alternative permuted), a handler that runs is justified by the DECLARED structure: an alternative all of whose
   schemes accepted with a principal, one of which the handler reads, with that alternative's scopes; or the
   anonymous alternative. *)
Theorem justified_in_every_order out alts alts' az b p sc :
  Forall2 alt_perm alts alts' -> alts <> [] ->
  In (Handle p sc) (secure_handler out alts' az b) ->
  justified out alts az (secure_handler out alts' az b) p sc.
Proof.
  intros F N Hin.
  assert (N' : alts' <> []) by (intros ->; inversion F; subst; contradiction).
  pose proof (handler_runs_only_if_satisfied _ _ _ _ _ _ N' Hin) as J. unfold justified in *.
  destruct p as [q|].
  - destruct J as [(l' & Hl' & S & (s & Hs & Y) & Sc) Az]. split; [|exact Az].
    destruct (Forall2_alt_perm_in _ _ _ F Hl') as (a & Ha & P). destruct a as [|l]; [destruct P|].
    cbn in P. exists l. split; [exact Ha|]. split; [eapply fully_satisfied_perm; eauto|]. split.
    + exists s. split; [|exact Y]. eapply Permutation_in; [apply Permutation_sym; exact P|exact Hs].
    + intro x. rewrite Sc. split; intro H.
      * eapply scopes_of_perm; [exact P|exact H].
      * eapply scopes_of_perm; [apply Permutation_sym; exact P|exact H].
  - destruct J as (A & B & C & C' & D). split; [|split; [exact B|split; [exact C|split; [|exact D]]]].
    + destruct (Forall2_alt_perm_in _ _ _ F A) as (a & Ha & P). destruct a; [exact Ha|destruct P].
    + eapply none_rejected_declared_perm; [exact F|exact C'].
Qed.

(* the principal the handler reads is the one of the scheme evaluated last (so it does depend on the order when
   the schemes of an alternative yield different principals) *)
Theorem principal_is_last_scheme's out alts t res q :
  auth_alts out alts = (t, res) -> o_usr res = Some q -> o_err res = None ->
  exists l, In (Reqs l) alts /\ o_route res = Some (Reqs l) /\ last_scheme_yields out l q.
Proof.
  intros A U E. apply auth_alts_post in A. unfold or_post in A. rewrite E, U in A.
  destruct A as (_ & _ & l & Hin & Hr & _ & _ & L). exists l. auto.
Qed.

(* ---------- what still depends on the order (witnesses, by computation) ---------- *)

Definition ex_out (tbl : list (nat * outcome)) : oracle :=
  fun s _ => match find (fun x => Nat.eqb (fst x) s) tbl with Some (_, o) => o | None => NA end.
Definition sq (n : nat) : sreq := mk_sreq n [] true.

(* {s0: not applicable, s1: rejects} OR anonymous: [s0 s1] admits the anonymous request, [s1 s0] refuses with s1's error.
   Both are allowed by the property: s0 finds no credentials, so the request does not present credentials for the
   alternative (it does not apply); anonymous admits ONLY when no asked scheme rejected and no alternative whose
   schemes ALL found credentials had one of them rejected (none_rejected_declared - order independent). *)
Example anonymous_admission_depends_on_order :
  let out := ex_out [(0, NA); (1, Rej (EStatus 403 12))] in
  secure_handler out [Reqs [sq 0; sq 1]; Anon] None true = [AuthCalled 0 []; Bind; Handle None []; Respond 200 0] /\
  secure_handler out [Reqs [sq 1; sq 0]; Anon] None true = [AuthCalled 1 []; Respond 403 12].
Proof. split; reflexivity. Qed.

(* which principal is read depends on the order when schemes disagree *)
Example principal_depends_on_order :
  let out := ex_out [(0, Acc (Some 1)); (1, Acc (Some 2))] in
  secure_handler out [Reqs [sq 0; sq 1]] None true = [AuthCalled 0 []; AuthCalled 1 []; Bind; Handle (Some 2) []; Respond 200 0] /\
  secure_handler out [Reqs [sq 1; sq 0]] None true = [AuthCalled 1 []; AuthCalled 0 []; Bind; Handle (Some 1) []; Respond 200 0].
Proof. split; reflexivity. Qed.

(* hypotheses are satisfiable: a two-scheme alternative that is fully satisfied, behind one that rejects *)
Example justified_example :
  let out := ex_out [(0, Rej (EPlain 11)); (1, Acc (Some 5)); (2, Acc (Some 6))] in
  let alts := [Reqs [sq 0]; Reqs [mk_sreq 1 [7] true; mk_sreq 2 [8; 7] true]] in
  secure_handler out alts None true =
    [AuthCalled 0 []; AuthCalled 1 [7]; AuthCalled 2 [8; 7]; Bind; Handle (Some 6) [7; 8]; Respond 200 0] /\
  fully_satisfied out [mk_sreq 1 [7] true; mk_sreq 2 [8; 7] true].
Proof.
  split; [reflexivity|]. apply satisfied_prop. reflexivity.
Qed.

(* the two repaired defects, on the model: an unregistered scheme or a nil principal anywhere never admits *)
Example unregistered_scheme_never_satisfies :
  secure_handler (ex_out [(0, Acc (Some 1))]) [Reqs [sq 0; mk_sreq 1 [] false]] None true = [Respond 401 0].
Proof. reflexivity. Qed.
Example nil_principal_never_satisfies :
  let out := ex_out [(0, Acc (Some 1)); (1, Acc None)] in
  secure_handler out [Reqs [sq 0; sq 1]] None true = [AuthCalled 0 []; AuthCalled 1 []; Respond 401 0] /\
  secure_handler out [Reqs [sq 1; sq 0]] None true = [AuthCalled 1 []; AuthCalled 0 []; Respond 401 0].
Proof. split; reflexivity. Qed.
(* ---------- completeness: a satisfied alternative is found, whatever precedes it ---------- *)

Lemma run_schemes_complete out l : forall lst,
  forallb (fun s => accepts_with_principal (out (sname s) (sscopes s))) l = true ->
  (l = [] -> exists q, lst = Some q) ->
  exists t q, run_schemes out l lst false = (t, mk_ares true (Some q) None true).
Proof.
  induction l as [|s r IH]; intros lst F N.
  - destruct (N eq_refl) as [q ->]. exists [], q. reflexivity.
  - cbn [forallb] in F. apply andb_true_iff in F. destruct F as [F1 F2]. cbn [run_schemes].
    destruct (out (sname s) (sscopes s)) as [|[p|]|]; try discriminate. cbn [orb].
    destruct (IH (Some p) F2) as (t & q & R); [intros _; now exists p|]. rewrite R. eauto.
Qed.

Lemma auth_alt_complete out l :
  satisfied out l = true -> exists t q, auth_alt out (Reqs l) = (t, mk_ares true (Some q) None true).
Proof.
  unfold satisfied. rewrite forallb_andb. intro H. apply andb_true_iff in H. destruct H as [N H].
  apply andb_true_iff in H. destruct H as [Reg F]. cbn [auth_alt]. rewrite Reg.
  apply run_schemes_complete; [exact F|]. intros ->. discriminate.
Qed.

Definition some_satisfied (out : oracle) (alts : list alt) : bool :=
  existsb (fun a => match a with Reqs l => satisfied out l | Anon => false end) alts.

Lemma auth_alts_from_complete out alts : forall lastErr anon route,
  some_satisfied out alts = true ->
  exists t res q, auth_alts_from out alts lastErr anon route = (t, res) /\ o_usr res = Some q /\ o_err res = None /\ o_applies res = true.
Proof.
  induction alts as [|a r IH]; intros lastErr anon route H; [discriminate|].
  unfold some_satisfied in H. cbn [existsb] in H. cbn [auth_alts_from]. destruct a as [|l]; cbn [is_anon].
  - cbn [orb] in H. apply IH. exact H.
  - destruct (auth_alt out (Reqs l)) as [t1 res1] eqn:A1.
    destruct (negb (a_applies res1) || is_some (a_err res1) || negb (is_some (a_usr res1))) eqn:C.
    + destruct (satisfied out l) eqn:S.
      * destruct (auth_alt_complete _ _ S) as (t & q & E). rewrite E in A1. injection A1 as <- <-. discriminate.
      * cbn [orb] in H. destruct (IH (match a_err res1 with Some e => Some e | None => lastErr end) anon
                                    (if a_set res1 then Some (Reqs l) else route) H) as (t' & res' & q & E & U & Er & Ap).
        rewrite E. exists (t1 ++ t'), res', q. auto.
    + apply orb_false_iff in C. destruct C as [C C3]. apply orb_false_iff in C. destruct C as [C1 C2].
      destruct (a_usr res1) as [q|] eqn:U; [|discriminate]. destruct (a_err res1) eqn:Er; [discriminate|].
      eexists _, _, q. split; [reflexivity|]. cbn. auto.
Qed.

(* without an anonymous alternative and with no authorizer, the handler runs exactly when some alternative is satisfied *)
Definition ran (tr : list event) : bool := existsb is_handle tr.

Theorem runs_iff_some_satisfied out alts :
  alts <> [] -> allows_anon alts = false ->
  ran (secure_handler out alts None true) = some_satisfied out alts.
Proof.
  intros N NA. destruct (some_satisfied out alts) eqn:S.
  - destruct (auth_alts_from_complete out alts None None None S) as (t & res & q & E & U & Er & Ap).
    unfold secure_handler. destruct alts as [|a0 r0]; [contradiction|]. cbv iota. remember (a0 :: r0) as al.
    unfold authorize, auth_alts. rewrite E, U, Er, Ap. cbn [negb orb is_some andb]. rewrite andb_false_r.
    destruct (o_route res) eqn:Rt; unfold ran; rewrite existsb_app; cbn; [apply orb_true_r|].
    (* a nil route authenticator cannot happen *)
    exfalso. pose proof (auth_alts_post out al t res E) as P. unfold or_post in P. rewrite Er, U in P.
    destruct P as (_ & _ & l & _ & R' & _). congruence.
  - destruct (ran (secure_handler out alts None true)) eqn:R; [|reflexivity]. exfalso.
    unfold ran in R. apply existsb_exists in R. destruct R as (ev & Hev & Hh). destruct ev as [| | |p sc| |]; try discriminate.
    pose proof (handler_runs_only_if_satisfied _ _ _ _ _ _ N Hev) as J. unfold justified in J. destruct p as [q|].
    + destruct J as [(l & Hl & Sat & _) _]. apply satisfied_prop in Sat.
      assert (T : some_satisfied out alts = true) by (apply existsb_exists; exists (Reqs l); now split). congruence.
    + destruct J as (A & _). apply allows_anon_prop in A. congruence.
Qed.

Lemma satisfied_perm out l l' : Permutation l l' -> satisfied out l = satisfied out l'.
Proof.
  intro P. destruct (satisfied out l) eqn:A; destruct (satisfied out l') eqn:B; try reflexivity; exfalso.
  - apply satisfied_prop in A. assert (X : fully_satisfied out l') by (eapply fully_satisfied_perm; [apply Permutation_sym; exact P|exact A]).
    apply satisfied_prop in X. congruence.
  - apply satisfied_prop in B. assert (X : fully_satisfied out l) by (eapply fully_satisfied_perm; [exact P|exact B]).
    apply satisfied_prop in X. congruence.
Qed.

Lemma perm_invariants out alts alts' :
  Forall2 alt_perm alts alts' ->
  some_satisfied out alts = some_satisfied out alts' /\ allows_anon alts = allows_anon alts'.
Proof.
  induction 1 as [|a a' r r' P F IH]; [split; reflexivity|]. destruct IH as [IH1 IH2].
  unfold some_satisfied, allows_anon in *. cbn [existsb]. rewrite IH1, IH2.
  destruct a, a'; cbn in P; try contradiction; [split; reflexivity|].
  rewrite (satisfied_perm _ _ _ P). split; reflexivity.
Qed.

(* Without an anonymous alternative and without an authorizer, whether the handler runs does not depend on the order in
   which the schemes of the alternatives are evaluated. (With an anonymous alternative it can: see
   anonymous_admission_depends_on_order; with an authorizer it can through the principal: principal_depends_on_order.) *)
Theorem verdict_order_independent out alts alts' :
  Forall2 alt_perm alts alts' -> alts <> [] -> allows_anon alts = false ->
  ran (secure_handler out alts None true) = ran (secure_handler out alts' None true).
Proof.
  intros F N NA. destruct (perm_invariants out _ _ F) as [S A].
  assert (N' : alts' <> []) by (intros ->; inversion F; subst; contradiction).
  rewrite !runs_iff_some_satisfied; auto. congruence.
Qed.

(* the hypotheses of verdict_order_independent are met by ordinary structures, e.g. {s0,s1} OR {s2} in both orders *)
Example verdict_order_independent_example :
  let out := ex_out [(0, Acc (Some 1)); (1, NA); (2, Acc (Some 3))] in
  let alts := [Reqs [sq 0; sq 1]; Reqs [sq 2]] in
  let alts' := [Reqs [sq 1; sq 0]; Reqs [sq 2]] in
  Forall2 alt_perm alts alts' /\ allows_anon alts = false /\
  ran (secure_handler out alts None true) = true /\ ran (secure_handler out alts' None true) = true.
Proof.
  cbv zeta. split; [|repeat split; reflexivity].
  constructor; [cbn; apply perm_swap|]. constructor; [cbn; apply Permutation_refl|constructor].
Qed.

(* ---------- the anonymous alternative and rejected credentials, for every evaluation order ---------- *)

(* the handler runs for the nil principal only if no alternative for which the request presented all credentials
   had a scheme rejecting them - whatever order the schemes are evaluated in, whether or not the rejecting scheme
   was reached *)
Theorem anonymous_only_if_nothing_rejected out alts alts' az b sc :
  Forall2 alt_perm alts alts' -> alts <> [] ->
  In (Handle None sc) (secure_handler out alts' az b) -> none_rejected_declared out alts.
Proof.
  intros F N Hin. pose proof (justified_in_every_order _ _ _ _ _ _ _ F N Hin) as J. cbn in J.
  destruct J as (_ & _ & _ & J & _). exact J.
Qed.

(* an alternative whose schemes all found credentials, one of them rejecting, is reported: the request is refused
   and the response is a rejecting scheme's error, never the bare 401 - in every evaluation order *)
Example nil_principal_does_not_hide_a_rejection :
  let out := ex_out [(0, Rej (EStatus 403 11)); (1, Acc None)] in
  secure_handler out [Reqs [sq 1; sq 0]; Anon] None true = [AuthCalled 1 []; AuthCalled 0 []; Respond 403 11] /\
  secure_handler out [Reqs [sq 0; sq 1]; Anon] None true = [AuthCalled 0 []; Respond 403 11] /\
  sec_ok out [Reqs [sq 1; sq 0]; Anon] None true true [AuthCalled 1 []; Bind; Handle None []; Respond 200 0] = false /\
  sec_ok out [Reqs [sq 1; sq 0]] None true true [AuthCalled 1 []; Respond 401 0] = false.
Proof. repeat split; reflexivity. Qed.

(* ---------- the library's authenticators over a table, and histories ---------- *)

Lemma find_some_eq {A} (f : A -> bool) l x : find f l = Some x -> In x l /\ f x = true.
Proof. apply find_some. Qed.

(* a scheme accepts only a credential the table knows for THIS scheme, and a scope-checking scheme only when the
   scopes required by THIS operation are all granted to it *)
Theorem cred_oracle_accepts_only_granted scoped unk insuf grants creds s sc p :
  cred_oracle scoped unk insuf grants creds s sc = Acc p ->
  exists tok g, In (s, tok) creds /\ In g grants /\ g_scheme g = s /\ g_token g = tok /\ g_princ g = p /\
                (scoped s = true -> forall x, In x sc -> In x (g_scopes g)).
Proof.
  unfold cred_oracle. destruct (find (fun c => Nat.eqb (fst c) s) creds) as [[s' tok]|] eqn:C; [|discriminate].
  apply find_some in C. destruct C as [C1 C2]. cbn [fst] in C2. apply Nat.eqb_eq in C2. subst s'.
  destruct (find (fun g => Nat.eqb (g_scheme g) s && Nat.eqb (g_token g) tok) grants) as [g|] eqn:G; [|discriminate].
  apply find_some in G. destruct G as [G1 G2]. apply andb_true_iff in G2. destruct G2 as [G2 G3].
  apply Nat.eqb_eq in G2, G3.
  destruct (negb (scoped s) || subset sc (g_scopes g)) eqn:K; [|discriminate]. intro H. injection H as <-.
  exists tok, g. repeat split; auto. intros Sc x Hx. rewrite Sc in K. cbn [negb orb] in K.
  rewrite subset_spec in K. now apply K.
Qed.

(* every request of a history is answered from its own credentials alone and satisfies the property *)
Theorem history_pointwise oracle_for ops az calls :
  length (history oracle_for ops az calls) = length calls /\
  forall i c, nth_error calls i = Some c ->
    exists tr, nth_error (history oracle_for ops az calls) i = Some tr /\
               tr = secure_handler (oracle_for (hq_creds c)) (nth (hq_op c) ops []) az (hq_bind c) /\
               sec_ok (oracle_for (hq_creds c)) (nth (hq_op c) ops []) az (hq_bind c) true tr = true.
Proof.
  unfold history. split; [apply map_length|]. intros i c H.
  eexists. split; [apply map_nth_error; exact H|]. split; [reflexivity|]. apply secure_handler_satisfies_property.
Qed.

(* a token accepted for the scopes of one operation is not thereby accepted for another operation *)
Example scopes_checked_on_every_request :
  let orc := cred_oracle (fun _ => true) (fun s => EStatus 401 (40 + s)) (fun s => EStatus 403 (50 + s))
                         [mk_grant 0 1 (Some 7) [1]] in
  history orc [[Reqs [mk_sreq 0 [1] true]]; [Reqs [mk_sreq 0 [2] true]]] None
          [mk_hreq 0 [(0, 1)] true; mk_hreq 1 [(0, 1)] true; mk_hreq 0 [(0, 1)] true] =
  [[AuthCalled 0 [1]; Bind; Handle (Some 7) [1]; Respond 200 0];
   [AuthCalled 0 [2]; Respond 403 50];
   [AuthCalled 0 [1]; Bind; Handle (Some 7) [1]; Respond 200 0]].
Proof. reflexivity. Qed.

(* ---- the response format check of validateRequest does not touch a refusal ---- *)
Lemma cut_at_bind_no_bind : forall tr, existsb is_bind tr = false -> cut_at_bind tr = tr.
Proof.
  induction tr as [|ev r IH]; intros H; [reflexivity|].
  cbn [existsb] in H. apply Bool.orb_false_iff in H. destruct H as [Hev Hr].
  destruct ev; cbn [is_bind] in Hev; try discriminate; cbn [cut_at_bind]; rewrite (IH Hr); reflexivity.
Qed.

Lemma refusal_whatever_accept : forall out alts az bind_ok fmt_ok,
  existsb is_bind (secure_handler out alts az bind_ok) = false ->
  secure_handler_fmt out alts az bind_ok fmt_ok = secure_handler out alts az bind_ok /\
  sec_ok_fmt out alts az bind_ok fmt_ok true (secure_handler_fmt out alts az bind_ok fmt_ok) =
  sec_ok out alts az bind_ok true (secure_handler out alts az bind_ok).
Proof.
  intros out alts az bind_ok fmt_ok H.
  assert (E : secure_handler_fmt out alts az bind_ok fmt_ok = secure_handler out alts az bind_ok).
  { unfold secure_handler_fmt. destruct fmt_ok; [reflexivity|]. apply cut_at_bind_no_bind. exact H. }
  split; [exact E|]. rewrite E. unfold sec_ok_fmt. destruct fmt_ok; [reflexivity|].
  destruct (responded (secure_handler out alts az bind_ok)) as [[c m]|] eqn:R; [|reflexivity].
  cbv beta iota.
  match goal with |- (if ?g then _ else _) = _ => destruct g end; [|reflexivity].
  symmetry. apply secure_handler_satisfies_property.
Qed.

(* no acceptable format: neither binding nor the handler runs, whoever the request comes from *)
Lemma cut_at_bind_stops : forall tr, existsb is_bind (cut_at_bind tr) = false.
Proof.
  induction tr as [|ev r IH]; [reflexivity|].
  destruct ev; cbn [cut_at_bind existsb is_bind]; try exact IH; reflexivity.
Qed.
