(* TLSProofs.v — proofs for C18 over every option value and every oracle answer. *)
From V Require Import TLSSpec.

Ltac inv H := inversion H; subst; clear H.

(* shape of a successful run *)
Lemma tls_config_inv e o c :
  tls_client_auth e o = Config c ->
  exists certs r, client_certs e o = inr certs /\ root_cas e o = inr r /\
    c = {| c_min_version := tls12;
           c_insecure := if is_empty (o_server_name o) then o_insecure o else false;
           c_server_name := o_server_name o;
           c_roots := r; c_certs := certs;
           c_callback := o_callback o; c_tickets_disabled := o_tickets_disabled o; c_cache := o_cache o |}.
Proof.
  unfold tls_client_auth. intros H.
  destruct (client_certs e o) as [err|certs] eqn:Hc; [discriminate|].
  destruct (root_cas e o) as [err|r] eqn:Hr; [discriminate|].
  inv H. eauto.
Qed.

Lemma min_tls12 e o c : tls_client_auth e o = Config c -> c_min_version c = tls12.
Proof. intros H. apply tls_config_inv in H as (certs & r & _ & _ & ->). reflexivity. Qed.

Lemma insecure_iff e o c :
  tls_client_auth e o = Config c ->
  (c_insecure c = true <-> o_insecure o = true /\ o_server_name o = []).
Proof.
  intros H. apply tls_config_inv in H as (certs & r & _ & _ & ->). cbn [c_insecure].
  destruct (o_server_name o) as [|x s]; cbn [is_empty].
  - split; [intros Hi; split; [exact Hi | reflexivity] | intros [Hi _]; exact Hi].
  - split; [discriminate | intros [_ Hn]; discriminate].
Qed.

Lemma passthrough e o c :
  tls_client_auth e o = Config c ->
  c_server_name c = o_server_name o /\ c_callback c = o_callback o /\
  c_tickets_disabled c = o_tickets_disabled o /\ c_cache c = o_cache o.
Proof. intros H. apply tls_config_inv in H as (certs & r & _ & _ & ->). cbn. repeat split. Qed.

(* ---- client certificate ---- *)
Lemma client_certs_spec e o certs :
  client_certs e o = inr certs ->
  match supplied_identity e o with
  | None => certs = []
  | Some (ce, ko) => exists k, ko = Some k /\ certs = [(ce, k)] /\ usable e o = true
  end.
Proof.
  unfold client_certs, supplied_identity, usable.
  destruct (o_cert_file o) as [cf|].
  - destruct (o_key_file o) as [kf|]; [|discriminate].
    destruct (load_pair_ok e cf kf) eqn:Hl; [|discriminate].
    intros H; inv H. exists kf. repeat split; reflexivity.
  - destruct (o_loaded_cert o) as [lc|]; [|intros H; inv H; reflexivity].
    destruct (o_loaded_key o) as [[kind k]|]; [|discriminate].
    destruct kind; cbn [option_map snd].
    + destruct (x509_pair_ok e lc k) eqn:Hx; [|discriminate]. intros H; inv H. exists k. repeat split; reflexivity.
    + destruct (marshal_ec_ok e k) eqn:Hm; [|discriminate].
      destruct (x509_pair_ok e lc k) eqn:Hx; [|discriminate]. intros H; inv H. exists k. repeat split; reflexivity.
    + discriminate.
Qed.

Lemma cert_exact e o c :
  tls_client_auth e o = Config c ->
  match supplied_identity e o with
  | None => c_certs c = []
  | Some (ce, ko) => exists k, ko = Some k /\ c_certs c = [(ce, k)] /\ usable e o = true
  end.
Proof.
  intros H. apply tls_config_inv in H as (certs & r & Hc & _ & ->). cbn [c_certs].
  exact (client_certs_spec e o certs Hc).
Qed.

Lemma client_certs_error_iff e o :
  (exists err, client_certs e o = inl err) <-> (supplied_identity e o <> None /\ usable e o = false).
Proof.
  unfold client_certs, supplied_identity, usable.
  destruct (o_cert_file o) as [cf|].
  - destruct (o_key_file o) as [kf|].
    + destruct (load_pair_ok e cf kf); split.
      * intros [err H]; discriminate.
      * intros [_ H]; discriminate.
      * intros _; split; [discriminate | reflexivity].
      * intros _; eexists; reflexivity.
    + split; [intros _; split; [discriminate | reflexivity] | intros _; eexists; reflexivity].
  - destruct (o_loaded_cert o) as [lc|].
    + destruct (o_loaded_key o) as [[kind k]|].
      * destruct kind.
        -- destruct (x509_pair_ok e lc k); split;
             [intros [err H]; discriminate | intros [_ H]; discriminate
             | intros _; split; [discriminate | reflexivity] | intros _; eexists; reflexivity].
        -- destruct (marshal_ec_ok e k); cbn [andb].
           ++ destruct (x509_pair_ok e lc k); split;
                [intros [err H]; discriminate | intros [_ H]; discriminate
                | intros _; split; [discriminate | reflexivity] | intros _; eexists; reflexivity].
           ++ split; [intros _; split; [discriminate | reflexivity] | intros _; eexists; reflexivity].
        -- split; [intros _; split; [discriminate | reflexivity] | intros _; eexists; reflexivity].
      * split; [intros _; split; [discriminate | reflexivity] | intros _; eexists; reflexivity].
    + split; [intros [err H]; discriminate | intros [H _]; contradiction].
Qed.

Lemma bad_material_is_error e o :
  supplied_identity e o <> None -> usable e o = false ->
  exists err, tls_client_auth e o = Error err /\ (err = ECert \/ err = EKey).
Proof.
  intros Hs Hu. destruct (proj2 (client_certs_error_iff e o) (conj Hs Hu)) as [err Herr].
  unfold tls_client_auth. rewrite Herr. exists err. split; [reflexivity|].
  revert Herr. unfold client_certs.
  destruct (o_cert_file o) as [cf|].
  - destruct (o_key_file o) as [kf|].
    + destruct (load_pair_ok e cf kf); intros H; inv H. now left.
    + intros H; inv H. now left.
  - destruct (o_loaded_cert o) as [lc|]; [|discriminate].
    destruct (o_loaded_key o) as [[kind k]|].
    + destruct kind.
      * destruct (x509_pair_ok e lc k); intros H; inv H. now left.
      * destruct (marshal_ec_ok e k).
        -- destruct (x509_pair_ok e lc k); intros H; inv H. now left.
        -- intros H; inv H. now right.
      * intros H; inv H. now right.
    + intros H; inv H. now right.
Qed.

(* ---- roots ---- *)
Lemma in_pool_base o x : In x (base_pool (o_pool o)) <-> in_pool o x.
Proof.
  unfold in_pool, base_pool. destruct (o_pool o) as [p|].
  - split; [intros H; exists p; split; [reflexivity | exact H] | intros [q [Hq H]]; inv Hq; exact H].
  - split; [intros [] | intros [q [Hq _]]; discriminate].
Qed.

Lemma root_cas_spec e o r :
  root_cas e o = inr r ->
  (r = RSystem <-> no_roots_supplied o) /\
  (forall l, r = RPool l -> forall x, In x l <-> effective_root e o x).
Proof.
  unfold root_cas, no_roots_supplied, effective_root.
  destruct (o_loaded_ca o) as [ca|].
  - intros H; inv H. split.
    + split; [discriminate | intros [H _]; discriminate].
    + intros l Hl x; inv Hl. rewrite in_app_iff, in_pool_base. cbn [In].
      split; [intros [H | [H | []]]; [now right | now left] | intros [H | H]; [right; left; now symmetry | now left]].
  - destruct (o_ca_file o) as [f|].
    + destruct (read_ca e f) as [cs|] eqn:Hread; [|discriminate].
      intros H; inv H. split.
      * split; [discriminate | intros [_ [H _]]; discriminate].
      * intros l Hl x; inv Hl. rewrite in_app_iff, in_pool_base.
        split.
        -- intros [H | H]; [now right | left; exists cs; split; [reflexivity | exact H]].
        -- intros [[cs' [Hcs' H]] | H]; [inv Hcs'; now right | now left].
    + destruct (o_pool o) as [p|] eqn:Hp.
      * intros H; inv H. split.
        -- split; [discriminate | intros [_ [_ H]]; discriminate].
        -- intros l Hl x; injection Hl as Hl; subst l. unfold in_pool. rewrite Hp.
           split; [intros H; exists p; split; [reflexivity | exact H] | intros [q [Hq H]]; inv Hq; exact H].
      * intros H; inv H. split.
        -- split; [intros _; repeat split; reflexivity | reflexivity].
        -- intros l Hl; discriminate.
Qed.

Lemma effective_is_supplied e o x : effective_root e o x -> supplied_root e o x.
Proof.
  unfold effective_root, supplied_root.
  destruct (o_loaded_ca o) as [ca|].
  - intros [-> | H]; [now left | right; now right].
  - destruct (o_ca_file o) as [f|].
    + intros [[cs [Hr H]] | H]; [right; left; exists f, cs; repeat split; assumption | right; now right].
    + intros H; right; now right.
Qed.

Lemma roots_exact e o c :
  tls_client_auth e o = Config c ->
  (c_roots c = RSystem <-> no_roots_supplied o) /\
  (forall l, c_roots c = RPool l -> forall x, (In x l <-> effective_root e o x) /\ (In x l -> supplied_root e o x)).
Proof.
  intros H. apply tls_config_inv in H as (certs & r & _ & Hr & ->). cbn [c_roots].
  destruct (root_cas_spec e o r Hr) as [Hs Hp]. split; [exact Hs|].
  intros l Hl x. split; [exact (Hp l Hl x)|].
  intros Hx. apply effective_is_supplied. now apply (Hp l Hl x).
Qed.

Lemma root_cas_error_iff e o :
  (exists err, root_cas e o = inl err) <-> ca_file_unreadable e o = true.
Proof.
  unfold root_cas, ca_file_unreadable.
  destruct (o_loaded_ca o) as [ca|].
  - split; [intros [err H]; discriminate | discriminate].
  - destruct (o_ca_file o) as [f|].
    + destruct (read_ca e f) as [cs|]; split;
        [intros [err H]; discriminate | discriminate | reflexivity | intros _; eexists; reflexivity].
    + destruct (o_pool o); (split; [intros [err H]; discriminate | discriminate]).
Qed.

(* an error is returned exactly when the requested identity is unusable or the consulted CA file cannot be read *)
Lemma error_iff e o :
  (exists err, tls_client_auth e o = Error err) <->
  ((supplied_identity e o <> None /\ usable e o = false) \/ ca_file_unreadable e o = true).
Proof.
  rewrite <- client_certs_error_iff, <- root_cas_error_iff. unfold tls_client_auth.
  destruct (client_certs e o) as [err|certs].
  - split; [intros _; left; eexists; reflexivity | intros _; eexists; reflexivity].
  - destruct (root_cas e o) as [err|r].
    + split; [intros _; right; eexists; reflexivity | intros _; eexists; reflexivity].
    + split; [intros [err H]; discriminate | intros [[err H] | [err H]]; discriminate].
Qed.

(* ---- the boolean predicate of the correspondence run ---- *)
Lemma existsb_eqb_In x l : existsb (Nat.eqb x) l = true <-> In x l.
Proof.
  rewrite existsb_exists. split.
  - intros [y [Hy He]]. apply Nat.eqb_eq in He. now subst.
  - intros H. exists x. split; [exact H | apply Nat.eqb_refl].
Qed.

Lemma incl_b_spec a b : incl_b a b = true <-> incl a b.
Proof.
  unfold incl_b, incl. rewrite forallb_forall. split; intros H x Hx.
  - apply existsb_eqb_In. now apply H.
  - apply existsb_eqb_In. now apply H.
Qed.

Lemma incl_b_refl a : incl_b a a = true.
Proof. apply incl_b_spec. apply incl_refl. Qed.

Lemma set_eqb_spec a b : set_eqb a b = true <-> (forall x, In x a <-> In x b).
Proof.
  unfold set_eqb. rewrite andb_true_iff, !incl_b_spec. unfold incl. split.
  - intros [H1 H2] x. split; [apply H1 | apply H2].
  - intros H. split; intros x Hx; now apply H.
Qed.

Lemma expected_roots_model e o r : root_cas e o = inr r -> exists r', expected_roots e o = Some r' /\ roots_eqb r r' = true.
Proof.
  unfold root_cas, expected_roots.
  destruct (o_loaded_ca o) as [ca|].
  - intros H; inv H. eexists; split; [reflexivity|]. cbn [roots_eqb]. apply set_eqb_spec. intros x.
    rewrite in_app_iff. cbn [In]. tauto.
  - destruct (o_ca_file o) as [f|].
    + destruct (read_ca e f) as [cs|]; [|discriminate]. intros H; inv H.
      eexists; split; [reflexivity|]. cbn [roots_eqb]. apply set_eqb_spec. intros x. rewrite !in_app_iff. tauto.
    + destruct (o_pool o) as [p|]; intros H; inv H; (eexists; split; [reflexivity|]); cbn [roots_eqb].
      * apply set_eqb_spec. tauto.
      * reflexivity.
Qed.

Lemma predicate_holds e o : c18_holds e o (tls_client_auth e o) = true.
Proof.
  destruct (tls_client_auth e o) as [err|c] eqn:H; [reflexivity|].
  pose proof (cert_exact e o c H) as Hce.
  apply tls_config_inv in H as (certs & r & Hc & Hr & ->).
  unfold c18_holds, min_ok, insecure_ok, roots_ok, passthrough_ok, certs_ok.
  cbn [c_min_version c_insecure c_roots c_server_name c_callback c_tickets_disabled c_cache c_certs] in *.
  destruct (expected_roots_model e o r Hr) as [r' [-> Hre]]. rewrite Hre.
  rewrite bytes_eqb_refl, !Bool.eqb_reflx.
  assert (Ho : forall x, opt_nat_eqb x x = true).
  { intros [n|]; cbn; [apply Nat.eqb_refl | reflexivity]. }
  rewrite !Ho. cbn [andb].
  assert (Hi : Bool.eqb (if is_empty (o_server_name o) then o_insecure o else false)
                        (o_insecure o && is_empty (o_server_name o)) = true).
  { destruct (is_empty (o_server_name o)), (o_insecure o); reflexivity. }
  rewrite Hi. cbn [andb tls12 Nat.leb].
  replace (771 <=? 771) with true by (symmetry; apply Nat.leb_refl).
  cbn [andb].
  destruct (supplied_identity e o) as [[ce ko]|].
  - destruct Hce as [k [-> [-> Hu]]]. rewrite Hu. cbn [andb list_eqb pair_eqb fst snd].
    unfold pair_eqb; cbn [fst snd]. now rewrite bytes_eqb_refl, !Nat.eqb_refl.
  - now rewrite Hce.
Qed.

(* what the boolean predicate means, for an arbitrary outcome (in particular the implementation's) *)
Lemma predicate_sound e o c :
  c18_holds e o (Config c) = true ->
  tls12 <= c_min_version c /\
  (c_insecure c = true <-> o_insecure o = true /\ o_server_name o = []) /\
  (c_roots c = RSystem <-> no_roots_supplied o) /\
  (forall l, c_roots c = RPool l -> forall x, In x l <-> effective_root e o x) /\
  c_server_name c = o_server_name o /\ c_callback c = o_callback o /\
  c_tickets_disabled c = o_tickets_disabled o /\ c_cache c = o_cache o /\
  match supplied_identity e o with
  | None => c_certs c = []
  | Some (ce, ko) => exists k, ko = Some k /\ c_certs c = [(ce, k)] /\ usable e o = true
  end.
Proof.
  unfold c18_holds, min_ok, insecure_ok, roots_ok, passthrough_ok, certs_ok.
  rewrite !andb_true_iff. intros [[[[Hm Hi] Hr] [[[Hn Hcb] Ht] Hca]] Hce].
  assert (Ho : forall x y, opt_nat_eqb x y = true -> x = y).
  { intros [x|] [y|]; cbn; intros E; try discriminate; [apply Nat.eqb_eq in E; now subst | reflexivity]. }
  split; [now apply Nat.leb_le|].
  split.
  { apply Bool.eqb_prop in Hi. rewrite Hi, andb_true_iff.
    destruct (o_server_name o); cbn [is_empty]; split; intros [A B]; (split; [exact A|]); try reflexivity; discriminate. }
  assert (Hroots : (c_roots c = RSystem <-> no_roots_supplied o) /\
                   (forall l, c_roots c = RPool l -> forall x, In x l <-> effective_root e o x)).
  { revert Hr. unfold expected_roots, no_roots_supplied, effective_root.
    destruct (o_loaded_ca o) as [ca|].
    - destruct (c_roots c) as [|l]; cbn [roots_eqb]; [discriminate|]. intros Hs.
      split; [split; [discriminate | intros [H _]; discriminate]|].
      intros l' Hl' x; inv Hl'. rewrite (proj1 (set_eqb_spec _ _) Hs x). cbn [In]. rewrite in_pool_base.
      split; (intros [H|H]; [left; now symmetry | now right]).
    - destruct (o_ca_file o) as [f|].
      + destruct (read_ca e f) as [cs|]; [|discriminate].
        destruct (c_roots c) as [|l]; cbn [roots_eqb]; [discriminate|]. intros Hs.
        split; [split; [discriminate | intros [_ [H _]]; discriminate]|].
        intros l' Hl' x; inv Hl'. rewrite (proj1 (set_eqb_spec _ _) Hs x), in_app_iff, in_pool_base.
        split; [intros [H|H]; [left; exists cs; split; [reflexivity | exact H] | now right]
               | intros [[cs' [E H]]|H]; [inv E; now left | now right]].
      + destruct (o_pool o) as [p|] eqn:Hp.
        * destruct (c_roots c) as [|l]; cbn [roots_eqb]; [discriminate|]. intros Hs.
          split; [split; [discriminate | intros [_ [_ H]]; discriminate]|].
          intros l' Hl' x; injection Hl' as Hl'; subst l'. rewrite (proj1 (set_eqb_spec _ _) Hs x). unfold in_pool. rewrite Hp.
          split; [intros H; exists p; split; [reflexivity | exact H] | intros [q [E H]]; inv E; exact H].
        * destruct (c_roots c) as [|l]; cbn [roots_eqb]; [|discriminate]. intros _.
          split; [split; [intros _; repeat split; reflexivity | reflexivity]|].
          intros l' Hl'; discriminate. }
  destruct Hroots as [Hr1 Hr2].
  split; [exact Hr1|]. split; [exact Hr2|].
  split; [now apply bytes_eqb_eq|].
  split; [now apply Ho|].
  split; [now apply Bool.eqb_prop|].
  split; [now apply Ho|].
  destruct (supplied_identity e o) as [[ce [k|]]|].
  - apply andb_true_iff in Hce as [Hu Hl]. exists k. split; [reflexivity|]. split; [|exact Hu].
    destruct (c_certs c) as [|[a b] [|? ?]]; cbn [list_eqb] in Hl; try discriminate.
    + rewrite andb_true_r in Hl. unfold pair_eqb in Hl. cbn [fst snd] in Hl.
      apply andb_true_iff in Hl as [A B]. apply bytes_eqb_eq in A. apply Nat.eqb_eq in B. now subst.
    + rewrite andb_false_r in Hl. discriminate.
  - discriminate.
  - destruct (c_certs c); [reflexivity | discriminate].
Qed.

(* ---- a certificate file holding a chain: every block is presented, in file order ---- *)
Lemma chain_complete e o c cf :
  tls_client_auth e o = Config c -> o_cert_file o = Some cf ->
  exists kf, o_key_file o = Some kf /\ c_certs c = [(file_chain e cf, kf)].
Proof.
  intros H Hcf. pose proof (cert_exact e o c H) as Hce. unfold supplied_identity in Hce. rewrite Hcf in Hce.
  destruct Hce as [k [Hk [Hc _]]]. exists k. split; assumption.
Qed.

Lemma loaded_single e o c lc :
  tls_client_auth e o = Config c -> o_cert_file o = None -> o_loaded_cert o = Some lc ->
  exists kind k, o_loaded_key o = Some (kind, k) /\ c_certs c = [([lc], k)].
Proof.
  intros H Hcf Hlc. pose proof (cert_exact e o c H) as Hce. unfold supplied_identity in Hce. rewrite Hcf, Hlc in Hce.
  destruct Hce as [k [Hk [Hc _]]]. destruct (o_loaded_key o) as [[kind k']|]; [|discriminate].
  cbn [option_map snd] in Hk. inv Hk. exists kind, k. split; [reflexivity | exact Hc].
Qed.

(* ---- several calls: no memory ---- *)
Lemma history_length h : length (tls_history h) = length h.
Proof. unfold tls_history. apply map_length. Qed.

Lemma history_nth h n e o :
  nth_error h n = Some (e, o) -> nth_error (tls_history h) n = Some (tls_client_auth e o).
Proof. unfold tls_history. intros H. rewrite nth_error_map, H. reflexivity. Qed.

Lemma history_holds h : c18_history_holds h (tls_history h) = true.
Proof.
  unfold c18_history_holds, tls_history. induction h as [|[e o] h IH]; [reflexivity|].
  cbn [map list_eqb fst snd]. now rewrite predicate_holds, IH.
Qed.

(* the answer of a call does not depend on what was called before it, nor on the material of earlier moments *)
Lemma history_app h1 h2 : tls_history (h1 ++ h2) = tls_history h1 ++ tls_history h2.
Proof. unfold tls_history. apply map_app. Qed.

Lemma history_holds_inv h rs :
  c18_history_holds h rs = true ->
  length rs = length h /\
  forall n e o r, nth_error h n = Some (e, o) -> nth_error rs n = Some r -> c18_holds e o r = true.
Proof.
  unfold c18_history_holds. revert rs. induction h as [|[e o] h IH]; intros [|r rs] H; cbn [list_eqb] in H; try discriminate.
  - split; [reflexivity|]. intros [|n] e' o' r' Hn; discriminate.
  - apply andb_true_iff in H as [Hr Hrest]. destruct (IH rs Hrest) as [Hl Hn]. split; [cbn; now rewrite Hl|].
    intros [|n] e' o' r' He Hr'; cbn [nth_error] in He, Hr'.
    + inv He. inv Hr'. exact Hr.
    + exact (Hn n e' o' r' He Hr').
Qed.

(* hypotheses are satisfiable: one concrete option value per interesting region *)
Definition ex_env : env :=
  {| load_pair_ok := fun c k => Nat.eqb c k; marshal_ec_ok := fun k => negb (Nat.eqb k 6);
     x509_pair_ok := fun c k => Nat.eqb c k;
     file_chain := fun f => if Nat.eqb f 4 then [4; 5] else [f];
     read_ca := fun f => if Nat.eqb f 1 then Some [1; 2] else None |}.
Definition ex_opts : opts :=
  {| o_cert_file := None; o_loaded_cert := Some 2; o_key_file := Some 1; o_loaded_key := Some (KEc, 2);
     o_ca_file := Some 1; o_loaded_ca := None; o_pool := Some [4]; o_server_name := [99]; o_insecure := true;
     o_callback := Some 1; o_tickets_disabled := true; o_cache := None |}.
Example ex_config :
  tls_client_auth ex_env ex_opts =
  Config {| c_min_version := 771; c_insecure := false; c_server_name := [99]; c_roots := RPool [4; 1; 2];
            c_certs := [([2], 2)]; c_callback := Some 1; c_tickets_disabled := true; c_cache := None |}.
Proof. reflexivity. Qed.
Example ex_chain :
  let o := {| o_cert_file := Some 4; o_loaded_cert := Some 2; o_key_file := Some 4; o_loaded_key := None;
              o_ca_file := None; o_loaded_ca := None; o_pool := None; o_server_name := []; o_insecure := false;
              o_callback := None; o_tickets_disabled := false; o_cache := None |} in
  match tls_client_auth ex_env o with Config c => c_certs c = [([4; 5], 4)] | Error _ => False end.
Proof. reflexivity. Qed.
Example ex_bad_material :
  let o := {| o_cert_file := Some 1; o_loaded_cert := Some 2; o_key_file := Some 2; o_loaded_key := Some (KEc, 2);
              o_ca_file := None; o_loaded_ca := None; o_pool := None; o_server_name := []; o_insecure := false;
              o_callback := None; o_tickets_disabled := false; o_cache := None |} in
  supplied_identity ex_env o <> None /\ usable ex_env o = false /\ tls_client_auth ex_env o = Error ECert.
Proof. cbn. repeat split. discriminate. Qed.
