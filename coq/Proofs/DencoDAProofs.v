(* DencoDAProofs.v — the double array refines the trie.
   Repr d t idx: the cells reachable from idx represent the trie t (every trie edge is a cell with
   the right CHECK, no other non-reserved byte has a transition, the flags mirror the parameter /
   wildcard children, leaves index the node table at the right (value, names)).
   repr_check_sound: the executable checker establishes Repr.
   run_refines / da_lookup_refines: under Repr, Go's greedy walk with LIFO backtracking computes
   exactly tlookup, for every path (reserved bytes included), without index panic, and with fuel
   bounded by the parameter nesting depth of the trie. *)
From V Require Import Bytes DencoSpec DencoTrie DencoDA DencoTrieProofs DencoSpecProofs.

Section DAProofs.
Context {V : Type}.
Variable veqb : V -> V -> bool.
Hypothesis veqb_eq : forall a b, veqb a b = true -> a = b.

Local Notation VT := (V * list bytes)%type.
Local Notation T := (trie VT).
Implicit Types d : da V.

Definition leaf_at (d : da V) (j : N) (c : byte) (v : VT) : Prop :=
  exists bj, cell d j = Some bj /\ check bj = N.of_nat c /\
             nth_error (nodes d) (N.to_nat (base bj)) = Some v.

Fixpoint Repr (d : da V) (t : T) (idx : N) {struct t} : Prop :=
  match t with
  | Node leaf lits par wild =>
    exists b, cell d idx = Some b /\
      (match leaf with
       | Some v => leaf_at d (nxt (base b) SHARP) SHARP v
       | None => no_edge d b SHARP = true end) /\
      (fix go (l : list (byte * T)) : Prop :=
         match l with
         | [] => True
         | ct :: r => (reserved (fst ct) = false /\ edge_to d b (fst ct) = true /\
                       Repr d (snd ct) (nxt (base b) (fst ct))) /\ go r
         end) lits /\
      (match par with
       | Some tp => is_single b = true /\ edge_to d b COLON = true /\ Repr d tp (nxt (base b) COLON)
       | None => is_single b = false end) /\
      (match wild with
       | Some v => is_wild b = true /\ leaf_at d (nxt (base b) STAR) STAR v
       | None => is_wild b = false end) /\
      (forall c, reserved c = false -> ~ In c (map fst lits) -> no_edge d b c = true)
  end.

Lemma Repr_eq d (leaf : option VT) (lits : list (byte * T)) (par : option T) (wild : option VT) idx :
  Repr d (Node leaf lits par wild) idx <->
  exists b, cell d idx = Some b /\
    (match leaf with
     | Some v => leaf_at d (nxt (base b) SHARP) SHARP v
     | None => no_edge d b SHARP = true end) /\
    Forall (fun ct => reserved (fst ct) = false /\ edge_to d b (fst ct) = true /\
                      Repr d (snd ct) (nxt (base b) (fst ct))) lits /\
    (match par with
     | Some tp => is_single b = true /\ edge_to d b COLON = true /\ Repr d tp (nxt (base b) COLON)
     | None => is_single b = false end) /\
    (match wild with
     | Some v => is_wild b = true /\ leaf_at d (nxt (base b) STAR) STAR v
     | None => is_wild b = false end) /\
    (forall c, reserved c = false -> ~ In c (map fst lits) -> no_edge d b c = true).
Proof.
  cbn [Repr]. split; intros (b & Hc & Hl & Hlits & Hrest); exists b; (split; [exact Hc|split; [exact Hl|split; [|exact Hrest]]]).
  - clear -Hlits. induction lits as [|ct r IH]; constructor; [apply Hlits|apply IH, Hlits].
  - clear -Hlits. induction lits as [|ct r IH]; [exact I|]. inversion Hlits; subst. split; [assumption|now apply IH].
Qed.

(* ---------- the checker is sound ---------- *)
Lemma check_lt_256 x : (check x < 256)%N.
Proof. unfold check. change 255%N with (N.ones 8). rewrite N.land_ones. now apply N.mod_lt. Qed.

Lemma no_edge_big d b c : 256 <= c -> no_edge d b c = true.
Proof.
  intros Hc. unfold no_edge. destruct (cell d (nxt (base b) c)) as [bj|]; [|reflexivity].
  apply negb_true_iff, N.eqb_neq. pose proof (check_lt_256 bj). lia.
Qed.

Lemma vt_eqb_eq a b : vt_eqb veqb a b = true -> a = b.
Proof.
  destruct a as [v ns], b as [v' ns']. unfold vt_eqb. cbn [fst snd]. intros H.
  apply andb_true_iff in H. destruct H as [H1 H2]. apply veqb_eq in H1. subst v'. f_equal.
  clear -H2. revert ns' H2. induction ns as [|n ns IH]; intros [|n' ns']; cbn; try discriminate; [reflexivity|].
  intros H. apply andb_true_iff in H. destruct H as [Ha Hb]. apply bytes_eqb_eq in Ha. subst. f_equal. now apply IH.
Qed.

Lemma leaf_is_sound d j c v : leaf_is veqb d j c v = true -> leaf_at d j c v.
Proof.
  unfold leaf_is, leaf_at. destruct (cell d j) as [bj|]; [|discriminate]. intros H.
  apply andb_true_iff in H. destruct H as [H1 H2]. apply N.eqb_eq in H1.
  destruct (nth_error (nodes d) (N.to_nat (base bj))) as [nv|] eqn:En; [|discriminate].
  apply vt_eqb_eq in H2. subst nv. exists bj. repeat split; auto.
Qed.

Lemma repr_check_eq d (leaf : option VT) (lits : list (byte * T)) (par : option T) (wild : option VT) idx :
  repr_check veqb d (Node leaf lits par wild) idx =
  match cell d idx with
  | None => false
  | Some b =>
    (match leaf with Some v => leaf_is veqb d (nxt (base b) SHARP) SHARP v | None => no_edge d b SHARP end)
    && lits_check veqb d b lits
    && (match par with
        | Some tp => is_single b && edge_to d b COLON && repr_check veqb d tp (nxt (base b) COLON)
        | None => negb (is_single b) end)
    && (match wild with
        | Some v => is_wild b && leaf_is veqb d (nxt (base b) STAR) STAR v
        | None => negb (is_wild b) end)
    && forallb (fun c => reserved c || mem_byte c (map fst lits) || no_edge d b c) (seq 1 255)
  end.
Proof.
  cbn [repr_check]. destruct (cell d idx) as [b|]; [|reflexivity].
  do 3 f_equal. f_equal. induction lits as [|ct r IH]; cbn [lits_check]; [reflexivity|]. now rewrite IH.
Qed.

Theorem repr_check_sound d t : forall idx, repr_check veqb d t idx = true -> Repr d t idx.
Proof.
  induction t as [leaf lits par wild IHl IHp] using trie_ind'. intros idx H.
  rewrite repr_check_eq in H. destruct (cell d idx) as [b|] eqn:Hc; [|discriminate].
  apply andb_true_iff in H. destruct H as [H Hall].
  apply andb_true_iff in H. destruct H as [H Hw].
  apply andb_true_iff in H. destruct H as [H Hp].
  apply andb_true_iff in H. destruct H as [Hleaf Hlits].
  apply Repr_eq. exists b. split; [exact Hc|]. split; [|split; [|split; [|split]]].
  - destruct leaf as [v|]; [now apply leaf_is_sound|exact Hleaf].
  - clear -IHl Hlits. induction lits as [|ct r IH]; [constructor|].
    inversion IHl as [|? ? H1 Hr]; subst. cbn [lits_check] in Hlits.
    apply andb_true_iff in Hlits. destruct Hlits as [Hlits Hrest].
    apply andb_true_iff in Hlits. destruct Hlits as [Hlits Hrep].
    apply andb_true_iff in Hlits. destruct Hlits as [Hres Hedge].
    constructor; [|now apply IH]. apply negb_true_iff in Hres. auto.
  - destruct par as [tp|].
    + apply andb_true_iff in Hp. destruct Hp as [Hp Hrep]. apply andb_true_iff in Hp. destruct Hp as [Hs He].
      cbn in IHp. auto.
    + now apply negb_true_iff in Hp.
  - destruct wild as [v|].
    + apply andb_true_iff in Hw. destruct Hw as [Hw1 Hw2]. split; [exact Hw1|now apply leaf_is_sound].
    + now apply negb_true_iff in Hw.
  - intros c Hres Hnin. destruct (le_lt_dec 256 c) as [Hbig|Hsmall]; [now apply no_edge_big|].
    rewrite forallb_forall in Hall. assert (Hin : In c (seq 1 255)).
    { apply in_seq. split; [|lia]. destruct c; [|lia]. unfold reserved in Hres. cbn in Hres. discriminate. }
    specialize (Hall c Hin). rewrite Hres in Hall. cbn [orb] in Hall.
    apply orb_true_iff in Hall. destruct Hall as [Hm|Hn]; [|exact Hn].
    exfalso. apply Hnin. unfold mem_byte in Hm. apply existsb_exists in Hm.
    destruct Hm as (x & Hx & E). apply Nat.eqb_eq in E. now subst.
Qed.

(* ---------- parameter nesting depth: the fuel lookup needs ---------- *)
Lemma pdepth_lit (leaf : option VT) (lits : list (byte * T)) (par : option T) (wild : option VT) c t' :
  In (c, t') lits -> pdepth t' <= pdepth (Node leaf lits par wild).
Proof.
  intros Hin. cbn [pdepth]. etransitivity; [|apply Nat.le_max_l].
  induction lits as [|ct r IH]; [destruct Hin|]. destruct Hin as [->|Hin]; cbn [snd]; [apply Nat.le_max_l|].
  etransitivity; [apply IH, Hin|apply Nat.le_max_r].
Qed.

Lemma pdepth_par (leaf : option VT) (lits : list (byte * T)) tp (wild : option VT) :
  S (pdepth tp) <= pdepth (Node leaf lits (Some tp) wild).
Proof. cbn [pdepth]. apply Nat.le_max_r. Qed.

(* ---------- refinement ---------- *)
Definition result (d : da V) (r : raw) (o : res VT) (vals : list bytes) (fallback : raw) : Prop :=
  match o with
  | Some (v, vs) => exists nd, r = RFound nd (vals ++ vs) /\ nth_error (nodes d) (N.to_nat nd) = Some v
  | None => r = fallback
  end.

Lemma is_any_split b : is_any b = is_single b || is_wild b.
Proof.
  unfold is_any, is_single, is_wild. change 768%N with (N.lor 256 512).
  rewrite N.land_lor_distr_r.
  assert (H : forall x y, negb (N.eqb (N.lor x y) 0) = negb (N.eqb x 0) || negb (N.eqb y 0)).
  { intros x y. destruct (N.eqb_spec x 0) as [->|Hx], (N.eqb_spec y 0) as [->|Hy]; cbn [negb orb].
    - reflexivity.
    - rewrite N.lor_0_l. now destruct (N.eqb_spec y 0).
    - rewrite N.lor_0_r. now destruct (N.eqb_spec x 0).
    - destruct (N.eqb_spec (N.lor x y) 0) as [H|H]; [|reflexivity]. apply N.lor_eq_0_iff in H. tauto. }
  apply H.
Qed.

Lemma edge_to_cell d b c : edge_to d b c = true ->
  exists bj, cell d (nxt (base b) c) = Some bj /\ N.eqb (check bj) (N.of_nat c) = true.
Proof. unfold edge_to. destruct (cell d (nxt (base b) c)) as [bj|]; [|discriminate]. eauto. Qed.

Lemma lits_lookup_cases (lits : list (byte * T)) c p' :
  (~ In c (map fst lits) /\ lits_lookup lits c p' = None) \/
  (exists t', In (c, t') lits /\ lits_lookup lits c p' = tlookup t' p').
Proof.
  induction lits as [|[c' t'] r IH]; cbn [lits_lookup map fst]; [left; split; [intros []|reflexivity]|].
  destruct (Nat.eqb c c') eqn:E.
  - apply Nat.eqb_eq in E. subst c'. right. exists t'. split; [left; reflexivity|reflexivity].
  - apply Nat.eqb_neq in E. destruct IH as [[Hn Hl]|(t2 & Hin & Hl)].
    + left. split; [|exact Hl]. intros [H|H]; [congruence|contradiction].
    + right. exists t2. split; [right; exact Hin|exact Hl].
Qed.

Definition P (d : da V) (t : T) : Prop :=
  forall f idx, Repr d t idx -> pdepth t <= f -> forall p stack vals,
    result d (run d (lookup f d) p idx stack vals) (tlookup t p) vals
           (backtrack d (lookup f d) stack vals).

(* popping the entry recorded for a node tries its parameter child, then its wildcard, then the
   older entries - the tail of tlookup at that node *)
Lemma backtrack_node d f idx b (par : option T) (wild : option VT) p stack vals :
  p <> [] ->
  cell d idx = Some b ->
  (match par with
   | Some tp => is_single b = true /\ edge_to d b COLON = true /\ Repr d tp (nxt (base b) COLON) /\
                P d tp /\ S (pdepth tp) <= f
   | None => is_single b = false end) ->
  (match wild with
   | Some v => is_wild b = true /\ leaf_at d (nxt (base b) STAR) STAR v
   | None => is_wild b = false end) ->
  result d (backtrack d (lookup f d) (if is_any b then (p, idx) :: stack else stack) vals)
         (or_else (par_lookup par p) (wild_lookup wild p)) vals
         (backtrack d (lookup f d) stack vals).
Proof.
  intros Hp Hc Hpar Hwild. rewrite is_any_split.
  assert (Hw : forall r0, r0 = (if is_wild b
                                then match leaf_node d (nxt (base b) STAR) with
                                     | Some nd => RFound nd (vals ++ [p])
                                     | None => RPanic end
                                else backtrack d (lookup f d) stack vals) ->
               result d r0 (wild_lookup wild p) vals (backtrack d (lookup f d) stack vals)).
  { intros r0 ->. destruct wild as [v|]; cbn [wild_lookup result].
    - destruct Hwild as [Hw (bj & Hcj & _ & Hn)]. rewrite Hw. unfold leaf_node. rewrite Hcj.
      exists (base bj). auto.
    - rewrite Hwild. reflexivity. }
  destruct par as [tp|].
  - destruct Hpar as (Hs & He & Hr & HP & Hf). rewrite Hs. cbn [orb backtrack]. rewrite Hc.
    unfold try_single. rewrite Hs. destruct (edge_to_cell _ _ _ He) as (bj & Hcj & _). rewrite Hcj.
    destruct f as [|f']; [lia|]. cbn [lookup].
    pose proof (HP f' _ Hr ltac:(lia) (snd (span_seg p)) [] (vals ++ [fst (span_seg p)])) as Hres.
    cbn [backtrack] in Hres. unfold par_lookup.
    destruct (tlookup tp (snd (span_seg p))) as [[x vs]|]; cbn [result] in Hres.
    + destruct Hres as (nd & -> & Hn). cbn [or_else result]. exists nd. split; [|exact Hn].
      now rewrite <- app_assoc.
    + rewrite Hres. cbn [or_else]. apply Hw. reflexivity.
  - rewrite Hpar. cbn [orb par_lookup or_else]. destruct (is_wild b) eqn:Ew.
    + cbn [backtrack]. rewrite Hc. unfold try_single. rewrite Hpar. apply Hw. now rewrite Ew.
    + destruct wild as [v|]; [destruct Hwild; congruence|]. reflexivity.
Qed.

Lemma run_cons_edge d rec c p' idx b bj stack vals :
  cell d idx = Some b -> reserved c = false ->
  cell d (nxt (base b) c) = Some bj -> N.eqb (check bj) (N.of_nat c) = true ->
  run d rec (c :: p') idx stack vals =
  run d rec p' (nxt (base b) c) (if is_any b then (c :: p', idx) :: stack else stack) vals.
Proof.
  intros Hc Hr Hcj Hk. unfold run. cbn [walk]. rewrite Hc, Hr, Hcj, Hk. reflexivity.
Qed.

Lemma run_cons_stop d rec c p' idx b stack vals :
  cell d idx = Some b -> (reserved c = true \/ no_edge d b c = true) ->
  run d rec (c :: p') idx stack vals =
  backtrack d rec (if is_any b then (c :: p', idx) :: stack else stack) vals.
Proof.
  intros Hc H. unfold run. cbn [walk]. rewrite Hc.
  destruct (reserved c); [reflexivity|]. destruct H as [H|H]; [discriminate|].
  unfold no_edge in H. destruct (cell d (nxt (base b) c)) as [bj|]; [|reflexivity].
  apply negb_true_iff in H. rewrite H. reflexivity.
Qed.

Theorem run_refines d t : P d t.
Proof.
  induction t as [leaf lits par wild IHl IHp] using trie_ind'.
  intros f idx HR Hf p stack vals.
  apply Repr_eq in HR. destruct HR as (b & Hc & Hleaf & Hlits & Hpar & Hwild & Hno).
  rewrite tlookup_eq. destruct p as [|c p'].
  - (* the whole path is consumed: the termination edge *)
    unfold run. cbn [walk]. rewrite Hc. rewrite Hc.
    destruct leaf as [v|]; cbn [result].
    + destruct Hleaf as (bj & Hcj & Hk & Hn). rewrite Hcj. apply N.eqb_eq in Hk. rewrite Hk.
      exists (base bj). rewrite app_nil_r. auto.
    + unfold no_edge in Hleaf. destruct (cell d (nxt (base b) SHARP)) as [bj|]; [|reflexivity].
      apply negb_true_iff in Hleaf. rewrite Hleaf. reflexivity.
  - assert (Hbt : result d (backtrack d (lookup f d) (if is_any b then (c :: p', idx) :: stack else stack) vals)
                         (or_else (par_lookup par (c :: p')) (wild_lookup wild (c :: p'))) vals
                         (backtrack d (lookup f d) stack vals)).
    { apply backtrack_node; [discriminate|exact Hc| |exact Hwild].
      destruct par as [tp|]; [|exact Hpar]. destruct Hpar as (Hs & He & Hr).
      split; [exact Hs|]. split; [exact He|]. split; [exact Hr|]. split; [exact IHp|].
      etransitivity; [apply pdepth_par|exact Hf]. }
    fold (wild_lookup wild (c :: p')).
    destruct (lits_lookup_cases lits c p') as [[Hnin Hl]|(t' & Hin & Hl)]; rewrite Hl.
    + (* no literal child for c *)
      cbn [or_else]. rewrite (run_cons_stop d _ c p' idx b stack vals Hc); [exact Hbt|].
      destruct (reserved c) eqn:Er; [left; reflexivity|right]. now apply Hno.
    + (* literal child t' *)
      rewrite Forall_forall in Hlits, IHl.
      destruct (Hlits _ Hin) as (Hres & He & Hr). cbn [fst snd] in *.
      destruct (edge_to_cell _ _ _ He) as (bj & Hcj & Hk).
      rewrite (run_cons_edge d _ c p' idx b bj stack vals Hc Hres Hcj Hk).
      pose proof (IHl _ Hin f _ Hr ltac:(etransitivity; [eapply pdepth_lit; exact Hin|exact Hf]) p'
                      (if is_any b then (c :: p', idx) :: stack else stack) vals) as Hsub.
      cbn [snd] in Hsub.
      destruct (tlookup t' p') as [[x vs]|]; cbn [or_else result] in *; [exact Hsub|].
      rewrite Hsub. exact Hbt.
Qed.

(* ---------- Router.Lookup on the array = Router.Lookup on the trie ---------- *)
Theorem da_lookup_refines (pats : list (bytes * V)) d :
  repr_ok veqb pats d = true ->
  exists f, forall p, da_router_lookup f pats d p = router_lookup pats p.
Proof.
  unfold repr_ok. intros H. exists (S (pdepth (model_trie pats))). intros p.
  unfold da_router_lookup, router_lookup. destruct (static_lookup pats p None); [reflexivity|].
  destruct (param_pats pats) as [|kv r] eqn:Epp.
  - rewrite H. unfold model_trie. rewrite Epp. destruct p; reflexivity.
  - apply andb_true_iff in H. destruct H as [Hn Hrep]. apply negb_true_iff in Hn. rewrite Hn.
    apply repr_check_sound in Hrep.
    pose proof (run_refines d (model_trie pats) (pdepth (model_trie pats)) 1%N Hrep (le_n _) p [] []) as Hres.
    cbn [lookup]. cbn [backtrack] in Hres.
    destruct (tlookup (model_trie pats) p) as [[[v ns] vs]|]; cbn [result] in Hres.
    + destruct Hres as (nd & -> & Hnd). cbn [app]. rewrite Hnd. reflexivity.
    + rewrite Hres. reflexivity.
Qed.

(* the same for every fuel above the parameter nesting depth of the trie (the fuel the check uses) *)
Theorem da_lookup_refines_fuel (pats : list (bytes * V)) d f :
  repr_ok veqb pats d = true -> pdepth (model_trie pats) < f ->
  forall p, da_router_lookup f pats d p = router_lookup pats p.
Proof.
  unfold repr_ok. intros H Hf p. destruct f as [|f]; [lia|].
  unfold da_router_lookup, router_lookup. destruct (static_lookup pats p None); [reflexivity|].
  destruct (param_pats pats) as [|kv r] eqn:Epp.
  - rewrite H. unfold model_trie. rewrite Epp. destruct p; reflexivity.
  - apply andb_true_iff in H. destruct H as [Hn Hrep]. apply negb_true_iff in Hn. rewrite Hn.
    apply repr_check_sound in Hrep.
    pose proof (run_refines d (model_trie pats) f 1%N Hrep ltac:(lia) p [] []) as Hres.
    cbn [lookup]. cbn [backtrack] in Hres.
    destruct (tlookup (model_trie pats) p) as [[[v ns] vs]|]; cbn [result] in Hres.
    + destruct Hres as (nd & -> & Hnd). cbn [app]. rewrite Hnd. reflexivity.
    + rewrite Hres. reflexivity.
Qed.

(* total on every path, reserved bytes included: neither an index panic nor fuel exhaustion, and the
   answer is the best match of the table *)
Theorem da_total_given_repr (pats : list (bytes * V)) d :
  wf_patset pats = true -> repr_ok veqb pats d = true ->
  exists f, forall p,
    da_router_lookup f pats d p <> Panic /\ da_router_lookup f pats d p <> OutOfFuel /\
    da_router_lookup f pats d p = router_lookup pats p.
Proof.
  intros Hwf Hrep. destruct (da_lookup_refines pats d Hrep) as (f & Hf). exists f. intros p.
  rewrite Hf. destruct (router_total pats p Hwf) as [H1 H2]. auto.
Qed.

End DAProofs.

(* ---------- the per-table variants used by the correspondence run are the definitions ---------- *)
Section SharedProofs.
Context {V : Type}.

Lemma assoc_last_static (pats : list (bytes * V)) path : forall acc,
  assoc_last (statics_of pats) path acc = static_lookup pats path acc.
Proof.
  induction pats as [|[k v] r IH]; intro acc; [reflexivity|].
  unfold statics_of in *. cbn [filter fst static_lookup].
  destruct (is_param_key k); cbn [negb andb]; [apply IH|].
  cbn [assoc_last fst snd]. apply IH.
Qed.

Lemma router_lookup_pre_eq (pats : list (bytes * V)) p :
  router_lookup_pre (statics_of pats) (model_trie pats) p = router_lookup pats p.
Proof. unfold router_lookup_pre, router_lookup. now rewrite assoc_last_static. Qed.

Lemma da_router_lookup_pre_eq f (pats : list (bytes * V)) d p :
  da_router_lookup_pre f (statics_of pats) d p = da_router_lookup f pats d p.
Proof. unfold da_router_lookup_pre, da_router_lookup. now rewrite assoc_last_static. Qed.

Lemma if_andb (a b : bool) : (if a then b else false) = a && b.
Proof. destruct a; reflexivity. Qed.

Lemma forallb_filter_imp {A} (m X : A -> bool) l :
  forallb X (filter m l) = forallb (fun x => negb (m x) || X x) l.
Proof.
  induction l as [|x r IH]; [reflexivity|]. cbn [filter forallb].
  destruct (m x); cbn [negb orb forallb]; now rewrite IH.
Qed.

Lemma forallb_ext' {A} (f g : A -> bool) l : (forall x, f x = g x) -> forallb f l = forallb g l.
Proof. intro H. induction l as [|x r IH]; [reflexivity|]. cbn [forallb]. now rewrite H, IH. Qed.

Lemma existsb_ext' {A} (f g : A -> bool) l : (forall x, f x = g x) -> existsb f l = existsb g l.
Proof. intro H. induction l as [|x r IH]; [reflexivity|]. cbn [existsb]. now rewrite H, IH. Qed.

Lemma answer_ok_pre_eq (veqb : V -> V -> bool) (pats : list (bytes * V)) p ans :
  answer_ok_pre veqb (entries_of pats) p ans = answer_ok veqb pats p ans.
Proof.
  unfold answer_ok_pre, answer_ok. destruct ans as [[v ps]|]; [|reflexivity].
  cbv zeta. apply existsb_ext'. intro e. unfold cand_ok.
  rewrite !if_andb, forallb_filter_imp, !andb_assoc. f_equal.
  apply forallb_ext'. intro e'. now rewrite orb_assoc.
Qed.

Theorem check_shortcuts (veqb : V -> V -> bool) (pats : list (bytes * V)) p f (d : da V) ans :
  router_lookup_pre (statics_of pats) (model_trie pats) p = router_lookup pats p /\
  da_router_lookup_pre f (statics_of pats) d p = da_router_lookup f pats d p /\
  answer_ok_pre veqb (entries_of pats) p ans = answer_ok veqb pats p ans.
Proof.
  split; [apply router_lookup_pre_eq|]. split; [apply da_router_lookup_pre_eq|apply answer_ok_pre_eq].
Qed.

Lemma shape_eqb_sc_eq (a : shape) : forall b, shape_eqb_sc a b = shape_eqb a b.
Proof.
  (* andb a b unfolds to if a then b else false: the two fixpoints have convertible bodies *)
  induction a as [|x a IH]; intros [|y b]; cbn [shape_eqb_sc shape_eqb]; reflexivity.
Qed.

Lemma nodup_shapes_sc_eq (l : list shape) : nodup_shapes_sc l = nodup_shapes_b l.
Proof.
  induction l as [|x r IH]; [reflexivity|]. cbn [nodup_shapes_sc nodup_shapes_b].
  rewrite IH, (existsb_ext' _ _ r (shape_eqb_sc_eq x)).
  destruct (existsb (shape_eqb x) r); reflexivity.
Qed.

Theorem wf_patset_sc_eq (pats : list (bytes * V)) : wf_patset_sc pats = wf_patset pats.
Proof.
  unfold wf_patset_sc, wf_patset. rewrite nodup_shapes_sc_eq.
  destruct (forallb (fun kv => key_ok (fst kv)) pats); reflexivity.
Qed.

End SharedProofs.
