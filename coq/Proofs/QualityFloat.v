(* QualityFloat.v -- the float gap of C07, mechanised with Flocq.

   Go (middleware/header/header.go, expectQuality) returns the float64
        q + float64(n)/float64(d)
   where q is the float64 0 or 1, n and d are ints with d = 10^k, k <= 15, 0 <= n < d
   (or it returns the constant -1 for a refused literal), and middleware/negotiate.go compares
   these float64 values with < > == and with the constant 0.  The model (Model/AcceptParse.v)
   keeps the exact rational q0 + qn/qd and compares with q_lt / q_eq / q_is0 / q_isneg.

   Here the Go computation is written in the reals with IEEE-754 binary64 rounding to nearest even
   (Flocq: radix 2, FLT_exp (-1074) 53, ZnearestE) as fl_q, and it is proved that on every value
   expect_quality can return the float comparisons and the model comparisons agree.

   Core of the argument: a well-formed value is a multiple of 10^-15 in [-1, 2); the two roundings
   move it by at most 2^-54 + 2^-53 = 3 * 2^-54; distinct multiples of 10^-15 are 10^-15 apart
   and 10^-15 > 6 * 2^-54 (because 2^53 > 3 * 10^15).

   FLT has no upper exponent bound; all values here are in [-1, 2] (fl_q_range), far from the
   binary64 overflow threshold, so FLT rounding is binary64 rounding.  Division and addition are
   two separately rounded operations (the Go spec allows fusing x*y+z only).
   The theorems depend on the standard-library axioms of the classical reals (through Flocq). *)
From Coq Require Import ZArith Reals Lia Lra Bool List.
From Flocq Require Import Core.
From V Require Import NegotiateSpec QualityProofs.
Local Open Scope R_scope.

(* ---- binary64, round to nearest even ---- *)
Definition b64_exp : Z -> Z := FLT_exp (-1074) 53.
Definition round_b64 (x : R) : R := round radix2 b64_exp ZnearestE x.
Definition b64_format (x : R) : Prop := generic_format radix2 b64_exp x.

Global Instance b64_prec_gt_0 : Prec_gt_0 53.
Proof. unfold Prec_gt_0. lia. Qed.

Global Instance b64_exp_valid : Valid_exp b64_exp.
Proof. unfold b64_exp. apply FLT_exp_valid. exact b64_prec_gt_0. Qed.

(* float64(z) for an int z *)
Definition b64_of_Z (z : Z) : R := round_b64 (IZR z).

(* the Go expression q + float64(n)/float64(d), every operation rounded *)
Definition fl_q (q : qv) : R :=
  round_b64 (IZR (q0 q) + round_b64 (b64_of_Z (qn q) / b64_of_Z (qd q))).

(* the exact rational of the model, in the reals *)
Definition q_val (q : qv) : R := IZR (q0 q) + IZR (qn q) / IZR (qd q).

(* ---- basic facts about round_b64 ---- *)
Lemma round_b64_le x y : x <= y -> round_b64 x <= round_b64 y.
Proof. intros H. unfold round_b64. apply round_le; auto with typeclass_instances. Qed.

Lemma round_b64_id x : b64_format x -> round_b64 x = x.
Proof. intros H. unfold round_b64. apply round_generic; auto with typeclass_instances. Qed.

Lemma round_b64_format x : b64_format (round_b64 x).
Proof. unfold b64_format, round_b64. apply generic_format_round; auto with typeclass_instances. Qed.

Lemma round_b64_idem x : round_b64 (round_b64 x) = round_b64 x.
Proof. apply round_b64_id, round_b64_format. Qed.

(* every integer of magnitude below 2^53 is a binary64 number: float64(n) is exact *)
Lemma b64_format_IZR z : (Z.abs z < 2 ^ 53)%Z -> b64_format (IZR z).
Proof.
  intros Hz. unfold b64_format, b64_exp. apply generic_format_FLT.
  exists (Float radix2 z 0); cbn [Fnum Fexp].
  - unfold F2R. cbn [Fnum Fexp bpow]. now rewrite Rmult_1_r.
  - exact Hz.
  - lia.
Qed.

Lemma b64_of_Z_exact z : (Z.abs z < 2 ^ 53)%Z -> b64_of_Z z = IZR z.
Proof. intros Hz. unfold b64_of_Z. apply round_b64_id, b64_format_IZR, Hz. Qed.

Lemma b64_format_bpow e : (-1074 <= e)%Z -> b64_format (bpow radix2 e).
Proof. intros He. unfold b64_format, b64_exp. apply generic_format_FLT_bpow; [exact b64_prec_gt_0 | exact He]. Qed.

(* rounding error: |x| <= 2^e (normal range) gives |round x - x| <= 2^(e-54) *)
Lemma round_b64_err x e : (-1020 <= e)%Z -> Rabs x <= bpow radix2 e ->
  Rabs (round_b64 x - x) <= bpow radix2 (e - 54).
Proof.
  intros He Hx.
  destruct (Rle_lt_or_eq_dec _ _ Hx) as [Hlt | Heq].
  - destruct (Req_dec x 0) as [Hz | Hnz].
    + subst x. unfold round_b64. rewrite round_0 by auto with typeclass_instances.
      rewrite Rminus_0_r, Rabs_R0. apply bpow_ge_0.
    + eapply Rle_trans; [apply error_le_half_ulp; auto with typeclass_instances|].
      rewrite ulp_neq_0 by exact Hnz.
      assert (Hm : (mag radix2 x <= e)%Z) by (apply mag_le_bpow; assumption).
      assert (Hc : (cexp radix2 b64_exp x <= e - 53)%Z).
      { unfold cexp, b64_exp, FLT_exp. lia. }
      replace (e - 54)%Z with (-1 + (e - 53))%Z by lia.
      rewrite bpow_plus. change (bpow radix2 (-1)) with (/ 2).
      apply Rmult_le_compat_l; [lra|]. apply bpow_le. exact Hc.
  - assert (Hf : b64_format x).
    { destruct (Rcase_abs x) as [Hn | Hp].
      - rewrite Rabs_left in Heq by exact Hn.
        replace x with (- bpow radix2 e) by lra.
        apply generic_format_opp. apply b64_format_bpow. lia.
      - rewrite Rabs_right in Heq by exact Hp. rewrite Heq. apply b64_format_bpow. lia. }
    rewrite round_b64_id by exact Hf.
    replace (x - x) with 0 by ring. rewrite Rabs_R0. apply bpow_ge_0.
Qed.

(* ---- the invariant of the values expect_quality returns ---- *)
Definition pow10_upto15 (d : Z) : bool :=
  existsb (fun k => Z.eqb d (P10 k)) (seq 0 16).

(* q0 is 0 or 1 with 0 <= qn < qd = 10^k, k <= 15; or the refused value -1 + 0/10^k *)
Definition q_wf (q : qv) : bool :=
  (Z.eqb (q0 q) 0 || Z.eqb (q0 q) 1 || (Z.eqb (q0 q) (-1) && Z.eqb (qn q) 0))
  && Z.leb 0 (qn q) && Z.ltb (qn q) (qd q) && pow10_upto15 (qd q).

Lemma pow10_upto15_inv d : pow10_upto15 d = true ->
  exists c : Z, (1 <= c /\ d * c = P10 15 /\ 1 <= d)%Z.
Proof.
  unfold pow10_upto15. intros H. apply existsb_exists in H as (k & Hk & E).
  apply in_seq in Hk. apply Z.eqb_eq in E. subst d.
  exists (P10 (15 - k)). split; [apply P10_ge1|]. split; [|apply P10_ge1].
  rewrite <- P10_add. f_equal. lia.
Qed.

Lemma P10_15 : P10 15 = 1000000000000000%Z.
Proof. reflexivity. Qed.

Lemma q_wf_inv q : q_wf q = true ->
  (q0 q = 0 \/ q0 q = 1 \/ (q0 q = -1 /\ qn q = 0))%Z /\ (0 <= qn q < qd q)%Z /\
  exists c : Z, (1 <= c /\ qd q * c = P10 15 /\ 1 <= qd q)%Z.
Proof.
  unfold q_wf. intros H.
  apply andb_true_iff in H as [H H4]. apply andb_true_iff in H as [H H3]. apply andb_true_iff in H as [H1 H2].
  apply Z.leb_le in H2. apply Z.ltb_lt in H3.
  split; [|split; [lia | now apply pow10_upto15_inv]].
  apply orb_true_iff in H1 as [H1 | H1].
  - apply orb_true_iff in H1 as [H1 | H1]; apply Z.eqb_eq in H1; auto.
  - apply andb_true_iff in H1 as [Ha Hb]. apply Z.eqb_eq in Ha, Hb. auto.
Qed.

(* expect_quality establishes it, on arbitrary bytes *)
Lemma q_cont_wf q s' : (q = 0 \/ q = 1)%Z -> q_wf (fst (q_cont q s')) = true.
Proof.
  intros Hq.
  assert (Hnil : q_wf (mkq q 0 1) = true) by (destruct Hq; subst q; reflexivity).
  unfold q_cont. destruct s' as [|c s'']; [exact Hnil|].
  destruct (Nat.eqb c 46); [|exact Hnil].
  rewrite (q_digits_char s'' 0 0%Z 1%Z). cbn [fst].
  replace (15 - 0)%nat with 15%nat by lia. rewrite Z.mul_1_l.
  set (ds := firstn 15 (digits_of s'')).
  assert (Hlen : length ds = Nat.min 15 (length (digits_of s''))) by (subst ds; apply firstn_length).
  rewrite <- Hlen.
  destruct (dec_num_acc ds 0%Z (all_digits_firstn 15 _ (digits_of_all s''))) as [_ [B1 B2]]. fold ds in B1, B2.
  unfold q_wf. cbn [q0 qn qd].
  assert (E1 : (Z.eqb q 0 || Z.eqb q 1 || (Z.eqb q (-1) && Z.eqb (dec_num ds 0) 0)) = true).
  { destruct Hq; subst q; reflexivity. }
  rewrite E1. apply Z.leb_le in B1. apply Z.ltb_lt in B2. rewrite B1, B2. cbn [andb].
  unfold pow10_upto15. apply existsb_exists. exists (length ds). split; [|apply Z.eqb_refl].
  apply in_seq. lia.
Qed.

Lemma expect_quality_wf s : q_wf (fst (expect_quality s)) = true.
Proof.
  destruct s as [|c r]; [reflexivity|]. unfold expect_quality.
  destruct (Nat.eqb c 48); [apply q_cont_wf; lia|].
  destruct (Nat.eqb c 49); [apply q_cont_wf; lia|].
  destruct (Nat.eqb c 46); [apply q_cont_wf; lia|]. reflexivity.
Qed.

(* the constants negotiate.go starts from *)
Example q_wf_neg1 : q_wf q_neg1 = true. Proof. reflexivity. Qed.
Example q_wf_one : q_wf q_one = true. Proof. reflexivity. Qed.
Definition q_example_literal : bytes := ([48; 46; 51; 51; 51; 51; 51; 51; 51; 51; 51; 51; 51; 51; 51; 51; 51; 51; 51])%nat.
Example q_wf_example : q_wf (fst (expect_quality q_example_literal)) = true
  /\ fst (expect_quality q_example_literal) = mkq 0 333333333333333 1000000000000000.
Proof. split; vm_compute; reflexivity. Qed.

(* ---- float64(n), float64(d) are exact ---- *)
Lemma q_wf_small q : q_wf q = true -> (Z.abs (qn q) < 2 ^ 53 /\ Z.abs (qd q) < 2 ^ 53)%Z.
Proof.
  intros H. destruct (q_wf_inv q H) as (_ & Hn & c & Hc & Hd & Hd1).
  rewrite P10_15 in Hd.
  assert (qd q <= 1000000000000000)%Z by nia.
  assert (2 ^ 53 = 9007199254740992)%Z by reflexivity. lia.
Qed.

Lemma fl_q_simpl q : q_wf q = true ->
  fl_q q = round_b64 (IZR (q0 q) + round_b64 (IZR (qn q) / IZR (qd q))).
Proof.
  intros H. destruct (q_wf_small q H) as [Hn Hd]. unfold fl_q.
  now rewrite (b64_of_Z_exact _ Hn), (b64_of_Z_exact _ Hd).
Qed.

Lemma q_frac_range q : q_wf q = true -> 0 <= IZR (qn q) / IZR (qd q) < 1.
Proof.
  intros H. destruct (q_wf_inv q H) as (_ & [Hn0 Hn1] & _).
  assert (Hd : 0 < IZR (qd q)) by (apply IZR_lt; lia).
  apply IZR_le in Hn0. apply IZR_lt in Hn1. split.
  - apply Rmult_le_pos; [exact Hn0 | left; now apply Rinv_0_lt_compat].
  - apply (Rmult_lt_reg_r (IZR (qd q))); [exact Hd|]. field_simplify; lra.
Qed.

Lemma round_b64_0 : round_b64 0 = 0.
Proof. unfold round_b64. apply round_0. auto with typeclass_instances. Qed.

Lemma round_b64_1 : round_b64 1 = 1.
Proof. apply round_b64_id. apply (b64_format_bpow 0). lia. Qed.

Lemma round_b64_m1 : round_b64 (-1) = -1.
Proof. apply round_b64_id. apply generic_format_opp. apply (b64_format_bpow 0). lia. Qed.

Lemma round_b64_2 : round_b64 2 = 2.
Proof. apply round_b64_id. apply (b64_format_bpow 1). lia. Qed.

(* the rounded fraction stays in [0,1] and within 2^-54 of the exact one *)
Lemma round_frac x : 0 <= x < 1 -> 0 <= round_b64 x <= 1 /\ Rabs (round_b64 x - x) <= bpow radix2 (-54).
Proof.
  intros [H0 H1]. split.
  - split; [rewrite <- round_b64_0 | rewrite <- round_b64_1]; apply round_b64_le; lra.
  - apply (round_b64_err x 0); [lia|]. cbn [bpow]. rewrite Rabs_right; lra.
Qed.

(* the two roundings together move the value by at most 3 * 2^-54 *)
Lemma fl_q_err q : q_wf q = true -> Rabs (fl_q q - q_val q) <= 3 * bpow radix2 (-54).
Proof.
  intros H. rewrite (fl_q_simpl q H). unfold q_val.
  pose proof (q_frac_range q H) as Hf. set (f := IZR (qn q) / IZR (qd q)) in *.
  destruct (round_frac f Hf) as [Hr He]. set (rf := round_b64 f) in *.
  pose proof (bpow_gt_0 radix2 (-54)) as Hb.
  destruct (q_wf_inv q H) as (Hq & _ & _).
  destruct Hq as [Hq | [Hq | [Hq Hn]]]; rewrite Hq.
  - (* q0 = 0: 0 + rf is rf, already a float *)
    rewrite Rplus_0_l. unfold rf. rewrite round_b64_idem. fold rf. rewrite Rplus_0_l. lra.
  - (* q0 = 1: 1 + rf in [1,2], second rounding error at most 2^-53 *)
    assert (E2 : Rabs (round_b64 (1 + rf) - (1 + rf)) <= bpow radix2 (1 - 54)).
    { apply round_b64_err; [lia|]. cbn [bpow]. rewrite Rabs_right; [|lra].
      change (Z.pow_pos radix2 1) with 2%Z. lra. }
    replace (1 - 54)%Z with (1 + -54)%Z in E2 by lia. rewrite bpow_plus in E2.
    change (bpow radix2 1) with 2 in E2.
    replace (round_b64 (1 + rf) - (1 + f)) with ((round_b64 (1 + rf) - (1 + rf)) + (rf - f)) by ring.
    eapply Rle_trans; [apply Rabs_triang|]. lra.
  - (* the refused value: -1 + 0 is -1 *)
    assert (Ef : f = 0) by (subst f; rewrite Hn; unfold Rdiv; ring).
    assert (Erf : rf = 0) by (subst rf; rewrite Ef; apply round_b64_0).
    rewrite Erf, Ef, Rplus_0_r, round_b64_m1. replace (-1 - -1) with 0 by ring. rewrite Rabs_R0. lra.
Qed.

Lemma fl_q_range q : q_wf q = true -> -1 <= fl_q q <= 2.
Proof.
  intros H. rewrite (fl_q_simpl q H).
  destruct (round_frac _ (q_frac_range q H)) as [Hr _]. set (rf := round_b64 _) in *.
  assert (Hq : -1 <= IZR (q0 q) <= 1).
  { destruct (q_wf_inv q H) as (Hq & _ & _). destruct Hq as [Hq | [Hq | [Hq _]]]; rewrite Hq; lra. }
  split; [rewrite <- round_b64_m1 | rewrite <- round_b64_2]; apply round_b64_le; lra.
Qed.

(* ---- separation: well-formed values are multiples of 10^-15 ---- *)
Lemma q_val_scaled q : q_wf q = true ->
  exists N : Z, q_val q = IZR N / IZR (P10 15) /\ (N * qd q = q_num q * P10 15)%Z.
Proof.
  intros H. destruct (q_wf_inv q H) as (_ & _ & c & Hc & Hd & Hd1).
  exists (q_num q * c)%Z. split; [|rewrite <- Hd; ring].
  rewrite <- Hd. unfold q_val, q_num. rewrite !mult_IZR, plus_IZR, mult_IZR.
  assert (IZR (qd q) <> 0) by (apply not_0_IZR; lia).
  assert (IZR c <> 0) by (apply not_0_IZR; lia).
  field. split; assumption.
Qed.

Lemma tenpow15_gap : 6 * bpow radix2 (-54) < / IZR (P10 15).
Proof.
  rewrite P10_15. change (bpow radix2 (-54)) with (/ IZR (Z.pow_pos 2 54)).
  change (Z.pow_pos 2 54) with 18014398509481984%Z. lra.
Qed.

Lemma q_val_sep a b : q_wf a = true -> q_wf b = true -> q_lt a b = true ->
  q_val a + / IZR (P10 15) <= q_val b.
Proof.
  intros Ha Hb Hlt.
  destruct (q_val_scaled a Ha) as (Na & Ea & Sa). destruct (q_val_scaled b Hb) as (Nb & Eb & Sb).
  destruct (q_wf_inv a Ha) as (_ & _ & _ & _ & _ & Hda). destruct (q_wf_inv b Hb) as (_ & _ & _ & _ & _ & Hdb).
  unfold q_lt in Hlt. apply Z.ltb_lt in Hlt.
  pose proof (P10_pos 15) as HT.
  assert (Hlt' : (Na * (qd a * qd b) < Nb * (qd a * qd b))%Z).
  { replace (Na * (qd a * qd b))%Z with ((Na * qd a) * qd b)%Z by ring.
    replace (Nb * (qd a * qd b))%Z with ((Nb * qd b) * qd a)%Z by ring.
    rewrite Sa, Sb.
    replace (q_num a * P10 15 * qd b)%Z with ((q_num a * qd b) * P10 15)%Z by ring.
    replace (q_num b * P10 15 * qd a)%Z with ((q_num b * qd a) * P10 15)%Z by ring.
    apply Z.mul_lt_mono_pos_r; assumption. }
  apply Z.mul_lt_mono_pos_r in Hlt'; [|nia].
  assert (Hle : (Na + 1 <= Nb)%Z) by lia. apply IZR_le in Hle. rewrite plus_IZR in Hle.
  rewrite Ea, Eb. assert (HTR : 0 < IZR (P10 15)) by (apply IZR_lt; exact HT).
  unfold Rdiv. rewrite <- (Rmult_1_l (/ IZR (P10 15))) at 2. rewrite <- Rmult_plus_distr_r.
  apply Rmult_le_compat_r; [left; now apply Rinv_0_lt_compat | exact Hle].
Qed.

(* ---- agreement ---- *)
Lemma float_lt_of_q_lt a b : q_wf a = true -> q_wf b = true -> q_lt a b = true -> fl_q a < fl_q b.
Proof.
  intros Ha Hb Hlt.
  pose proof (q_val_sep a b Ha Hb Hlt) as Hs.
  pose proof (fl_q_err a Ha) as Ea. pose proof (fl_q_err b Hb) as Eb.
  pose proof tenpow15_gap as Hg.
  apply Rabs_le_inv in Ea. apply Rabs_le_inv in Eb. lra.
Qed.

Lemma float_eq_of_q_eq a b : q_wf a = true -> q_wf b = true -> q_eq a b = true -> fl_q a = fl_q b.
Proof.
  intros Ha Hb Heq. rewrite (fl_q_simpl a Ha), (fl_q_simpl b Hb).
  destruct (q_wf_inv a Ha) as (_ & Hna & _). destruct (q_wf_inv b Hb) as (_ & Hnb & _).
  unfold q_eq, q_num in Heq. apply Z.eqb_eq in Heq.
  assert (E0 : q0 a = q0 b).
  { assert (Hk : ((q0 a - q0 b) * (qd a * qd b) = qn b * qd a - qn a * qd b)%Z) by lia.
    assert (Hlo : (- (qd a * qd b) < qn b * qd a - qn a * qd b)%Z) by nia.
    assert (Hhi : (qn b * qd a - qn a * qd b < qd a * qd b)%Z) by nia.
    nia. }
  assert (En : (qn a * qd b = qn b * qd a)%Z) by (rewrite E0 in Heq; lia).
  assert (Ef : IZR (qn a) / IZR (qd a) = IZR (qn b) / IZR (qd b)).
  { assert (IZR (qd a) <> 0) by (apply not_0_IZR; lia).
    assert (IZR (qd b) <> 0) by (apply not_0_IZR; lia).
    apply (f_equal IZR) in En. rewrite !mult_IZR in En.
    apply (Rmult_eq_reg_r (IZR (qd a) * IZR (qd b))); [|now apply Rmult_integral_contrapositive_currified].
    field_simplify; [|assumption|assumption]. lra. }
  now rewrite E0, Ef.
Qed.

Lemma q_trichotomy a b : q_lt a b = true \/ q_eq a b = true \/ q_lt b a = true.
Proof.
  unfold q_lt, q_eq.
  destruct (Z.lt_trichotomy (q_num a * qd b) (q_num b * qd a)) as [H | [H | H]].
  - left. now apply Z.ltb_lt.
  - right; left. now apply Z.eqb_eq.
  - right; right. now apply Z.ltb_lt.
Qed.

Theorem float_order_agrees a b : q_wf a = true -> q_wf b = true ->
  (q_lt a b = true <-> fl_q a < fl_q b).
Proof.
  intros Ha Hb. split; [now apply float_lt_of_q_lt|]. intros Hlt.
  destruct (q_trichotomy a b) as [H | [H | H]]; [exact H | |].
  - apply (float_eq_of_q_eq a b Ha Hb) in H. lra.
  - apply (float_lt_of_q_lt b a Hb Ha) in H. lra.
Qed.

Theorem float_eq_agrees a b : q_wf a = true -> q_wf b = true ->
  (q_eq a b = true <-> fl_q a = fl_q b).
Proof.
  intros Ha Hb. split; [now apply float_eq_of_q_eq|]. intros Heq.
  destruct (q_trichotomy a b) as [H | [H | H]]; [| exact H |].
  - apply (float_lt_of_q_lt a b Ha Hb) in H. lra.
  - apply (float_lt_of_q_lt b a Hb Ha) in H. lra.
Qed.

(* comparisons with the constant 0 *)
Definition q_zero : qv := mkq 0 0 1.

Lemma fl_q_zero : fl_q q_zero = 0.
Proof.
  rewrite fl_q_simpl by reflexivity. cbn [q_zero q0 qn qd].
  unfold Rdiv. rewrite Rmult_0_l, round_b64_0, Rplus_0_l. apply round_b64_0.
Qed.

Theorem float_zero_agrees a : q_wf a = true -> (q_is0 a = true <-> fl_q a = 0).
Proof.
  intros Ha. rewrite <- fl_q_zero. rewrite <- (float_eq_agrees a q_zero Ha eq_refl).
  unfold q_is0, q_eq, q_num. cbn [q_zero q0 qn qd]. rewrite !Z.eqb_eq. lia.
Qed.

(* spec.Q < 0.0 in ParseAccept *)
Theorem float_neg_agrees a : q_wf a = true -> (q_isneg a = true <-> fl_q a < 0).
Proof.
  intros Ha. rewrite <- fl_q_zero. rewrite <- (float_order_agrees a q_zero Ha eq_refl).
  unfold q_isneg, q_lt, q_num. cbn [q_zero q0 qn qd]. rewrite !Z.ltb_lt. lia.
Qed.

(* the hypotheses are met by everything the parser produces, so the float comparisons made by
   negotiate.go on parsed qualities are the model's comparisons *)
Corollary float_order_agrees_parsed s1 s2 :
  let a := fst (expect_quality s1) in let b := fst (expect_quality s2) in
  (q_lt a b = true <-> fl_q a < fl_q b) /\ (q_eq a b = true <-> fl_q a = fl_q b) /\
  (q_is0 a = true <-> fl_q a = 0) /\ (q_isneg a = true <-> fl_q a < 0).
Proof.
  cbv zeta. pose proof (expect_quality_wf s1) as H1. pose proof (expect_quality_wf s2) as H2.
  split; [now apply float_order_agrees|]. split; [now apply float_eq_agrees|].
  split; [now apply float_zero_agrees | now apply float_neg_agrees].
Qed.

(* non-vacuity: 0.333333333333333 (15 digits) against 0.333333333333334 *)
Example float_order_example :
  fl_q (mkq 0 333333333333333 1000000000000000) < fl_q (mkq 0 333333333333334 1000000000000000).
Proof. apply float_order_agrees; reflexivity. Qed.

Example float_order_example_one :
  fl_q (mkq 0 999999999999999 1000000000000000) < fl_q q_one /\
  fl_q q_one < fl_q (mkq 1 1 1000000000000000) /\ fl_q q_neg1 < fl_q q_zero.
Proof. repeat split; apply float_order_agrees; reflexivity. Qed.
