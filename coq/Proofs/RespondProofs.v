(* RespondProofs.v — proofs about Model/Respond.v in the vocabulary of Model/RespondSpec.v. *)
From V Require Import RespondSpec NegotiateProofs AcceptParseProofs.

(* ---- the declared success status ---- *)
Lemma min_list_spec l : match min_list l with
                        | Some m => In m l /\ Forall (fun c => m <= c) l
                        | None => l = []
                        end.
Proof.
  induction l as [|c r IH]; simpl; [reflexivity|].
  destruct (min_list r) as [m|].
  - destruct IH as [Hin Hall]. split.
    + destruct (Nat.min_spec c m) as [[_ E]|[_ E]]; rewrite E; [now left | now right].
    + constructor; [lia|]. eapply Forall_impl; [|exact Hall]. simpl; intros; lia.
  - subst r. split; [now left | constructor; [lia | constructor]].
Qed.

Lemma mem_nat_in x l : mem_nat x l = true <-> In x l.
Proof.
  unfold mem_nat. rewrite existsb_exists. split.
  - intros [y [Hy E]]. apply Nat.eqb_eq in E. now subst.
  - intros H. exists x. split; [assumption | apply Nat.eqb_refl].
Qed.

Lemma success_code_some codes s : success_code codes = Some s ->
  In s codes /\ is_2xx s = true /\ forall c, In c codes -> is_2xx c = true -> s <= c.
Proof.
  unfold success_code. intros H.
  pose proof (min_list_spec (filter is_2xx codes)) as M. rewrite H in M. destruct M as [Hin Hall].
  apply filter_In in Hin. destruct Hin as [Hin H2]. split; [assumption|]. split; [assumption|].
  intros c Hc Hc2. rewrite Forall_forall in Hall. apply Hall. apply filter_In. now split.
Qed.

Lemma success_code_declared codes s : success_code codes = Some s -> is_declared_success codes s = true.
Proof.
  intros H. apply success_code_some in H. destruct H as [Hin [H2 Hmin]].
  unfold is_declared_success. rewrite (proj2 (mem_nat_in s codes) Hin), H2. simpl.
  apply forallb_forall. intros c Hc. destruct (is_2xx c) eqn:E; simpl; [|reflexivity].
  apply Nat.leb_le. now apply Hmin.
Qed.

Lemma declared_success_unique codes s t :
  is_declared_success codes s = true -> is_declared_success codes t = true -> s = t.
Proof.
  unfold is_declared_success. intros Hs Ht.
  apply andb_true_iff in Hs. destruct Hs as [Hs Hs3]. apply andb_true_iff in Hs. destruct Hs as [Hs1 Hs2].
  apply andb_true_iff in Ht. destruct Ht as [Ht Ht3]. apply andb_true_iff in Ht. destruct Ht as [Ht1 Ht2].
  apply mem_nat_in in Hs1. apply mem_nat_in in Ht1.
  rewrite forallb_forall in Hs3, Ht3.
  pose proof (Hs3 t Ht1) as A. pose proof (Ht3 s Hs1) as B.
  rewrite Ht2 in A. rewrite Hs2 in B. simpl in A, B. apply Nat.leb_le in A. apply Nat.leb_le in B. lia.
Qed.

Lemma success_code_none codes : success_code codes = None <-> has_declared_success codes = false.
Proof.
  unfold success_code, has_declared_success.
  pose proof (min_list_spec (filter is_2xx codes)) as M.
  split; intro H.
  - rewrite H in M. destruct (existsb is_2xx codes) eqn:E; [|reflexivity].
    apply existsb_exists in E. destruct E as [c [Hc H2]].
    assert (In c (filter is_2xx codes)) as Hf by (apply filter_In; now split).
    rewrite M in Hf. destruct Hf.
  - destruct (min_list (filter is_2xx codes)) as [m|]; [|reflexivity].
    destruct M as [Hin _]. apply filter_In in Hin. destruct Hin as [Hin H2].
    assert (existsb is_2xx codes = true) as E by (apply existsb_exists; now exists m). congruence.
Qed.

Lemma has_declared_some codes s : success_code codes = Some s -> has_declared_success codes = true.
Proof.
  intros H. destruct (has_declared_success codes) eqn:E; [reflexivity|].
  apply success_code_none in E. congruence.
Qed.

(* ---- small facts about the observation vocabulary ---- *)
Lemma call_eqb_refl c : call_eqb c c = true.
Proof. unfold call_eqb. now rewrite !bytes_eqb_refl. Qed.

Lemma written_by_obs r p tag : o_producer r = Some p -> written_by (obs_of (Responded r) tag) p tag = true.
Proof.
  intros H. unfold written_by, obs_of. cbn [ob_calls ob_body]. rewrite H. cbn [list_eqb].
  now rewrite call_eqb_refl, bytes_eqb_refl.
Qed.

Lemma nothing_written_obs r tag : o_producer r = None -> nothing_written (obs_of (Responded r) tag) = true.
Proof. intros H. unfold nothing_written, obs_of. cbn [ob_calls ob_body]. now rewrite H. Qed.

Lemma nat_list_eqb_refl l : nat_list_eqb l l = true.
Proof. unfold nat_list_eqb. induction l as [|x l IH]; simpl; [reflexivity|]. now rewrite Nat.eqb_refl. Qed.

Lemma bytes_list_eqb_refl l : list_eqb bytes_eqb l l = true.
Proof. induction l as [|x l IH]; simpl; [reflexivity|]. now rewrite bytes_eqb_refl. Qed.

Lemma mem_bytes_in x l : mem_bytes x l = true <-> In x l.
Proof.
  unfold mem_bytes. rewrite existsb_exists. split.
  - intros [y [Hy E]]. apply bytes_eqb_eq in E. now subst.
  - intros H. exists x. split; [assumption | apply bytes_eqb_refl].
Qed.

(* a lookup that succeeds returns the key itself, and the key is registered *)
Lemma producers_for_some registered mts key p :
  producers_for registered mts key = Some p -> p = key /\ mem_bytes key registered = true /\ mem_bytes key mts = true.
Proof.
  unfold producers_for. destruct (mem_bytes key mts) eqn:E1; simpl; [|discriminate].
  destruct (mem_bytes key registered) eqn:E2; [|discriminate]. intros H; inversion H. auto.
Qed.

Lemma producers_for_hit registered mts key :
  mem_bytes key registered = true -> mem_bytes key mts = true -> producers_for registered mts key = Some key.
Proof. intros H1 H2. unfold producers_for. now rewrite H1, H2. Qed.

(* ---- the format ---- *)
Lemma response_format_negotiated specs offers : Forall spec_ok specs ->
  negotiated specs offers (response_format None specs offers) = true.
Proof. intros H. unfold negotiated, response_format. now apply negotiate_lexmax. Qed.

Definition json_if_empty (f : bytes) : bytes := match f with [] => JSON_MIME | _ :: _ => f end.

Definition the_format (d : bytes) (produces : list bytes) (cached : option bytes) (specs : list spec) : bytes :=
  response_format cached specs (respond_offers d produces).

(* ---- clause: the Content-Type is the negotiated media type (JSON for an error when nothing was negotiated) ---- *)
Lemma respond_ctype d registered produces rt cached specs head marker dt r :
  respond d registered produces rt cached specs head marker dt = Responded r ->
  match dt with
  | DError _ => o_ctype r = json_if_empty (the_format d produces cached specs)
  | _ => o_ctype r = the_format d produces cached specs
  end.
Proof.
  unfold respond, the_format. set (format := response_format cached specs (respond_offers d produces)).
  destruct dt as [code|code|].
  - destruct rt as [rt|]; [|discriminate].
    destruct (route_or_default registered d rt (normalize_offer format)); [|discriminate].
    intros H; inversion H; reflexivity.
  - intros H; inversion H; simpl. reflexivity.
  - assert (P : forall offers, respond_plain registered offers format head = Responded r -> o_ctype r = format).
    { intros offers. unfold respond_plain. destruct head; [intros H; inversion H; reflexivity|].
      destruct (producers_for registered (map normalize_offer offers) (normalize_offer format)); [|discriminate].
      intros H; inversion H; reflexivity. }
    destruct rt as [rt|]; [|apply P].
    destruct (rt_has_op rt); simpl; [|apply P].
    destruct (success_code (rt_codes rt)) as [code|].
    + destruct (Nat.eqb code 204 || head); [intros H; inversion H; reflexivity|].
      destruct (route_or_default registered d rt (normalize_offer format)); [|discriminate].
      intros H; inversion H; reflexivity.
    + intros H; inversion H; reflexivity.
Qed.

(* ---- clause: status of a plain value = the declared success status ---- *)
Lemma respond_status_declared d registered produces rt cached specs head marker s :
  rt_has_op rt = true -> success_code (rt_codes rt) = Some s ->
  respond d registered produces (Some rt) cached specs head marker DValue = Panicked PNoProducer (the_format d produces cached specs) \/
  exists r, respond d registered produces (Some rt) cached specs head marker DValue = Responded r /\
            o_status r = s /\ o_error r = None /\ is_declared_success (rt_codes rt) s = true.
Proof.
  intros Hop Hs. unfold respond. rewrite Hop, Hs. cbn [negb].
  pose proof (success_code_declared _ _ Hs) as Hd.
  destruct (Nat.eqb s 204 || head).
  - right. eexists. split; [reflexivity|]. simpl. auto.
  - destruct (route_or_default registered d rt _).
    + right. eexists. split; [reflexivity|]. simpl. auto.
    + now left.
Qed.

(* only a default response (no 2xx) declared: the error responder is shown a 500, nothing is produced *)
Lemma respond_no_success d registered produces rt cached specs head marker :
  rt_has_op rt = true -> has_declared_success (rt_codes rt) = false ->
  exists r, respond d registered produces (Some rt) cached specs head marker DValue = Responded r /\
            o_error r = Some 500 /\ o_producer r = None.
Proof.
  intros Hop Hs. apply success_code_none in Hs. unfold respond. rewrite Hop, Hs. cbn [negb].
  eexists. split; [reflexivity|]. simpl. auto.
Qed.

(* ---- clause: the body is written by the producer registered for the negotiated type, parameters ignored ---- *)
Lemma respond_body_by_that_producer d registered produces rt cached specs marker s :
  rt_has_op rt = true -> success_code (rt_codes rt) = Some s -> s <> 204 ->
  let key := normalize_offer (the_format d produces cached specs) in
  mem_bytes key registered = true -> mem_bytes key (map normalize_offer (rt_produces rt)) = true ->
  exists r, respond d registered produces (Some rt) cached specs false marker DValue = Responded r /\
            o_producer r = Some key /\ o_ctype r = the_format d produces cached specs /\ o_status r = s.
Proof.
  intros Hop Hs H204 key Hreg Hrt. unfold respond. rewrite Hop, Hs. cbn [negb].
  apply Nat.eqb_neq in H204. rewrite H204. cbn [orb].
  unfold route_or_default, route_producer. fold (the_format d produces cached specs). fold key.
  rewrite (producers_for_hit _ _ _ Hreg Hrt). eexists. split; [reflexivity|]. simpl. auto.
Qed.

(* whichever producer writes the body, it is a registered one; it is the one of the negotiated type whenever
   that type has a registered producer in the route (else the API default producer) *)
Lemma respond_producer_registered d registered produces rt cached specs head marker dt r p :
  respond d registered produces rt cached specs head marker dt = Responded r ->
  o_producer r = Some p -> mem_bytes p registered = true.
Proof.
  unfold respond. set (format := response_format cached specs (respond_offers d produces)).
  assert (R : forall rt0 q, route_or_default registered d rt0 (normalize_offer format) = Some q -> mem_bytes q registered = true).
  { intros rt0 q. unfold route_or_default, route_producer, default_fallback.
    destruct (producers_for registered (map normalize_offer (rt_produces rt0)) (normalize_offer format)) eqn:E.
    - intros H; inversion H; subst. apply producers_for_some in E. destruct E as [-> [E' _]]. exact E'.
    - intros H. apply producers_for_some in H. destruct H as [-> [E' _]]. exact E'. }
  assert (P : forall offers, respond_plain registered offers format head = Responded r -> o_producer r = Some p -> mem_bytes p registered = true).
  { intros offers. unfold respond_plain. destruct head; [intros H; inversion H; simpl; discriminate|].
    destruct (producers_for registered (map normalize_offer offers) (normalize_offer format)) eqn:E; [|discriminate].
    intros H; inversion H; simpl. intros Hp; inversion Hp; subst.
    apply producers_for_some in E. destruct E as [-> [E' _]]. exact E'. }
  destruct dt as [code|code|].
  - destruct rt as [rt|]; [|discriminate].
    destruct (route_or_default registered d rt (normalize_offer format)) eqn:E; [|discriminate].
    intros H; inversion H; simpl. intros Hp; inversion Hp; subst. eapply R; eassumption.
  - intros H; inversion H; simpl. discriminate.
  - destruct rt as [rt|]; [|apply P].
    destruct (rt_has_op rt); simpl; [|apply P].
    destruct (success_code (rt_codes rt)) as [code|].
    + destruct (Nat.eqb code 204 || head); [intros H; inversion H; simpl; discriminate|].
      destruct (route_or_default registered d rt (normalize_offer format)) eqn:E; [|discriminate].
      intros H; inversion H; simpl. intros Hp; inversion Hp; subst. eapply R; eassumption.
    + intros H; inversion H; simpl. discriminate.
Qed.

(* ---- clause: no body for HEAD requests or 204 responses ---- *)
Lemma respond_no_body_head_204 d registered produces rt cached specs head marker r :
  respond d registered produces rt cached specs head marker DValue = Responded r ->
  head = true \/ o_status r = 204 -> o_producer r = None.
Proof.
  unfold respond. set (format := response_format cached specs (respond_offers d produces)).
  assert (P : forall offers, respond_plain registered offers format head = Responded r ->
                             head = true \/ o_status r = 204 -> o_producer r = None).
  { intros offers. unfold respond_plain. destruct head; [intros H; inversion H; reflexivity|].
    destruct (producers_for registered (map normalize_offer offers) (normalize_offer format)); [|discriminate].
    intros H; inversion H; simpl. intros [?|?]; discriminate. }
  destruct rt as [rt|]; [|apply P].
  destruct (rt_has_op rt); simpl; [|apply P].
  destruct (success_code (rt_codes rt)) as [code|].
  - destruct (Nat.eqb code 204) eqn:E204; simpl.
    + intros H; inversion H; reflexivity.
    + destruct head; [intros H; inversion H; reflexivity|].
      destruct (route_or_default registered d rt (normalize_offer format)); [|discriminate].
      intros H; inversion H; simpl. intros [?|?]; [discriminate|]. apply Nat.eqb_neq in E204. contradiction.
  - intros H; inversion H; reflexivity.
Qed.

(* ---- clause: a Responder is handed that same producer ---- *)
Lemma respond_responder_same_producer d registered produces rt cached specs head marker code :
  let key := normalize_offer (the_format d produces cached specs) in
  mem_bytes key registered = true -> mem_bytes key (map normalize_offer (rt_produces rt)) = true ->
  exists r, respond d registered produces (Some rt) cached specs head marker (DResponder code) = Responded r /\
            o_handed r = Some key /\ o_producer r = Some key /\ o_ctype r = the_format d produces cached specs /\
            o_status r = errorresp_status code.
Proof.
  intros key Hreg Hrt. unfold respond, route_or_default, route_producer.
  fold (the_format d produces cached specs). fold key.
  rewrite (producers_for_hit _ _ _ Hreg Hrt). eexists. split; [reflexivity|]. simpl. auto.
Qed.

(* ---- clause: errors go to the error responder; JSON when nothing was negotiated ---- *)
Lemma respond_error_branch d registered produces rt cached specs head marker code :
  exists r, respond d registered produces rt cached specs head marker (DError code) = Responded r /\
            o_error r = Some code /\ o_producer r = None /\ o_handed r = None /\
            o_ctype r = json_if_empty (the_format d produces cached specs) /\
            o_www r = match marker with [] => None | _ => Some (BASIC_REALM ++ go_quote marker) end.
Proof.
  unfold respond, the_format. eexists. split; [reflexivity|]. simpl.
  repeat split.
Qed.

(* ---- clause: the challenge names the realm ---- *)
Lemma quote_body_plain s : Forall (fun c => c <> DQ /\ c <> BSL) s -> quote_body s = s.
Proof.
  induction 1 as [|c r [H1 H2] _ IH]; simpl; [reflexivity|].
  apply Nat.eqb_neq in H1. apply Nat.eqb_neq in H2. now rewrite H1, H2, IH.
Qed.

Lemma challenge_plain realm : Forall (fun c => c <> DQ /\ c <> BSL) realm ->
  challenge realm = BASIC_REALM ++ DQ :: realm ++ [DQ].
Proof. intros H. unfold challenge, go_quote. now rewrite quote_body_plain. Qed.

Lemma effective_realm_nonempty realm : effective_realm realm <> [].
Proof. destruct realm; simpl; discriminate. Qed.

(* a refused basic-auth attempt: the error responder is shown the error, the challenge names the configured
   realm (API when none is configured), no producer runs *)
Lemma serve_basic_refused d registered rt specs head realm attempt code result :
  attempt <> GoodCreds ->
  exists r, serve d registered rt specs head (Basic realm attempt code) result = Responded r /\
            o_www r = Some (challenge (effective_realm realm)) /\
            o_error r = Some (match attempt with BadCreds => code | _ => 401 end) /\ o_producer r = None.
Proof.
  intros Ha. pose proof (effective_realm_nonempty realm) as Hne.
  destruct attempt; [| |contradiction| |]; unfold serve, serve_respond, respond, basic_marker;
    (eexists; split; [reflexivity|]; simpl; destruct (effective_realm realm); [contradiction|auto]).
Qed.

(* the marker an authenticator leaves is the realm to challenge with: the effective realm after every failed
   attempt (missing, refused, malformed, foreign-scheme credentials), nothing after accepted credentials *)
Lemma basic_marker_challenge_realm realm a : basic_marker realm a = challenge_realm realm a.
Proof. destruct a; reflexivity. Qed.

Lemma failed_attempt_marker realm a :
  a <> GoodCreds -> basic_marker realm a = effective_realm realm /\ basic_marker realm a <> [].
Proof.
  intros Ha. assert (E : basic_marker realm a = effective_realm realm) by (destruct a; [| |contradiction| |]; reflexivity).
  split; [exact E|]. rewrite E. apply effective_realm_nonempty.
Qed.

Lemma accepted_attempt_no_marker realm : basic_marker realm GoodCreds = [].
Proof. reflexivity. Qed.

(* only refused and accepted credentials reach the authentication function; a request whose Authorization header
   yields no credentials is treated exactly as one without the header *)
Lemma serve_unusable_authorization_as_no_credentials d registered rt specs head realm attempt code result :
  attempt_has_credentials attempt = false ->
  serve d registered rt specs head (Basic realm attempt code) result =
  serve d registered rt specs head (Basic realm NoCreds code) result.
Proof. destruct attempt; intros H; try discriminate H; reflexivity. Qed.

(* an error answered directly after a failed attempt carries the challenge naming the effective realm *)
Lemma respond_after_failed_attempt d registered produces rt cached specs head realm a code :
  a <> GoodCreds ->
  exists r, respond d registered produces rt cached specs head (model_marker (Some (realm, a))) (DError code) = Responded r /\
            o_www r = Some (challenge (effective_realm realm)) /\ o_error r = Some code /\ o_producer r = None.
Proof.
  intros Ha. cbn [model_marker]. destruct (failed_attempt_marker realm a Ha) as [E Hne]. rewrite E in *.
  unfold respond. eexists. split; [reflexivity|]. cbn [o_www o_error o_producer].
  destruct (effective_realm realm); [contradiction|auto].
Qed.

Lemma serve_basic_accepted_no_challenge d registered rt specs head realm code result r :
  serve d registered rt specs head (Basic realm GoodCreds code) result = Responded r -> o_www r = None.
Proof.
  unfold serve, serve_validated, serve_respond, basic_marker.
  assert (G : forall dt, respond d registered (rt_produces rt) (Some rt) None specs head [] dt = Responded r -> o_www r = None).
  { intros dt. unfold respond.
    set (format := response_format None specs (respond_offers d (rt_produces rt))).
    destruct dt as [c|c|].
    - destruct (route_or_default registered d rt (normalize_offer format)); [|discriminate]. intros H; inversion H; reflexivity.
    - intros H; inversion H; reflexivity.
    - unfold respond_plain. destruct (rt_has_op rt); simpl.
      + destruct (success_code (rt_codes rt)) as [s|]; [|intros H; inversion H; reflexivity].
        destruct (Nat.eqb s 204 || head); [intros H; inversion H; reflexivity|].
        destruct (route_or_default registered d rt (normalize_offer format)); [|discriminate]. intros H; inversion H; reflexivity.
      + destruct head; [intros H; inversion H; reflexivity|].
        destruct (producers_for registered _ _); [|discriminate]. intros H; inversion H; reflexivity. }
  destruct (negotiate_content_type specs (rt_produces rt) []); [destruct (rt_produces rt)|]; apply G.
Qed.

(* ---- the model meets the property predicate the check evaluates on the implementation ---- *)
Lemma mem_bytes_filter f key l : (forall a b, a = b -> f a = f b) ->
  mem_bytes key (filter f l) = f key && mem_bytes key l.
Proof.
  intros _. induction l as [|x l IH]; simpl; [now rewrite andb_false_r|].
  destruct (f x) eqn:Fx; simpl.
  - rewrite IH. destruct (bytes_eqb key x) eqn:E; simpl.
    + apply bytes_eqb_eq in E. subst. now rewrite Fx.
    + reflexivity.
  - rewrite IH. destruct (bytes_eqb key x) eqn:E; simpl; [|reflexivity].
    apply bytes_eqb_eq in E. subst. rewrite Fx. reflexivity.
Qed.

Definition cached_ok (cached : option bytes) : bool := match cached with Some [] => false | _ => true end.

Lemma ctype_ok_format d produces cached specs : Forall spec_ok specs ->
  match cached with Some v => bytes_eqb v | None => negotiated specs (respond_offers d produces) end
    (the_format d produces cached specs) = true.
Proof.
  intros H. unfold the_format. destruct cached as [v|]; simpl; [apply bytes_eqb_refl|].
  now apply response_format_negotiated.
Qed.

Lemma json_ok_format d produces cached specs : Forall spec_ok specs -> cached_ok cached = true ->
  match cached with Some v => bytes_eqb v | None => negotiated_or_json specs (respond_offers d produces) end
    (json_if_empty (the_format d produces cached specs)) = true.
Proof.
  intros H Hc. unfold the_format, json_if_empty. destruct cached as [v|]; simpl.
  - destruct v; [discriminate | apply bytes_eqb_refl].
  - pose proof (response_format_negotiated specs (respond_offers d produces) H) as N.
    unfold response_format in N. unfold negotiated_or_json.
    destruct (negotiate_content_type specs (respond_offers d produces) []) eqn:E.
    + cbn [JSON_MIME]. rewrite N. rewrite bytes_eqb_refl. now rewrite orb_true_r.
    + now rewrite N.
Qed.

Lemma is_declared_204 codes s : success_code codes = Some s -> is_declared_success codes 204 = Nat.eqb s 204.
Proof.
  intros H. pose proof (success_code_declared _ _ H) as Hs.
  destruct (Nat.eqb s 204) eqn:E.
  - apply Nat.eqb_eq in E. now subst.
  - destruct (is_declared_success codes 204) eqn:E2; [|reflexivity].
    pose proof (declared_success_unique _ _ _ Hs E2). subst. now rewrite Nat.eqb_refl in E.
Qed.

(* the generic step: an answer of Respond satisfies respond_prop for the registrations [reg] that are
   consulted, provided a key is found by the model's lookup exactly when it is in [reg] *)
Lemma written_by_mk pn ct st www p tag errs :
  written_by (mkobs pn ct st www [(p, tag)] (body_of p tag) errs) p tag = true.
Proof. unfold written_by. cbn [ob_calls ob_body list_eqb]. now rewrite call_eqb_refl, bytes_eqb_refl. Qed.

Lemma nothing_written_mk pn ct st www errs : nothing_written (mkobs pn ct st www [] [] errs) = true.
Proof. reflexivity. Qed.

Ltac obs_simpl := cbn [obs_of ob_panic ob_ctype ob_status ob_www ob_errs o_ctype o_status o_www o_producer o_handed o_error Nat.eqb andb].

Lemma respond_meets_prop d registered produces rt cached specs head marker dt tag reg :
  Forall spec_ok specs -> cached_ok cached = true ->
  let offers := respond_offers d produces in
  let key := normalize_offer (the_format d produces cached specs) in
  (* Responder / operation branches: the route lookup hits iff key is in reg *)
  (forall r, rt = Some r -> (rt_has_op r = true \/ exists c, dt = DResponder c) ->
             In key reg -> route_or_default registered d r key = Some key) ->
  (* plain branch *)
  ((rt = None \/ exists r, rt = Some r /\ rt_has_op r = false) -> dt = DValue ->
             In key reg -> producers_for registered (map normalize_offer offers) key = Some key) ->
  respond_prop reg
    (match cached with Some v => bytes_eqb v | None => negotiated specs offers end)
    (match cached with Some v => bytes_eqb v | None => negotiated_or_json specs offers end)
    (match rt with Some r => if rt_has_op r then Some (rt_codes r) else None | None => None end)
    (match rt with Some _ => true | None => false end) head marker dt tag
    (obs_of (respond d registered produces rt cached specs head marker dt) tag) = true.
Proof.
  intros Hs Hc offers key Hroute Hplain.
  pose proof (ctype_ok_format d produces cached specs Hs) as CT.
  pose proof (json_ok_format d produces cached specs Hs Hc) as JS.
  unfold respond_prop, respond. unfold the_format, json_if_empty in key, CT, JS. fold offers. fold offers in key, CT, JS, Hplain.
  set (format := response_format cached specs offers) in *. subst key.
  destruct dt as [code|code|].
  - (* Responder *)
    destruct rt as [r|]; [|reflexivity]. cbn [andb].
    destruct (route_or_default registered d r (normalize_offer format)) as [p|] eqn:E.
    + obs_simpl.
      destruct (mem_bytes (normalize_offer format) reg) eqn:Hk; [|reflexivity].
      rewrite (Hroute r eq_refl (or_intror (ex_intro _ code eq_refl)) (proj1 (mem_bytes_in _ _) Hk)) in E. assert (p = normalize_offer format) as -> by congruence.
      obs_simpl.
      rewrite CT, Nat.eqb_refl. rewrite written_by_mk. reflexivity.
    + obs_simpl.
      destruct (mem_bytes (normalize_offer format) reg) eqn:Hk; [|reflexivity].
      rewrite (Hroute r eq_refl (or_intror (ex_intro _ code eq_refl)) (proj1 (mem_bytes_in _ _) Hk)) in E. discriminate.
  - (* error *)
    obs_simpl. rewrite JS. rewrite nat_list_eqb_refl. rewrite nothing_written_mk.
    unfold www_names. cbn [ob_www obs_of o_www]. destruct marker; [reflexivity|].
    cbn [list_eqb]. unfold challenge. now rewrite bytes_eqb_refl.
  - (* value *)
    assert (PL : (rt = None \/ exists r, rt = Some r /\ rt_has_op r = false) ->
                 let o := obs_of (respond_plain registered offers format head) tag in
                 (if head
                  then Nat.eqb (ob_panic o) 0 && (match cached with Some v => bytes_eqb v | None => negotiated specs offers end) (ob_ctype o)
                       && Nat.eqb (ob_status o) 200 && nothing_written o && nat_list_eqb (ob_errs o) []
                  else if mem_bytes (normalize_offer (ob_ctype o)) reg
                       then Nat.eqb (ob_panic o) 0 && (match cached with Some v => bytes_eqb v | None => negotiated specs offers end) (ob_ctype o)
                            && Nat.eqb (ob_status o) 200 && written_by o (normalize_offer (ob_ctype o)) tag && nat_list_eqb (ob_errs o) []
                       else true) = true).
    { intros Hrt o. subst o. unfold respond_plain. destruct head.
      - obs_simpl.
        rewrite CT. now rewrite nothing_written_mk.
      - destruct (mem_bytes (normalize_offer format) reg) eqn:Hk.
        + rewrite (Hplain Hrt eq_refl (proj1 (mem_bytes_in _ _) Hk)). obs_simpl. rewrite Hk, CT.
          now rewrite written_by_mk.
        + destruct (producers_for registered (map normalize_offer offers) (normalize_offer format)); obs_simpl; now rewrite Hk. }
    destruct rt as [r|].
    + destruct (rt_has_op r) eqn:Hop; cbn [negb].
      * destruct (success_code (rt_codes r)) as [s|] eqn:Hsc.
        -- rewrite (has_declared_some _ _ Hsc). cbn [negb]. rewrite (is_declared_204 _ _ Hsc).
           rewrite (orb_comm head). destruct (Nat.eqb s 204 || head) eqn:Hb.
           ++ obs_simpl.
              rewrite CT, (success_code_declared _ _ Hsc). now rewrite nothing_written_mk.
           ++ destruct (route_or_default registered d r (normalize_offer format)) as [p|] eqn:E.
              ** obs_simpl. destruct (mem_bytes (normalize_offer format) reg) eqn:Hk; [|reflexivity].
                 rewrite (Hroute r eq_refl (or_introl Hop) (proj1 (mem_bytes_in _ _) Hk)) in E. assert (p = normalize_offer format) as -> by congruence.
                 obs_simpl.
                 rewrite CT, (success_code_declared _ _ Hsc). now rewrite written_by_mk.
              ** obs_simpl. destruct (mem_bytes (normalize_offer format) reg) eqn:Hk; [|reflexivity].
                 rewrite (Hroute r eq_refl (or_introl Hop) (proj1 (mem_bytes_in _ _) Hk)) in E. discriminate.
        -- apply success_code_none in Hsc. rewrite Hsc. cbn [negb].
           obs_simpl. now rewrite nothing_written_mk.
      * cbn [orb]. rewrite orb_false_r.
        apply (PL (or_intror (ex_intro _ r (conj eq_refl Hop)))).
    + cbn [orb]. rewrite orb_false_r. apply (PL (or_introl eq_refl)).
Qed.

Lemma in_filter_mem key mts registered :
  In key (filter (fun k => mem_bytes k mts) registered) -> mem_bytes key registered = true /\ mem_bytes key mts = true.
Proof. intros H. apply filter_In in H. destruct H as [H1 H2]. split; [now apply mem_bytes_in | exact H2]. Qed.

Lemma route_or_default_hit registered d r key :
  mem_bytes key registered = true -> mem_bytes key (map normalize_offer (rt_produces r)) = true ->
  route_or_default registered d r key = Some key.
Proof. intros H1 H2. unfold route_or_default, route_producer. now rewrite (producers_for_hit _ _ _ H1 H2). Qed.

(* Respond called directly, every input: the model's answer satisfies the property predicate of the check *)
Theorem direct_meets_property d registered produces rt cached specs head marker dt tag :
  Forall spec_ok specs -> cached_ok cached = true ->
  direct_prop d registered produces rt cached specs head marker dt tag
              (obs_of (respond d registered produces rt cached specs head marker dt) tag) = true.
Proof.
  intros Hs Hc. unfold direct_prop. apply respond_meets_prop; try assumption.
  - intros r -> Hb Hin. rewrite Bool.orb_comm in Hin.
    assert ((match dt with DResponder _ => true | _ => false end || rt_has_op r) = true) as Hb'.
    { destruct Hb as [Hb|[c ->]]; [rewrite Hb; apply orb_true_r | reflexivity]. }
    rewrite Hb' in Hin. apply in_filter_mem in Hin. destruct Hin as [H1 H2].
    now apply route_or_default_hit.
  - intros Hrt -> Hin.
    assert (In (normalize_offer (the_format d produces cached specs))
               (filter (fun k => mem_bytes k (map normalize_offer (respond_offers d produces))) registered)) as Hin'.
    { destruct Hrt as [->|[r [-> Hop]]]; [exact Hin|]. rewrite Hop in Hin. exact Hin. }
    apply in_filter_mem in Hin'. destruct Hin' as [H1 H2]. now apply producers_for_hit.
Qed.

(* ... also after a basic authenticator examined the request: the marker it leaves makes Respond challenge
   exactly the failed attempts (missing, refused, malformed and foreign-scheme credentials alike) *)
Theorem direct_auth_meets_property d registered produces rt cached specs head auth dt tag :
  Forall spec_ok specs -> cached_ok cached = true ->
  direct_auth_prop d registered produces rt cached specs head auth dt tag
              (obs_of (respond d registered produces rt cached specs head (model_marker auth) dt) tag) = true.
Proof.
  intros Hs Hc. unfold direct_auth_prop.
  assert (E : model_marker auth = marker_after auth).
  { destruct auth as [[realm a]|]; [apply basic_marker_challenge_realm | reflexivity]. }
  rewrite E. now apply direct_meets_property.
Qed.

(* ---- the pipeline ---- *)
Lemma scored_from_offer specs offers : forall k i o sc, In (i, o, sc) (scored_from k specs offers) -> In o offers.
Proof.
  induction offers as [|o' r IH]; intros k i o sc H; simpl in H; [contradiction|].
  apply in_app_or in H. destruct H as [H|H].
  - apply in_flat_map in H. destruct H as [sp [_ H]].
    destruct (score sp o'); [|contradiction]. destruct H as [H|[]]. inversion H; subst. now left.
  - right. eapply IH; eassumption.
Qed.

(* validation refuses exactly when no offer is acceptable *)
Lemma refused_iff_unacceptable specs rp : Forall spec_ok specs -> ~ In [] rp ->
  match negotiate_content_type specs rp [], rp with
  | [], _ :: _ => acceptable specs rp = false
  | _, _ => acceptable specs rp = true
  end.
Proof.
  intros Hs Hne. pose proof (negotiate_lexmax specs rp [] Hs) as L.
  destruct specs as [|sp specs'].
  - destruct rp as [|o r]; simpl; [reflexivity|].
    destruct o; [exfalso; apply Hne; now left | reflexivity].
  - destruct rp as [|o r].
    + simpl. destruct (negotiate_content_type (sp :: specs') [] []); reflexivity.
    + unfold lexmax_b in L. unfold acceptable.
      destruct (scored (sp :: specs') (o :: r)) as [|t ts] eqn:E.
      * apply bytes_eqb_eq in L. rewrite L. reflexivity.
      * apply existsb_exists in L. destruct L as [[[i o'] sc] [Hin Hx]].
        apply andb_true_iff in Hx. destruct Hx as [Hx _]. apply bytes_eqb_eq in Hx.
        unfold scored in E. rewrite <- E in Hin. apply scored_from_offer in Hin.
        destruct (negotiate_content_type (sp :: specs') (o :: r) []) eqn:En; [|reflexivity].
        subst o'. contradiction.
Qed.

Lemma respond_offers_in d rp x : In x (respond_offers d rp) -> In x rp \/ x = d.
Proof.
  unfold respond_offers. intros H. apply in_app_or in H. destruct H as [H|[H|[]]].
  - apply filter_In in H. now left.
  - now right.
Qed.

Lemma serve_lookup d registered rp codes specs :
  mem_bytes [] registered = false -> (In d rp \/ normalize_offer d = d) ->
  let key := normalize_offer (the_format d rp None specs) in
  In key registered -> route_or_default registered d (mkroute rp true codes) key = Some key.
Proof.
  intros Hne Hd key Hin. apply mem_bytes_in in Hin.
  unfold the_format, response_format in key.
  destruct (negotiate_offer_or_default specs (respond_offers d rp) []) as [E|E].
  - subst key. rewrite E in Hin. simpl in Hin. congruence.
  - assert (In (negotiate_content_type specs (respond_offers d rp) []) rp \/
            (negotiate_content_type specs (respond_offers d rp) [] = d /\ normalize_offer d = d)) as C.
    { apply respond_offers_in in E. destruct E as [E|E]; [now left|].
      destruct Hd as [Hd|Hd]; [left; now rewrite E | right; now split]. }
    destruct C as [C|[C1 C2]].
    + apply route_or_default_hit; [exact Hin|]. apply mem_bytes_in. cbn [rt_produces]. subst key. now apply in_map.
    + unfold route_or_default. destruct (route_producer registered (mkroute rp true codes) key) as [p|] eqn:Ep.
      * unfold route_producer in Ep. apply producers_for_some in Ep. destruct Ep as [-> _]. reflexivity.
      * subst key. rewrite C1 in *. rewrite C2 in *. unfold default_fallback. rewrite C2.
        apply producers_for_hit; [exact Hin|]. simpl. now rewrite bytes_eqb_refl.
Qed.

Lemma serve_respond_meets d registered rp codes specs head marker dt tag :
  Forall spec_ok specs -> mem_bytes [] registered = false -> (In d rp \/ normalize_offer d = d) ->
  respond_prop registered (negotiated specs (respond_offers d rp)) (negotiated_or_json specs (respond_offers d rp))
               (Some codes) true head marker dt tag
               (obs_of (serve_respond d registered (mkroute rp true codes) specs head None marker dt) tag) = true.
Proof.
  intros Hs Hne Hd. unfold serve_respond. cbn [rt_produces].
  pose proof (respond_meets_prop d registered rp (Some (mkroute rp true codes)) None specs head marker dt tag registered Hs eq_refl) as M.
  cbn [rt_has_op rt_codes] in M. apply M.
  - intros r Hr _ Hin. inversion Hr; subst r. now apply serve_lookup.
  - intros [Hrt|[r [Hr Hop]]]; [discriminate|]. inversion Hr; subst r. discriminate.
Qed.

(* one request through the handler of an operation, every input: the model's answer and its decision
   whether the handler runs satisfy the property predicate of the check *)
Theorem serve_meets_property d registered rp codes specs head auth dt tag :
  Forall spec_ok specs -> mem_bytes [] registered = false -> ~ In [] rp -> (In d rp \/ normalize_offer d = d) ->
  serve_prop d registered rp codes specs head auth dt tag (auth_passes auth && acceptable specs rp)
             (obs_of (serve d registered (mkroute rp true codes) specs head auth dt) tag) = true.
Proof.
  intros Hs Hne Hrp Hd.
  assert (V : forall marker, marker = [] ->
    (if acceptable specs rp
     then true && respond_prop registered (negotiated specs (respond_offers d rp)) (negotiated_or_json specs (respond_offers d rp))
                               (Some codes) true head [] dt tag
                               (obs_of (serve_validated d registered (mkroute rp true codes) specs head marker dt) tag)
     else negb false && respond_prop registered (negotiated specs (respond_offers d rp)) (negotiated_or_json specs (respond_offers d rp))
                               (Some codes) true head [] (DError 406) tag
                               (obs_of (serve_validated d registered (mkroute rp true codes) specs head marker dt) tag)) = true).
  { intros marker ->. unfold serve_validated. cbn [rt_produces].
    pose proof (refused_iff_unacceptable specs rp Hs Hrp) as R.
    destruct (negotiate_content_type specs rp []) as [|b f]; [destruct rp as [|o r]|]; rewrite R; cbn [andb negb];
      now apply serve_respond_meets. }
  unfold serve_prop, serve. destruct auth as [|realm attempt code].
  - cbn [auth_passes andb]. destruct (acceptable specs rp) eqn:A; exact (V [] eq_refl).
  - destruct attempt; cbn [auth_passes andb negb basic_marker attempt_fails refusal_code].
    + now apply serve_respond_meets.
    + now apply serve_respond_meets.
    + destruct (acceptable specs rp) eqn:A; exact (V [] eq_refl).
    + now apply serve_respond_meets.
    + now apply serve_respond_meets.
Qed.

(* the same for any Accept header: the parser's ranges always satisfy the hypothesis *)
Theorem serve_meets_property_any_header d registered rp codes lines head auth dt tag :
  mem_bytes [] registered = false -> ~ In [] rp -> (In d rp \/ normalize_offer d = d) ->
  exists specs, parse_accept lines = Some specs /\
    serve_prop d registered rp codes specs head auth dt tag (auth_passes auth && acceptable specs rp)
               (obs_of (serve d registered (mkroute rp true codes) specs head auth dt) tag) = true.
Proof.
  intros Hne Hrp Hd. destruct (AcceptParseProofs.parse_accept_total lines) as [specs [Hp Hs]].
  exists specs. split; [exact Hp|]. now apply serve_meets_property.
Qed.

(* hypotheses are satisfiable, and the statements are not vacuous: concrete non-trivial instances *)
Definition ex_text_plain_utf8 : bytes :=
  [116;101;120;116;47;112;108;97;105;110;59;32;99;104;97;114;115;101;116;61;117;116;102;45;56].
Definition ex_text_plain : bytes := [116;101;120;116;47;112;108;97;105;110].

Example ex_params_body_by_text_producer :
  respond JSON_MIME [JSON_MIME; ex_text_plain] [ex_text_plain_utf8; JSON_MIME]
          (Some (mkroute [ex_text_plain_utf8; JSON_MIME] true [201; 200])) None [] false [] DValue
  = Responded (mkresp ex_text_plain_utf8 200 None (Some ex_text_plain) None None).
Proof. vm_compute. reflexivity. Qed.

Example ex_serve_hyps :
  mem_bytes [] [JSON_MIME; ex_text_plain] = false /\ ~ In [] [ex_text_plain_utf8; JSON_MIME] /\
  (In JSON_MIME [ex_text_plain_utf8; JSON_MIME] \/ normalize_offer JSON_MIME = JSON_MIME).
Proof. split; [reflexivity|]. split; [intros [H|[H|[]]]; discriminate | left; right; now left]. Qed.


(* ---- security requirements with several alternatives ---- *)
(* the marker once the basic scheme was consulted (b) on a request carrying marker m *)
Definition mark (s : sec_cfg) (b : bool) (m : bytes) : bytes :=
  if b && attempt_fails (sec_attempt s) then effective_realm (sec_realm s) else m.

Definition alt_res (s : sec_cfg) (alt : list sec_scheme) : sec_res :=
  if forallb (scheme_accepts s) alt then SOk
  else match alt_error s alt with Some c => SErr c | None => SNotApplies end.

Lemma mark_mark s b1 b2 m : mark s b1 (mark s b2 m) = mark s (b1 || b2) m.
Proof. unfold mark. destruct b1, b2, (attempt_fails (sec_attempt s)); reflexivity. Qed.

Lemma mark_false s m : mark s false m = m.
Proof. reflexivity. Qed.

Lemma run_alt_eq s alt : forall m,
  run_alt s alt m = (alt_res s alt, mark s (basic_consulted_in s alt) m).
Proof.
  induction alt as [|x r IH]; intros m; [reflexivity|].
  cbn [run_alt]. unfold alt_res. cbn [forallb alt_error basic_consulted_in]. unfold scheme_accepts at 1.
  destruct x as [|k].
  - (* the basic scheme *)
    unfold marker_after_scheme, scheme_res, basic_marker, mark. cbn [andb].
    pose proof (effective_realm_nonempty (sec_realm s)) as Hne.
    destruct (sec_attempt s) eqn:Ea; cbn [attempt_fails andb];
      try (destruct (effective_realm (sec_realm s)); [congruence | reflexivity]).
    rewrite IH. unfold alt_res, mark. rewrite Ea. cbn [attempt_fails]. now rewrite andb_false_r.
  - cbn [marker_after_scheme]. destruct k as [|c|]; cbn [scheme_res andb].
    + reflexivity.
    + reflexivity.
    + rewrite IH. unfold alt_res. unfold scheme_accepts at 3. cbn [scheme_res andb]. reflexivity.
Qed.

Lemma alt_admits_res s alt : alt <> [] -> alt_admits s alt = match alt_res s alt with SOk => true | _ => false end.
Proof.
  intros Hne. unfold alt_admits, alt_res. destruct alt as [|x r]; [congruence|].
  destruct (forallb (scheme_accepts s) (x :: r)); [reflexivity|].
  destruct (alt_error s (x :: r)); reflexivity.
Qed.

Lemma alt_res_err s alt c : alt_res s alt = SErr c -> alt_error s alt = Some c.
Proof.
  unfold alt_res. destruct (forallb (scheme_accepts s) alt); [discriminate|].
  destruct (alt_error s alt); [intros H; inversion H; reflexivity | discriminate].
Qed.

Lemma alt_res_na s alt : alt_res s alt = SNotApplies -> alt_error s alt = None.
Proof.
  unfold alt_res. destruct (forallb (scheme_accepts s) alt); [discriminate|].
  destruct (alt_error s alt); [discriminate | reflexivity].
Qed.

Definition or_last {A} (x last : option A) : option A := match x with Some y => Some y | None => last end.

(* RouteAuthenticators.Authenticate and Authorize, said at once *)
Definition alts_answer (s : sec_cfg) (alts : list (list sec_scheme)) (last : option nat) (anon : bool) (m : bytes)
  : bool * nat * bytes :=
  let m' := mark s (existsb (basic_consulted_in s) (examined s alts)) m in
  if existsb (alt_admits s) alts then (true, 0, m')
  else match or_last (last_some (map (alt_error s) alts)) last with
       | Some c => (false, c, m')
       | None => if anon || existsb is_anonymous alts then (true, 0, m') else (false, 401, m')
       end.

Lemma run_alts_eq s alts : forall last anon m,
  run_alts s alts last anon m = alts_answer s alts last anon m.
Proof.
  induction alts as [|a r IH]; intros last anon m.
  - unfold alts_answer. cbn [run_alts existsb examined map last_some or_last]. rewrite mark_false, orb_false_r.
    destruct last; reflexivity.
  - destruct a as [|x a'].
    + (* the anonymous alternative *)
      cbn [run_alts]. rewrite IH. unfold alts_answer.
      cbn [existsb examined alt_admits map last_some alt_error basic_consulted_in is_anonymous orb].
      rewrite orb_true_r.
      destruct (existsb (alt_admits s) r); [reflexivity|].
      destruct (last_some (map (alt_error s) r)); reflexivity.
    + remember (x :: a') as a eqn:Ea.
      assert (Hne : a <> []) by (subst a; discriminate).
      assert (Hstep : run_alts s (a :: r) last anon m =
                match run_alt s a m with
                | (SOk, m') => (true, 0, m')
                | (SErr c, m') => run_alts s r (Some c) anon m'
                | (SNotApplies, m') => run_alts s r last anon m'
                end) by (subst a; reflexivity).
      rewrite Hstep. clear Hstep. rewrite run_alt_eq.
      unfold alts_answer. cbn [existsb examined map last_some].
      rewrite (alt_admits_res s a Hne).
      assert (Han : is_anonymous a = false) by (subst a; reflexivity). rewrite Han. cbn [orb].
      destruct (alt_res s a) as [|c|] eqn:Er.
      * (* does not apply *)
        rewrite IH. unfold alts_answer. rewrite mark_mark. rewrite (alt_res_na _ _ Er).
        cbn [existsb orb].
        rewrite (orb_comm (existsb (basic_consulted_in s) (examined s r))).
        destruct (existsb (alt_admits s) r); [reflexivity|].
        destruct (last_some (map (alt_error s) r)); reflexivity.
      * (* an error *)
        rewrite IH. unfold alts_answer. rewrite mark_mark. rewrite (alt_res_err _ _ _ Er).
        cbn [existsb orb].
        rewrite (orb_comm (existsb (basic_consulted_in s) (examined s r))).
        destruct (existsb (alt_admits s) r); [reflexivity|].
        destruct (last_some (map (alt_error s) r)); reflexivity.
      * cbn [existsb orb]. rewrite orb_false_r. reflexivity.
Qed.

Lemma last_some_none s alts :
  last_some (map (alt_error s) alts) = None <->
  forallb (fun a => match alt_error s a with None => true | Some _ => false end) alts = true.
Proof.
  induction alts as [|a r IH]; cbn [map last_some forallb]; [tauto|].
  destruct (last_some (map (alt_error s) r)) as [y|].
  - split; [discriminate|]. intros H. apply andb_true_iff in H. destruct H as [_ H]. apply IH in H. discriminate.
  - rewrite (proj1 IH eq_refl), andb_true_r. destruct (alt_error s a); split; congruence.
Qed.

(* the pipeline behind any security requirement, in the vocabulary of the property: admitted requests go on
   to validation and the handler, refused ones are answered with the last error met (401 when none), and
   the marker is the effective realm exactly when a basic-auth attempt failed on the way *)
Theorem serve_sec_eq d registered rt specs head s result :
  serve_sec d registered rt specs head s result =
  if sec_admitted s
  then serve_validated d registered rt specs head (sec_challenge_realm s) result
  else serve_respond d registered rt specs head None (sec_challenge_realm s) (DError (sec_refusal_code s)).
Proof.
  unfold serve_sec, sec_admitted, sec_challenge_realm, sec_refusal_code.
  destruct (sec_alts s) as [|a r] eqn:Ea; [reflexivity|].
  rewrite run_alts_eq. unfold alts_answer. fold (mark s (existsb (basic_consulted_in s) (examined s (a :: r))) []).
  unfold or_last. cbn [orb].
  destruct (existsb (alt_admits s) (a :: r)); [reflexivity|]. cbn [orb].
  destruct (last_some (map (alt_error s) (a :: r))) as [c|] eqn:El.
  - assert (forallb (fun a0 => match alt_error s a0 with None => true | Some _ => false end) (a :: r) = false) as F.
    { destruct (forallb _ (a :: r)) eqn:E; [|reflexivity]. apply last_some_none in E. congruence. }
    rewrite F, andb_false_r. reflexivity.
  - rewrite (proj1 (last_some_none s (a :: r)) El), andb_true_r.
    destruct (existsb is_anonymous (a :: r)); reflexivity.
Qed.

(* the one-scheme requirement of the earlier cases is the special case *)
Theorem serve_sec_single_basic d registered rt specs head a result :
  serve_sec d registered rt specs head (sec_of_auth a) result = serve d registered rt specs head a result.
Proof.
  destruct a as [|realm attempt code]; [reflexivity|].
  unfold serve_sec, sec_of_auth. cbn [sec_alts run_alts run_alt marker_after_scheme scheme_res sec_realm sec_attempt sec_errcode].
  destruct attempt; cbn [basic_marker serve];
    try (destruct (effective_realm realm) eqn:E; [exfalso; eapply effective_realm_nonempty; eassumption | reflexivity]).
Qed.

(* wherever the basic scheme stands: once it was consulted in an examined alternative and did not accept,
   a refused request is answered with the challenge *)
Theorem sec_refused_challenge d registered rt specs head s result :
  sec_admitted s = false ->
  existsb (basic_consulted_in s) (examined s (sec_alts s)) = true -> sec_attempt s <> GoodCreds ->
  exists r, serve_sec d registered rt specs head s result = Responded r /\
            o_www r = Some (challenge (effective_realm (sec_realm s))) /\
            o_error r = Some (sec_refusal_code s) /\ o_producer r = None.
Proof.
  intros Hadm Hc Ha. rewrite serve_sec_eq, Hadm. unfold sec_challenge_realm. rewrite Hc.
  assert (attempt_fails (sec_attempt s) = true) as -> by (destruct (sec_attempt s); try reflexivity; congruence).
  cbn [andb]. unfold serve_respond, respond.
  pose proof (effective_realm_nonempty (sec_realm s)) as Hne.
  destruct (effective_realm (sec_realm s)) as [|b m] eqn:E; [congruence|].
  eexists. split; [reflexivity|]. cbn [o_www o_error o_producer]. repeat split; reflexivity.
Qed.

(* ... and when the basic scheme was not consulted, or accepted, no challenge is given *)
Theorem sec_no_attempt_no_challenge d registered rt specs head s result r :
  sec_challenge_realm s = [] ->
  serve_sec d registered rt specs head s result = Responded r -> o_www r = None.
Proof.
  intros Hm. rewrite serve_sec_eq, Hm.
  assert (G : forall dt, respond d registered (rt_produces rt) (Some rt) None specs head [] dt = Responded r -> o_www r = None).
  { intros dt. unfold respond.
    set (format := response_format None specs (respond_offers d (rt_produces rt))).
    destruct dt as [c|c|].
    - destruct (route_or_default registered d rt (normalize_offer format)); [|discriminate]. intros H; inversion H; reflexivity.
    - intros H; inversion H; reflexivity.
    - unfold respond_plain. destruct (rt_has_op rt); simpl.
      + destruct (success_code (rt_codes rt)) as [sc|]; [|intros H; inversion H; reflexivity].
        destruct (Nat.eqb sc 204 || head); [intros H; inversion H; reflexivity|].
        destruct (route_or_default registered d rt (normalize_offer format)); [|discriminate]. intros H; inversion H; reflexivity.
      + destruct head; [intros H; inversion H; reflexivity|].
        destruct (producers_for registered _ _); [|discriminate]. intros H; inversion H; reflexivity. }
  destruct (sec_admitted s).
  - unfold serve_validated, serve_respond.
    destruct (negotiate_content_type specs (rt_produces rt) []); [destruct (rt_produces rt)|]; apply G.
  - unfold serve_respond. apply G.
Qed.

Lemma serve_validated_meets d registered rp codes specs head marker dt tag :
  Forall spec_ok specs -> mem_bytes [] registered = false -> ~ In [] rp -> (In d rp \/ normalize_offer d = d) ->
  (if acceptable specs rp
   then true && respond_prop registered (negotiated specs (respond_offers d rp)) (negotiated_or_json specs (respond_offers d rp))
                             (Some codes) true head marker dt tag
                             (obs_of (serve_validated d registered (mkroute rp true codes) specs head marker dt) tag)
   else negb false && respond_prop registered (negotiated specs (respond_offers d rp)) (negotiated_or_json specs (respond_offers d rp))
                             (Some codes) true head marker (DError 406) tag
                             (obs_of (serve_validated d registered (mkroute rp true codes) specs head marker dt) tag)) = true.
Proof.
  intros Hs Hne Hrp Hd. unfold serve_validated. cbn [rt_produces].
  pose proof (refused_iff_unacceptable specs rp Hs Hrp) as R.
  destruct (negotiate_content_type specs rp []) as [|b f]; [destruct rp as [|o r]|]; rewrite R; cbn [andb negb];
    now apply serve_respond_meets.
Qed.

(* one request through the handler of an operation with any security requirement, every input: the model's
   answer and its decision whether the handler runs satisfy the property predicate of the check *)
Theorem serve_sec_meets_property d registered rp codes specs head s dt tag :
  Forall spec_ok specs -> mem_bytes [] registered = false -> ~ In [] rp -> (In d rp \/ normalize_offer d = d) ->
  sec_prop d registered rp codes specs head s dt tag (sec_admitted s && acceptable specs rp)
           (obs_of (serve_sec d registered (mkroute rp true codes) specs head s dt) tag) = true.
Proof.
  intros Hs Hne Hrp Hd. unfold sec_prop. rewrite serve_sec_eq.
  destruct (sec_admitted s); cbn [andb].
  - pose proof (serve_validated_meets d registered rp codes specs head (sec_challenge_realm s) dt tag Hs Hne Hrp Hd) as V.
    destruct (acceptable specs rp); exact V.
  - cbn [negb andb]. now apply serve_respond_meets.
Qed.

(* ---- histories on one Context ---- *)
Theorem history_stateless d registered qs n q :
  nth_error qs n = Some q -> nth_error (serve_history d registered qs) n = Some (serve_req d registered q).
Proof. intros H. unfold serve_history. now apply map_nth_error. Qed.

Theorem history_prefix_irrelevant d registered pre pre' q :
  nth_error (serve_history d registered (pre ++ [q])) (length pre) =
  nth_error (serve_history d registered (pre' ++ [q])) (length pre').
Proof.
  unfold serve_history. rewrite !map_app.
  rewrite !nth_error_app2 by (rewrite map_length; lia). rewrite !map_length, !Nat.sub_diag. reflexivity.
Qed.

Definition hreq_ok (d : bytes) (q : hreq) : Prop :=
  Forall spec_ok (hq_specs q) /\ rt_has_op (hq_route q) = true /\ ~ In [] (rt_produces (hq_route q)) /\
  (In d (rt_produces (hq_route q)) \/ normalize_offer d = d).

Theorem history_meets_property d registered qs tags :
  mem_bytes [] registered = false -> Forall (hreq_ok d) qs -> length tags = length qs ->
  Forall2 (fun qt o => req_prop d registered (fst qt) (snd qt) (req_runs (fst qt)) (obs_of o (snd qt)) = true)
          (combine qs tags) (serve_history d registered qs).
Proof.
  intros Hne Hq. revert tags. induction Hq as [|q r Hq _ IH]; intros tags Hl.
  - destruct tags; [constructor | discriminate].
  - destruct tags as [|t ts]; [discriminate|]. cbn [combine serve_history map]. constructor.
    + cbn [fst snd]. destruct Hq as [H1 [H2 [H3 H4]]]. unfold req_prop, req_runs, serve_req.
      destruct (hq_route q) as [rp op codes]. cbn [rt_has_op rt_produces rt_codes] in *. subst op.
      now apply serve_sec_meets_property.
    + apply IH. simpl in Hl. lia.
Qed.

Example ex_basic_first_then_key :
  let s := mksec [118] BadCreds 401 [[SBasic]; [SKey KeyAbsent]] in
  sec_admitted s = false /\ sec_refusal_code s = 401 /\ sec_challenge_realm s = [118].
Proof. vm_compute. repeat split; reflexivity. Qed.

Example ex_key_admits_after_failed_basic :
  let s := mksec [] NoCreds 401 [[SKey (KeyBad 403); SBasic]; [SBasic; SKey KeyGood]; [SKey KeyGood]] in
  sec_admitted s = true /\ sec_challenge_realm s = API_REALM.
Proof. vm_compute. split; reflexivity. Qed.

(* ---- the error responder in force ---- *)
Lemma last_app_nonempty {A} (l l' : list A) d : l' <> [] -> last (l ++ l') d = last l' d.
Proof.
  intros NE. induction l as [|x l IH]; [reflexivity|].
  cbn [app]. destruct (l ++ l') eqn:E.
  - destruct l; [cbn in E; contradiction|discriminate].
  - cbn [last]. exact IH.
Qed.

(* where the Context was built among the assignments does not matter *)
Theorem responder_construction_point_irrelevant a b c :
  responder_in_force (mkrcfg (a ++ b) c) = responder_in_force (mkrcfg a (b ++ c)).
Proof. unfold responder_in_force. cbn [rc_before rc_after]. now rewrite app_assoc. Qed.

(* a responder assigned after the Context was built is the one invoked *)
Theorem responder_assigned_later_wins before after r :
  responder_in_force (mkrcfg before (after ++ [r])) = r.
Proof.
  unfold responder_in_force. cbn [rc_before rc_after]. rewrite app_assoc.
  rewrite last_app_nonempty by discriminate. reflexivity.
Qed.

Theorem responder_default_until_assigned : responder_in_force (mkrcfg [] []) = DEFAULT_RESPONDER.
Proof. reflexivity. Qed.
