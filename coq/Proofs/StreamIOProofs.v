(* StreamIOProofs.v — facts about read_all (bytes.Buffer.ReadFrom) and io_copy (io.Copy) over
   EVERY reader script and EVERY writer script, for every read-size policy. *)
From Coq Require Import Lia Arith.
From V Require Import StreamIO.

Lemma term_error_match : forall (A : Type) t (x : A) (f : err -> A),
  f EOF = x ->
  match t with EOF => x | e => f e end = f t.
Proof. intros A t x f H. destruct t; auto. Qed.

(* ---------- one Read call ---------- *)
Lemma steps_fuel_pos : forall l, 1 <= steps_fuel l.
Proof. destruct l as [|[c ot] r]; cbn [steps_fuel]; lia. Qed.

(* one Read call delivers a prefix of the script's bytes; what remains stands for the rest *)
Lemma sread_spec : forall k0 s d t s',
  sread (S k0) s = ((d, t), s') ->
  match t with
  | Some e => d = script_bytes s /\ e = script_term s
  | None => script_bytes s = d ++ script_bytes s' /\ script_term s = script_term s' /\
            script_fuel s' < script_fuel s
  end.
Proof.
  intros k0 s d t s' Hsr. remember (S k0) as k eqn:Hk.
  destruct s as [[|[c ot] r]|t0]; cbn [sread] in Hsr.
  - injection Hsr as Hd Ht Hs'; subst d t s'. cbn. auto.
  - destruct (length c <=? k) eqn:Hle; injection Hsr as Hd Ht Hs'; subst d t s'.
    + destruct ot as [e|]; cbn [script_bytes script_term steps_bytes steps_term script_fuel steps_fuel].
      * auto.
      * repeat split; lia.
    + apply Nat.leb_gt in Hle.
      cbn [script_bytes script_term script_fuel steps_fuel].
      assert (Hsk : length (skipn k c) < length c) by (rewrite skipn_length; lia).
      destruct ot as [e|]; cbn [steps_bytes steps_term].
      * rewrite firstn_skipn. repeat split; lia.
      * rewrite app_assoc, firstn_skipn. repeat split; lia.
  - injection Hsr as Hd Ht Hs'; subst d t s'. cbn. auto.
Qed.

Lemma script_fuel_pos : forall s, 1 <= script_fuel s.
Proof. destruct s as [l|t]; cbn [script_fuel]; [apply steps_fuel_pos|lia]. Qed.

(* ---------- read_all ---------- *)
Lemma read_all_fuel_exact : forall pol fuel s acc,
  script_fuel s <= fuel ->
  read_all_fuel pol fuel s acc = RA (acc ++ script_bytes s) (term_error (script_term s)).
Proof.
  intros pol fuel. induction fuel as [|f IH]; intros s acc Hf.
  - pose proof (script_fuel_pos s). lia.
  - cbn [read_all_fuel].
    destruct (sread (S (pol (length acc))) s) as [[d t] s'] eqn:Hsr.
    pose proof (sread_spec _ _ _ _ _ Hsr) as Hs.
    destruct t as [e|].
    + destruct Hs as (Hd & He). subst d e. destruct (script_term s); reflexivity.
    + destruct Hs as (Hb & Ht & Hfu).
      rewrite IH by lia. rewrite Hb, Ht, app_assoc. reflexivity.
Qed.

(* bytes.Buffer.ReadFrom over any script: exactly the script's bytes, io.EOF becomes nil, any
   other terminal is returned; independent of the read-size policy; never out of fuel *)
Theorem read_all_exact : forall pol s,
  read_all pol s = RA (script_bytes s) (term_error (script_term s)).
Proof. intros pol s. unfold read_all. rewrite read_all_fuel_exact by lia. reflexivity. Qed.

Corollary read_all_policy_independent : forall pol1 pol2 s, read_all pol1 s = read_all pol2 s.
Proof. intros. rewrite !read_all_exact. reflexivity. Qed.

Corollary read_all_total : forall pol s, read_all pol s <> RAOutOfFuel.
Proof. intros pol s. rewrite read_all_exact. discriminate. Qed.

(* ---------- one Write call ---------- *)
Lemma swrite_got : forall p w,
  let '((n, e), w') := swrite p w in
  w_got w' = w_got w ++ firstn n p /\ n <= length p.
Proof.
  intros p w. unfold swrite. destruct (w_steps w) as [|[a oe] r]; cbn [w_got].
  - rewrite firstn_all. split; [reflexivity|lia].
  - split; [reflexivity|apply Nat.le_min_r].
Qed.

Definition is_prefix (p q : bytes) : Prop := exists r, q = p ++ r.

Lemma is_prefix_refl : forall p, is_prefix p p.
Proof. intro p. exists []. rewrite app_nil_r. reflexivity. Qed.
Lemma is_prefix_nil : forall p, is_prefix [] p.
Proof. intro p. exists p. reflexivity. Qed.
Lemma is_prefix_app : forall a p q, is_prefix p q -> is_prefix (a ++ p) (a ++ q).
Proof. intros a p q [r ->]. exists r. rewrite app_assoc. reflexivity. Qed.
Lemma is_prefix_firstn : forall n p q, is_prefix (firstn n p) (p ++ q).
Proof. intros n p q. exists (skipn n p ++ q). rewrite app_assoc, firstn_skipn. reflexivity. Qed.

(* ---------- io_copy ---------- *)
(* the general invariant: whatever the sink did, it received a prefix of the script's bytes; on a
   nil result it received all of them and the script ended in io.EOF *)
Lemma io_copy_fuel_spec : forall b fuel s w,
  script_fuel s <= fuel ->
  exists w' e, io_copy_fuel b fuel s w = CP w' e /\
    (exists p, w_got w' = w_got w ++ p /\ is_prefix p (script_bytes s)) /\
    (e = None -> w_got w' = w_got w ++ script_bytes s /\ script_term s = EOF).
Proof.
  intros b fuel. induction fuel as [|f IH]; intros s w Hf.
  - pose proof (script_fuel_pos s). lia.
  - cbn [io_copy_fuel].
    destruct (sread (S b) s) as [[d t] s'] eqn:Hsr.
    pose proof (sread_spec _ _ _ _ _ Hsr) as Hs.
    destruct d as [|d0 dr].
    + (* zero-length read *)
      destruct t as [e|].
      * destruct Hs as (Hd & He). exists w, (term_error e). split; [reflexivity|]. split.
        -- exists []. rewrite app_nil_r. split; [reflexivity|apply is_prefix_nil].
        -- intros Hn. rewrite <- Hd, <- He, app_nil_r. split; [reflexivity|].
           destruct e; cbn in Hn; congruence.
      * destruct Hs as (Hb & Ht & Hfu).
        destruct (IH s' w ltac:(lia)) as (w' & e & Heq & Hp & Hn).
        exists w', e. split; [exact Heq|]. rewrite Hb, Ht. cbn [app]. auto.
    + (* data: one Write call *)
      pose proof (swrite_got (d0 :: dr) w) as Hw.
      destruct (swrite (d0 :: dr) w) as [[nw ew] w1].
      destruct Hw as (Hg & Hnw).
      assert (Hpre : is_prefix (firstn nw (d0 :: dr)) (script_bytes s)).
      { destruct t as [e|].
        - destruct Hs as (Hd & _). rewrite <- Hd.
          rewrite <- (app_nil_r (d0 :: dr)) at 2. apply is_prefix_firstn.
        - destruct Hs as (Hb & _). rewrite Hb. apply is_prefix_firstn. }
      destruct ew as [e|].
      * exists w1, (Some e). split; [reflexivity|]. split.
        -- exists (firstn nw (d0 :: dr)). split; [exact Hg|exact Hpre].
        -- discriminate.
      * destruct (Nat.eqb nw (length (d0 :: dr))) eqn:Heqn; cbn [negb].
        -- apply Nat.eqb_eq in Heqn. rewrite Heqn, firstn_all in Hg.
           destruct t as [e|].
           ++ destruct Hs as (Hd & He). exists w1, (term_error e). split; [reflexivity|]. split.
              ** exists (d0 :: dr). split; [exact Hg|]. rewrite <- Hd. apply is_prefix_refl.
              ** intros Hn. rewrite <- Hd, <- He. split; [exact Hg|].
                 destruct e; cbn in Hn; congruence.
           ++ destruct Hs as (Hb & Ht & Hfu).
              destruct (IH s' w1 ltac:(lia)) as (w' & e & Heq & (p & Hp1 & Hp2) & Hn).
              exists w', e. split; [exact Heq|]. split.
              ** exists ((d0 :: dr) ++ p). split.
                 --- rewrite Hp1, Hg, app_assoc. reflexivity.
                 --- rewrite Hb. apply is_prefix_app. exact Hp2.
              ** intros He. destruct (Hn He) as (Hn1 & Hn2). split.
                 --- rewrite Hn1, Hg, Hb, app_assoc. reflexivity.
                 --- rewrite Ht. exact Hn2.
        -- exists w1, (Some EShortWrite). split; [reflexivity|]. split.
           ++ exists (firstn nw (d0 :: dr)). split; [exact Hg|exact Hpre].
           ++ discriminate.
Qed.

Theorem io_copy_total : forall b s w, io_copy b s w <> CPOutOfFuel.
Proof.
  intros b s w. unfold io_copy.
  destruct (io_copy_fuel_spec b (script_fuel s) s w ltac:(lia)) as (w' & e & Heq & _).
  rewrite Heq. discriminate.
Qed.

(* io.Copy reports success only if the sink received exactly the script's bytes and the script
   ended in io.EOF: for every reader script, every writer script, every buffer size *)
Theorem io_copy_success_exact : forall b s w w',
  io_copy b s w = CP w' None -> w_got w' = w_got w ++ script_bytes s /\ script_term s = EOF.
Proof.
  intros b s w w' H. unfold io_copy in H.
  destruct (io_copy_fuel_spec b (script_fuel s) s w ltac:(lia)) as (w1 & e & Heq & _ & Hn).
  rewrite Heq in H. inversion H; subst. auto.
Qed.

(* whatever happens, the sink never receives anything but a prefix of the source bytes *)
Theorem io_copy_prefix : forall b s w w' e,
  io_copy b s w = CP w' e -> exists p, w_got w' = w_got w ++ p /\ is_prefix p (script_bytes s).
Proof.
  intros b s w w' e H. unfold io_copy in H.
  destruct (io_copy_fuel_spec b (script_fuel s) s w ltac:(lia)) as (w1 & e1 & Heq & Hp & _).
  rewrite Heq in H. inversion H; subst. exact Hp.
Qed.

(* a read error is never turned into a success *)
Corollary io_copy_read_error_returned : forall b s w w' e,
  script_term s <> EOF -> io_copy b s w = CP w' e -> e <> None.
Proof.
  intros b s w w' e Ht H ->. apply io_copy_success_exact in H. tauto.
Qed.

(* with a sink that accepts everything the result does not depend on the buffer size *)
Lemma io_copy_fuel_accepting : forall b fuel s g,
  script_fuel s <= fuel ->
  io_copy_fuel b fuel s (mkW [] g) = CP (mkW [] (g ++ script_bytes s)) (term_error (script_term s)).
Proof.
  intros b fuel. induction fuel as [|f IH]; intros s g Hf.
  - pose proof (script_fuel_pos s). lia.
  - cbn [io_copy_fuel].
    destruct (sread (S b) s) as [[d t] s'] eqn:Hsr.
    pose proof (sread_spec _ _ _ _ _ Hsr) as Hs.
    destruct d as [|d0 dr].
    + destruct t as [e|].
      * destruct Hs as (Hd & He). rewrite <- Hd, <- He, app_nil_r. reflexivity.
      * destruct Hs as (Hb & Ht & Hfu). rewrite IH by lia. rewrite Hb, Ht. reflexivity.
    + unfold swrite. cbn [w_steps w_got]. rewrite Nat.eqb_refl. cbn [negb].
      destruct t as [e|].
      * destruct Hs as (Hd & He). rewrite <- Hd, <- He. reflexivity.
      * destruct Hs as (Hb & Ht & Hfu). rewrite IH by lia. rewrite Hb, Ht, app_assoc. reflexivity.
Qed.

Theorem io_copy_accepting : forall b s g,
  io_copy b s (mkW [] g) = CP (mkW [] (g ++ script_bytes s)) (term_error (script_term s)).
Proof. intros. unfold io_copy. apply io_copy_fuel_accepting. lia. Qed.

(* ---------- single writes ---------- *)
(* a single Write whose count is dropped: the sink got everything if the writer is lawful *)
Lemma direct_write_lawful : forall p w w',
  wlawful_next p w = true -> direct_write p w = (w', None) -> w_got w' = w_got w ++ p.
Proof.
  intros p w w' Hl H. unfold direct_write, swrite in H. unfold wlawful_next in Hl.
  destruct (w_steps w) as [|[a oe] r].
  - inversion H; subst. reflexivity.
  - destruct oe as [e|]; inversion H; subst. cbn [w_got].
    apply Nat.leb_le in Hl. rewrite Nat.min_r by lia. rewrite firstn_all. reflexivity.
Qed.

Lemma direct_write_prefix : forall p w w' e,
  direct_write p w = (w', e) -> exists q, w_got w' = w_got w ++ q /\ is_prefix q p.
Proof.
  intros p w w' e H. unfold direct_write in H.
  pose proof (swrite_got p w) as Hg. destruct (swrite p w) as [[n ew] w1].
  inversion H; subst. destruct Hg as (Hg & _). exists (firstn n p). split; [exact Hg|].
  rewrite <- (app_nil_r p) at 2. apply is_prefix_firstn.
Qed.

(* bytes.Buffer.WriteTo checks the count itself: success means everything arrived, lawful or not *)
Lemma buffer_write_to_success : forall c w w',
  buffer_write_to c w = (w', None) -> w_got w' = w_got w ++ c.
Proof.
  intros c w w' H. unfold buffer_write_to in H. destruct c as [|c0 cr].
  - inversion H; subst. rewrite app_nil_r. reflexivity.
  - pose proof (swrite_got (c0 :: cr) w) as Hg. destruct (swrite (c0 :: cr) w) as [[m ew] w1].
    destruct Hg as (Hg & _). destruct ew as [e|]; [discriminate|].
    destruct (Nat.eqb m (length (c0 :: cr))) eqn:Hm; cbn [negb] in H; [|discriminate].
    inversion H; subst. apply Nat.eqb_eq in Hm. rewrite Hm, firstn_all in Hg. exact Hg.
Qed.

Lemma buffer_write_to_prefix : forall c w w' e,
  buffer_write_to c w = (w', e) -> exists q, w_got w' = w_got w ++ q /\ is_prefix q c.
Proof.
  intros c w w' e H. unfold buffer_write_to in H. destruct c as [|c0 cr].
  - inversion H; subst. exists []. rewrite app_nil_r. split; [reflexivity|apply is_prefix_nil].
  - pose proof (swrite_got (c0 :: cr) w) as Hg. destruct (swrite (c0 :: cr) w) as [[m ew] w1].
    destruct Hg as (Hg & _).
    assert (Hp : exists q, w_got w1 = w_got w ++ q /\ is_prefix q (c0 :: cr)).
    { exists (firstn m (c0 :: cr)). split; [exact Hg|].
      rewrite <- (app_nil_r (c0 :: cr)) at 2. apply is_prefix_firstn. }
    destruct ew as [e1|]; [inversion H; subst; exact Hp|].
    destruct (negb (Nat.eqb m (length (c0 :: cr)))); inversion H; subst; exact Hp.
Qed.
