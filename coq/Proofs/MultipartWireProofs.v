(* MultipartWireProofs.v — the multipart reader of Model/MultipartWire.v gives back exactly the parts the writer
   rendered: every header block made of complete accepted lines, every content of ANY bytes and ANY length that does
   not contain the delimiter (line end, two dashes, the boundary). Examples by computation, and the proof that the
   proviso cannot be dropped. *)
From Coq Require Import List Arith Bool Lia String Ascii.
Import ListNotations.
From V Require Import Bytes HeaderWire MultipartWire.

Local Open Scope nat_scope.

(* ---------- small facts about lists ---------- *)

Lemma skipn_app_exact (p s : bytes) : skipn (length p) (p ++ s) = s.
Proof. induction p as [|x p IH]; [reflexivity|]. exact IH. Qed.

Lemma has_prefix_app_same (a p s : bytes) : has_prefix (a ++ p) (a ++ s) = has_prefix p s.
Proof. induction a as [|x a IH]; [reflexivity|]. cbn [app has_prefix]. now rewrite Nat.eqb_refl, IH. Qed.

Lemma drop_cr_snoc (a : bytes) : drop_cr (a ++ [13]) = a.
Proof. unfold drop_cr. rewrite rev_app_distr. cbn [rev app Nat.eqb]. apply rev_involutive. Qed.

(* a string without CR that is a prefix of a ++ CR :: z is a prefix of a *)
Lemma prefix_before_cr (p : bytes) : Forall (fun x => x <> 13) p ->
  forall a z, has_prefix p (a ++ 13 :: z) = true -> has_prefix p a = true.
Proof.
  induction p as [|x p IH]; intros Hp a z H; [reflexivity|].
  inversion Hp as [|x' p' Hx Hp']; subst.
  destruct a as [|y a].
  - cbn [app has_prefix] in H. apply andb_prop in H. destruct H as [H _].
    apply Nat.eqb_eq in H. contradiction.
  - cbn [app has_prefix] in H |- *. apply andb_prop in H. destruct H as [H1 H2].
    rewrite H1. cbn [andb]. exact (IH Hp' a z H2).
Qed.

(* ---------- the boundary ---------- *)

Lemma boundary_byte_not_cr c : boundary_byte c = true -> c <> 13.
Proof. intros H E. subst c. vm_compute in H. discriminate. Qed.

Lemma boundary_byte_not_lf c : boundary_byte c = true -> Nat.eqb c 10 = false.
Proof.
  intros H. destruct (Nat.eqb c 10) eqn:E; [|reflexivity].
  apply Nat.eqb_eq in E. subst c. vm_compute in H. discriminate.
Qed.

Lemma boundary_ok_bytes b : boundary_ok b = true -> forallb boundary_byte b = true.
Proof.
  unfold boundary_ok. intros H.
  apply andb_prop in H. destruct H as [H _].
  apply andb_prop in H. destruct H as [_ H]. exact H.
Qed.

Lemma boundary_ok_nonempty b : boundary_ok b = true -> b <> [].
Proof. intros H E. subst b. vm_compute in H. discriminate. Qed.

Lemma db_no_cr b : boundary_ok b = true -> Forall (fun x => x <> 13) (dash_boundary b).
Proof.
  intros H. apply boundary_ok_bytes in H. unfold dash_boundary, dashes. cbn [app].
  constructor; [discriminate|]. constructor; [discriminate|].
  apply Forall_forall. intros x Hx. apply boundary_byte_not_cr.
  rewrite forallb_forall in H. exact (H x Hx).
Qed.

Lemma db_no_lf b : boundary_ok b = true ->
  forallb (fun c => negb (Nat.eqb c 10)) (dash_boundary b) = true.
Proof.
  intros H. apply boundary_ok_bytes in H. unfold dash_boundary, dashes. cbn [app forallb Nat.eqb negb andb].
  apply forallb_forall. intros x Hx. rewrite forallb_forall in H.
  now rewrite (boundary_byte_not_lf x (H x Hx)).
Qed.

Lemma dbd_split b : dash_boundary_dash b = dash_boundary b ++ dashes.
Proof. unfold dash_boundary_dash, dash_boundary. now rewrite app_assoc. Qed.

Lemma db_head b : dash_boundary b = 45 :: 45 :: b.
Proof. reflexivity. Qed.

(* ---------- lines ---------- *)

Lemma read_slice_line (a rest : bytes) : forallb (fun c => negb (Nat.eqb c 10)) a = true ->
  read_slice (a ++ 10 :: rest) = Some (a ++ [10], rest).
Proof.
  induction a as [|x a IH]; intros H.
  - reflexivity.
  - cbn [forallb] in H. apply andb_prop in H. destruct H as [Hx Ha].
    cbn [app read_slice]. destruct (Nat.eqb x 10); [discriminate|].
    now rewrite (IH Ha).
Qed.

Lemma read_slice_crlf rest : read_slice (crlf ++ rest) = Some (crlf, rest).
Proof. reflexivity. Qed.

Lemma read_slice_db b tail rest : boundary_ok b = true ->
  forallb (fun c => negb (Nat.eqb c 10)) tail = true ->
  read_slice (dash_boundary b ++ tail ++ crlf ++ rest) = Some (dash_boundary b ++ tail ++ crlf, rest).
Proof.
  intros Hb Ht.
  replace (dash_boundary b ++ tail ++ crlf ++ rest) with ((dash_boundary b ++ tail ++ [13]) ++ 10 :: rest)
    by (unfold crlf; now rewrite <- !app_assoc).
  rewrite read_slice_line.
  - unfold crlf. now rewrite <- !app_assoc.
  - rewrite !forallb_app. apply andb_true_intro. split; [exact (db_no_lf b Hb)|].
    apply andb_true_intro. split; [exact Ht|reflexivity].
Qed.

Lemma read_slice_db0 b rest : boundary_ok b = true ->
  read_slice (dash_boundary b ++ crlf ++ rest) = Some (dash_boundary b ++ crlf, rest).
Proof. intros Hb. exact (read_slice_db b [] rest Hb eq_refl). Qed.

Lemma delim_line_crlf b first : is_delimiter_line b crlf first (dash_boundary b ++ crlf) = Some crlf.
Proof.
  unfold is_delimiter_line. rewrite has_prefix_app, skipn_app_exact.
  destruct first; reflexivity.
Qed.

Lemma delim_line_not_final b first : is_delimiter_line b crlf first (dash_boundary b ++ dashes ++ crlf) = None.
Proof.
  unfold is_delimiter_line. rewrite has_prefix_app, skipn_app_exact.
  destruct first; reflexivity.
Qed.

Lemma delim_line_not_crlf b first : is_delimiter_line b crlf first crlf = None.
Proof. reflexivity. Qed.

Lemma final_line b : is_final_boundary b crlf (dash_boundary b ++ dashes ++ crlf) = true.
Proof.
  unfold is_final_boundary. rewrite dbd_split.
  replace (dash_boundary b ++ dashes ++ crlf) with ((dash_boundary b ++ dashes) ++ crlf) by now rewrite app_assoc.
  rewrite has_prefix_app, skipn_app_exact. reflexivity.
Qed.

Lemma final_not_crlf b : is_final_boundary b crlf crlf = false.
Proof. reflexivity. Qed.

(* ---------- Reader.nextPart on what the writer puts between two contents and at the end ---------- *)

Lemma next_part_later b fuel X : boundary_ok b = true -> 2 <= fuel ->
  next_part fuel b crlf false false (crlf ++ dash_boundary b ++ crlf ++ X) = NPPart X crlf.
Proof.
  intros Hb Hf. destruct fuel as [|[|f]]; try lia.
  cbn [next_part]. rewrite read_slice_crlf, delim_line_not_crlf, final_not_crlf.
  cbn [bytes_eqb crlf Nat.eqb andb].
  change (13 :: 10 :: X) with (crlf ++ X).
  rewrite (read_slice_db0 b X Hb).
  now rewrite delim_line_crlf.
Qed.

Lemma next_part_close b fuel first : boundary_ok b = true -> 2 <= fuel ->
  next_part fuel b crlf first false (mp_close b) = NPFinal.
Proof.
  intros Hb Hf. destruct fuel as [|[|f]]; try lia.
  unfold mp_close. rewrite dbd_split, <- app_assoc.
  cbn [next_part]. rewrite read_slice_crlf, delim_line_not_crlf, final_not_crlf.
  assert (Hl : read_slice (dash_boundary b ++ dashes ++ crlf) = Some (dash_boundary b ++ dashes ++ crlf, [])).
  { generalize (read_slice_db b dashes [] Hb eq_refl). now rewrite !app_nil_r. }
  destruct first; cbn [bytes_eqb crlf Nat.eqb andb]; change [13; 10] with crlf;
    rewrite Hl, delim_line_not_final, final_line; reflexivity.
Qed.

Lemma next_part_first b fuel X : boundary_ok b = true -> 1 <= fuel ->
  next_part fuel b crlf true false (dash_boundary b ++ crlf ++ X) = NPPart X crlf.
Proof.
  intros Hb Hf. destruct fuel as [|f]; try lia.
  cbn [next_part]. rewrite (read_slice_db0 b X Hb).
  now rewrite delim_line_crlf.
Qed.

(* ---------- the header block ---------- *)

Lemma hdr_scan_block h : forall st X, hdr_lines_ok st h = true ->
  hdr_scan st (h ++ crlf ++ X) = HBlock (h ++ [13]) X.
Proof.
  induction h as [|c r IH]; intros st X H.
  - cbn [hdr_lines_ok] in H. apply Nat.eqb_eq in H. subst st. reflexivity.
  - cbn [hdr_lines_ok] in H. cbn [app hdr_scan].
    destruct (Nat.eqb c 10) eqn:Ec.
    + apply andb_prop in H. destruct H as [Hst Hr].
      assert (Hlt : Nat.ltb st 2 = false) by (apply Nat.ltb_ge; now apply Nat.leb_le).
      rewrite Hlt. now rewrite (IH 0 X Hr).
    + now rewrite (IH _ X H).
Qed.

Lemma hdr_block_written h X : hdr_ok h = true -> hdr_block (h ++ crlf ++ X) = HBlock h X.
Proof.
  intros H. unfold hdr_block. rewrite (hdr_scan_block h 0 X H). now rewrite drop_cr_snoc.
Qed.

(* ---------- the content ---------- *)

Lemma scan_content_step nldb x r :
  scan_content nldb 0 (x :: r) =
  if has_prefix nldb (x :: r) then
    if match_after (skipn (length nldb) (x :: r)) then Some ([], x :: r)
    else cons_fst x (scan_content nldb (length nldb - 1) r)
  else cons_fst x (scan_content nldb 0 r).
Proof. reflexivity. Qed.

(* THE scanning lemma: a content that does not contain the delimiter is read up to the delimiter that follows it *)
Lemma scan_content_stops t Y : Forall (fun x => x <> 13) t -> match_after Y = true ->
  forall c, contains (13 :: t) c = false ->
  scan_content (13 :: t) 0 (c ++ (13 :: t) ++ Y) = Some (c, (13 :: t) ++ Y).
Proof.
  intros Ht HY. induction c as [|x c IH]; intros Hc.
  - cbn [app]. rewrite scan_content_step.
    change (13 :: t ++ Y) with ((13 :: t) ++ Y).
    rewrite has_prefix_app, skipn_app_exact, HY. reflexivity.
  - cbn [contains] in Hc. apply orb_false_iff in Hc. destruct Hc as [Hpre Hrest].
    cbn [app]. rewrite scan_content_step.
    assert (Hno : has_prefix (13 :: t) (x :: c ++ 13 :: t ++ Y) = false).
    { destruct (has_prefix (13 :: t) (x :: c ++ 13 :: t ++ Y)) eqn:E; [|reflexivity].
      cbn [has_prefix] in E. apply andb_prop in E. destruct E as [E1 E2].
      apply (prefix_before_cr t Ht) in E2.
      cbn [has_prefix] in Hpre. rewrite E1, E2 in Hpre. discriminate. }
    rewrite Hno. change (13 :: t ++ Y) with ((13 :: t) ++ Y). now rewrite (IH Hrest).
Qed.

Lemma no_delim_inside b c : no_delim b c = true -> contains (crlf ++ dash_boundary b) c = false.
Proof.
  unfold no_delim. intros H. apply negb_true_iff in H.
  unfold crlf in H |- *. cbn [app contains] in H.
  apply orb_false_iff in H. destruct H as [_ H].
  apply orb_false_iff in H. destruct H as [_ H]. exact H.
Qed.

Lemma no_delim_start b c : no_delim b c = true -> has_prefix (dash_boundary b) c = false.
Proof.
  unfold no_delim. intros H. apply negb_true_iff in H.
  unfold crlf in H. cbn [app contains] in H.
  apply orb_false_iff in H. destruct H as [H _].
  cbn [has_prefix Nat.eqb andb] in H. exact H.
Qed.

Lemma scan_part_written b c Y : boundary_ok b = true -> no_delim b c = true -> match_after Y = true ->
  scan_part b crlf (c ++ crlf ++ dash_boundary b ++ Y) = Some (c, crlf ++ dash_boundary b ++ Y).
Proof.
  intros Hb Hc HY. unfold scan_part.
  assert (Hstart : has_prefix (dash_boundary b) (c ++ crlf ++ dash_boundary b ++ Y) = false).
  { destruct (has_prefix (dash_boundary b) (c ++ crlf ++ dash_boundary b ++ Y)) eqn:E; [|reflexivity].
    unfold crlf in E. cbn [app] in E.
    apply (prefix_before_cr _ (db_no_cr b Hb)) in E.
    rewrite (no_delim_start b c Hc) in E. discriminate. }
  rewrite Hstart.
  assert (Ht : Forall (fun x => x <> 13) (10 :: dash_boundary b)).
  { constructor; [discriminate|]. exact (db_no_cr b Hb). }
  generalize (scan_content_stops (10 :: dash_boundary b) Y Ht HY c (no_delim_inside b c Hc)).
  unfold crlf. cbn [app]. intros H. exact H.
Qed.

(* ---------- the content, sharper: only live delimiters matter ---------- *)

Lemma match_after_before_cr u z : match_after (u ++ 13 :: z) = match_after u.
Proof.
  destruct u as [|a [|d r]]; [reflexivity| |reflexivity].
  cbn [app match_after].
  destruct (Nat.eqb a 32 || Nat.eqb a 9 || Nat.eqb a 13 || Nat.eqb a 10); [reflexivity|].
  destruct (Nat.eqb a 45); reflexivity.
Qed.

Lemma has_prefix_length p s : has_prefix p s = true -> length p <= length s.
Proof.
  revert s. induction p as [|x p IH]; intros s H; [cbn; lia|].
  destruct s as [|y s]; [discriminate|]. cbn [has_prefix] in H. apply andb_prop in H. destruct H as [_ H].
  cbn [length]. specialize (IH s H). lia.
Qed.

Lemma has_prefix_longer p s z : has_prefix p s = true -> has_prefix p (s ++ z) = true.
Proof.
  revert s. induction p as [|x p IH]; intros s H; [reflexivity|].
  destruct s as [|y s]; [discriminate|]. cbn [has_prefix app] in H |- *.
  apply andb_prop in H. destruct H as [H1 H2]. now rewrite H1, (IH s H2).
Qed.

Lemma skipn_app_le (n : nat) (s z : bytes) : n <= length s -> skipn n (s ++ z) = skipn n s ++ z.
Proof.
  revert s. induction n as [|n IH]; intros s H; [reflexivity|].
  destruct s as [|y s]; [cbn [length] in H; lia|]. cbn [skipn app]. apply IH. cbn [length] in H. lia.
Qed.

Lemma has_live_skipn nldb s : has_live nldb s = false -> forall k, has_live nldb (skipn k s) = false.
Proof.
  induction s as [|x s IH]; intros H k.
  - destruct k; exact H.
  - destruct k as [|k]; [exact H|]. cbn [skipn]. apply IH.
    cbn [has_live] in H. apply orb_false_iff in H. exact (proj2 H).
Qed.

Lemma scan_content_skip nldb k x r : scan_content nldb (S k) (x :: r) = cons_fst x (scan_content nldb k r).
Proof. reflexivity. Qed.

Lemma scan_content_live t Y : Forall (fun x => x <> 13) t -> match_after Y = true ->
  forall c k, k <= length c -> has_live (13 :: t) (skipn k c) = false ->
  scan_content (13 :: t) k (c ++ (13 :: t) ++ Y) = Some (c, (13 :: t) ++ Y).
Proof.
  intros Ht HY. induction c as [|x c IH]; intros k Hk Hc.
  - assert (k = 0) by (cbn [length] in Hk; lia). subst k.
    cbn [app]. rewrite scan_content_step.
    change (13 :: t ++ Y) with ((13 :: t) ++ Y).
    rewrite has_prefix_app, skipn_app_exact, HY. reflexivity.
  - destruct k as [|k].
    + cbn [skipn has_live] in Hc. apply orb_false_iff in Hc. destruct Hc as [Hlive Hrest].
      cbn [app]. rewrite scan_content_step.
      destruct (has_prefix (13 :: t) (x :: c ++ 13 :: t ++ Y)) eqn:E.
      * assert (Hpre : has_prefix (13 :: t) (x :: c) = true).
        { cbn [has_prefix] in E |- *. apply andb_prop in E. destruct E as [E1 E2].
          rewrite E1. cbn [andb]. exact (prefix_before_cr t Ht c _ E2). }
        unfold live_at in Hlive. rewrite Hpre in Hlive. cbn [andb] in Hlive.
        pose proof (has_prefix_length _ _ Hpre) as Hlen.
        change (x :: c ++ 13 :: t ++ Y) with ((x :: c) ++ 13 :: t ++ Y).
        rewrite (skipn_app_le _ _ _ Hlen), match_after_before_cr, Hlive.
        change (13 :: t ++ Y) with ((13 :: t) ++ Y).
        match goal with |- cons_fst _ ?e = _ => assert (Hs : e = Some (c, (13 :: t) ++ Y)) end.
        { apply IH.
          - cbn [length] in Hlen |- *. lia.
          - now apply has_live_skipn. }
        rewrite Hs. reflexivity.
      * change (13 :: t ++ Y) with ((13 :: t) ++ Y). rewrite (IH 0); [reflexivity|lia|exact Hrest].
    + cbn [app]. rewrite scan_content_skip.
      change (13 :: t ++ Y) with ((13 :: t) ++ Y).
      rewrite (IH k); [reflexivity|cbn [length] in Hk; lia|exact Hc].
Qed.

Lemma no_live_inside b c : no_live_delim b c = true -> has_live (crlf ++ dash_boundary b) c = false.
Proof.
  unfold no_live_delim. intros H. apply negb_true_iff in H.
  unfold crlf in H |- *. cbn [app has_live] in H.
  apply orb_false_iff in H. destruct H as [_ H].
  apply orb_false_iff in H. destruct H as [_ H]. exact H.
Qed.

Lemma no_live_start b c : no_live_delim b c = true ->
  has_prefix (dash_boundary b) c && match_after (skipn (length (dash_boundary b)) c) = false.
Proof.
  unfold no_live_delim. intros H. apply negb_true_iff in H.
  unfold crlf in H. cbn [app has_live] in H.
  apply orb_false_iff in H. destruct H as [H _].
  unfold live_at in H. cbn [has_prefix Nat.eqb andb length skipn] in H. exact H.
Qed.

Lemma scan_part_live b c Y : boundary_ok b = true -> no_live_delim b c = true -> match_after Y = true ->
  scan_part b crlf (c ++ crlf ++ dash_boundary b ++ Y) = Some (c, crlf ++ dash_boundary b ++ Y).
Proof.
  intros Hb Hc HY. unfold scan_part.
  assert (Ht : Forall (fun x => x <> 13) (10 :: dash_boundary b)).
  { constructor; [discriminate|]. exact (db_no_cr b Hb). }
  pose proof (scan_content_live (10 :: dash_boundary b) Y Ht HY c) as Hscan.
  pose proof (no_live_inside b c Hc) as Hin.
  pose proof (no_live_start b c Hc) as Hst.
  destruct (has_prefix (dash_boundary b) (c ++ crlf ++ dash_boundary b ++ Y)) eqn:E.
  - assert (Hpre : has_prefix (dash_boundary b) c = true).
    { unfold crlf in E. cbn [app] in E. exact (prefix_before_cr _ (db_no_cr b Hb) c _ E). }
    rewrite Hpre in Hst. cbn [andb] in Hst.
    pose proof (has_prefix_length _ _ Hpre) as Hlen.
    rewrite (skipn_app_le _ _ _ Hlen). unfold crlf at 1. cbn [app].
    rewrite match_after_before_cr, Hst.
    specialize (Hscan (length (dash_boundary b)) Hlen (has_live_skipn _ _ Hin _)).
    unfold crlf. cbn [app]. exact Hscan.
  - specialize (Hscan 0 (Nat.le_0_l _) Hin). unfold crlf. cbn [app]. exact Hscan.
Qed.

Lemma live_at_prefix nldb s : live_at nldb s = true -> has_prefix nldb s = true.
Proof. unfold live_at. intros H. apply andb_prop in H. exact (proj1 H). Qed.

Lemma contains_no_live nldb s : contains nldb s = false -> has_live nldb s = false.
Proof.
  induction s as [|x s IH]; intros H.
  - cbn [contains] in H. cbn [has_live]. apply orb_false_iff in H. destruct H as [H _].
    unfold live_at. rewrite H. reflexivity.
  - cbn [contains] in H. apply orb_false_iff in H. destruct H as [H1 H2].
    cbn [has_live]. unfold live_at. rewrite H1, (IH H2). reflexivity.
Qed.

Lemma no_delim_no_live b c : no_delim b c = true -> no_live_delim b c = true.
Proof.
  unfold no_delim, no_live_delim. intros H. apply negb_true_iff in H. apply negb_true_iff.
  now apply contains_no_live.
Qed.

(* ---------- the document ---------- *)

(* what follows a content is always: line end, dash-boundary, then something matchAfterPrefix accepts *)
Lemma rest_shape b ps : exists Y, mp_render_rest b ps = crlf ++ dash_boundary b ++ Y /\ match_after Y = true.
Proof.
  destruct ps as [|p ps].
  - exists (dashes ++ crlf). split; [|reflexivity].
    cbn [mp_render_rest]. unfold mp_close. now rewrite dbd_split, <- !app_assoc.
  - exists (crlf ++ fst p ++ crlf ++ snd p ++ mp_render_rest b ps). split; [|reflexivity].
    cbn [mp_render_rest]. unfold mp_part. now rewrite <- !app_assoc.
Qed.

(* one part, once its delimiter line has been read *)
Lemma mp_parts_step b f first s h c ps :
  boundary_ok b = true -> part_ok_sharp b (h, c) ->
  next_part (S (length s)) b crlf first false s = NPPart (h ++ crlf ++ c ++ mp_render_rest b ps) crlf ->
  mp_parts f b crlf false (mp_render_rest b ps) = Some ps ->
  mp_parts (S f) b crlf first s = Some ((h, c) :: ps).
Proof.
  intros Hb Hp Hnext Hrec.
  unfold part_ok_sharp, part_okb_sharp in Hp. cbn [fst snd] in Hp.
  apply andb_prop in Hp. destruct Hp as [Hp Hc]. apply andb_prop in Hp. destruct Hp as [Hh Hv].
  destruct (rest_shape b ps) as [Y [HY1 HY2]].
  cbn [mp_parts]. rewrite Hnext, (hdr_block_written h _ Hh), Hv.
  rewrite HY1, (scan_part_live b c Y Hb Hc HY2), <- HY1, Hrec. reflexivity.
Qed.

Lemma mp_parts_rest b : boundary_ok b = true ->
  forall ps fuel, Forall (part_ok_sharp b) ps -> length ps < fuel ->
  mp_parts fuel b crlf false (mp_render_rest b ps) = Some ps.
Proof.
  intros Hb. induction ps as [|[h c] ps IH]; intros fuel Hps Hf.
  - destruct fuel as [|f]; [lia|]. cbn [mp_parts mp_render_rest].
    rewrite next_part_close; [reflexivity|exact Hb|]. unfold mp_close, crlf. cbn [app length]. lia.
  - destruct fuel as [|f]; [cbn [length] in Hf; lia|].
    inversion Hps as [|p ps' Hp Hps']; subst.
    apply (mp_parts_step b f false _ h c ps Hb Hp).
    + cbn [mp_render_rest]. unfold mp_part. cbn [fst snd]. rewrite <- !app_assoc.
      apply next_part_later; [exact Hb|]. unfold crlf. cbn [app length]. lia.
    + apply IH; [exact Hps'|]. cbn [length] in Hf. lia.
Qed.

Lemma render_longer b ps : length ps < length (mp_render b ps).
Proof.
  assert (Hrest : forall qs, length qs < length (mp_render_rest b qs)).
  { induction qs as [|q qs IH]; cbn [mp_render_rest length].
    - unfold mp_close, crlf. cbn [app length]. lia.
    - unfold crlf. cbn [app length]. rewrite app_length. lia. }
  destruct ps as [|p ps]; cbn [mp_render length].
  - unfold mp_close, crlf. cbn [app length]. lia.
  - unfold mp_part. rewrite !app_length. unfold dash_boundary, dashes. cbn [app length].
    specialize (Hrest ps). lia.
Qed.

Lemma mp_parts_document b : boundary_ok b = true ->
  forall ps fuel, Forall (part_ok_sharp b) ps -> length ps < fuel ->
  mp_parts fuel b crlf true (mp_render b ps) = Some ps.
Proof.
  intros Hb ps fuel Hps Hf. destruct ps as [|[h c] ps].
  - destruct fuel as [|f]; [lia|]. cbn [mp_parts mp_render].
    rewrite next_part_close; [reflexivity|exact Hb|]. unfold mp_close, crlf. cbn [app length]. lia.
  - destruct fuel as [|f]; [cbn [length] in Hf; lia|].
    inversion Hps as [|p ps' Hp Hps']; subst.
    apply (mp_parts_step b f true _ h c ps Hb Hp).
    + cbn [mp_render]. unfold mp_part. cbn [fst snd]. rewrite <- !app_assoc.
      apply next_part_first; [exact Hb|]. lia.
    + apply mp_parts_rest; [exact Hb|exact Hps'|]. cbn [length] in Hf. lia.
Qed.

(* THE ROUND TRIP, sharp form: whatever parts the writer is given -- any number of them, header blocks of complete
   accepted lines, contents of any bytes and any length without a LIVE delimiter -- the reader returns exactly them. *)
Theorem multipart_roundtrip_sharp : forall b parts,
  boundary_ok b = true -> Forall (part_ok_sharp b) parts ->
  mp_parse (length (mp_render b parts)) b (mp_render b parts) = Some parts.
Proof.
  intros b parts Hb Hps. unfold mp_parse.
  destruct b as [|x b'] eqn:Eb; [exfalso; now apply (boundary_ok_nonempty [] Hb)|].
  rewrite <- Eb in *. apply mp_parts_document; [exact Hb|exact Hps|apply render_longer].
Qed.

Lemma part_ok_sharpens b p : part_ok b p -> part_ok_sharp b p.
Proof.
  unfold part_ok, part_okb, part_ok_sharp, part_okb_sharp. intros H.
  apply andb_prop in H. destruct H as [H Hc]. rewrite H. cbn [andb]. now apply no_delim_no_live.
Qed.

(* THE ROUND TRIP with the plain proviso: contents of any bytes and any length that do not contain the delimiter *)
Theorem multipart_roundtrip : forall b parts,
  boundary_ok b = true -> Forall (part_ok b) parts ->
  mp_parse (length (mp_render b parts)) b (mp_render b parts) = Some parts.
Proof.
  intros b parts Hb Hps. apply multipart_roundtrip_sharp; [exact Hb|].
  eapply Forall_impl; [|exact Hps]. intros p. apply part_ok_sharpens.
Qed.

(* ---------- the sharp proviso is exact ---------- *)

Lemma cons_fst_some x r c' r' : cons_fst x r = Some (c', r') ->
  exists c1, r = Some (c1, r') /\ c' = x :: c1.
Proof.
  destruct r as [[a rest]|]; [|discriminate]. cbn [cons_fst]. intros H. injection H as H1 H2. subst.
  exists a. split; reflexivity.
Qed.

(* inside an occurrence of a string without CR nothing that starts with CR can begin *)
Lemma no_cr_inside (p q : bytes) : Forall (fun x => x <> 13) p ->
  forall s j, has_prefix p s = true -> j < length p -> has_prefix (13 :: q) (skipn j s) = false.
Proof.
  induction p as [|a p IH]; intros Hp s j Hs Hj; [cbn [length] in Hj; lia|].
  inversion Hp as [|a' p' Ha Hp']; subst.
  destruct s as [|y s]; [discriminate|]. cbn [has_prefix] in Hs. apply andb_prop in Hs. destruct Hs as [Hay Hs].
  apply Nat.eqb_eq in Hay. subst y.
  destruct j as [|j].
  - cbn [skipn has_prefix]. destruct (Nat.eqb 13 a) eqn:E; [|reflexivity].
    apply Nat.eqb_eq in E. congruence.
  - cbn [skipn]. apply (IH Hp' s j Hs). cbn [length] in Hj. lia.
Qed.

Lemma has_live_nil t : has_live (13 :: t) [] = false.
Proof. reflexivity. Qed.

(* a live delimiter exists and none starts before position k: one exists from k on *)
Lemma live_beyond t s : has_live (13 :: t) s = true ->
  forall k, (forall j, j < k -> has_prefix (13 :: t) (skipn j s) = false) ->
  has_live (13 :: t) (skipn k s) = true.
Proof.
  induction s as [|y s IH]; intros H k Hk.
  - rewrite has_live_nil in H. discriminate.
  - destruct k as [|k]; [exact H|].
    cbn [skipn]. apply IH.
    + cbn [has_live] in H. apply orb_prop in H. destruct H as [H|H]; [|exact H].
      apply live_at_prefix in H. pose proof (Hk 0 (Nat.lt_0_succ k)) as H0. cbn [skipn] in H0.
      rewrite H0 in H. discriminate.
    + intros j Hj. apply (Hk (S j)). lia.
Qed.

(* the converse of scan_content_live: with a live delimiter inside, the reader stops early (or fails) *)
Lemma scan_content_shorter t R' : Forall (fun x => x <> 13) t ->
  forall c k c' r', k <= length c -> has_live (13 :: t) (skipn k c) = true ->
  scan_content (13 :: t) k (c ++ 13 :: R') = Some (c', r') -> length c' < length c.
Proof.
  intros Ht. induction c as [|x c IH]; intros k c' r' Hk Hl H.
  - destruct k; cbn [skipn] in Hl; rewrite has_live_nil in Hl; discriminate.
  - destruct k as [|k].
    + cbn [skipn] in Hl. cbn [app] in H. rewrite scan_content_step in H.
      destruct (has_prefix (13 :: t) (x :: c ++ 13 :: R')) eqn:E.
      * assert (Hpre : has_prefix (13 :: t) (x :: c) = true).
        { cbn [has_prefix] in E |- *. apply andb_prop in E. destruct E as [E1 E2].
          rewrite E1. cbn [andb]. exact (prefix_before_cr t Ht c _ E2). }
        pose proof (has_prefix_length _ _ Hpre) as Hlen.
        change (x :: c ++ 13 :: R') with ((x :: c) ++ 13 :: R') in H.
        rewrite (skipn_app_le _ _ _ Hlen), match_after_before_cr in H.
        match type of H with (if ?m then _ else _) = _ => destruct m eqn:M end.
        -- injection H as H1 H2. subst c'. cbn [length]. lia.
        -- apply cons_fst_some in H. destruct H as [c1 [H1 H2]]. subst c'.
           cbn [length]. apply -> Nat.succ_lt_mono.
           apply (IH (length (13 :: t) - 1) c1 r'); [cbn [length] in Hlen |- *; unfold bytes, byte in *; lia| |exact H1].
           assert (Hc : has_live (13 :: t) c = true).
           { cbn [has_live] in Hl. apply orb_prop in Hl. destruct Hl as [Hl|Hl]; [|exact Hl].
             unfold live_at in Hl. rewrite M in Hl. rewrite andb_false_r in Hl. discriminate. }
           apply (live_beyond t c Hc). intros j Hj.
           cbn [has_prefix] in Hpre. apply andb_prop in Hpre. destruct Hpre as [_ Hpre].
           apply (no_cr_inside t t Ht c j Hpre). cbn [length] in Hj. unfold bytes, byte in *. lia.
      * apply cons_fst_some in H. destruct H as [c1 [H1 H2]]. subst c'.
        cbn [length]. apply -> Nat.succ_lt_mono.
        apply (IH 0 c1 r'); [lia| |exact H1].
        cbn [skipn]. cbn [has_live] in Hl. apply orb_prop in Hl. destruct Hl as [Hl|Hl]; [|exact Hl].
        apply live_at_prefix in Hl. apply (has_prefix_longer _ _ (13 :: R')) in Hl.
        cbn [app] in Hl. rewrite Hl in E. discriminate.
    + cbn [skipn] in Hl. cbn [app] in H. rewrite scan_content_skip in H.
      apply cons_fst_some in H. destruct H as [c1 [H1 H2]]. subst c'.
      cbn [length]. apply -> Nat.succ_lt_mono.
      apply (IH k c1 r'); [cbn [length] in Hk; lia|exact Hl|exact H1].
Qed.

Lemma scan_part_shorter b c R' c' r' : boundary_ok b = true -> no_live_delim b c = false ->
  scan_part b crlf (c ++ 13 :: R') = Some (c', r') -> length c' < length c.
Proof.
  intros Hb Hc H.
  assert (Ht : Forall (fun x => x <> 13) (10 :: dash_boundary b)).
  { constructor; [discriminate|]. exact (db_no_cr b Hb). }
  unfold no_live_delim in Hc. apply negb_false_iff in Hc.
  unfold crlf in Hc. cbn [app has_live] in Hc.
  assert (Hcases : has_prefix (dash_boundary b) c && match_after (skipn (length (dash_boundary b)) c) = true \/
                   has_live (13 :: 10 :: dash_boundary b) c = true).
  { apply orb_prop in Hc. destruct Hc as [Hc|Hc].
    - left. unfold live_at in Hc. cbn [has_prefix Nat.eqb andb length skipn] in Hc. exact Hc.
    - apply orb_prop in Hc. destruct Hc as [Hc|Hc]; [|right; exact Hc].
      unfold live_at in Hc. cbn [has_prefix Nat.eqb andb] in Hc. discriminate. }
  clear Hc. unfold scan_part in H.
  destruct (has_prefix (dash_boundary b) (c ++ 13 :: R')) eqn:E.
  - assert (Hpre : has_prefix (dash_boundary b) c = true) by exact (prefix_before_cr _ (db_no_cr b Hb) c _ E).
    pose proof (has_prefix_length _ _ Hpre) as Hlen.
    rewrite (skipn_app_le _ _ _ Hlen), match_after_before_cr in H.
    match type of H with (if ?m then _ else _) = _ => destruct m eqn:M end.
    + injection H as H1 H2. subst c'. rewrite db_head in Hlen. cbn [length] in Hlen |- *. lia.
    + unfold crlf in H. cbn [app] in H.
      apply (scan_content_shorter (10 :: dash_boundary b) R' Ht c _ c' r' Hlen); [|exact H].
      destruct Hcases as [Hs|Hs]; [rewrite Hpre in Hs; cbn [andb] in Hs; discriminate|].
      apply (live_beyond _ c Hs). intros j Hj.
      exact (no_cr_inside _ _ (db_no_cr b Hb) c j Hpre Hj).
  - unfold crlf in H. cbn [app] in H.
    apply (scan_content_shorter (10 :: dash_boundary b) R' Ht c 0 c' r' (Nat.le_0_l _)); [|exact H].
    cbn [skipn]. destruct Hcases as [Hs|Hs]; [|exact Hs].
    apply andb_prop in Hs. destruct Hs as [Hs _].
    apply (has_prefix_longer _ _ (13 :: R')) in Hs. rewrite Hs in E. discriminate.
Qed.

Lemma rest_starts_cr b ps : exists R', mp_render_rest b ps = 13 :: R'.
Proof. destruct ps as [|p ps]; eexists; reflexivity. Qed.

(* THE PROVISO IS EXACT (first part): a content with a live delimiter never comes back as written *)
Theorem multipart_live_delimiter_breaks : forall b h c ps fuel,
  boundary_ok b = true -> hdr_ok h = true -> no_live_delim b c = false ->
  mp_parse fuel b (mp_render b ((h, c) :: ps)) <> Some ((h, c) :: ps).
Proof.
  intros b h c ps fuel Hb Hh Hc. unfold mp_parse.
  destruct b as [|x b'] eqn:Eb; [discriminate|]. rewrite <- Eb in *. clear Eb x b'.
  destruct fuel as [|f]; [discriminate|].
  cbn [mp_parts mp_render]. unfold mp_part. cbn [fst snd]. rewrite <- !app_assoc.
  rewrite next_part_first; [|exact Hb|lia].
  rewrite (hdr_block_written h _ Hh).
  destruct (hdr_valid h); [|discriminate].
  destruct (rest_starts_cr b ps) as [R' HR]. rewrite HR.
  destruct (scan_part b crlf (c ++ 13 :: R')) as [[c' r']|] eqn:Es; [|discriminate].
  pose proof (scan_part_shorter b c R' c' r' Hb Hc Es) as Hlt.
  destruct (mp_parts f b crlf false r') as [qs|]; [|discriminate].
  intros Heq. injection Heq as H1 H2. subst c'. lia.
Qed.

(* what the handler is handed: the content found under a header text is the content written under it *)
Corollary multipart_content_roundtrip : forall b parts key,
  boundary_ok b = true -> Forall (part_ok b) parts ->
  option_map (part_content key) (mp_parse (length (mp_render b parts)) b (mp_render b parts)) =
  Some (part_content key parts).
Proof. intros b parts key Hb Hps. now rewrite multipart_roundtrip. Qed.

(* ---------- examples ---------- *)

Definition s2b (s : string) : bytes := map nat_of_ascii (list_ascii_of_string s).

(* the writer's kind of boundary (NewWriter draws 60 hex digits; a short one here) *)
Definition ex_boundary : bytes := s2b "5f3a9c01d2".
(* the two header blocks client/request.go writes: WriteField for the form field, CreatePart for the file *)
Definition ex_hdr_f1 : bytes := s2b "Content-Disposition: form-data; name=""f1""" ++ crlf.
Definition ex_hdr_up : bytes :=
  s2b "Content-Disposition: form-data; name=""up""; filename=""f.bin""" ++ crlf ++
  s2b "Content-Type: application/octet-stream" ++ crlf.
(* contents with CR, LF, dashes, and the delimiter cut short by one byte *)
Definition ex_c1 : bytes := [13; 10; 45; 45] ++ s2b "5f3a9c01d" ++ [13; 13; 10; 10; 45; 45; 0; 255].
Definition ex_c2 : bytes := s2b "--" ++ [13; 10; 45] ++ s2b "5f3a9c01d2" ++ crlf ++ s2b "--5f3a9c01d" ++ crlf.
Definition ex_parts : list (bytes * bytes) := [(ex_hdr_f1, ex_c1); (ex_hdr_up, ex_c2)].

Example ex_hypotheses_hold : boundary_ok ex_boundary = true /\ forallb (part_okb ex_boundary) ex_parts = true.
Proof. vm_compute. split; reflexivity. Qed.

Example ex_roundtrip :
  mp_parse (length (mp_render ex_boundary ex_parts)) ex_boundary (mp_render ex_boundary ex_parts) = Some ex_parts.
Proof. vm_compute. reflexivity. Qed.

Example ex_no_parts : mp_parse 1 ex_boundary (mp_render ex_boundary []) = Some [].
Proof. vm_compute. reflexivity. Qed.

(* THE PROVISO IS NECESSARY. A content that holds the delimiter followed by a line end is cut there: what follows
   is read as another part. One part is written, two come back, and the first is no longer what was written. *)
Definition bad_content : bytes :=
  s2b "kept" ++ crlf ++ s2b "--5f3a9c01d2" ++ crlf ++
  s2b "Content-Disposition: form-data; name=""f1""" ++ crlf ++ crlf ++ s2b "injected".

Definition ex_kept : bytes := s2b "kept".
Definition ex_injected : bytes := s2b "injected".

Theorem multipart_roundtrip_without_proviso_refuted :
  exists b h c, boundary_ok b = true /\ hdr_ok h = true /\ hdr_valid h = true /\
    mp_parse (length (mp_render b [(h, c)])) b (mp_render b [(h, c)]) =
    Some [(h, ex_kept); (h, ex_injected)].
Proof. exists ex_boundary, ex_hdr_f1, bad_content. vm_compute. repeat split; reflexivity. Qed.

(* so is its second half: a content that merely STARTS with dash dash boundary (no line end before it inside the
   content: the one the blank line supplies counts) is read as empty, and the rest of it as a further part *)
Definition bad_start : bytes :=
  s2b "--5f3a9c01d2" ++ crlf ++ s2b "X-Injected: 1" ++ crlf ++ crlf ++ s2b "tail".

Definition ex_injected_hdr : bytes := s2b "X-Injected: 1" ++ crlf.
Definition ex_tail : bytes := s2b "tail".

Theorem multipart_roundtrip_delimiter_at_start_refuted :
  exists b h c, boundary_ok b = true /\ hdr_ok h = true /\ hdr_valid h = true /\
    contains (crlf ++ dash_boundary b) c = false /\
    mp_parse (length (mp_render b [(h, c)])) b (mp_render b [(h, c)]) =
    Some [(h, []); (ex_injected_hdr, ex_tail)].
Proof. exists ex_boundary, ex_hdr_f1, bad_start. vm_compute. repeat split; reflexivity. Qed.

(* the plain proviso asks for more than is needed, the sharp one does not: a delimiter followed by an ordinary byte, or
   by one dash and then something else, is content (matchAfterPrefix) *)
Definition ex_lookalike : bytes :=
  s2b "a" ++ crlf ++ s2b "--5f3a9c01d2x" ++ crlf ++ s2b "--5f3a9c01d2-y" ++ crlf ++ s2b "--5f3a9c01d2-".

Example ex_delimiter_lookalike_is_content :
  no_delim ex_boundary ex_lookalike = false /\ no_live_delim ex_boundary ex_lookalike = true /\
  mp_parse 1000 ex_boundary (mp_render ex_boundary [(ex_hdr_f1, ex_lookalike)]) = Some [(ex_hdr_f1, ex_lookalike)].
Proof. vm_compute. repeat split; reflexivity. Qed.

(* a delimiter at the very end of a content is live: the line end the writer puts after the content completes it *)
Example ex_delimiter_at_end_is_live :
  let c := s2b "a" ++ crlf ++ s2b "--5f3a9c01d2" in
  no_live_delim ex_boundary c = false /\
  mp_parse 1000 ex_boundary (mp_render ex_boundary [(ex_hdr_f1, c)]) = None.
Proof. vm_compute. split; reflexivity. Qed.
