(* GateProofs.v — proofs about the C06 model (Gate.v) against GateSpec.v. *)
From V Require Import GateSpec.

Lemma existsb_orb {A} (f g : A -> bool) l : existsb (fun x => f x || g x) l = existsb f l || existsb g l.
Proof.
  induction l as [|x l IH]; [reflexivity|]. cbn [existsb]. rewrite IH.
  destruct (f x), (g x), (existsb f l), (existsb g l); reflexivity.
Qed.

Lemma existsb_false {A} (l : list A) : existsb (fun _ => false) l = false.
Proof. induction l; [reflexivity|exact IHl]. Qed.

Lemma existsb_map {A B} (f : B -> bool) (g : A -> B) l : existsb f (map g l) = existsb (fun x => f (g x)) l.
Proof. induction l as [|x l IH]; [reflexivity|]. cbn [map existsb]. now rewrite IH. Qed.

(* validateContentType decides exactly `admitted`, provided re-parsing a parsed media type gives it back *)
Lemma validate_is_admitted consumes mt :
  validate_content_type consumes (Some mt) mt = admitted consumes mt.
Proof.
  unfold validate_content_type, admitted. destruct consumes as [|e r]; [reflexivity|].
  cbn [is_nilb orb]. set (l := e :: r). unfold entry_admits, contains_ci.
  rewrite !existsb_map, !existsb_orb. unfold type_of.
  destruct (existsb (fun x => ci_eqb mt (strip_params x)) l); [reflexivity|].
  destruct (existsb (fun x => ci_eqb star_slash_star (strip_params x)) l); [reflexivity|].
  cbn [orb]. destruct (split_slash mt) as [|p0 [|p1 [|p2 q]]]; try (symmetry; apply existsb_false).
  rewrite existsb_map. reflexivity.
Qed.

Definition outcome (g : list nat * option bytes) : option nat * option bytes := (first_status g, decoding_consumer g).

Theorem gate_typed_expected hasbody parse consumes keys :
  outcome (gate_typed hasbody parse parse consumes keys) = expected hasbody parse consumes keys.
Proof.
  unfold gate_typed, expected, outcome. destruct hasbody; [|reflexivity]. destruct parse as [mt|]; [|reflexivity].
  rewrite validate_is_admitted. destruct (admitted consumes mt); [|reflexivity].
  unfold lookup_consumer. destruct (existsb (bytes_eqb mt) keys); reflexivity.
Qed.

Theorem gate_untyped_expected hasbody parse consumes keys :
  parse <> Some [] ->
  outcome (gate_untyped hasbody parse parse consumes keys) = expected hasbody parse consumes keys.
Proof.
  intro NE. unfold gate_untyped, expected, outcome. destruct hasbody; [|reflexivity]. destruct parse as [mt|]; [|reflexivity].
  rewrite validate_is_admitted. destruct mt as [|c mt']; [contradiction|]. set (mt := c :: mt').
  unfold lookup_consumer. destruct (admitted consumes mt); destruct (existsb (bytes_eqb mt) keys); reflexivity.
Qed.

Theorem typed_untyped_agree hasbody parse consumes keys :
  parse <> Some [] ->
  outcome (gate_typed hasbody parse parse consumes keys) = outcome (gate_untyped hasbody parse parse consumes keys).
Proof. intro NE. rewrite gate_typed_expected, gate_untyped_expected by exact NE. reflexivity. Qed.

(* readable consequences of `expected` *)
Theorem consumer_only_if_admitted hasbody parse consumes keys k :
  snd (expected hasbody parse consumes keys) = Some k ->
  hasbody = true /\ parse = Some k /\ admitted consumes k = true /\ In k keys.
Proof.
  unfold expected. destruct hasbody; [|discriminate]. destruct parse as [mt|]; [|discriminate].
  destruct (admitted consumes mt) eqn:A; [|discriminate]. destruct (existsb (bytes_eqb mt) keys) eqn:K; [|discriminate].
  cbn. intro H. injection H as <-. repeat split; auto.
  apply existsb_exists in K. destruct K as (x & Hx & E). apply bytes_eqb_eq in E. now subst.
Qed.

Theorem not_admitted_415 parse consumes keys mt :
  parse = Some mt -> admitted consumes mt = false -> expected true parse consumes keys = (Some 415, None).
Proof. intros -> A. unfold expected. now rewrite A. Qed.

Theorem unparsable_400 consumes keys : expected true None consumes keys = (Some 400, None).
Proof. reflexivity. Qed.

Theorem no_body_no_gate parse consumes keys : expected false parse consumes keys = (None, None).
Proof. reflexivity. Qed.

Lemma ci_eqb_refl a : ci_eqb a a = true.
Proof. unfold ci_eqb. apply bytes_eqb_refl. Qed.

(* lower-casing does not touch semicolons, so it commutes with cutting at the first one *)
Lemma to_lower_semicolon c : Nat.eqb (to_lower c) semicolon = Nat.eqb c semicolon.
Proof.
  unfold to_lower, semicolon. destruct ((65 <=? c) && (c <=? 90)) eqn:E; [|reflexivity].
  apply andb_true_iff in E. destruct E as [E1 E2]. apply Nat.leb_le in E1, E2.
  destruct (Nat.eqb_spec (c + 32) 59); destruct (Nat.eqb_spec c 59); try reflexivity; lia.
Qed.

Lemma lower_span_semicolon e :
  lower (fst (span (fun c => negb (Nat.eqb c semicolon)) e)) = fst (span (fun c => negb (Nat.eqb c semicolon)) (lower e)).
Proof.
  induction e as [|c r IH]; [reflexivity|]. cbn [span lower map]. rewrite to_lower_semicolon.
  destruct (negb (Nat.eqb c semicolon)); [|reflexivity].
  destruct (span _ r) as [a b] eqn:S1. destruct (span _ (map to_lower r)) as [a' b'] eqn:S2.
  unfold lower in *. rewrite S2 in IH. cbn [fst map] in *. now rewrite IH.
Qed.

(* the API default media type (itself without parameters) is in every consumes list AddRoute builds, hence admitted *)
Theorem default_admitted declared default :
  default <> [] -> strip_params default = default -> admitted (add_route_consumes declared default) default = true.
Proof.
  intros NE SP. unfold add_route_consumes. destruct default as [|c d]; [contradiction|]. set (df := c :: d) in *.
  unfold admitted. destruct (contains_ci declared df) eqn:C.
  - apply orb_true_iff. right. unfold contains_ci in C. apply existsb_exists in C. destruct C as (e & He & E).
    apply existsb_exists. exists e. split; [exact He|]. unfold entry_admits.
    (* the listed entry equals the default, which has no parameters: stripping changes nothing up to case *)
    assert (S : ci_eqb df (strip_params e) = true).
    { unfold ci_eqb in *. apply bytes_eqb_eq in E. apply bytes_eqb_eq.
      rewrite <- SP at 1. unfold strip_params. rewrite !lower_span_semicolon. now rewrite E. }
    now rewrite S.
  - apply orb_true_iff. right. rewrite existsb_app. cbn [existsb]. unfold entry_admits. rewrite SP, ci_eqb_refl.
    cbn. apply orb_true_r.
Qed.

Example admitted_examples :
  let js := [97;47;106] in   (* a/j *)
  admitted [[97;47;42]] js = true /\ admitted [[42;47;42]] js = true /\ admitted [[65;47;74]] js = true /\
  admitted [[98;47;106]] js = false /\ admitted [] js = true.
Proof. repeat split; reflexivity. Qed.
