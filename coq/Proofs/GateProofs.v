(* GateProofs.v — proofs about the C06 model (Gate.v) against GateSpec.v. *)
From V Require Import GateSpec.

Lemma existsb_orb {A} (f g : A -> bool) l : existsb (fun x => f x || g x) l = existsb f l || existsb g l.
Proof.
  induction l as [|x l IH]; [reflexivity|]. cbn [existsb]. rewrite IH.
  destruct (f x), (g x), (existsb f l), (existsb g l); reflexivity.
Qed.

Lemma existsb_false {A} (l : list A) : existsb (fun _ => false) l = false.
Proof. induction l; [reflexivity|exact IHl]. Qed.

Lemma existsb_map {A B} (f : B -> bool) (g : A -> B) l : existsb f (map g l) = existsb (fun x => f (g x)) l.
Proof. induction l as [|x l IH]; [reflexivity|]. cbn [map existsb]. now rewrite IH. Qed.

(* validateContentType decides exactly `admitted`, provided re-parsing a parsed media type gives it back *)
Lemma validate_is_admitted consumes mt :
  validate_content_type consumes (Some mt) mt = admitted consumes mt.
Proof.
  unfold validate_content_type, admitted. destruct consumes as [|e r]; [reflexivity|].
  cbn [is_nilb orb]. set (l := e :: r). unfold entry_admits, contains_ci.
  rewrite !existsb_map, !existsb_orb. unfold type_of.
  destruct (existsb (fun x => ci_eqb mt (strip_params x)) l); [reflexivity|].
  destruct (existsb (fun x => ci_eqb star_slash_star (strip_params x)) l); [reflexivity|].
  cbn [orb]. destruct (split_slash mt) as [|p0 [|p1 [|p2 q]]]; try (symmetry; apply existsb_false).
  rewrite existsb_map. reflexivity.
Qed.

Definition outcome (g : list nat * option bytes) : option nat * option bytes := (first_status g, decoding_consumer g).

Theorem gate_typed_expected hasbody parse consumes keys :
  outcome (gate_typed hasbody parse parse consumes keys) = expected hasbody parse consumes keys.
Proof.
  unfold gate_typed, expected, outcome. destruct hasbody; [|reflexivity]. destruct parse as [mt|]; [|reflexivity].
  rewrite validate_is_admitted. destruct (admitted consumes mt); [|reflexivity].
  unfold lookup_consumer. destruct (existsb (bytes_eqb mt) keys); reflexivity.
Qed.

Theorem gate_untyped_expected hasbody parse consumes keys :
  parse <> Some [] ->
  outcome (gate_untyped hasbody parse parse consumes keys) = expected hasbody parse consumes keys.
Proof.
  intro NE. unfold gate_untyped, expected, outcome. destruct hasbody; [|reflexivity]. destruct parse as [mt|]; [|reflexivity].
  rewrite validate_is_admitted. destruct mt as [|c mt']; [contradiction|]. set (mt := c :: mt').
  unfold lookup_consumer. destruct (admitted consumes mt); destruct (existsb (bytes_eqb mt) keys); reflexivity.
Qed.

Theorem typed_untyped_agree hasbody parse consumes keys :
  parse <> Some [] ->
  outcome (gate_typed hasbody parse parse consumes keys) = outcome (gate_untyped hasbody parse parse consumes keys).
Proof. intro NE. rewrite gate_typed_expected, gate_untyped_expected by exact NE. reflexivity. Qed.

(* readable consequences of `expected` *)
Theorem consumer_only_if_admitted hasbody parse consumes keys k :
  snd (expected hasbody parse consumes keys) = Some k ->
  hasbody = true /\ parse = Some k /\ admitted consumes k = true /\ In k keys.
Proof.
  unfold expected. destruct hasbody; [|discriminate]. destruct parse as [mt|]; [|discriminate].
  destruct (admitted consumes mt) eqn:A; [|discriminate]. destruct (existsb (bytes_eqb mt) keys) eqn:K; [|discriminate].
  cbn. intro H. injection H as <-. repeat split; auto.
  apply existsb_exists in K. destruct K as (x & Hx & E). apply bytes_eqb_eq in E. now subst.
Qed.

Theorem not_admitted_415 parse consumes keys mt :
  parse = Some mt -> admitted consumes mt = false -> expected true parse consumes keys = (Some 415, None).
Proof. intros -> A. unfold expected. now rewrite A. Qed.

Theorem unparsable_400 consumes keys : expected true None consumes keys = (Some 400, None).
Proof. reflexivity. Qed.

Theorem no_body_no_gate parse consumes keys : expected false parse consumes keys = (None, None).
Proof. reflexivity. Qed.

Lemma ci_eqb_refl a : ci_eqb a a = true.
Proof. unfold ci_eqb. apply bytes_eqb_refl. Qed.

(* lower-casing does not touch semicolons, so it commutes with cutting at the first one *)
Lemma to_lower_semicolon c : Nat.eqb (to_lower c) semicolon = Nat.eqb c semicolon.
Proof.
  unfold to_lower, semicolon. destruct ((65 <=? c) && (c <=? 90)) eqn:E; [|reflexivity].
  apply andb_true_iff in E. destruct E as [E1 E2]. apply Nat.leb_le in E1, E2.
  destruct (Nat.eqb_spec (c + 32) 59); destruct (Nat.eqb_spec c 59); try reflexivity; lia.
Qed.

Lemma lower_span_semicolon e :
  lower (fst (span (fun c => negb (Nat.eqb c semicolon)) e)) = fst (span (fun c => negb (Nat.eqb c semicolon)) (lower e)).
Proof.
  induction e as [|c r IH]; [reflexivity|]. cbn [span lower map]. rewrite to_lower_semicolon.
  destruct (negb (Nat.eqb c semicolon)); [|reflexivity].
  destruct (span _ r) as [a b] eqn:S1. destruct (span _ (map to_lower r)) as [a' b'] eqn:S2.
  unfold lower in *. rewrite S2 in IH. cbn [fst map] in *. now rewrite IH.
Qed.

(* the API default media type (itself without parameters) is in every consumes list AddRoute builds, hence admitted *)
Theorem default_admitted declared default :
  default <> [] -> strip_params default = default -> admitted (add_route_consumes declared default) default = true.
Proof.
  intros NE SP. unfold add_route_consumes. destruct default as [|c d]; [contradiction|]. set (df := c :: d) in *.
  unfold admitted. destruct (contains_ci declared df) eqn:C.
  - apply orb_true_iff. right. unfold contains_ci in C. apply existsb_exists in C. destruct C as (e & He & E).
    apply existsb_exists. exists e. split; [exact He|]. unfold entry_admits.
    (* the listed entry equals the default, which has no parameters: stripping changes nothing up to case *)
    assert (S : ci_eqb df (strip_params e) = true).
    { unfold ci_eqb in *. apply bytes_eqb_eq in E. apply bytes_eqb_eq.
      rewrite <- SP at 1. unfold strip_params. rewrite !lower_span_semicolon. now rewrite E. }
    now rewrite S.
  - apply orb_true_iff. right. rewrite existsb_app. cbn [existsb]. unfold entry_admits. rewrite SP, ci_eqb_refl.
    cbn. apply orb_true_r.
Qed.

Example admitted_examples :
  let js := [97;47;106] in   (* a/j *)
  admitted [[97;47;42]] js = true /\ admitted [[42;47;42]] js = true /\ admitted [[65;47;74]] js = true /\
  admitted [[98;47;106]] js = false /\ admitted [] js = true.
Proof. repeat split; reflexivity. Qed.

(* ---- the route's consumes list and consumer table, from what the API author wrote ---- *)

Lemma existsb_iff_eq {A} (f g : A -> bool) l l' :
  ((exists x, In x l /\ f x = true) <-> (exists x, In x l' /\ g x = true)) -> existsb f l = existsb g l'.
Proof. intro H. apply Bool.eq_iff_eq_true. rewrite !existsb_exists. exact H. Qed.

Lemma lookup_iff keys mt : existsb (bytes_eqb mt) keys = true <-> In mt keys.
Proof.
  rewrite existsb_exists. split.
  - intros (x & Hx & E). apply bytes_eqb_eq in E. now subst.
  - intro H. exists mt. split; [exact H|apply bytes_eqb_refl].
Qed.

Lemma all_lower_In l e : all_lower l = true -> In e l -> lower e = e.
Proof. unfold all_lower. rewrite forallb_forall. intros H I. apply bytes_eqb_eq. now apply H. Qed.

(* for lists spelled in lower case, AddRoute builds the declared list plus the default (as a set) *)
Lemma add_route_same_elements declared default :
  all_lower declared = true -> lower default = default ->
  forall x, In x (add_route_consumes declared default) <-> In x (spec_consumes declared default).
Proof.
  intros LD Ld x. unfold add_route_consumes, spec_consumes. destruct default as [|c d]; [reflexivity|].
  cbn [is_nilb]. set (df := c :: d) in *.
  destruct (contains_ci declared df) eqn:C; [|reflexivity].
  unfold contains_ci in C. apply existsb_exists in C. destruct C as (e & He & E).
  unfold ci_eqb in E. apply bytes_eqb_eq in E. rewrite Ld, (all_lower_In _ _ LD He) in E. subst e.
  rewrite in_app_iff. cbn [In]. split; [auto|]. intros [H|[H|[]]]; [exact H|now subst].
Qed.

Lemma is_nilb_same_elements {A} (l l' : list A) : (forall x, In x l <-> In x l') -> is_nilb l = is_nilb l'.
Proof.
  intro H. destruct l as [|a r], l' as [|a' r']; try reflexivity.
  - exfalso. apply (proj2 (H a')). now left.
  - exfalso. apply (proj1 (H a)). now left.
Qed.

Lemma existsb_same_elements {A} (f : A -> bool) l l' : (forall x, In x l <-> In x l') -> existsb f l = existsb f l'.
Proof.
  intro H. apply existsb_iff_eq. split; intros (x & I & E); exists x; (split; [now apply H|exact E]).
Qed.

Lemma admitted_same_elements cs cs' mt : (forall x, In x cs <-> In x cs') -> admitted cs mt = admitted cs' mt.
Proof.
  intro H. unfold admitted. rewrite (is_nilb_same_elements _ _ H). f_equal. now apply existsb_same_elements.
Qed.

Lemma listed_same_elements cs cs' mt : (forall x, In x cs <-> In x cs') -> listed cs mt = listed cs' mt.
Proof. intro H. unfold listed. now apply existsb_same_elements. Qed.

Lemma listed_iff cs mt : listed cs mt = true <-> In mt (map strip_params cs).
Proof.
  unfold listed. rewrite existsb_exists, in_map_iff. split.
  - intros (e & I & E). apply bytes_eqb_eq in E. exists e. now split.
  - intros (e & E & I). exists e. split; [exact I|]. apply bytes_eqb_eq. now symmetry.
Qed.

(* looking a media type up in the consumer table ConsumersFor builds *)
Lemma route_lookup cs registered mt :
  existsb (bytes_eqb mt) (route_consumers cs registered) = listed cs mt && existsb (bytes_eqb mt) registered.
Proof.
  apply Bool.eq_iff_eq_true. rewrite andb_true_iff, lookup_iff, listed_iff. unfold route_consumers.
  rewrite filter_In. reflexivity.
Qed.

Lemma spec_lookup cs registered mt :
  existsb (bytes_eqb mt) (filter (listed cs) registered) = listed cs mt && existsb (bytes_eqb mt) registered.
Proof.
  apply Bool.eq_iff_eq_true. rewrite andb_true_iff, !lookup_iff, filter_In. tauto.
Qed.

Lemma expected_route_eq hb parse declared default registered :
  all_lower declared = true -> lower default = default ->
  expected hb parse (add_route_consumes declared default)
           (route_consumers (add_route_consumes declared default) registered)
  = expected_route hb parse declared default registered.
Proof.
  intros LD Ld. unfold expected_route, expected, spec_keys.
  destruct hb; [|reflexivity]. destruct parse as [mt|]; [|reflexivity].
  rewrite (admitted_same_elements _ _ mt (add_route_same_elements _ _ LD Ld)).
  rewrite route_lookup, spec_lookup, (listed_same_elements _ _ mt (add_route_same_elements _ _ LD Ld)).
  reflexivity.
Qed.

(* AddRoute + ConsumersFor + the gate, end to end, is the specification over what the API author wrote *)
Theorem route_typed_expected hb parse declared default registered :
  all_lower declared = true -> lower default = default ->
  outcome (gate_typed hb parse parse (add_route_consumes declared default)
                      (route_consumers (add_route_consumes declared default) registered))
  = expected_route hb parse declared default registered.
Proof. intros LD Ld. rewrite gate_typed_expected. now apply expected_route_eq. Qed.

Theorem route_untyped_expected hb parse declared default registered :
  parse <> Some [] -> all_lower declared = true -> lower default = default ->
  outcome (gate_untyped hb parse parse (add_route_consumes declared default)
                        (route_consumers (add_route_consumes declared default) registered))
  = expected_route hb parse declared default registered.
Proof. intros NE LD Ld. rewrite gate_untyped_expected by exact NE. now apply expected_route_eq. Qed.

(* the parameter-free API default is named by an entry of every consumes list AddRoute builds ... *)
Theorem default_listed declared default :
  default <> [] -> strip_params default = default -> listed_ci (add_route_consumes declared default) default = true.
Proof.
  intros NE SP. unfold add_route_consumes. destruct default as [|c d]; [contradiction|]. set (df := c :: d) in *.
  unfold listed_ci. destruct (contains_ci declared df) eqn:C.
  - unfold contains_ci in C. apply existsb_exists in C. destruct C as (e & He & E).
    apply existsb_exists. exists e. split; [exact He|].
    unfold ci_eqb in *. apply bytes_eqb_eq in E. apply bytes_eqb_eq.
    rewrite <- SP at 1. unfold strip_params. rewrite !lower_span_semicolon. now rewrite E.
  - rewrite existsb_app. cbn [existsb]. rewrite SP, ci_eqb_refl. cbn. apply orb_true_r.
Qed.

(* ... and a type so named is admitted *)
Theorem listed_ci_admitted consumes mt : listed_ci consumes mt = true -> admitted consumes mt = true.
Proof.
  unfold listed_ci, admitted. intro H. apply orb_true_iff. right.
  apply existsb_exists in H. destruct H as (e & I & E). apply existsb_exists. exists e. split; [exact I|].
  unfold entry_admits. now rewrite E.
Qed.

(* a body of the API default media type is decoded by the default's consumer whenever one is registered on the
   API, whatever the operation declares (wildcard entries included) *)
Lemma spec_consumes_default declared default :
  default <> [] -> spec_consumes declared default = declared ++ [default].
Proof. intro NE. unfold spec_consumes. destruct default; [contradiction|reflexivity]. Qed.

Theorem default_consumer_decodes declared default registered :
  default <> [] -> strip_params default = default -> In default registered ->
  expected_route true (Some default) declared default registered = (None, Some default).
Proof.
  intros NE SP R. unfold expected_route, expected, spec_keys. rewrite (spec_consumes_default _ _ NE).
  assert (L : listed (declared ++ [default]) default = true).
  { unfold listed. rewrite existsb_app. cbn [existsb]. rewrite SP, bytes_eqb_refl. cbn. apply orb_true_r. }
  assert (A : admitted (declared ++ [default]) default = true).
  { apply listed_ci_admitted. unfold listed_ci. rewrite existsb_app. cbn [existsb]. rewrite SP, ci_eqb_refl.
    cbn. apply orb_true_r. }
  rewrite A, spec_lookup, L. cbn [andb]. apply lookup_iff in R. now rewrite R.
Qed.

(* runtime.ContentType looks at the first header line only, and at the default when there is none or it is empty *)
Theorem content_type_first_line pmt v rest : content_type pmt (v :: rest) = content_type pmt [v].
Proof. reflexivity. Qed.
Theorem content_type_absent pmt : content_type pmt [] = pmt default_mime /\ content_type pmt [[]] = pmt default_mime.
Proof. split; reflexivity. Qed.

Example default_mime_length : length default_mime = 24 /\ nth 11 default_mime 0 = slash.
Proof. split; reflexivity. Qed.

Example route_examples :
  let js := [97;47;106] in let tx := [116;47;112] in   (* a/j  t/p *)
  let any := [[42;47;42]] in
  (* declared: the wildcard only; default a/j; consumers for both on the API *)
  expected_route true (Some js) any js [js; tx] = (None, Some js) /\
  expected_route true (Some tx) any js [js; tx] = (Some 500, None) /\
  expected_route true (Some tx) [tx] js [js] = (Some 500, None) /\
  expected_route true (Some tx) [js] [] [js; tx] = (Some 415, None) /\
  all_lower [js; tx] = true.
Proof. repeat split; reflexivity. Qed.

(* ---- histories on one Context ---- *)
Theorem gate_history_stateless default registered qs n q :
  nth_error qs n = Some q -> nth_error (gate_history default registered qs) n = Some (gate_req default registered q).
Proof. intros H. unfold gate_history. now apply map_nth_error. Qed.

Theorem gate_history_prefix_irrelevant default registered pre pre' q :
  nth_error (gate_history default registered (pre ++ [q])) (length pre) =
  nth_error (gate_history default registered (pre' ++ [q])) (length pre').
Proof.
  unfold gate_history. rewrite !map_app.
  rewrite !nth_error_app2 by (rewrite map_length; lia). rewrite !map_length, !Nat.sub_diag. reflexivity.
Qed.

Definition greq_ok (q : greq) : Prop :=
  gq_reparse q = gq_parse q /\ gq_parse q <> Some [] /\ all_lower (gq_declared q) = true.

Theorem gate_req_expected default registered q :
  greq_ok q -> lower default = default ->
  outcome (gate_req default registered q) = expected_req default registered q.
Proof.
  intros [Hr [Hne Hl]] Hd. unfold gate_req, expected_req. rewrite Hr.
  destruct (gq_typed q); [now apply route_typed_expected | now apply route_untyped_expected].
Qed.

(* every answer of a history is the specification of the single request, over the list of the operation it addresses *)
Theorem gate_history_expected default registered qs :
  lower default = default -> Forall greq_ok qs ->
  map outcome (gate_history default registered qs) = map (expected_req default registered) qs.
Proof.
  intros Hd H. unfold gate_history. rewrite map_map. apply map_ext_in. intros q Hq.
  apply gate_req_expected; [|exact Hd]. rewrite Forall_forall in H. now apply H.
Qed.

(* the entry points agree inside a history as they do on single requests *)
Theorem gate_history_entry_points_agree default registered qs qs' :
  lower default = default -> Forall greq_ok qs -> Forall greq_ok qs' ->
  map (fun q => (gq_declared q, gq_hasbody q, gq_parse q)) qs = map (fun q => (gq_declared q, gq_hasbody q, gq_parse q)) qs' ->
  map outcome (gate_history default registered qs) = map outcome (gate_history default registered qs').
Proof.
  intros Hd H H' E. rewrite !gate_history_expected by assumption.
  revert qs' H' E. induction qs as [|q r IH]; intros [|q' r'] H' E; try discriminate; [reflexivity|].
  simpl in E. inversion E as [[E1 E2 E3 E4]]. cbn [map]. f_equal.
  - unfold expected_req. now rewrite E1, E2, E3.
  - inversion H; inversion H'; subst. now apply IH.
Qed.

(* ---- the operation's parameter set ---- *)
Lemma outcome_cases (g : list nat * option bytes) :
  (fst g = [] /\ outcome g = (None, snd g)) \/ (exists c l, fst g = c :: l /\ outcome g = (Some c, None)).
Proof.
  unfold outcome, first_status, decoding_consumer. destruct (fst g) as [|c l] eqn:E.
  - left. split; reflexivity.
  - right. exists c, l. split; reflexivity.
Qed.

(* a refusal of the gate is served whatever the operation declares to read *)
Theorem reflective_refusal k form_st hasbody parse consumes keys s :
  parse <> Some [] ->
  fst (expected hasbody parse consumes keys) = Some s ->
  reflective k form_st (gate_untyped hasbody parse parse consumes keys) = (Some s, None).
Proof.
  intros NE H. rewrite <- (gate_untyped_expected hasbody parse consumes keys NE) in H.
  destruct (outcome_cases (gate_untyped hasbody parse parse consumes keys)) as [[E O]|[c [l [E O]]]];
    rewrite O in H; cbn [fst] in H; [discriminate|].
  injection H as ->. unfold reflective. rewrite E. reflexivity.
Qed.

Lemma opt_bytes_eqb_refl (o : option bytes) : opt_eqb bytes_eqb o o = true.
Proof. destruct o as [b|]; cbn; [apply bytes_eqb_refl|reflexivity]. Qed.

(* the reflective entry point meets the specification for every parameter set and every answer of the form stage *)
Theorem reflective_meets_spec k form_st hasbody parse consumes keys :
  parse <> Some [] ->
  reflective_ok k (is_some form_st) (expected hasbody parse consumes keys)
    (fst (reflective k form_st (gate_untyped hasbody parse parse consumes keys)))
    (snd (reflective k form_st (gate_untyped hasbody parse parse consumes keys)))
    (is_none (fst (reflective k form_st (gate_untyped hasbody parse parse consumes keys)))) = true.
Proof.
  intros NE. rewrite <- (gate_untyped_expected hasbody parse consumes keys NE).
  destruct (outcome_cases (gate_untyped hasbody parse parse consumes keys)) as [[E O]|[c [l [E O]]]];
    rewrite O; unfold reflective, reflective_ok; rewrite E; cbn [fst snd].
  - destruct k; cbn [is_form reads_body andb is_none is_some opt_eqb].
    + rewrite opt_bytes_eqb_refl. reflexivity.
    + reflexivity.
    + reflexivity.
    + destruct form_st as [c|]; reflexivity.
  - cbn [opt_eqb is_none negb]. rewrite Nat.eqb_refl. reflexivity.
Qed.

(* a refusal served by the reflective entry point is the gate's own, or the form stage's of a formData operation *)
Theorem reflective_refusal_origin k f hasbody parse consumes keys s :
  parse <> Some [] ->
  fst (reflective k f (gate_untyped hasbody parse parse consumes keys)) = Some s ->
  fst (expected hasbody parse consumes keys) = Some s \/ (k = KForm /\ f = Some s /\ fst (expected hasbody parse consumes keys) = None).
Proof.
  intros NE H. rewrite <- (gate_untyped_expected hasbody parse consumes keys NE).
  destruct (outcome_cases (gate_untyped hasbody parse parse consumes keys)) as [[E O]|[c [l [E O]]]];
    rewrite O; unfold reflective in H; rewrite E in H; cbn [fst] in *.
  - right. destruct k; try discriminate. auto.
  - left. exact H.
Qed.

(* ---- the response format stage comes after the gate ---- *)
(* a refusal of the gate is served by the reflective entry point whatever the Accept header asks for *)
Theorem reflective_acc_refusal k form_st acc hasbody parse consumes keys s :
  parse <> Some [] ->
  fst (expected hasbody parse consumes keys) = Some s ->
  reflective_acc k form_st acc (gate_untyped hasbody parse parse consumes keys) = (Some s, None).
Proof.
  intros NE H. rewrite <- (gate_untyped_expected hasbody parse consumes keys NE) in H.
  destruct (outcome_cases (gate_untyped hasbody parse parse consumes keys)) as [[E O]|[c [l [E O]]]];
    rewrite O in H; cbn [fst] in H; [discriminate|].
  injection H as ->. unfold reflective_acc. rewrite E. reflexivity.
Qed.

(* ... and by Context.BindValidRequest *)
Theorem typed_acc_refusal acc hasbody parse consumes keys s :
  fst (expected hasbody parse consumes keys) = Some s ->
  typed_acc hasbody acc (gate_typed hasbody parse parse consumes keys) = (Some s, None).
Proof.
  intros H. rewrite <- (gate_typed_expected hasbody parse consumes keys) in H.
  destruct (outcome_cases (gate_typed hasbody parse parse consumes keys)) as [[E O]|[c [l [E O]]]];
    rewrite O in H; cbn [fst] in H; [discriminate|].
  injection H as ->. unfold typed_acc. rewrite E. reflexivity.
Qed.

(* with a satisfiable Accept header (or none) the stage changes nothing *)
Theorem reflective_acc_satisfiable k form_st g : reflective_acc k form_st true g = reflective k form_st g.
Proof. unfold reflective_acc, reflective. destruct (fst g); reflexivity. Qed.

Theorem typed_acc_satisfiable hb g : typed_acc hb true g = outcome g.
Proof.
  unfold typed_acc, outcome, first_status, decoding_consumer. rewrite Bool.andb_false_r.
  destruct (fst g); reflexivity.
Qed.

(* the reflective entry point meets the predicate the check evaluates, for every answer of the negotiation *)
Theorem reflective_acc_meets_spec k form_st acc hasbody parse consumes keys :
  parse <> Some [] ->
  let r := reflective_acc k form_st acc (gate_untyped hasbody parse parse consumes keys) in
  gate_before_format acc (expected hasbody parse consumes keys)
    (reflective_ok k (is_some form_st) (expected hasbody parse consumes keys) (fst r) (snd r) (is_none (fst r)))
    (fst r) (snd r) (is_none (fst r)) = true.
Proof.
  intros NE r. subst r. destruct acc.
  - rewrite reflective_acc_satisfiable. cbn [gate_before_format]. now apply reflective_meets_spec.
  - cbn [gate_before_format].
    destruct (fst (expected hasbody parse consumes keys)) as [s|] eqn:X.
    + rewrite (reflective_acc_refusal k form_st false hasbody parse consumes keys s NE X).
      unfold reflective_ok. rewrite X. cbn [fst snd opt_eqb is_none negb]. rewrite Nat.eqb_refl. reflexivity.
    + rewrite <- (gate_untyped_expected hasbody parse consumes keys NE) in X.
      destruct (outcome_cases (gate_untyped hasbody parse parse consumes keys)) as [[E O]|[c [l [E O]]]];
        rewrite O in X; cbn [fst] in X; [|discriminate].
      unfold reflective_acc. rewrite E. cbn [fst snd is_none]. apply Bool.orb_true_r.
Qed.
