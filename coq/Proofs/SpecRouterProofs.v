(* SpecRouterProofs.v — lemmas about the spec-driven router model (C01). *)
From V Require Import Bytes DencoSpec DencoTrie DencoTrieProofs DencoSpecProofs PathCleanLib PathUnescapeLib PathCleanProofs SpecRouter SpecRouterSpec.

Lemma upper_idem m : upper (upper m) = upper m.
Proof.
  unfold upper. rewrite map_map. apply map_ext. intro c. unfold to_upper.
  destruct ((97 <=? c) && (c <=? 122)) eqn:E; [|now rewrite E].
  apply andb_true_iff in E as [E1 E2]. apply Nat.leb_le in E1. apply Nat.leb_le in E2.
  destruct ((97 <=? c - 32) && (c - 32 <=? 122)) eqn:F; [|reflexivity].
  apply andb_true_iff in F as [F1 F2]. apply Nat.leb_le in F1. lia.
Qed.

(* ---------- the denco layer as an equivalence ---------- *)
Lemma router_lookup_iff {V} (pats : list (bytes * V)) p v ps : wf_patset pats = true ->
  (router_lookup pats p = Found v ps <->
   exists s ns vs, is_best (entries_of pats) p s v ns vs /\ length ns = length vs /\ ps = combine ns vs).
Proof.
  intro Hwf. pose proof (router_best pats p Hwf) as Hb. split.
  - intro E. rewrite E in Hb. exact Hb.
  - intros (s & ns & vs & Hbest & Hlen & ->).
    destruct (router_lookup pats p) as [v' ps'| | |] eqn:E; try contradiction.
    + destruct Hb as (s' & ns' & vs' & Hbest' & Hlen' & ->).
      destruct (is_best_unique _ _ _ _ _ _ _ _ _ _ (wf_patset_nodup pats Hwf) Hbest Hbest') as (-> & -> & -> & ->).
      reflexivity.
    + destruct Hbest as (Hin & Hs & _). specialize (Hb _ Hin). cbn [fst] in Hb. congruence.
Qed.

Lemma router_lookup_found_iff {V} (pats : list (bytes * V)) p : wf_patset pats = true ->
  (found_b (router_lookup pats p) = true <-> exists e, In e (entries_of pats) /\ smatch (fst e) p <> None).
Proof.
  intro Hwf. pose proof (router_best pats p Hwf) as Hb. split.
  - intro F. destruct (router_lookup pats p) as [v ps| | |]; try discriminate.
    destruct Hb as (s & ns & vs & (Hin & Hs & _) & _). exists (s, (v, ns)). split; [exact Hin|]. cbn [fst]. congruence.
  - intros (e & Hin & Hm). destruct (router_lookup pats p) as [v ps| | |]; try contradiction; [reflexivity|].
    exfalso. apply Hm. exact (Hb e Hin).
Qed.

Lemma router_lookup_nil {V} q : @router_lookup V [] q = NotFound.
Proof. unfold router_lookup. cbn. destruct q; reflexivity. Qed.

(* ---------- the route table ---------- *)
Lemma table_in base all routes mth k v :
  In (k, v) (table base all routes mth) <->
  exists r, In r routes /\ upper (r_method r) = mth /\ record_of base all r = Some (k, v).
Proof.
  induction routes as [|r rest IH]; cbn [table].
  - split; [intros []|intros (r & [] & _)].
  - destruct (bytes_eqb (upper (r_method r)) mth) eqn:Em.
    + apply bytes_eqb_eq in Em. destruct (record_of base all r) as [rec|] eqn:Er.
      * cbn [In]. rewrite IH. split.
        { intros [E|(r' & H1 & H2 & H3)].
          - exists r. subst rec. split; [left; reflexivity|split; assumption].
          - exists r'. split; [right; exact H1|split; assumption]. }
        { intros (r' & [E|H1] & H2 & H3).
          - subst r'. left. congruence.
          - right. exists r'. split; [exact H1|split; assumption]. }
      * rewrite IH. split.
        { intros (r' & H1 & H2 & H3). exists r'. split; [right; exact H1|split; assumption]. }
        { intros (r' & [E|H1] & H2 & H3).
          - subst r'. congruence.
          - exists r'. split; [exact H1|split; assumption]. }
    + apply bytes_eqb_neq in Em. rewrite IH. split.
      * intros (r' & H1 & H2 & H3). exists r'. split; [right; exact H1|split; assumption].
      * intros (r' & [E|H1] & H2 & H3).
        { subst r'. contradiction. }
        { exists r'. split; [exact H1|split; assumption]. }
Qed.

(* under self-registration the record of a route is its key with its own identity twice *)
Lemma self_registered_record base routes r : self_registered base routes r = true ->
  record_of base routes r = Some (route_key base r, (path_join base (r_tpl r), (r_id r, r_id r))).
Proof.
  unfold self_registered, record_of, route_key.
  destruct (handler_for routes (r_method r) (template_of base (path_join base (r_tpl r)))) as [h|]; [|discriminate].
  intro E. apply Nat.eqb_eq in E. now rewrite <- E.
Qed.

Lemma plain_routes_in base routes r : plain_routes base routes = true -> In r routes ->
  plain_pattern (path_join base (r_tpl r)) = true /\ self_registered base routes r = true
  /\ wf_patset (table base routes routes (upper (r_method r))) = true.
Proof.
  intros H Hin. unfold plain_routes in H. rewrite forallb_forall in H. specialize (H r Hin).
  apply andb_true_iff in H as [H H3]. apply andb_true_iff in H as [H1 H2]. auto.
Qed.

(* ---------- strings.Index ---------- *)
Lemma index_of_some pat : forall s i, index_of pat s = Some i -> exists a b, s = a ++ pat ++ b /\ length a = i.
Proof.
  induction s as [|c r IH]; intros i H; cbn [index_of] in H.
  - destruct (has_prefix pat []) eqn:E; [|discriminate]. inversion H; subst.
    apply has_prefix_spec in E. destruct E as [b E]. exists [], b. auto.
  - destruct (has_prefix pat (c :: r)) eqn:E.
    + inversion H; subst. apply has_prefix_spec in E. destruct E as [b E]. exists [], b. auto.
    + destruct (index_of pat r) as [j|] eqn:Ej; [|discriminate]. inversion H; subst.
      destruct (IH j eq_refl) as (a & b & -> & Hl). exists (c :: a), b. cbn. auto.
Qed.

Lemma rbrace_ends_seg_app a : forall b, rbrace_ends_seg (a ++ b) = true -> rbrace_ends_seg b = true.
Proof.
  induction a as [|c a IH]; intros b H; [exact H|]. cbn [app rbrace_ends_seg] in H.
  apply andb_true_iff in H as [_ H]. exact (IH b H).
Qed.

Lemma composite_at_plain pat name i : rbrace_ends_seg pat = true ->
  index_of (LBRACE :: name ++ [RBRACE]) pat = Some i ->
  composite_at pat (i + length name + 2) = false.
Proof.
  intros Hr Hi. destruct (index_of_some _ _ _ Hi) as (a & b & -> & Hl).
  unfold composite_at.
  replace (a ++ (LBRACE :: name ++ [RBRACE]) ++ b) with ((a ++ LBRACE :: name) ++ RBRACE :: b) in *
    by (rewrite <- !app_assoc; cbn; rewrite <- app_assoc; reflexivity).
  apply rbrace_ends_seg_app in Hr. cbn [rbrace_ends_seg] in Hr. rewrite Nat.eqb_refl in Hr.
  apply andb_true_iff in Hr as [Hr _].
  replace (i + length name + 2) with (length (a ++ LBRACE :: name) + 1)
    by (rewrite app_length; cbn [length]; lia).
  rewrite nth_error_app2 by lia.
  replace (length (a ++ LBRACE :: name) + 1 - length (a ++ LBRACE :: name)) with 1 by lia.
  cbn [nth_error]. destruct b as [|d b']; [reflexivity|]. cbn [nth_error]. now rewrite Hr.
Qed.

Definition unescape_pair (p : bytes * bytes) : bytes * bytes := (fst p, unescape_or_raw (snd p)).

Lemma bind_params_plain pat : rbrace_ends_seg pat = true -> forall rp acc,
  (forall n, In n (map fst rp) -> exists i, index_of (LBRACE :: n ++ [RBRACE]) pat = Some i) ->
  bind_params pat rp acc = POk (acc ++ map unescape_pair rp).
Proof.
  intros Hr. induction rp as [|[n v] rest IH]; intros acc Hn; cbn [bind_params map].
  - now rewrite app_nil_r.
  - destruct (Hn n (or_introl eq_refl)) as [i Hi].
    unfold xpos_of. rewrite Hi. rewrite (composite_at_plain pat n i Hr Hi).
    rewrite IH by (intros n' Hn'; apply Hn; right; exact Hn').
    rewrite <- app_assoc. reflexivity.
Qed.

Lemma map_unescape_combine ns : forall vs,
  map unescape_pair (combine ns vs) = combine ns (map unescape_or_raw vs).
Proof.
  induction ns as [|n ns IH]; intros [|v vs]; cbn; try reflexivity. now rewrite IH.
Qed.

Lemma in_combine_fst {A B} (ns : list A) : forall (vs : list B) n, In n (map fst (combine ns vs)) -> In n ns.
Proof.
  induction ns as [|x ns IH]; intros [|v vs] n H; cbn in *; try contradiction.
  destruct H as [H|H]; [auto|right; eapply IH; eauto].
Qed.

(* ---------- lookup on plain route sets ---------- *)
Definition best_route (base : bytes) (routes : list route) (m p : bytes) (r : route) (vs : list bytes) : Prop :=
  In r routes /\ under m r /\ fits base r p = Some vs /\
  forall r', In r' routes -> under m r' -> fits base r' p <> None ->
             route_shape base r' = route_shape base r \/ pref (route_shape base r) (route_shape base r').

Lemma entry_of_route base routes m r : plain_routes base routes = true -> In r routes -> under m r ->
  In (route_shape base r, ((path_join base (r_tpl r), (r_id r, r_id r)), route_names base r))
     (entries_of (table base routes routes (upper m))).
Proof.
  intros Hp Hin Hu. destruct (plain_routes_in _ _ _ Hp Hin) as (_ & Hs & _).
  apply in_entries_of. exists (route_key base r, (path_join base (r_tpl r), (r_id r, r_id r))). split.
  - apply table_in. exists r. split; [exact Hin|]. split; [exact Hu|]. exact (self_registered_record _ _ _ Hs).
  - reflexivity.
Qed.

Lemma route_of_entry base routes mth e : plain_routes base routes = true ->
  In e (entries_of (table base routes routes mth)) ->
  exists r, In r routes /\ upper (r_method r) = mth /\
    e = (route_shape base r, ((path_join base (r_tpl r), (r_id r, r_id r)), route_names base r)).
Proof.
  intros Hp He. apply in_entries_of in He. destruct He as ([k v] & Hin & ->).
  apply table_in in Hin. destruct Hin as (r & Hin & Hm & Hrec). exists r. split; [exact Hin|]. split; [exact Hm|].
  destruct (plain_routes_in _ _ _ Hp Hin) as (_ & Hs & _).
  rewrite (self_registered_record _ _ _ Hs) in Hrec. inversion Hrec; subst. reflexivity.
Qed.

Lemma wf_table_of_method base routes m r : plain_routes base routes = true -> In r routes -> under m r ->
  wf_patset (table base routes routes (upper m)) = true.
Proof.
  intros Hp Hin Hu. destruct (plain_routes_in _ _ _ Hp Hin) as (_ & _ & Hw). now rewrite <- Hu.
Qed.

Lemma table_empty base routes mth : (forall r, In r routes -> upper (r_method r) <> mth) ->
  forall all, table base all routes mth = [].
Proof.
  intros H all. induction routes as [|r rest IH]; [reflexivity|]. cbn [table].
  destruct (bytes_eqb (upper (r_method r)) mth) eqn:E.
  - apply bytes_eqb_eq in E. exfalso. exact (H r (or_introl eq_refl) E).
  - apply IH. intros r' Hr'. apply H. right. exact Hr'.
Qed.

Lemma names_occur_in pat n : names_occur pat = true -> In n (snd (key_shape (convert_template pat))) ->
  exists i, index_of (LBRACE :: n ++ [RBRACE]) pat = Some i.
Proof.
  unfold names_occur. rewrite forallb_forall. intros H Hin. specialize (H n Hin).
  destruct (index_of (LBRACE :: n ++ [RBRACE]) pat) as [i|]; [now exists i|discriminate].
Qed.

Theorem lookup_plain base routes m p pat op h ps : plain_routes base routes = true ->
  (lookup base routes m p = LFound pat op h ps <->
   exists r vs, best_route base routes m p r vs /\ pat = path_join base (r_tpl r) /\ op = r_id r /\ h = r_id r /\
                ps = combine (route_names base r) (map unescape_or_raw vs)).
Proof.
  intro Hp. unfold lookup. split.
  - destruct (router_lookup (table base routes routes (upper m)) (clean p)) as [[pat0 [op0 h0]] rp| | |] eqn:E; try discriminate.
    assert (Hne : table base routes routes (upper m) <> []).
    { intro Z. rewrite Z in E. rewrite router_lookup_nil in E. discriminate. }
    assert (Hex : exists r0, In r0 routes /\ under m r0).
    { destruct (table base routes routes (upper m)) as [|[k v] t] eqn:Et; [contradiction|].
      assert (Hin : In (k, v) (table base routes routes (upper m))) by (rewrite Et; left; reflexivity).
      apply table_in in Hin. destruct Hin as (r0 & H1 & H2 & _). exists r0. auto. }
    destruct Hex as (r0 & Hin0 & Hu0).
    pose proof (wf_table_of_method _ _ _ _ Hp Hin0 Hu0) as Hwf.
    apply (router_lookup_iff _ _ _ _ Hwf) in E. destruct E as (s & ns & vs & Hbest & Hlen & ->).
    pose proof Hbest as (Hin & Hs & Hl).
    destruct (route_of_entry _ _ _ _ Hp Hin) as (r & Hr & Hm & Ee). inversion Ee; subst s pat0 op0 h0 ns.
    destruct (plain_routes_in _ _ _ Hp Hr) as (Hpl & _ & _). apply andb_true_iff in Hpl as [Hrb Hno].
    rewrite (bind_params_plain _ Hrb).
    2:{ intros n Hn. apply in_combine_fst in Hn. exact (names_occur_in _ _ Hno Hn). }
    cbn [app]. intro F. inversion F; subst. exists r, vs. split; [|rewrite map_unescape_combine; auto].
    split; [exact Hr|]. split; [exact Hm|]. split; [exact Hs|].
    intros r' Hr' Hu' Hf'. pose proof (entry_of_route _ _ _ _ Hp Hr' Hu') as He'.
    destruct (Hl _ He' Hf') as [Eq|Hpref]; [left; now inversion Eq|right; exact Hpref].
  - intros (r & vs & (Hr & Hu & Hf & Hl) & -> & -> & -> & ->).
    pose proof (wf_table_of_method _ _ _ _ Hp Hr Hu) as Hwf.
    assert (E : router_lookup (table base routes routes (upper m)) (clean p)
                = Found (path_join base (r_tpl r), (r_id r, r_id r)) (combine (route_names base r) vs)).
    { apply (router_lookup_iff _ _ _ _ Hwf). exists (route_shape base r), (route_names base r), vs.
      split; [|split; [|reflexivity]].
      - split; [exact (entry_of_route _ _ _ _ Hp Hr Hu)|]. split; [exact Hf|].
        intros e' He' Hm'. destruct (route_of_entry _ _ _ _ Hp He') as (r' & Hr' & Hu' & ->). cbn [fst] in Hm'.
        destruct (Hl r' Hr' Hu' Hm') as [Eq|Hpref]; [left|right; exact Hpref].
        pose proof (entry_of_route _ _ _ _ Hp Hr Hu) as He. pose proof (entry_of_route _ _ _ _ Hp Hr' Hu') as He2.
        rewrite Eq in He2 |- *. f_equal.
        exact (uniq_by_shape _ _ _ _ (wf_patset_nodup _ Hwf) He2 He).
      - unfold route_names, route_shape, fits in *. rewrite key_shape_names.
        symmetry. eapply smatch_length; [|exact Hf]. apply wf_shape_wild_last. apply key_shape_wf. }
    rewrite E. destruct (plain_routes_in _ _ _ Hp Hr) as (Hpl & _ & _). apply andb_true_iff in Hpl as [Hrb Hno].
    rewrite (bind_params_plain _ Hrb).
    2:{ intros n Hn. apply in_combine_fst in Hn. exact (names_occur_in _ _ Hno Hn). }
    cbn [app]. now rewrite map_unescape_combine.
Qed.

(* ---------- serve ---------- *)
Theorem dispatch_exact base routes m p h ps : plain_routes base routes = true ->
  (serve base routes m p = Run h ps <->
   exists r vs, best_route base routes m p r vs /\ r_id r = h /\
                ps = combine (route_names base r) (map unescape_or_raw vs)).
Proof.
  intro Hp. unfold serve. split.
  - destruct (lookup base routes m p) as [pat op h0 ps0| | |] eqn:E.
    + intro F. inversion F; subst. apply (lookup_plain _ _ _ _ _ _ _ _ Hp) in E.
      destruct E as (r & vs & Hb & _ & _ & -> & ->). exists r, vs. auto.
    + destruct (other_methods base routes m p); discriminate.
    + discriminate.
    + discriminate.
  - intros (r & vs & Hb & <- & ->).
    assert (E : lookup base routes m p = LFound (path_join base (r_tpl r)) (r_id r) (r_id r)
                                                (combine (route_names base r) (map unescape_or_raw vs))).
    { apply (lookup_plain _ _ _ _ _ _ _ _ Hp). exists r, vs. auto. }
    now rewrite E.
Qed.

Lemma lookup_none_plain base routes m p : plain_routes base routes = true ->
  (forall r, In r routes -> under m r -> fits base r p = None) ->
  lookup base routes m p = LNone.
Proof.
  intros Hp Hno. unfold lookup.
  destruct (router_lookup (table base routes routes (upper m)) (clean p)) as [[pat0 [op0 h0]] rp| | |] eqn:E; [| reflexivity | |].
  - exfalso.
    assert (Hf : found_b (router_lookup (table base routes routes (upper m)) (clean p)) = true) by now rewrite E.
    destruct (table base routes routes (upper m)) as [|[k v] t] eqn:Et; [rewrite router_lookup_nil in E; discriminate|].
    assert (Hin : In (k, v) (table base routes routes (upper m))) by (rewrite Et; left; reflexivity).
    apply table_in in Hin. destruct Hin as (r0 & H1 & H2 & _).
    pose proof (wf_table_of_method _ _ m _ Hp H1 H2) as Hwf. rewrite Et in Hwf.
    apply (router_lookup_found_iff _ _ Hwf) in Hf. destruct Hf as (e & He & Hm). rewrite <- Et in He.
    destruct (route_of_entry _ _ _ _ Hp He) as (r & Hr & Hu & ->). cbn [fst] in Hm.
    apply Hm. exact (Hno r Hr Hu).
  - exfalso. destruct (table base routes routes (upper m)) as [|[k v] t] eqn:Et; [rewrite router_lookup_nil in E; discriminate|].
    assert (Hin : In (k, v) (table base routes routes (upper m))) by (rewrite Et; left; reflexivity).
    apply table_in in Hin. destruct Hin as (r0 & H1 & H2 & _).
    pose proof (wf_table_of_method _ _ m _ Hp H1 H2) as Hwf. rewrite Et in Hwf.
    pose proof (router_best _ (clean p) Hwf) as Hb. rewrite E in Hb. exact Hb.
  - exfalso. destruct (table base routes routes (upper m)) as [|[k v] t] eqn:Et; [rewrite router_lookup_nil in E; discriminate|].
    assert (Hin : In (k, v) (table base routes routes (upper m))) by (rewrite Et; left; reflexivity).
    apply table_in in Hin. destruct Hin as (r0 & H1 & H2 & _).
    pose proof (wf_table_of_method _ _ m _ Hp H1 H2) as Hwf. rewrite Et in Hwf.
    pose proof (router_best _ (clean p) Hwf) as Hb. rewrite E in Hb. exact Hb.
Qed.

Lemma dedup_in l : forall x, In x (dedup l) <-> In x l.
Proof.
  induction l as [|y l IH]; intro x; cbn [dedup]; [tauto|].
  destruct (existsb (bytes_eqb y) l) eqn:E.
  - rewrite IH. split; [auto with datatypes|]. intros [->|H]; [|exact H].
    apply existsb_exists in E. destruct E as (z & Hz & Ez). apply bytes_eqb_eq in Ez. now subst.
  - cbn [In]. rewrite IH. tauto.
Qed.

Lemma dedup_nodup l : NoDup (dedup l).
Proof.
  induction l as [|y l IH]; cbn [dedup]; [constructor|].
  destruct (existsb (bytes_eqb y) l) eqn:E; [exact IH|]. constructor; [|exact IH].
  rewrite dedup_in. intro Hin. assert (existsb (bytes_eqb y) l = true); [|congruence].
  apply existsb_exists. exists y. split; [exact Hin|apply bytes_eqb_refl].
Qed.

Lemma methods_in base routes k : plain_routes base routes = true ->
  (In k (methods base routes) <-> exists r, In r routes /\ upper (r_method r) = k).
Proof.
  intro Hp. unfold methods. rewrite dedup_in, in_map_iff. split.
  - intros (r & E & Hin). apply filter_In in Hin. exists r. tauto.
  - intros (r & Hin & E). exists r. split; [exact E|]. apply filter_In. split; [exact Hin|].
    destruct (plain_routes_in _ _ _ Hp Hin) as (_ & Hs & _). now rewrite (self_registered_record _ _ _ Hs).
Qed.

(* the other methods: exactly the methods, different from the request's, under which some template fits *)
Lemma other_methods_in base routes m p k : plain_routes base routes = true ->
  (In k (other_methods base routes m p) <->
   k <> upper m /\ exists r, In r routes /\ upper (r_method r) = k /\ fits base r p <> None).
Proof.
  intro Hp. unfold other_methods. rewrite filter_In, (methods_in _ _ _ Hp), andb_true_iff, negb_true_iff, bytes_eqb_neq.
  split.
  - intros ((r0 & Hr0 & Hk0) & Hne & Hf). split; [exact Hne|].
    assert (Ek : upper k = k) by (rewrite <- Hk0; apply upper_idem).
    assert (Hu0 : under k r0) by (unfold under; now rewrite Ek).
    pose proof (wf_table_of_method _ _ k _ Hp Hr0 Hu0) as Hwf. rewrite Ek in Hwf.
    apply (router_lookup_found_iff _ _ Hwf) in Hf. destruct Hf as (e & He & Hm).
    destruct (route_of_entry _ _ _ _ Hp He) as (r & Hr & Hu & ->). exists r. auto.
  - intros (Hne & r & Hr & Hk & Hf). split; [exists r; auto|]. split; [exact Hne|].
    assert (Ek : upper k = k) by (rewrite <- Hk; apply upper_idem).
    assert (Hu : under k r) by (unfold under; now rewrite Ek).
    pose proof (wf_table_of_method _ _ k _ Hp Hr Hu) as Hwf. rewrite Ek in Hwf.
    apply (router_lookup_found_iff _ _ Hwf).
    pose proof (entry_of_route _ _ k _ Hp Hr Hu) as He. rewrite Ek in He.
    eexists. split; [exact He|exact Hf].
Qed.

Lemma other_methods_nodup base routes m p : NoDup (other_methods base routes m p).
Proof. unfold other_methods. apply NoDup_filter. apply dedup_nodup. Qed.

Theorem allow_exact base routes m p : plain_routes base routes = true ->
  (forall r, In r routes -> under m r -> fits base r p = None) ->
  exists A, NoDup A /\
    (forall k, In k A <-> exists r, In r routes /\ upper (r_method r) = k /\ fits base r p <> None) /\
    serve base routes m p = match A with [] => R404 | _ => R405 A end.
Proof.
  intros Hp Hno. exists (other_methods base routes m p). split; [apply other_methods_nodup|]. split.
  - intro k. rewrite (other_methods_in _ _ _ _ _ Hp). split; [tauto|].
    intros (r & Hr & Hk & Hf). split; [|exists r; auto].
    intro E. apply Hf. apply Hno; [exact Hr|]. unfold under. now rewrite Hk, E.
  - unfold serve. rewrite (lookup_none_plain _ _ _ _ Hp Hno).
    destruct (other_methods base routes m p); reflexivity.
Qed.

(* the method matters only through its upper-cased form; no hypothesis on the route set *)
Theorem method_case base routes m m' p : upper m = upper m' -> serve base routes m p = serve base routes m' p.
Proof. intro E. unfold serve, lookup, other_methods. now rewrite E. Qed.

Theorem lookup_method_case base routes m m' p : upper m = upper m' -> lookup base routes m p = lookup base routes m' p.
Proof. intro E. unfold lookup. now rewrite E. Qed.

(* ---------- totality on plain route sets ---------- *)
Lemma lookup_total_plain base routes m p : plain_routes base routes = true ->
  lookup base routes m p <> LPanic /\ lookup base routes m p <> LFuel.
Proof.
  intro Hp. unfold lookup.
  destruct (router_lookup (table base routes routes (upper m)) (clean p)) as [[pat0 [op0 h0]] rp| | |] eqn:E.
  - destruct (table base routes routes (upper m)) as [|[k v] t] eqn:Et; [rewrite router_lookup_nil in E; discriminate|].
    assert (Hin : In (k, v) (table base routes routes (upper m))) by (rewrite Et; left; reflexivity).
    apply table_in in Hin. destruct Hin as (r0 & H1 & H2 & _).
    pose proof (wf_table_of_method _ _ m _ Hp H1 H2) as Hwf. rewrite Et in Hwf.
    apply (router_lookup_iff _ _ _ _ Hwf) in E. destruct E as (s & ns & vs & (Hin & _ & _) & Hlen & ->).
    rewrite <- Et in Hin.
    destruct (route_of_entry _ _ _ _ Hp Hin) as (r & Hr & Hm & Ee). inversion Ee; subst s pat0 op0 h0 ns.
    destruct (plain_routes_in _ _ _ Hp Hr) as (Hpl & _ & _). apply andb_true_iff in Hpl as [Hrb Hno].
    rewrite (bind_params_plain _ Hrb).
    2:{ intros n Hn. apply in_combine_fst in Hn. exact (names_occur_in _ _ Hno Hn). }
    split; discriminate.
  - split; discriminate.
  - exfalso. destruct (table base routes routes (upper m)) as [|[k v] t] eqn:Et; [rewrite router_lookup_nil in E; discriminate|].
    assert (Hin : In (k, v) (table base routes routes (upper m))) by (rewrite Et; left; reflexivity).
    apply table_in in Hin. destruct Hin as (r0 & H1 & H2 & _).
    pose proof (wf_table_of_method _ _ m _ Hp H1 H2) as Hwf. rewrite Et in Hwf.
    pose proof (router_best _ (clean p) Hwf) as Hb. rewrite E in Hb. exact Hb.
  - exfalso. destruct (table base routes routes (upper m)) as [|[k v] t] eqn:Et; [rewrite router_lookup_nil in E; discriminate|].
    assert (Hin : In (k, v) (table base routes routes (upper m))) by (rewrite Et; left; reflexivity).
    apply table_in in Hin. destruct Hin as (r0 & H1 & H2 & _).
    pose proof (wf_table_of_method _ _ m _ Hp H1 H2) as Hwf. rewrite Et in Hwf.
    pose proof (router_best _ (clean p) Hwf) as Hb. rewrite E in Hb. exact Hb.
Qed.

Theorem serve_total_plain base routes m p : plain_routes base routes = true ->
  serve base routes m p <> RPanic /\ serve base routes m p <> RFuel.
Proof.
  intro Hp. destruct (lookup_total_plain base routes m p Hp) as [H1 H2]. unfold serve.
  destruct (lookup base routes m p); try congruence.
  - split; discriminate.
  - destruct (other_methods base routes m p); split; discriminate.
Qed.

(* ---------- composite segments ---------- *)
Lemma has_suffix_app v suf : has_suffix suf (v ++ suf) = true.
Proof. unfold has_suffix. rewrite rev_app_distr. apply has_prefix_app. Qed.

(* a single placeholder followed by literal text: when the request segment ends with that text the
   bound value is the segment without it *)
Theorem composite_suffix_value name v suf : index_of [LBRACE] suf = None ->
  decode_composite (S (length suf)) name (v ++ suf) suf [] [] = DOk [name] [v].
Proof.
  intro H. cbn [decode_composite]. unfold braces_of, literal_value. rewrite H, has_suffix_app. cbn [app]. f_equal. f_equal.
  rewrite app_length. replace (length v + length suf - length suf) with (length v) by lia.
  rewrite firstn_app, firstn_all. replace (length v - length v) with 0 by lia. cbn. now rewrite app_nil_r.
Qed.

(* ... and when it does not, the value is the empty text and the route still answers: the suffix is
   not enforced. Witness: template /g/{a}.{b}, GET /g/xy runs the lookup with both values empty. *)
Definition composite_witness_routes : list route :=
  [mkRoute [103;101;116] [47;103;47;123;97;125;46;123;98;125] 0].
Theorem composite_refuted :
  lookup [] composite_witness_routes [71;69;84] [47;103;47;120;121]
  = LFound [47;103;47;123;97;125;46;123;98;125] 0 0 [([97], []); ([98], [])]
  /\ seg_match [TLit [103]; TComp [[97];[98]] [[46]; []]] [[103]; [120;121]] = None.
Proof. vm_compute. split; reflexivity. Qed.

(* ---------- non-vacuity ---------- *)
(* base path /api/, GET /a/{id}, POST /a/{id}, GET /a/b, PUT /a/{id}/c/{x}, GET / *)
Definition example_routes : list route :=
  [ mkRoute [103;101;116] [47;97;47;123;105;100;125] 0;
    mkRoute [112;111;115;116] [47;97;47;123;105;100;125] 1;
    mkRoute [103;101;116] [47;97;47;98] 2;
    mkRoute [112;117;116] [47;97;47;123;105;100;125;47;99;47;123;120;125] 3;
    mkRoute [103;101;116] [47] 4 ].
Definition example_base : bytes := [47;97;112;105;47].

Theorem example_plain :
  plain_routes example_base example_routes = true /\
  (* get /api//a/./%2F%25 runs operation 0 with id bound to the two bytes slash, percent *)
  serve example_base example_routes [103;101;116] [47;97;112;105;47;47;97;47;46;47;37;50;70;37;50;53] = Run 0 [([105;100], [47;37])] /\
  (* GET /api/a/b prefers the literal *)
  serve example_base example_routes [71;69;84] [47;97;112;105;47;97;47;98] = Run 2 [] /\
  (* DELETE /api/a/b: 405, Allow = POST, GET *)
  serve example_base example_routes [68] [47;97;112;105;47;97;47;98] = R405 [[80;79;83;84]; [71;69;84]] /\
  (* GET /api runs the root operation; GET /zz is 404 *)
  serve example_base example_routes [71;69;84] [47;97;112;105] = Run 4 [] /\
  serve example_base example_routes [71;69;84] [47;122;122] = R404.
Proof. vm_compute. repeat split. Qed.

(* ---------- cleaning and escapes ---------- *)
(* the router sees the path only through path.Clean *)
Theorem clean_before_match base routes m p p' : clean p = clean p' ->
  serve base routes m p = serve base routes m p' /\ lookup base routes m p = lookup base routes m p'.
Proof. intro E. unfold serve, lookup, other_methods. now rewrite E. Qed.

Definition pct_free (a : bytes) : bool := negb (mem_byte PCT a).

Lemma unescape_pct_free a : pct_free a = true -> forall b,
  path_unescape (a ++ b) = match path_unescape b with Some o => Some (a ++ o) | None => None end.
Proof.
  induction a as [|c a IH]; intros H b.
  - cbn [app]. destruct (path_unescape b); reflexivity.
  - unfold pct_free, mem_byte in H. cbn [existsb] in H. apply negb_true_iff in H. apply orb_false_iff in H as [H1 H2].
    cbn [app path_unescape]. rewrite Nat.eqb_sym in H1. rewrite H1.
    rewrite IH by (unfold pct_free, mem_byte; now rewrite H2).
    destruct (path_unescape b); reflexivity.
Qed.

Lemma unescape_pct_free_whole a : pct_free a = true -> path_unescape a = Some a.
Proof. intro H. rewrite <- (app_nil_r a) at 1. rewrite (unescape_pct_free a H []). cbn. now rewrite app_nil_r. Qed.

Lemma no_slash_app a b : no_slash (a ++ b) = no_slash a && no_slash b.
Proof. unfold no_slash, mem_byte. rewrite existsb_app. now rewrite negb_orb. Qed.

(* an escaped slash stays inside the text of its segment (the text holds no path separator) and is
   decoded to a slash byte in the value; an escaped percent sign is decoded exactly once *)
Theorem encoded_slash_is_data a b : pct_free a = true -> pct_free b = true ->
  no_slash a = true -> no_slash b = true ->
  no_slash (a ++ pct_triple SLASH ++ b) = true /\
  unescape_or_raw (a ++ pct_triple SLASH ++ b) = a ++ [SLASH] ++ b /\
  unescape_or_raw (a ++ pct_triple PCT ++ b) = a ++ [PCT] ++ b /\
  unescape_or_raw [37; 50; 53; 50; 70] = [37; 50; 70].
Proof.
  intros Ha Hb Sa Sb. split; [|split; [|split]].
  - rewrite !no_slash_app, Sa, Sb. reflexivity.
  - unfold unescape_or_raw. rewrite (unescape_pct_free a Ha).
    change (pct_triple SLASH ++ b) with (37 :: 50 :: 70 :: b). cbn [path_unescape Nat.eqb PCT is_hex].
    change (path_unescape (37 :: 50 :: 70 :: b)) with
      (match path_unescape b with Some o => Some ((unhex 50 * 16 + unhex 70) :: o) | None => None end).
    rewrite (unescape_pct_free_whole b Hb). reflexivity.
  - unfold unescape_or_raw. rewrite (unescape_pct_free a Ha).
    change (path_unescape (pct_triple PCT ++ b)) with
      (match path_unescape b with Some o => Some ((unhex 50 * 16 + unhex 53) :: o) | None => None end).
    rewrite (unescape_pct_free_whole b Hb). reflexivity.
  - reflexivity.
Qed.

(* ---------- totality for every route set with well-formed tables ---------- *)
Lemma index_of_prefix pat : forall s i, index_of pat s = Some i -> has_prefix pat (skipn i s) = true.
Proof.
  induction s as [|c r IH]; intros i H; cbn [index_of] in H.
  - destruct (has_prefix pat []) eqn:E; [|discriminate]. inversion H; subst. exact E.
  - destruct (has_prefix pat (c :: r)) eqn:E.
    + inversion H; subst. exact E.
    + destruct (index_of pat r) as [j|] eqn:Ej; [|discriminate]. inversion H; subst. cbn [skipn]. exact (IH j eq_refl).
Qed.

Lemma braces_of_bounds pattern pl pr : braces_of pattern = Some (pl, pr) -> pl < pr /\ pr < length pattern.
Proof.
  unfold braces_of. destruct (index_of [LBRACE] pattern) as [pl0|] eqn:El; [|discriminate].
  destruct (index_of [RBRACE] (skipn pl0 pattern)) as [c|] eqn:Er; [|discriminate].
  intro H. inversion H; subst pl pr. clear H.
  pose proof (index_of_prefix _ _ _ El) as Hl. pose proof (index_of_prefix _ _ _ Er) as Hr.
  destruct (index_of_some _ _ _ Er) as (a & b & Hab & Hlen).
  assert (Hle : length (skipn pl0 pattern) = length pattern - pl0) by apply skipn_length.
  rewrite Hab in Hle. rewrite !app_length in Hle. cbn [length] in Hle.
  split; [|lia].
  destruct c as [|c]; [|lia]. exfalso. cbn [skipn] in Hr.
  destruct (skipn pl0 pattern) as [|x rest]; [discriminate|]. cbn [has_prefix] in Hl, Hr.
  apply andb_true_iff in Hl as [Hl _]. apply andb_true_iff in Hr as [Hr _].
  apply Nat.eqb_eq in Hl. apply Nat.eqb_eq in Hr. unfold LBRACE, RBRACE in *. lia.
Qed.

(* every slice expression of decodeCompositParams is within bounds, and the recursion ends *)
Lemma decode_composite_ok : forall f name value pattern names values, length pattern < f ->
  exists ns vs, decode_composite f name value pattern names values = DOk ns vs.
Proof.
  induction f as [|f IH]; intros name value pattern names values Hlen; [lia|].
  cbn [decode_composite]. destruct (braces_of pattern) as [[pl pr]|] eqn:Eb.
  - destruct (braces_of_bounds _ _ _ Eb) as [H1 H2].
    assert (E : (pr <? S pl) = false) by (apply Nat.ltb_ge; lia). rewrite E.
    apply IH. rewrite skipn_length. lia.
  - eexists. eexists. reflexivity.
Qed.

Lemma bind_params_ok pat : forall rp acc, exists ps, bind_params pat rp acc = POk ps.
Proof.
  induction rp as [|[n v] rest IH]; intro acc; cbn [bind_params].
  - eexists. reflexivity.
  - destruct (composite_at pat (xpos_of pat n)).
    + destruct (decode_composite_ok (S (length (fst (span_seg (skipn (xpos_of pat n) pat))))) n (unescape_or_raw v)
                  (fst (span_seg (skipn (xpos_of pat n) pat))) [] [] (Nat.lt_succ_diag_r _)) as (ns & vs & E).
      rewrite E. apply IH.
    + apply IH.
Qed.

Lemma wf_tables_method base routes m r : wf_tables base routes = true -> In r routes -> under m r ->
  wf_patset (table base routes routes (upper m)) = true.
Proof.
  intros H Hin Hu. unfold wf_tables in H. rewrite forallb_forall in H. specialize (H r Hin). now rewrite <- Hu.
Qed.

Theorem lookup_total base routes m p : wf_tables base routes = true ->
  lookup base routes m p <> LPanic /\ lookup base routes m p <> LFuel.
Proof.
  intro Hw. unfold lookup.
  destruct (router_lookup (table base routes routes (upper m)) (clean p)) as [[pat0 [op0 h0]] rp| | |] eqn:E.
  - destruct (bind_params_ok pat0 rp []) as [ps Eb]. rewrite Eb. split; discriminate.
  - split; discriminate.
  - exfalso. destruct (table base routes routes (upper m)) as [|[k v] t] eqn:Et; [rewrite router_lookup_nil in E; discriminate|].
    assert (Hin : In (k, v) (table base routes routes (upper m))) by (rewrite Et; left; reflexivity).
    apply table_in in Hin. destruct Hin as (r0 & H1 & H2 & _).
    pose proof (wf_tables_method _ _ m _ Hw H1 H2) as Hwf. rewrite Et in Hwf.
    pose proof (router_best _ (clean p) Hwf) as Hb. rewrite E in Hb. exact Hb.
  - exfalso. destruct (table base routes routes (upper m)) as [|[k v] t] eqn:Et; [rewrite router_lookup_nil in E; discriminate|].
    assert (Hin : In (k, v) (table base routes routes (upper m))) by (rewrite Et; left; reflexivity).
    apply table_in in Hin. destruct Hin as (r0 & H1 & H2 & _).
    pose proof (wf_tables_method _ _ m _ Hw H1 H2) as Hwf. rewrite Et in Hwf.
    pose proof (router_best _ (clean p) Hwf) as Hb. rewrite E in Hb. exact Hb.
Qed.

Theorem serve_total base routes m p : wf_tables base routes = true ->
  serve base routes m p <> RPanic /\ serve base routes m p <> RFuel.
Proof.
  intro Hw. destruct (lookup_total base routes m p Hw) as [H1 H2]. unfold serve.
  destruct (lookup base routes m p); try congruence.
  - split; discriminate.
  - destruct (other_methods base routes m p); split; discriminate.
Qed.

Lemma plain_routes_wf_tables base routes : plain_routes base routes = true -> wf_tables base routes = true.
Proof.
  intro H. unfold wf_tables. apply forallb_forall. intros r Hin.
  destruct (plain_routes_in _ _ _ H Hin) as (_ & _ & Hw). exact Hw.
Qed.

(* non-vacuity of wf_tables with composite and unbalanced templates: GET /g/{a}.{b}, GET /q/{a}x{b,
   PUT /s/{a}}{b}, GET /files/{name}--{ver} *)
Definition composite_routes : list route :=
  [ mkRoute [103;101;116] [47;103;47;123;97;125;46;123;98;125] 0;
    mkRoute [103;101;116] [47;113;47;123;97;125;120;123;98] 1;
    mkRoute [112;117;116] [47;115;47;123;97;125;125;123;98;125] 2;
    mkRoute [103;101;116] [47;102;105;108;101;115;47;123;110;97;109;101;125;45;45;123;118;101;114;125] 3 ].
Theorem composite_routes_wf :
  wf_tables [] composite_routes = true /\ plain_routes [] composite_routes = false /\
  (* GET /files/abc: both values empty, no panic *)
  lookup [] composite_routes [71;69;84] [47;102;105;108;101;115;47;97;98;99]
  = LFound [47;102;105;108;101;115;47;123;110;97;109;101;125;45;45;123;118;101;114;125] 3 3 [([110;97;109;101], []); ([118;101;114], [])] /\
  (* GET /q/1: the rest of the pattern is literal text, the value is empty *)
  lookup [] composite_routes [71;69;84] [47;113;47;49] = LFound [47;113;47;123;97;125;120;123;98] 1 1 [([97], [])] /\
  (* PUT /s/1}2 binds a=1, b=2 *)
  lookup [] composite_routes [80;85;84] [47;115;47;49;125;50] = LFound [47;115;47;123;97;125;125;123;98;125] 2 2 [([97], [49]); ([98], [50])].
Proof. vm_compute. repeat split. Qed.

(* ---------- cleaning comes before matching ---------- *)
Definition same_answer (base : bytes) (routes : list route) (m p p' : bytes) : Prop :=
  serve base routes m p = serve base routes m p' /\ lookup base routes m p = lookup base routes m p'.

Theorem clean_before_match_full base routes m :
  (forall p, same_answer base routes m (clean p) p) /\
  (forall a b, forallb slash_free a = true -> forallb slash_free b = true ->
     same_answer base routes m (rooted_of (a ++ [] :: b)) (rooted_of (a ++ b))) /\
  (forall a b, forallb slash_free a = true -> forallb slash_free b = true ->
     same_answer base routes m (rooted_of (a ++ [DOT] :: b)) (rooted_of (a ++ b))) /\
  (forall a s b, forallb slash_free a = true -> plain_seg s = true -> forallb slash_free b = true ->
     same_answer base routes m (rooted_of (a ++ s :: [DOT; DOT] :: b)) (rooted_of (a ++ b))) /\
  (forall b, forallb slash_free b = true ->
     same_answer base routes m (rooted_of ([DOT; DOT] :: b)) (rooted_of b)) /\
  (forall a, a <> [] -> forallb slash_free a = true ->
     same_answer base routes m (rooted_of a ++ [SL]) (rooted_of a)).
Proof.
  unfold same_answer. repeat split; intros; apply clean_before_match;
    auto using clean_idem, clean_empty_segment, clean_dot_segment, clean_dotdot_segment, clean_leading_dotdot, clean_trailing_slash.
Qed.
