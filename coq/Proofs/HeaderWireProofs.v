(* HeaderWireProofs.v — the header line written by the client side is read back by the server side as the same
   name and the same value (C04, header values). *)
From Coq Require Import List Arith Bool Lia.
Import ListNotations.
From V Require Import Bytes HeaderWire.

Definition no_ows_head (s : bytes) : bool :=
  match s with [] => true | c :: _ => negb (is_ows c) end.

Lemma drop_while_noop s : no_ows_head s = true -> drop_while is_ows s = s.
Proof.
  destruct s as [|c r]; cbn [no_ows_head drop_while]; intros H; [reflexivity|].
  apply negb_true_iff in H. rewrite H. reflexivity.
Qed.

Lemma drop_while_head s : no_ows_head (drop_while is_ows s) = true.
Proof.
  induction s as [|c r IH]; cbn [drop_while]; [reflexivity|].
  destruct (is_ows c) eqn:E; [exact IH|]. cbn [no_ows_head]. rewrite E. reflexivity.
Qed.

Lemma drop_while_suffix s : exists q, s = q ++ drop_while is_ows s.
Proof.
  induction s as [|c r [q IH]]; cbn [drop_while]; [exists []; reflexivity|].
  destruct (is_ows c); [exists (c :: q); cbn [app]; f_equal; exact IH | exists []; reflexivity].
Qed.

Lemma trim_right_prefix s : exists q, s = trim_right s ++ q.
Proof.
  unfold trim_right. destruct (drop_while_suffix (rev s)) as [q Hq].
  exists (rev q). rewrite <- rev_app_distr, <- Hq, rev_involutive. reflexivity.
Qed.

Lemma trim_right_keeps_head s : no_ows_head s = true -> no_ows_head (trim_right s) = true.
Proof.
  intros H. destruct (trim_right_prefix s) as [q Hq].
  destruct (trim_right s) as [|c r] eqn:E; [reflexivity|].
  rewrite Hq in H. exact H.
Qed.

Lemma trim_right_tail s : no_ows_head (rev (trim_right s)) = true.
Proof. unfold trim_right. rewrite rev_involutive. apply drop_while_head. Qed.

Definition trimmed (w : bytes) : Prop := no_ows_head w = true /\ no_ows_head (rev w) = true.

Lemma trim_trimmed x : trimmed (trim x).
Proof.
  unfold trim, trimmed. split.
  - apply trim_right_keeps_head. unfold trim_left. apply drop_while_head.
  - apply trim_right_tail.
Qed.

Lemma trim_left_noop w : no_ows_head w = true -> trim_left w = w.
Proof. exact (drop_while_noop w). Qed.

Lemma trim_right_noop w : no_ows_head (rev w) = true -> trim_right w = w.
Proof. intros H. unfold trim_right. rewrite (drop_while_noop _ H). apply rev_involutive. Qed.

Lemma trim_noop w : trimmed w -> trim w = w.
Proof. intros [H1 H2]. unfold trim. rewrite (trim_left_noop _ H1). apply trim_right_noop. exact H2. Qed.

Lemma trim_idem x : trim (trim x) = trim x.
Proof. apply trim_noop, trim_trimmed. Qed.

(* splitting at the line feed *)
Lemma split_lf_app a rest : forallb (fun c => negb (Nat.eqb c 10)) a = true ->
  split_lf (a ++ 10 :: rest) = Some (a, rest).
Proof.
  induction a as [|c r IH]; cbn [app split_lf forallb]; intros H; [reflexivity|].
  apply andb_true_iff in H. destruct H as [Hc Hr]. apply negb_true_iff in Hc. rewrite Hc.
  rewrite (IH Hr). reflexivity.
Qed.

Lemma drop_cr_app a : drop_cr (a ++ [13]) = a.
Proof. unfold drop_cr. rewrite rev_app_distr. cbn [rev app Nat.eqb]. apply rev_involutive. Qed.

Lemma field_not_special c : field_byte c = true ->
  Nat.eqb c 10 = false /\ Nat.eqb c 58 = false /\ Nat.eqb c 32 = false /\ is_ows c = false.
Proof.
  intros H. unfold is_ows.
  destruct (Nat.eqb c 10) eqn:E1; [apply Nat.eqb_eq in E1; subst c; discriminate H|].
  destruct (Nat.eqb c 58) eqn:E2; [apply Nat.eqb_eq in E2; subst c; discriminate H|].
  destruct (Nat.eqb c 32) eqn:E3; [apply Nat.eqb_eq in E3; subst c; discriminate H|].
  destruct (Nat.eqb c 9) eqn:E4; [apply Nat.eqb_eq in E4; subst c; discriminate H|].
  repeat split; reflexivity.
Qed.

Lemma value_not_lf c : value_byte c = true -> Nat.eqb c 10 = false.
Proof.
  intros H. destruct (Nat.eqb c 10) eqn:E; [apply Nat.eqb_eq in E; subst c; discriminate H|reflexivity].
Qed.

Lemma forallb_impl {A} (f g : A -> bool) l : (forall x, f x = true -> g x = true) ->
  forallb f l = true -> forallb g l = true.
Proof.
  intros Hfg. induction l as [|x r IH]; cbn [forallb]; [reflexivity|].
  intros H. apply andb_true_iff in H. destruct H as [Hx Hr]. rewrite (Hfg _ Hx), (IH Hr). reflexivity.
Qed.

Lemma span_no_colon k v : forallb field_byte k = true ->
  span (fun c => negb (Nat.eqb c 58)) (k ++ 58 :: v) = (k, 58 :: v).
Proof.
  induction k as [|c r IH]; cbn [app span forallb]; intros H; [reflexivity|].
  apply andb_true_iff in H. destruct H as [Hc Hr].
  destruct (field_not_special c Hc) as (_ & E & _). rewrite E. cbn [negb]. rewrite (IH Hr). reflexivity.
Qed.

Lemma existsb_false_of_field k : forallb field_byte k = true -> existsb (Nat.eqb 32) k = false.
Proof.
  induction k as [|c r IH]; cbn [existsb forallb]; intros H; [reflexivity|].
  apply andb_true_iff in H. destruct H as [Hc Hr].
  destruct (field_not_special c Hc) as (_ & _ & E & _). rewrite Nat.eqb_sym, E, (IH Hr). reflexivity.
Qed.

Lemma mem_colon k r : mem_byte 58 (k ++ 58 :: r) = true.
Proof.
  unfold mem_byte. rewrite existsb_app. cbn [existsb Nat.eqb]. rewrite orb_true_r. reflexivity.
Qed.

Lemma read_continuations_none fuel acc rest : no_ows_head rest = true ->
  read_continuations fuel acc rest = (acc, rest).
Proof.
  destruct fuel as [|f]; cbn [read_continuations]; [reflexivity|].
  destruct rest as [|c r]; [reflexivity|]. cbn [no_ows_head]. intros H. apply negb_true_iff in H.
  rewrite H. reflexivity.
Qed.

(* the line, without its CRLF, after the trim of readContinuedLineSlice *)
Lemma trim_line k w : hdr_name_ok k = true -> trimmed w ->
  trim (k ++ 58 :: 32 :: w) = k ++ 58 :: match w with [] => [] | _ => 32 :: w end.
Proof.
  intros Hk [Hw1 Hw2].
  assert (Hhead : no_ows_head (k ++ 58 :: 32 :: w) = true).
  { destruct k as [|c r]; [discriminate Hk|]. cbn [hdr_name_ok forallb] in Hk.
    apply andb_true_iff in Hk. destruct Hk as [Hc _].
    destruct (field_not_special c Hc) as (_ & _ & _ & E). cbn [app no_ows_head]. rewrite E. reflexivity. }
  unfold trim. rewrite (trim_left_noop _ Hhead).
  destruct w as [|c r].
  - unfold trim_right. rewrite rev_app_distr. cbn [rev app drop_while is_ows Nat.eqb orb].
    change (rev (58 :: rev k) = k ++ [58]). cbn [rev]. rewrite rev_involutive. reflexivity.
  - apply trim_right_noop.
    replace (k ++ 58 :: 32 :: c :: r) with ((k ++ [58; 32]) ++ c :: r) by (rewrite <- app_assoc; reflexivity).
    rewrite rev_app_distr.
    destruct (rev (c :: r)) as [|d t] eqn:E.
    + exfalso. apply (f_equal (@length _)) in E. rewrite rev_length in E. discriminate E.
    + cbn [app no_ows_head]. exact Hw2.
Qed.

Lemma name_ok_canonical_key k : hdr_name_ok k = true -> canonical_key k = Some (canon_go true k).
Proof.
  intros Hk. unfold canonical_key. destruct k as [|c r]; [discriminate Hk|].
  cbn [hdr_name_ok] in Hk.
  rewrite (forallb_impl field_byte (fun c => field_byte c || Nat.eqb c 32) _
             (fun x Hx => eq_trans (f_equal (fun b => b || Nat.eqb x 32) Hx) eq_refl) Hk).
  rewrite (existsb_false_of_field _ Hk). reflexivity.
Qed.

(* THE HEADER LINE ROUND TRIP at the level of the bytes on the wire: whatever trimmed, valid value text w stands in the
   line, and whatever follows the line (another field, or the blank line: anything not starting with a space or a tab),
   the reader yields the canonical name, exactly w, and leaves exactly what followed. *)
Lemma read_written_line k w rest :
  hdr_name_ok k = true -> forallb value_byte w = true -> trimmed w -> no_ows_head rest = true ->
  read_header (k ++ [58; 32] ++ w ++ [13; 10] ++ rest) = HdrField (canon_go true k) w rest.
Proof.
  intros Hk Hv Hw Hrest.
  assert (Hkf : forallb field_byte k = true) by (destruct k; [discriminate Hk | exact Hk]).
  unfold read_header, read_continued_line, read_line.
  replace (k ++ [58; 32] ++ w ++ [13; 10] ++ rest) with ((k ++ 58 :: 32 :: w ++ [13]) ++ 10 :: rest)
    by (rewrite <- !app_assoc; cbn [app]; rewrite <- !app_assoc; reflexivity).
  rewrite split_lf_app.
  2:{ rewrite forallb_app. apply andb_true_iff. split.
      - apply (forallb_impl field_byte); [|exact Hkf]. intros c Hc.
        destruct (field_not_special c Hc) as (E & _). rewrite E. reflexivity.
      - cbn [forallb Nat.eqb negb andb]. rewrite forallb_app. apply andb_true_iff. split; [|reflexivity].
        apply (forallb_impl value_byte); [|exact Hv]. intros c Hc. rewrite (value_not_lf c Hc). reflexivity. }
  replace (k ++ 58 :: 32 :: w ++ [13]) with ((k ++ 58 :: 32 :: w) ++ [13])
    by (rewrite <- app_assoc; reflexivity).
  rewrite drop_cr_app.
  destruct (k ++ 58 :: 32 :: w) as [|l0 lr] eqn:El.
  { exfalso. destruct k; discriminate El. }
  rewrite <- El. rewrite mem_colon.
  rewrite (read_continuations_none _ _ _ Hrest).
  rewrite (trim_line k w Hk Hw).
  destruct (k ++ 58 :: match w with [] => [] | _ :: _ => 32 :: w end) as [|m0 mr] eqn:Em.
  { exfalso. destruct k; discriminate Em. }
  rewrite <- Em. unfold cut_colon. rewrite (span_no_colon _ _ Hkf).
  rewrite (name_ok_canonical_key k Hk).
  destruct Hw as [Hw1 Hw2].
  destruct w as [|c r].
  - reflexivity.
  - change (forallb value_byte (32 :: c :: r)) with (value_byte 32 && forallb value_byte (c :: r)).
    rewrite Hv. cbn [value_byte Nat.eqb Nat.leb negb andb orb].
    change (trim_left (32 :: c :: r)) with (trim_left (c :: r)).
    rewrite (trim_left_noop _ Hw1). reflexivity.
Qed.

(* what the client writes for (name, value), read by the server *)
Theorem header_line_roundtrip k v rest :
  hdr_name_ok k = true -> forallb value_byte (hdr_value_on_wire v) = true -> no_ows_head rest = true ->
  read_header (hdr_write k v ++ rest) = HdrField (canon_go true k) (hdr_value_on_wire v) rest.
Proof.
  intros Hk Hv Hrest. unfold hdr_write.
  replace ((k ++ [58; 32] ++ hdr_value_on_wire v ++ [13; 10]) ++ rest)
    with (k ++ [58; 32] ++ hdr_value_on_wire v ++ [13; 10] ++ rest)
    by (rewrite <- !app_assoc; reflexivity).
  apply read_written_line; try assumption. apply trim_trimmed.
Qed.

Lemma value_ok_map v : forallb value_byte v = true -> map nl_to_space v = v.
Proof.
  induction v as [|c r IH]; cbn [map forallb]; intros H; [reflexivity|].
  apply andb_true_iff in H. destruct H as [Hc Hr]. rewrite (IH Hr). f_equal.
  unfold nl_to_space. rewrite (value_not_lf c Hc).
  destruct (Nat.eqb c 13) eqn:E; [apply Nat.eqb_eq in E; subst c; discriminate Hc|reflexivity].
Qed.

Lemma value_ok_on_wire v : hdr_value_ok v = true -> hdr_value_on_wire v = v.
Proof.
  unfold hdr_value_ok. intros H. apply andb_true_iff in H. destruct H as [H H3].
  apply andb_true_iff in H. destruct H as [H1 H2].
  unfold hdr_value_on_wire. rewrite (value_ok_map v H1). apply trim_noop. split; assumption.
Qed.

(* THE VALUE ARRIVES INTACT: every value without control bytes (other than HTAB) and without white space at its ends *)
Theorem header_value_roundtrip k v rest :
  hdr_name_ok k = true -> hdr_value_ok v = true -> no_ows_head rest = true ->
  read_header (hdr_write k v ++ rest) = HdrField (canon_go true k) v rest.
Proof.
  intros Hk Hv Hrest.
  pose proof (value_ok_on_wire v Hv) as E.
  rewrite <- E at 2. apply header_line_roundtrip; try assumption.
  rewrite E. unfold hdr_value_ok in Hv. apply andb_true_iff in Hv. destruct Hv as [Hv _].
  apply andb_true_iff in Hv. destruct Hv as [Hv _]. exact Hv.
Qed.

(* what does NOT survive, and how: white space at the ends is stripped, CR and LF become spaces; nothing else changes
   (no hypothesis on v other than that the bytes that remain are legal on the wire) *)
Theorem header_value_normalised k v rest :
  hdr_name_ok k = true -> forallb value_byte (map nl_to_space v) = true -> no_ows_head rest = true ->
  read_header (hdr_write k v ++ rest) = HdrField (canon_go true k) (trim (map nl_to_space v)) rest.
Proof.
  intros Hk Hv Hrest. apply header_line_roundtrip; try assumption.
  unfold hdr_value_on_wire, trim, trim_right, trim_left.
  set (m := map nl_to_space v) in *.
  destruct (drop_while_suffix m) as [q1 H1].
  destruct (drop_while_suffix (rev (drop_while is_ows m))) as [q2 H2].
  assert (Hd : forallb value_byte (drop_while is_ows m) = true).
  { rewrite H1 in Hv. rewrite forallb_app in Hv. apply andb_true_iff in Hv. exact (proj2 Hv). }
  assert (Hr : forallb value_byte (rev (drop_while is_ows m)) = true).
  { apply forallb_forall. intros x Hx. apply in_rev in Hx. revert x Hx. apply forallb_forall. exact Hd. }
  rewrite H2 in Hr. rewrite forallb_app in Hr. apply andb_true_iff in Hr.
  apply forallb_forall. intros x Hx. apply in_rev in Hx.
  revert x Hx. apply forallb_forall. exact (proj2 Hr).
Qed.

(* NAMES. Canonicalisation is idempotent and keeps a legal name legal, so the name the client stores and writes
   (http.CanonicalHeaderKey of the declared name) is the key the server's reader produces and the key the binder looks up. *)
Lemma to_upper_idem c : to_upper (to_upper c) = to_upper c.
Proof.
  unfold to_upper. destruct ((97 <=? c) && (c <=? 122)) eqn:E; [|rewrite E; reflexivity].
  apply andb_true_iff in E. destruct E as [E1 E2]. apply Nat.leb_le in E1. apply Nat.leb_le in E2.
  replace (97 <=? c - 32) with false by (symmetry; apply Nat.leb_gt; lia). reflexivity.
Qed.

Lemma to_lower_idem c : to_lower (to_lower c) = to_lower c.
Proof.
  unfold to_lower. destruct ((65 <=? c) && (c <=? 90)) eqn:E; [|rewrite E; reflexivity].
  apply andb_true_iff in E. destruct E as [E1 E2]. apply Nat.leb_le in E1. apply Nat.leb_le in E2.
  replace (c + 32 <=? 90) with false by (symmetry; apply Nat.leb_gt; lia). rewrite andb_false_r. reflexivity.
Qed.

Lemma canon_go_idem up k : canon_go up (canon_go up k) = canon_go up k.
Proof.
  revert up. induction k as [|c r IH]; intros up; cbn [canon_go]; [reflexivity|].
  destruct up.
  - rewrite to_upper_idem. f_equal. apply IH.
  - rewrite to_lower_idem. f_equal. apply IH.
Qed.

Lemma field_byte_bound c : field_byte c = true -> c < 128.
Proof.
  intros H. destruct (Nat.ltb c 128) eqn:E; [apply Nat.ltb_lt in E; exact E|]. apply Nat.ltb_ge in E.
  exfalso. unfold field_byte, is_alnum, mem_byte in H. cbn [existsb] in H.
  repeat match type of H with
  | context [Nat.leb c ?n] => replace (Nat.leb c n) with false in H by (symmetry; apply Nat.leb_gt; lia)
  | context [Nat.eqb c ?n] => replace (Nat.eqb c n) with false in H by (symmetry; apply Nat.eqb_neq; lia)
  end.
  rewrite ?andb_false_r in H. cbn in H. discriminate H.
Qed.

Lemma field_byte_case_table :
  forallb (fun c => implb (field_byte c) (field_byte (to_upper c) && field_byte (to_lower c))) (seq 0 128) = true.
Proof. vm_compute. reflexivity. Qed.

Lemma field_byte_case c : field_byte c = true -> field_byte (to_upper c) = true /\ field_byte (to_lower c) = true.
Proof.
  intros H. pose proof (field_byte_bound c H) as Hb.
  pose proof (proj1 (forallb_forall _ _) field_byte_case_table c) as T.
  assert (Hin : In c (seq 0 128)) by (apply in_seq; lia).
  specialize (T Hin). cbv beta in T. rewrite H in T. cbn [implb] in T. apply andb_true_iff. exact T.
Qed.

Lemma canon_go_field up k : forallb field_byte k = true -> forallb field_byte (canon_go up k) = true.
Proof.
  revert up. induction k as [|c r IH]; intros up; cbn [canon_go forallb]; [reflexivity|].
  intros H. apply andb_true_iff in H. destruct H as [Hc Hr].
  destruct (field_byte_case c Hc) as [Hu Hl].
  destruct up; [rewrite Hu | rewrite Hl]; cbn [andb]; apply IH; exact Hr.
Qed.

Theorem canonical_name_idem k : canonical_name (canonical_name k) = canonical_name k.
Proof.
  unfold canonical_name. destruct (forallb field_byte k) eqn:E.
  - rewrite (canon_go_field true k E). apply canon_go_idem.
  - rewrite E. reflexivity.
Qed.

Lemma canon_go_nonempty up k : k <> [] -> canon_go up k <> [].
Proof. destruct k; [congruence|]. cbn [canon_go]. discriminate. Qed.

(* the whole path of a header parameter: declared name n, value v. The client stores and writes under canonical_name n;
   the server's reader yields that same key, which is the key the binder looks up (canonical_name n), with the value intact *)
Theorem header_param_roundtrip n v rest :
  hdr_name_ok n = true -> hdr_value_ok v = true -> no_ows_head rest = true ->
  read_header (hdr_write (canonical_name n) v ++ rest) = HdrField (canonical_name n) v rest.
Proof.
  intros Hn Hv Hrest.
  assert (Hf : forallb field_byte n = true) by (destruct n; [discriminate Hn | exact Hn]).
  assert (Hk : hdr_name_ok (canonical_name n) = true).
  { unfold canonical_name. rewrite Hf. unfold hdr_name_ok.
    destruct (canon_go true n) eqn:E.
    - exfalso. apply (canon_go_nonempty true n); [destruct n; [discriminate Hn | discriminate] | exact E].
    - rewrite <- E. apply canon_go_field. exact Hf. }
  rewrite (header_value_roundtrip _ v rest Hk Hv Hrest).
  f_equal. unfold canonical_name at 1. rewrite Hf. rewrite canon_go_idem.
  unfold canonical_name. rewrite Hf. reflexivity.
Qed.

(* the hypotheses are satisfiable, on a value with inner spaces, a tab, punctuation and a non-ASCII byte *)
Example header_roundtrip_example :
  hdr_name_ok [120; 45; 104] = true /\ hdr_value_ok [97; 32; 9; 98; 58; 34; 200] = true /\
  read_header (hdr_write (canonical_name [120; 45; 104]) [97; 32; 9; 98; 58; 34; 200] ++ [13; 10])
  = HdrField [88; 45; 72] [97; 32; 9; 98; 58; 34; 200] [13; 10].
Proof. vm_compute. repeat split. Qed.
