(* ClientBodyProofs.v — lemmas about the model of the client body (C11). *)
From V Require Import ClientBodySpec.
From Coq Require Import Permutation.
From Coq Require String.

(* ---------- the getBody machine ---------- *)
Lemma get_body_n_fixed k st :
  (g_override st = false \/ g_copied st = true) ->
  get_body_n k st = (repeat (g_buf st) k, st).
Proof.
  intros H. induction k as [|k IH]; [reflexivity|].
  cbn [get_body_n]. unfold get_body at 1.
  destruct H as [H|H]; rewrite H; cbn [negb].
  - rewrite IH. reflexivity.
  - destruct (g_override st); cbn [negb]; rewrite IH; reflexivity.
Qed.

Lemma auth_sees_sent_bytes k src content :
  let content' := match src with SNil => [] | _ => content end in
  auth_run k src content = (repeat content' k, content').
Proof.
  intros content'. subst content'. unfold auth_run, auth_run_with. destruct src; cbn [gb_init_with].
  - rewrite get_body_n_fixed by (left; reflexivity). reflexivity.
  - rewrite get_body_n_fixed by (left; reflexivity). reflexivity.
  - destruct k as [|k]; [reflexivity|].
    cbn [get_body_n]. unfold get_body at 1. cbn [g_override g_copied negb g_buf g_stream g_closed app override_installed src_nonnil src_is_buffer src_is_rbuf andb orb].
    rewrite get_body_n_fixed by (right; reflexivity). reflexivity.
  - destruct k as [|k]; [reflexivity|].
    cbn [get_body_n]. unfold get_body at 1. cbn [g_override g_copied negb g_buf g_stream g_closed app override_installed src_nonnil src_is_buffer src_is_rbuf andb orb].
    rewrite get_body_n_fixed by (right; reflexivity). reflexivity.
Qed.

(* the closure is installed for every body except nil and the request's own buffer *)
Lemma override_installed_iff src :
  override_installed src = true <-> (src <> SNil /\ src <> SBuf).
Proof.
  destruct src; cbn; split; intros H; try discriminate; try reflexivity.
  - destruct H as [H _]. congruence.
  - destruct H as [_ H]. congruence.
  - split; discriminate.
  - split; discriminate.
Qed.

(* the test is needed in this form: were the closure left out for every *bytes.Buffer, an auth writer asking
   for the body of a request whose reader payload is the caller's own buffer would be shown the request's
   empty buffer, k times, while the caller's bytes are sent *)
Lemma auth_override_needed k content :
  auth_run_with inst_not_any_buffer k SOtherBuf content = (repeat [] k, content).
Proof.
  unfold auth_run_with. cbn [gb_init_with].
  rewrite get_body_n_fixed by (left; reflexivity). reflexivity.
Qed.

Lemma auth_override_needed_refuted :
  exists k content answers sent,
    auth_run_with inst_not_any_buffer k SOtherBuf content = (answers, sent) /\ answers <> repeat sent k.
Proof.
  exists 1, [104; 105], [[]], [104; 105]. split; [reflexivity|discriminate].
Qed.

(* ---------- escapeQuotes reads back ---------- *)
Lemma scan_quoted_escape s rest :
  scan_quoted (escape_quotes s ++ 34 :: rest) = Some (s, rest).
Proof.
  induction s as [|c s IH]; [reflexivity|].
  unfold escape_quotes in *. cbn [flat_map]. unfold esc1 at 1.
  destruct (Nat.eqb c 92) eqn:E92.
  - apply Nat.eqb_eq in E92; subst c. cbn [app scan_quoted Nat.eqb orb]. rewrite IH. reflexivity.
  - destruct (Nat.eqb c 34) eqn:E34.
    + apply Nat.eqb_eq in E34; subst c. cbn [app scan_quoted Nat.eqb orb]. rewrite IH. reflexivity.
    + cbn [app scan_quoted]. rewrite E34, E92. rewrite IH. reflexivity.
Qed.

Lemma quotes_roundtrip s : unescape_quotes (escape_quotes s) = s.
Proof.
  unfold unescape_quotes. rewrite (scan_quoted_escape s []). reflexivity.
Qed.

Lemma quotes_roundtrip_both s rest :
  scan_quoted (escape_quotes s ++ 34 :: rest) = Some (s, rest) /\ unescape_quotes (escape_quotes s) = s.
Proof. split; [apply scan_quoted_escape | apply quotes_roundtrip]. Qed.

Lemma strip_prefix_app p s : strip_prefix p (p ++ s) = Some s.
Proof. induction p as [|x p IH]; [reflexivity|]. cbn. now rewrite Nat.eqb_refl. Qed.

Lemma decode_disp_field fn : decode_disp (disp_field fn) = Some (fn, None).
Proof.
  unfold decode_disp, disp_field. rewrite strip_prefix_app.
  rewrite (scan_quoted_escape fn []). reflexivity.
Qed.

Lemma decode_disp_file fn name : decode_disp (disp_file fn name) = Some (fn, Some (path_base name)).
Proof.
  unfold decode_disp, disp_file. rewrite strip_prefix_app.
  change txt_filename with (34 :: txt_filename_tail).
  cbn [app]. rewrite scan_quoted_escape.
  change (txt_filename_tail ++ escape_quotes (path_base name) ++ [34])
    with (59 :: tl txt_filename_tail ++ escape_quotes (path_base name) ++ [34]).
  cbv iota beta.
  change (59 :: tl txt_filename_tail ++ escape_quotes (path_base name) ++ [34])
    with (txt_filename_tail ++ escape_quotes (path_base name) ++ [34]).
  rewrite strip_prefix_app. rewrite (scan_quoted_escape (path_base name) []). reflexivity.
Qed.

(* ---------- the document holds every value and every file exactly once ---------- *)
Section Parts.
Variable sniff : bytes -> bytes.

Lemma file_type_expected f : file_type sniff f = expected_type sniff f.
Proof. reflexivity. Qed.

Lemma decode_form_parts f : map decode_part (form_parts f) = map Some (expected_field_views f).
Proof.
  unfold form_parts, expected_field_views. rewrite !map_map. apply map_ext. intros v.
  unfold decode_part, field_part. cbn [p_disp p_ctype p_data]. now rewrite decode_disp_field.
Qed.

Lemma decode_file_parts ff : map decode_part (file_parts sniff ff) = map Some (expected_file_views sniff ff).
Proof.
  unfold file_parts, expected_file_views. rewrite !map_map. apply map_ext. intros f.
  unfold decode_part, file_part. cbn [p_disp p_ctype p_data]. now rewrite decode_disp_file.
Qed.

Lemma map_flat_map {A B C} (g : B -> C) (f : A -> list B) l :
  map g (flat_map f l) = flat_map (fun x => map g (f x)) l.
Proof. induction l as [|x l IH]; [reflexivity|]. cbn. now rewrite map_app, IH. Qed.

Lemma flat_map_ext' {A B} (f g : A -> list B) l : (forall x, f x = g x) -> flat_map f l = flat_map g l.
Proof. intros H. induction l as [|x l IH]; [reflexivity|]. cbn. now rewrite H, IH. Qed.

(* decoded by a receiver, the parts are exactly the expected views, in the order the maps were walked *)
Lemma parts_decode form files :
  map decode_part (multipart_parts sniff form files) = map Some (expected_views sniff form files).
Proof.
  unfold multipart_parts, expected_views. rewrite !map_app, !map_flat_map. f_equal.
  - apply flat_map_ext'. apply decode_form_parts.
  - apply flat_map_ext'. apply decode_file_parts.
Qed.

Lemma flat_map_perm {A B} (f : A -> list B) l l' :
  Permutation l l' -> Permutation (flat_map f l) (flat_map f l').
Proof.
  induction 1 as [|x l l' _ IH|x y l|l l' l'' _ IH1 _ IH2]; cbn.
  - constructor.
  - now apply Permutation_app_head.
  - rewrite !app_assoc. apply Permutation_app_tail. apply Permutation_app_comm.
  - now transitivity (flat_map f l').
Qed.

(* whatever order the two Go maps are iterated in, the document holds the same parts, each as often *)
Lemma parts_order_independent form form' files files' :
  Permutation form form' -> Permutation files files' ->
  Permutation (multipart_parts sniff form files) (multipart_parts sniff form' files').
Proof.
  intros H1 H2. unfold multipart_parts. apply Permutation_app; now apply flat_map_perm.
Qed.

Lemma views_order_independent form form' files files' :
  Permutation form form' -> Permutation files files' ->
  Permutation (expected_views sniff form files) (expected_views sniff form' files').
Proof.
  intros H1 H2. unfold expected_views. apply Permutation_app; now apply flat_map_perm.
Qed.

(* the number of parts: one per form-field value and one per file *)
Lemma parts_count form files :
  length (multipart_parts sniff form files) =
  list_sum (map (fun f => length (snd f)) form) + list_sum (map (fun ff => length (snd ff)) files).
Proof.
  unfold multipart_parts. rewrite app_length. f_equal.
  - induction form as [|f form IH]; [reflexivity|]. cbn. rewrite app_length, IH. unfold form_parts. now rewrite map_length.
  - induction files as [|f files IH]; [reflexivity|]. cbn. rewrite app_length, IH. unfold file_parts. now rewrite map_length.
Qed.

(* the part type does not depend on how the source delivers its bytes *)
Lemma part_type_chunking name chunks chunks' :
  concat chunks = concat chunks' ->
  file_type sniff (mkfile name chunks None) = file_type sniff (mkfile name chunks' None).
Proof.
  intros H. unfold file_type, file_sniff_arg, f_content. cbn [f_declared f_chunks]. now rewrite H.
Qed.

(* ---------- body by kind ---------- *)
Lemma build_total i : build_body sniff i <> OPanic.
Proof.
  unfold build_body. destruct (has_form i).
  - destruct (negb (is_multipart i)); discriminate.
  - destruct (bi_payload i); try discriminate. destruct (bi_producer i) as [[b|]|]; discriminate.
Qed.

Lemma build_value i b :
  has_form i = false -> bi_payload i = PValue -> bi_producer i = Some (Some b) ->
  build_body sniff i = OOk (Some (bi_media i)) SBuf (DBytes b).
Proof. intros H1 H2 H3. unfold build_body. now rewrite H1, H2, H3. Qed.

Lemma build_value_no_producer i :
  has_form i = false -> bi_payload i = PValue -> bi_producer i <> None /\ bi_producer i <> Some None \/
  exists e, build_body sniff i = OErr e.
Proof.
  intros H1 H2. unfold build_body. rewrite H1, H2. destruct (bi_producer i) as [[b|]|].
  - left. split; discriminate.
  - right. now exists EProduce.
  - right. now exists ENoProducer.
Qed.

Lemma build_reader i c :
  has_form i = false -> (bi_payload i = PReader c \/ bi_payload i = PReadCloser c) ->
  build_body sniff i = OOk (Some (bi_media i)) SStream (DBytes c).
Proof. intros H1 [H2|H2]; unfold build_body; now rewrite H1, H2. Qed.

Lemma build_buffer i c :
  has_form i = false -> bi_payload i = PBuffer c ->
  build_body sniff i = OOk (Some (bi_media i)) SOtherBuf (DBytes c).
Proof. intros H1 H2. unfold build_body. now rewrite H1, H2. Qed.

(* a reader handed over after the caller consumed a prefix: the body is the unread rest, nothing of the prefix *)
Lemma reader_at_unread (consumed rest : bytes) : reader_at (consumed ++ rest) (length consumed) = rest.
Proof.
  unfold reader_at. induction consumed as [|c consumed IH]; [reflexivity|]. cbn [app length skipn]. exact IH.
Qed.

Lemma build_reader_unread i consumed rest :
  has_form i = false ->
  (bi_payload i = PReader (reader_at (consumed ++ rest) (length consumed)) \/
   bi_payload i = PReadCloser (reader_at (consumed ++ rest) (length consumed))) ->
  build_body sniff i = OOk (Some (bi_media i)) SStream (DBytes rest).
Proof.
  intros H1 H2. rewrite reader_at_unread in H2. exact (build_reader i rest H1 H2).
Qed.

(* a file whose source came out of runtime.NamedReader is sent under the name asked for, whatever was wrapped *)
Lemma named_reader_name name inner : source_name (named_reader name inner) = name.
Proof. reflexivity. Qed.

Lemma file_part_named fn name inner chunks declared :
  p_disp (file_part sniff fn (mkfile (source_name (named_reader name inner)) chunks declared)) = disp_file fn name.
Proof. reflexivity. Qed.

Lemma named_reader_file_name fn name inner chunks declared :
  source_name (named_reader name inner) = name /\
  p_disp (file_part sniff fn (mkfile (source_name (named_reader name inner)) chunks declared)) = disp_file fn name.
Proof. split; reflexivity. Qed.

Lemma build_nil i :
  has_form i = false -> bi_payload i = PNil -> build_body sniff i = OOk (bi_preset_ct i) SNil DNone.
Proof. intros H1 H2. unfold build_body. now rewrite H1, H2. Qed.

Lemma build_urlencoded i :
  has_form i = true -> is_multipart i = false ->
  build_body sniff i = OOk (Some (bi_media i)) SBuf (DBytes (form_encode (bi_form i))).
Proof. intros H1 H2. unfold build_body. now rewrite H1, H2. Qed.

Lemma build_multipart i :
  has_form i = true -> is_multipart i = true ->
  build_body sniff i = OOk (Some (mangle_content_type (bi_media i) (bi_boundary i))) SStream
                           (DMultipart (multipart_parts sniff (bi_form i) (bi_files i))).
Proof. intros H1 H2. unfold build_body. now rewrite H1, H2. Qed.

(* form fields and files win: the payload is not looked at *)
Lemma build_form_wins i p :
  has_form i = true ->
  build_body sniff i =
  build_body sniff (mkbin (bi_media i) (bi_preset_ct i) p (bi_form i) (bi_files i) (bi_producer i) (bi_boundary i)).
Proof. intros H. unfold build_body, has_form, is_multipart in *. cbn. now rewrite H. Qed.

(* the header describes the body: the chosen media type for a byte body; for a multipart document
   multipart/form-data with the document's boundary, unless the chosen media type is (any spelling of)
   the url-encoded form type *)
Lemma build_header i ct src d :
  build_body sniff i = OOk ct src d ->
  match d with
  | DNone => ct = bi_preset_ct i
  | DBytes _ => ct = Some (bi_media i)
  | DMultipart _ =>
    ct = Some (if bytes_eqb (lower (bi_media i)) mt_urlencoded
               then bi_media i ++ txt_boundary ++ bi_boundary i
               else mt_multipart ++ txt_boundary ++ bi_boundary i)
  end.
Proof.
  unfold build_body. destruct (has_form i).
  - destruct (negb (is_multipart i)); intros H; inversion H; subst; reflexivity.
  - destruct (bi_payload i); try (intros H; inversion H; subst; reflexivity).
    destruct (bi_producer i) as [[b|]|]; intros H; inversion H; subst; reflexivity.
Qed.
End Parts.

(* NamedReader has to wrap always: a variant that returns an inner which already has a name gives a file
   renamed through it (an os.File uploaded under another name, a NamedReader result wrapped again) the
   inner name *)
Lemma named_reader_keeping_refuted :
  exists name inner, source_has_name inner = true /\ source_name (named_reader_keeping name inner) <> name.
Proof. exists [110], (FOwn [111]). split; [reflexivity|discriminate]. Qed.

(* an auth writer asking for the body of a reader handed over at a position: the unread rest, every time *)
Lemma auth_sees_unread_rest k consumed rest :
  auth_run k SStream (reader_at (consumed ++ rest) (length consumed)) = (repeat rest k, rest).
Proof.
  assert (E : reader_at (consumed ++ rest) (length consumed) = rest).
  { unfold reader_at. induction consumed as [|c consumed IH]; [reflexivity|]. exact IH. }
  rewrite E. exact (auth_sees_sent_bytes k SStream rest).
Qed.

(* the one place where the header does not describe the body (F-C11-4, pinned by the repository's tests) *)
Lemma header_files_under_urlencoded_refuted :
  exists i ct src ps, build_body (fun _ => []) i = OOk (Some ct) src (DMultipart ps) /\
                      has_prefix mt_multipart ct = false.
Proof.
  exists (mkbin mt_urlencoded None PNil [] [([102], [mkfile [97] [[104; 105]] None])] None [98]).
  eexists. eexists. eexists. split; [reflexivity|]. vm_compute. reflexivity.
Qed.

(* ---------- filepath.Base ---------- *)
Lemma span_not_slash_app name rest :
  forallb not_slash name = true ->
  span not_slash (name ++ 47 :: rest) = (name, 47 :: rest).
Proof.
  induction name as [|c name IH]; intros H; [reflexivity|].
  cbn in H. apply andb_true_iff in H as [Hc Hn]. cbn [app span]. rewrite Hc. now rewrite (IH Hn).
Qed.

Lemma forallb_rev {A} (f : A -> bool) l : forallb f (rev l) = forallb f l.
Proof.
  induction l as [|x l IH]; [reflexivity|]. cbn. rewrite forallb_app, IH. cbn. rewrite andb_true_r. apply andb_comm.
Qed.

Lemma rev_dir_name (dir name : list nat) : rev (dir ++ 47 :: name) = rev name ++ 47 :: rev dir.
Proof. rewrite rev_app_distr. cbn [rev]. now rewrite <- app_assoc. Qed.

Lemma drop_while_keep (f : nat -> bool) (c : nat) (r : list nat) : f c = false -> drop_while f (c :: r) = c :: r.
Proof. intros H. cbn. now rewrite H. Qed.

Lemma path_base_unstripped s :
  s <> [] -> strip_trailing_slashes s = s -> path_base s = last_elem s.
Proof.
  intros Hne Hs. unfold path_base. destruct s as [|c s]; [congruence|]. rewrite Hs. reflexivity.
Qed.

(* a directory prefix is dropped: the base name of dir/name is name *)
Lemma path_base_dir (dir name : list nat) :
  name <> [] -> forallb not_slash name = true -> path_base (dir ++ 47 :: name) = name.
Proof.
  intros Hne Hns.
  assert (Hstrip : strip_trailing_slashes (dir ++ 47 :: name) = dir ++ 47 :: name).
  { unfold strip_trailing_slashes. rewrite rev_dir_name.
    destruct (rev name) as [|c r] eqn:Er.
    - apply (f_equal (@rev _)) in Er. rewrite rev_involutive in Er. now subst.
    - assert (Hc : is_slash c = false).
      { assert (H : not_slash c = true).
        { assert (Hin : In c (rev name)) by (rewrite Er; now left).
          rewrite forallb_forall in Hns. apply Hns. apply in_rev. exact Hin. }
        unfold not_slash in H. now apply negb_true_iff in H. }
      cbn [app]. rewrite (drop_while_keep is_slash c _ Hc).
      change (c :: r ++ 47 :: rev dir) with ((c :: r) ++ 47 :: rev dir). rewrite <- Er, <- rev_dir_name.
      apply rev_involutive. }
  rewrite path_base_unstripped; [|destruct dir; discriminate|exact Hstrip].
  unfold last_elem. rewrite rev_dir_name.
  rewrite span_not_slash_app by now rewrite forallb_rev. cbn [fst]. apply rev_involutive.
Qed.

(* ---------- the hypotheses of the theorems are met by ordinary requests ---------- *)
Module C11Examples.
Import String.
Local Open Scope string_scope.
Local Open Scope list_scope.
Example ex_value_input :
  let i := mkbin (s2b "application/json") None PValue [] [] (Some (Some (s2b "{}"))) [] in
  has_form i = false /\ bi_payload i = PValue /\ bi_producer i = Some (Some (s2b "{}")).
Proof. repeat split. Qed.

Example ex_multipart_input :
  let i := mkbin mt_multipart None PNil [(s2b "k", [s2b "v1"; s2b "v2"])]
                 [(s2b "file", [mkfile (s2b "/tmp/a ""b"".txt") [s2b "hel"; s2b "lo"] None])] None (s2b "B") in
  has_form i = true /\ is_multipart i = true /\
  map decode_part (multipart_parts (fun _ => s2b "text/plain") (bi_form i) (bi_files i)) =
  [Some (mkview (s2b "k") None None (s2b "v1")); Some (mkview (s2b "k") None None (s2b "v2"));
   Some (mkview (s2b "file") (Some (s2b "a ""b"".txt")) (Some (s2b "text/plain")) (s2b "hello"))].
Proof. repeat split. Qed.

Example ex_urlencoded_input :
  let i := mkbin mt_urlencoded None PNil [(s2b "b", [s2b "x y"]); (s2b "a", [s2b "1&2"; s2b ""])] [] None [] in
  has_form i = true /\ is_multipart i = false /\ form_encode (bi_form i) = s2b "a=1%262&a=&b=x+y".
Proof. repeat split. Qed.

Example ex_base_name : path_base (s2b "/tmp/dir" ++ 47 :: s2b "a.txt") = s2b "a.txt".
Proof. reflexivity. Qed.
End C11Examples.
